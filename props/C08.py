"""C08 Concurrent Ego programs cannot corrupt the interpreter (shared-flag protocol of symbol tables; race detector)."""
import hashlib
import json
import os
import re
import shutil
import vf

GROUP = "Shared"
META = {
    "group": "Shared",
    "technique": "Coq proof over a model of the symbol-table shared-flag locking protocol across a go statement (all interleavings) and of commuting critical sections + generated concurrent Ego programs run on the real interpreter under the Go race detector with a seeded Gosched hook in the dispatch loop",
    "text": "C08_marked_before_conflict / C08_no_race_all_schedules: for every interleaving of any number of table reads/writes/Shared(true) calls of the launching and the new goroutine, no two conflicting accesses meet on a table with one side unlocked, given that every table both can reach is marked at the fork (C08_fork_marks_captured_chain: what the repaired goByteCode establishes for the captured chain) and each otherwise stays below tables it created; C08_old_refuted gives the BUG-94 schedule; C08_startup_old_refuted: before fix 7d20e5f5 GoRoutine's start-up read the launcher's c.symbols and the next-scope cache of its unshared current scope table (found by the race detector, repaired: goByteCode resolves the scope before go). C08_read_locked_lookup_writes_nothing_shared / C08_cache_on_shared_refuted: a Get that falls through a shared table holds only its read lock and stores nothing in it (the next-scope cache is skipped), while the caching-on-shared variant races; the model's flags and cache writes are compared with real SymbolTables on generated operation sequences. C08_sync_deterministic: any two serialisations of the goroutines' critical sections / hand-offs (commutative updates) leave every shared variable with the same value. The real interpreter is exercised by generated programs (goroutines, closures capturing the parent's scope, channels, WaitGroups, mutexes, fully synchronized results) built with -race, GOMAXPROCS 1..8, seeded runtime.Gosched injection before each instruction; any race report, fatal error, or stdout different from the computed result is a violation. partial: the Go memory model, races outside symbol tables (context fields, channel wrapper, runtime packages) and the claim that the code satisfies the theorem's reach hypotheses are only observed by the race detector; comparison with `go run` is replaced by a result computed by the generator",
    "note": "Trusted: Coq kernel; hand-written model coq/Shared/Model.v of symbols.Shared/RLock/Lock and goByteCode/GoRoutine; the Go race detector; harness/C08 (in-package overlay, instrumented copy of run.go); props/C08.py generator and its computed expected outputs.",
}

PKG = "internal/server/services"


# ----------------------------------------------------------------------------- generator

def gen_program(rng, kind=None):
    """(source, expected stdout, tags). All results are fully synchronized and schedule independent."""
    kind = kind or rng.choice(["mutex", "fanin", "named", "afterfork", "pipeline", "callafter", "nested", "wgslots"])
    n = rng.randint(2, 5)
    m = rng.randint(1, 6)
    if kind == "mutex":
        ks = [rng.randint(1, 9) for _ in range(n)]
        src = ('import "sync"\nfunc main() {\n var mu sync.Mutex\n var wg sync.WaitGroup\n total := 0\n ks := []int{%s}\n'
               ' for i := 0; i < %d; i = i + 1 {\n  wg.Add(1)\n  go func(k int) {\n   defer wg.Done()\n   for j := 0; j < %d; j = j + 1 {\n'
               '    mu.Lock()\n    total = total + k\n    mu.Unlock()\n   }\n  }(ks[i])\n }\n wg.Wait()\n fmt.Println("total", total)\n}\n'
               % (", ".join(map(str, ks)), n, m))
        return src, "total %d\n" % (sum(ks) * m), [kind]
    if kind == "fanin":
        src = ('func main() {\n ch := make(chan, %d)\n for i := 1; i <= %d; i = i + 1 {\n  go func(c chan, k int) {\n   c <- k * k\n  }(ch, i)\n }\n'
               ' sum := 0\n for i := 0; i < %d; i = i + 1 {\n  v := <-ch\n  sum = sum + v\n }\n fmt.Println("sum", sum)\n}\n' % (n, n, n))
        return src, "sum %d\n" % sum(k * k for k in range(1, n + 1)), [kind]
    if kind == "named":
        src = ('func worker(c chan, k int) {\n t := 0\n for j := 0; j < %d; j = j + 1 {\n  t = t + k\n }\n c <- t\n}\n'
               'func main() {\n ch := make(chan, %d)\n for i := 1; i <= %d; i = i + 1 {\n  go worker(ch, i)\n }\n sum := 0\n'
               ' for i := 0; i < %d; i = i + 1 {\n  sum = sum + <-ch\n }\n fmt.Println("named", sum)\n}\n' % (m, n, n, n))
        return src, "named %d\n" % (m * sum(range(1, n + 1))), [kind]
    if kind == "afterfork":
        # BUG-94 shape: the launcher touches the captured scope right after the go statement
        src = ('func main() {\n done := make(chan, 1)\n x := %d\n go func(c chan) {\n  y := x + 1\n  c <- y\n }(done)\n a := 1\n b := a + x\n'
               ' r := <-done\n z := r + b\n fmt.Println("after", z)\n}\n' % m)
        return src, "after %d\n" % ((m + 1) + (1 + m)), [kind]
    if kind == "pipeline":
        src = ('func stage(in chan, out chan, n int, add int) {\n for i := 0; i < n; i = i + 1 {\n  v := <-in\n  out <- v + add\n }\n}\n'
               'func main() {\n a := make(chan, %d)\n b := make(chan, %d)\n c := make(chan, %d)\n go stage(a, b, %d, 10)\n go stage(b, c, %d, 100)\n'
               ' for i := 0; i < %d; i = i + 1 {\n  a <- i\n }\n sum := 0\n for i := 0; i < %d; i = i + 1 {\n  sum = sum + <-c\n }\n fmt.Println("pipe", sum)\n}\n'
               % (n, n, n, n, n, n, n))
        return src, "pipe %d\n" % sum(i + 110 for i in range(n)), [kind]
    if kind == "callafter":
        # the launcher calls functions (new call frames / scopes) while the goroutines start up
        src = ('func fib(n int) int {\n if n < 2 {\n  return n\n }\n return fib(n - 1) + fib(n - 2)\n}\n'
               'func send(c chan, k int) {\n c <- fib(k)\n}\nfunc main() {\n ch := make(chan, %d)\n acc := 0\n for i := 1; i <= %d; i = i + 1 {\n'
               '  go send(ch, i + 3)\n  acc = acc + fib(i + 2)\n }\n for i := 0; i < %d; i = i + 1 {\n  acc = acc + <-ch\n }\n fmt.Println("fib", acc)\n}\n'
               % (n, n, n))

        def fib(k):
            return k if k < 2 else fib(k - 1) + fib(k - 2)
        return src, "fib %d\n" % sum(fib(i + 3) + fib(i + 2) for i in range(1, n + 1)), [kind]
    if kind == "nested":
        # goroutines starting goroutines; closures capturing a scope that is already shared
        src = ('import "sync"\nfunc main() {\n var mu sync.Mutex\n var wg sync.WaitGroup\n count := 0\n for i := 0; i < %d; i = i + 1 {\n  wg.Add(1)\n'
               '  go func() {\n   defer wg.Done()\n   var inner sync.WaitGroup\n   for j := 0; j < %d; j = j + 1 {\n    inner.Add(1)\n    go func() {\n'
               '     defer inner.Done()\n     mu.Lock()\n     count = count + 1\n     mu.Unlock()\n    }()\n   }\n   inner.Wait()\n  }()\n }\n wg.Wait()\n'
               ' fmt.Println("count", count)\n}\n' % (n, m))
        return src, "count %d\n" % (n * m), [kind]
    # wgslots: each goroutine writes its own element; joined by the WaitGroup
    src = ('import "sync"\nfunc main() {\n var wg sync.WaitGroup\n var mu sync.Mutex\n res := make([]int, %d)\n for i := 0; i < %d; i = i + 1 {\n  wg.Add(1)\n'
           '  go func(k int) {\n   defer wg.Done()\n   v := k * %d\n   mu.Lock()\n   res[k] = v\n   mu.Unlock()\n  }(i)\n }\n wg.Wait()\n t := 0\n'
           ' for i := 0; i < %d; i = i + 1 {\n  t = t + res[i]\n }\n fmt.Println("slots", t)\n}\n' % (n, n, m, n))
    return src, "slots %d\n" % (m * sum(range(n))), ["wgslots"]


KINDS = ["mutex", "fanin", "named", "afterfork", "pipeline", "callafter", "nested", "wgslots"]


def gen_forest(rng):
    """Random forest case for harness/C08/symbols_test.go: tables parents first, at most one boundary table
    (the function scope) on every chain, a captured table at or below a boundary for the concurrent part."""
    paths = [[]]
    for _ in range(rng.randint(2, 6)):
        parent = rng.choice(paths)
        if len(parent) >= 4:
            parent = []
        kids = [p for p in paths if p[1:] == parent and len(p) == len(parent) + 1]
        paths.append([len(kids)] + parent)
    bnd = []
    for p in paths:
        if p and not any(b == p[len(p) - len(b):] for b in bnd if len(b) < len(p)) and rng.random() < 0.5:
            bnd.append(p)
    if not bnd:
        bnd.append(paths[1])
    tables = [{"path": p, "boundary": p in bnd} for p in paths]
    ops = []
    for _ in range(rng.randint(5, 12)):
        ops.append({"op": rng.choice(["mark", "get", "get", "get", "set"]), "t": rng.randrange(len(paths))})
    # captured scope: a table that is a boundary or below one
    cands = [i for i, p in enumerate(paths) if any(b == p[len(p) - len(b):] for b in bnd)]
    return {"tables": tables, "ops": ops, "captured": rng.choice(cands), "goroutines": rng.randint(2, 5), "iters": rng.randint(20, 60)}


def coq_path(p):
    return "[" + ";".join(str(x) for x in p) + "]"


def coq_bools(bs):
    return "[" + ";".join("true" if b else "false" for b in bs) + "]"


def symbols_stage(ck, quick):
    """Correspondence of coq/Shared seq_obs with the real symbols package + white-box oracle + race detector."""
    pkg = "internal/language/symbols"
    ok, binp = vf.go_test_build(ck.work, pkg, {pkg + "/zz_verif_c08_symbols_test.go": os.path.join(vf.HARNESS, "C08", "symbols_test.go")},
                                "c08sym.test", race=True, timeout=1200)
    if not ok:
        ck.violation("harness-build", "race harness for %s does not build:\n%s" % (pkg, binp[-1500:]), replay={"log": binp[-3000:]},
                     found_input=False)
        return
    cases = []
    if ck.replay_file:
        rp = json.load(open(ck.replay_file))["replay"]
        if "forest" not in rp:
            return
        cases = [dict(rp["forest"], id=0)]
    else:
        # corpus first: the shape of the go opcode for `func run() { for ... { go func(){...}() ... } }`
        cases.append({"tables": [{"path": [], "boundary": False}, {"path": [0], "boundary": True}, {"path": [0, 0], "boundary": False}],
                      "ops": [{"op": "get", "t": 2}, {"op": "mark", "t": 2}, {"op": "get", "t": 2}, {"op": "get", "t": 1}, {"op": "set", "t": 1}],
                      "captured": 2, "goroutines": 6, "iters": 80})
        for _ in range(40 if quick else 400):
            cases.append(gen_forest(ck.rng))
        for i, c in enumerate(cases):
            c["id"] = i
    inp = os.path.join(ck.work, "sym_in.json")
    outp = os.path.join(ck.work, "sym_out.json")
    json.dump(cases, open(inp, "w"))
    rc, log = vf.run_bin(binp, "^TestVerifC08Symbols$", {"VERIF_IN": inp, "VERIF_OUT": outp,
                                                         "GORACE": "halt_on_error=0 exitcode=0 history_size=2"}, timeout=600)
    if not os.path.exists(outp):
        ck.violation("symbols-harness-run", "symbols harness failed:\n" + log[-1500:], replay={"log": log[-3000:]}, found_input=False)
        return
    res = {r["id"]: r for r in json.load(open(outp))}
    chunks = re.split(r"=== VERIF (?:PROG (\d+)|END)\n", log)
    per = {}
    for k in range(1, len(chunks), 2):
        per[chunks[k]] = chunks[k + 1] if k + 1 < len(chunks) else ""
    nops, found = 0, False
    for c in cases:
        r = res.get(c["id"])
        text = per.get(str(c["id"]), "")
        if "WARNING: DATA RACE" in text or "fatal error:" in text:
            m = re.search(r"WARNING: DATA RACE\n(.*?)\n==================", text, re.S)
            rep = m.group(1) if m else text[:3000]
            sig = "symbols-race:nextscope-cache" if re.search(r"cachedNextScope|setCachedNextScope", rep) else "symbols-race"
            ck.violation(sig, "Go race detector report in internal/language/symbols: goroutines with private frames below a captured (shared) "
                         "scope resolving a root name / writing their locals:\n" + rep[:1200],
                         replay={"forest": {k: c[k] for k in c if k != "id"}, "report": rep[:3000]})
            found = True
        if r is None:
            continue
        if r.get("err"):
            ck.violation("symbols-op-failed", "symbols harness: %s" % r["err"], replay={"forest": {k: c[k] for k in c if k != "id"}})
            found = True
        prev = r["init"]
        for op, o in zip(c["ops"], r["obs"]):
            nops += 1
            if op["op"] == "get":
                bad = [i for i, (sh, d) in enumerate(zip(prev, o["dirty"])) if sh and d]
                if bad:
                    ck.violation("write-under-read-lock:nextscope-cache",
                                 "Get through table %s stored into the next-scope cache of shared table(s) %s while holding only their read lock"
                                 % (c["tables"][op["t"]]["path"], [c["tables"][i]["path"] for i in bad]),
                                 replay={"forest": {k: c[k] for k in c if k != "id"}, "op": op})
                    found = True
            if op["op"] == "mark":
                p = c["tables"][op["t"]]["path"]
                miss = [t["path"] for i, t in enumerate(c["tables"]) if t["path"] == p[len(p) - len(t["path"]):] and not o["flags"][i]]
                if miss:
                    ck.violation("mark-misses-ancestor", "Shared(true) on %s left %s unshared" % (p, miss),
                                 replay={"forest": {k: c[k] for k in c if k != "id"}, "op": op})
                    found = True
            prev = o["flags"]
    ck.cov["symbols_ops_observed"] = nops
    ck.cov["symbols_forests"] = len(cases)
    # correspondence with the model (same functions the theorems are about)
    if not getattr(ck, "coq_broken", None):
        lines = ["From Coq Require Import List Bool. Import ListNotations.", "From Shared Require Import Model.",
                 "Definition bl_eqb (a b : list bool) : bool := if list_eq_dec Bool.bool_dec a b then true else false.",
                 "Fixpoint obs_eqb (a b : list (list bool * list bool)) : bool := match a, b with [] , [] => true | (x1, x2) :: a', (y1, y2) :: b' => bl_eqb x1 y1 && bl_eqb x2 y2 && obs_eqb a' b' | _, _ => false end.",
                 "Definition cases : list (nat * (list table * list table * flags * list sop * list (list bool * list bool))) := ["]
        items = []
        for c in cases:
            r = res.get(c["id"])
            if r is None or len(r["obs"]) != len(c["ops"]):
                continue
            U = [t["path"] for t in c["tables"]]
            B = [t["path"] for t in c["tables"] if t["boundary"]]
            S0 = [U[i] for i, f in enumerate(r["init"]) if f]
            ops = ";".join("%s %s" % ({"mark": "SMark", "get": "SGet", "set": "SSet"}[o["op"]], coq_path(U[o["t"]])) for o in c["ops"])
            obs = ";".join("(%s, %s)" % (coq_bools(o["flags"]), coq_bools(o["dirty"])) for o in r["obs"])
            items.append("(%d, ([%s], [%s], [%s], [%s], [%s]))" % (c["id"], ";".join(map(coq_path, B)), ";".join(map(coq_path, U)),
                                                                   ";".join(map(coq_path, S0)), ops, obs))
        lines.append(";\n".join(items))
        lines.append("].")
        lines.append("Definition BAD : list nat := Eval vm_compute in map fst (filter (fun c => match snd c with (B, U, S0, ops, obs) => negb (obs_eqb (seq_obs false B U S0 ops) obs) end) cases).")
        lines.append("Eval vm_compute in BAD.")
        rc2, out = vf.coq_run(GROUP, ck.work, "symcases", "\n".join(lines))
        bad = vf.parse_coq_nat_list(out) if rc2 == 0 else None
        ck.add_obligations(len(items), len(items) - (len(bad) if bad is not None else len(items)))
        if bad is None:
            ck.violation("symbols-correspondence-eval", "model evaluation failed:\n" + out[-1500:], replay={"log": out[-3000:]}, found_input=False)
        elif bad and not found:
            c = [x for x in cases if x["id"] == bad[0]][0]
            ck.violation("symbols-correspondence", "model seq_obs and the real symbols package disagree on shared flags / next-scope cache writes "
                         "(%d of %d forests), first: tables %s" % (len(bad), len(items), [t["path"] for t in c["tables"]]),
                         replay={"forest": {k: c[k] for k in c if k != "id"}, "observed": res[c["id"]]}, found_input=False)


def instrument_run_go(work):
    """Instrumented copy of bytecode/run.go: verifYield() at the top of the dispatch loop. Fails loudly."""
    src = open(os.path.join(vf.REPO, "internal/language/bytecode/run.go")).read()
    m = re.findall(r"\n(\tfor c\.running\.Load\(\) && c\.programCounter < len\(c\.bc\.instructions\) \{\n)", src)
    if len(m) != 1:
        return None
    out = src.replace(m[0], m[0] + "\t\tverifYield()\n\n")
    p = os.path.join(work, "run_instrumented.go")
    open(p, "w").write(out)
    return p


def tree_key():
    """Key of everything the race binary is built from: git HEAD + diff of the repo + harness files."""
    h = hashlib.sha1()
    rc, head = vf.sh(["git", "-C", vf.REPO, "rev-parse", "HEAD"])
    rc2, diff = vf.sh(["git", "-C", vf.REPO, "diff", "HEAD", "--", "internal", "go.mod"])
    rc3, untracked = vf.sh(["git", "-C", vf.REPO, "ls-files", "--others", "--exclude-standard", "internal"])
    if rc != 0 or rc2 != 0 or rc3 != 0:
        return None
    h.update(head.encode() + diff.encode() + untracked.encode())
    for fn in untracked.split():
        p = os.path.join(vf.REPO, fn)
        if os.path.isfile(p):
            h.update(open(p, "rb").read())
    for fn in ("c08_test.go", "yield.go"):
        h.update(open(os.path.join(vf.HARNESS, "C08", fn), "rb").read())
    h.update(vf.REPO.encode())
    return h.hexdigest()[:16]


def build_race_binary(ck):
    inst = instrument_run_go(ck.work)
    if inst is None:
        return False, "instrumenter: dispatch loop anchor `for c.running.Load() && c.programCounter < len(c.bc.instructions) {` not found exactly once in bytecode/run.go"
    key = tree_key()
    cache = os.path.join(vf.BUILD, "c08-race-%s.test" % key) if key else None
    if cache and os.path.exists(cache):
        ck.notes.append("race binary reused from cache (key = git HEAD + working-tree diff + harness)")
        return True, cache
    ok, binp = vf.go_test_build(ck.work, PKG, {
        PKG + "/zz_verif_c08_test.go": os.path.join(vf.HARNESS, "C08", "c08_test.go"),
        "internal/language/bytecode/zz_verif_yield.go": os.path.join(vf.HARNESS, "C08", "yield.go")},
        "c08.test", replace={"internal/language/bytecode/run.go": inst}, race=True, timeout=2400)
    if ok and cache:
        olds = sorted((f for f in os.listdir(vf.BUILD) if f.startswith("c08-race-") and f.endswith(".test")),
                      key=lambda f: os.path.getmtime(os.path.join(vf.BUILD, f)))
        for old in olds[:-3]:          # keep the three most recent keys (scratch worktrees, /repo)
            try:
                os.remove(os.path.join(vf.BUILD, old))
            except OSError:
                pass
        shutil.copy(binp, cache + ".tmp")
        os.replace(cache + ".tmp", cache)
        return True, cache
    return ok, binp


def run(ck):
    quick = ck.tier == "quick"
    ck.cov["rule"] = ("generated concurrent Ego programs of 8 shapes (mutex-protected closure counter, channel fan-in, named-function "
                      "goroutines, launcher touching the captured scope right after go, channel pipeline, launcher calling functions while "
                      "goroutines start, goroutines starting goroutines, WaitGroup-joined slots) x GOMAXPROCS x yield seed; "
                      "distinct_nontrivial = distinct (program, GOMAXPROCS, yield seed) runs that completed with the computed output")
    ck.assume("the launching goroutine and the new goroutine reach, besides tables each created itself, only the captured scope chain "
              "(closures) and the chain above the first shared ancestor (hypotheses well_scoped / disjoint_scopes of C08_marked_before_conflict)",
              "table operations lock iff the shared flag is set when they start; flags are only ever set to true on reachable tables after the fork",
              "critical sections of the generated programs are commutative updates (sums, counters, disjoint slots)",
              "the Go race detector reports the unsynchronized accesses that actually occur in the observed schedules")
    ck.trusted("harness/C08/c08_test.go, harness/C08/yield.go, instrumented copy of bytecode/run.go (verifYield at the top of the dispatch loop)",
               "go test -race build of internal/server/services", "props/C08.py generator and expected outputs")
    theorems = ["C08_marked_before_conflict", "C08_no_race_all_schedules", "C08_read_locked_lookup_writes_nothing_shared",
                "C08_cache_on_shared_refuted", "C08_startup_old_refuted", "C08_startup_old_schedule",
                "C08_fork_marks_captured_chain", "C08_old_refuted", "C08_sync_deterministic", "C08_sync_deterministic_any_threads"]
    ck.coq_stage(GROUP, theorems=theorems)

    # ---- model regression corpus evaluated by vm_compute: the protocol shapes used by the generator
    if not getattr(ck, "coq_broken", None):
        okc, resc = vf.coq_eval(GROUP, ck.work, "corpus", "From Coq Require Import List. Import ListNotations.\nFrom Shared Require Import Model Proofs.", {
            "new": "[if raced (run (fork_state_new [[0]] cap0) old_schedule) then 1 else 0]",
            "startup": "[if raced (run (fork_state_new [[0]] cap0) startup_schedule) then 1 else 0]",
            "old": "[if raced (run [[0]] old_schedule) then 1 else 0]"})
        ck.add_obligations(1, 1 if okc and resc.get("new") == [0] and resc.get("old") == [1] and resc.get("startup") == [1] else 0)
        if not okc or resc.get("new") != [0] or resc.get("old") != [1] or resc.get("startup") != [1]:
            ck.violation("model-corpus", "model corpus evaluation changed: %s" % (resc,), replay={"out": str(resc)[-2000:]}, found_input=False)

    symbols_stage(ck, quick)

    ok, binp = build_race_binary(ck)
    if not ok:
        ck.violation("harness-build", "race harness for %s does not build:\n%s" % (PKG, binp[-1500:]),
                     replay={"log": binp[-3000:]}, found_input=False)
        return

    # ---- programs
    progs = []
    if ck.replay_file:
        rp = json.load(open(ck.replay_file))["replay"]
        progs = [(rp["src"], rp.get("expected"), rp.get("tags", []))]
        configs = [(rp.get("gomaxprocs", 4), rp.get("seed", 1), rp.get("every", 3))] * 3
    else:
        for k in KINDS:                       # one of each shape first (regression corpus of shapes)
            progs.append(gen_program(ck.rng, k))
        for _ in range(10 if quick else 120):
            progs.append(gen_program(ck.rng))
        procs = [1, 2, 4, 8] if quick else [1, 2, 3, 4, 6, 8]
        configs = []
        for p in procs:
            for _ in range(2 if quick else 4):
                configs.append((p, ck.rng.randint(1, 1 << 30), ck.rng.choice([0, 2, 3, 5, 11])))
    evals, good, races, wrong = 0, set(), [], []
    classes = {}
    for (gmp, seed, every) in configs:
        cases = [{"id": i, "src": p[0], "seed": seed + i, "every": every} for i, p in enumerate(progs)]
        inp = os.path.join(ck.work, "in.json")
        outp = os.path.join(ck.work, "out.json")
        if os.path.exists(outp):
            os.remove(outp)
        json.dump(cases, open(inp, "w"))
        rc, log = vf.run_bin(binp, "^TestVerifC08$", {"VERIF_IN": inp, "VERIF_OUT": outp, "GOMAXPROCS": str(gmp),
                                                     "GORACE": "halt_on_error=0 exitcode=0 history_size=2"}, timeout=900)
        # attribute race reports / fatal errors to programs by the stderr markers
        chunks = re.split(r"=== VERIF (?:PROG (\d+)|END)\n", log)
        per = {}
        cur = None
        for k in range(1, len(chunks), 2):
            cur = chunks[k]
            per[cur] = chunks[k + 1] if k + 1 < len(chunks) else ""
        res = {r["id"]: r for r in json.load(open(outp))} if os.path.exists(outp) else {}
        fatal = None
        if "fatal error:" in log or (rc != 0 and not res):
            fatal = log[-3000:]
        for i, (src, exp, tags) in enumerate(progs):
            r = res.get(i)
            text = per.get(str(i), "")
            evals += 1
            if "WARNING: DATA RACE" in text:
                m = re.search(r"WARNING: DATA RACE\n(.*?)\n==================", text, re.S)
                rep = m.group(1) if m else text[:3000]
                frames = re.findall(r"\n\s+(github\.com/tucats/ego/[^\s(]+)\(", "\n" + rep)
                site = "|".join(sorted(set(f.split("/ego/internal/")[-1] for f in frames[:2]))) or "unknown"
                if re.search(r"\b(cachedNextScope|setCachedNextScope|invalidateNextScopeCache)\b", rep) and "bytecode.GoRoutine()" in rep:
                    # the _refuted witness of the model: GoRoutine's start-up touches the launcher's scope table
                    site = "nextscope-cache-vs-goroutine-startup"
                races.append((site, src, exp, tags, gmp, seed + i, every, rep[:2500]))
                continue
            if r is None:
                if fatal:
                    wrong.append(("fatal", src, exp, tags, gmp, seed + i, every, fatal))
                    fatal = None
                continue
            classes[r["class"]] = classes.get(r["class"], 0) + 1
            if r["class"] != "ok" or (exp is not None and r["out"] != exp):
                wrong.append(("result:" + tags[0] if tags else "result", src, exp, tags, gmp, seed + i, every,
                              "class=%s out=%r err=%s" % (r["class"], r["out"][:200], r.get("err", "")[:300])))
            else:
                good.add((src, gmp, seed + i, every))
        if fatal:
            wrong.append(("fatal", progs[-1][0], None, [], gmp, seed, every, fatal))
        if len(races) + len(wrong) >= 6:
            break
    for site, src, exp, tags, gmp, seed, every, rep in races:
        ck.violation("data-race:" + site, "Go race detector report while running a generated %s program (GOMAXPROCS=%d, yield seed %d every %d):\n%s" % (
            ",".join(tags), gmp, seed, every, rep[:1200]),
            replay={"src": src, "expected": exp, "tags": tags, "gomaxprocs": gmp, "seed": seed, "every": every, "report": rep})
    for sig, src, exp, tags, gmp, seed, every, what in wrong:
        ck.violation(sig, "generated %s program (GOMAXPROCS=%d, yield seed %d every %d) did not print the synchronized result %r: %s" % (
            ",".join(tags), gmp, seed, every, exp, what[:1200]),
            replay={"src": src, "expected": exp, "tags": tags, "gomaxprocs": gmp, "seed": seed, "every": every, "observed": what})
    ck.cov["evaluations"] = evals
    ck.cov["distinct_nontrivial"] = len(good)
    ck.cov["traces_validated_against_impl"] = len(good)
    tagc = {}
    for p in progs:
        for t in p[2]:
            tagc[t] = tagc.get(t, 0) + 1
    ck.cov["input_distribution"] = {"programs": len(progs), "shapes": tagc, "configs (GOMAXPROCS, seed, yield every)": configs,
                                    "classes": classes, "race_reports": len(races), "wrong_results": len(wrong)}
    for p in progs[:3]:
        ck.sample({"src": p[0][:500], "expected": p[1], "tags": p[2]})
    if getattr(ck, "coq_broken", None) and not ck.viol:
        grp, clog = ck.coq_broken
        ck.violation("proof-broken", "Coq development %s no longer checks (theorems %s):\n%s" % (grp, ", ".join(theorems), clog[-1200:]),
                     replay={"broken": "coq/%s" % grp, "log": clog[-3000:]}, found_input=False)
