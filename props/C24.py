"""C24 Failed logins lock the account as configured (internal/router/ratelimit.go, auth.go Basic branch)."""
import json
import os
import time
import vf

GROUP = "RateLimit"
THEOREMS = ["C24_locked_iff", "C24_locked_refused", "C24_only_locked_refused", "C24_locks_at_limit",
            "C24_unlocked_after_lockout", "C24_success_clears", "C24_isolation_step", "C24_isolation",
            "C24_limit_zero_never_locks", "C24_record_tracks_history", "C24_prune_only_stale",
            "C24_prune_keeps_locks", "C24_old_refuted"]
META = {
    "group": GROUP,
    "technique": "Coq proof over all histories (attempts, clock advances, scans at arbitrary points) of a Gallina model of "
                 "CheckRateLimit/RecordFailure/RecordSuccess/pruneLoginAttempts and the Basic-credential flow of "
                 "Session.Authenticate + vm_compute correspondence with the real code under a testing/synctest clock",
    "text": "Proved for every history and every positive limit/lockout: the next attempt of a user is refused (Retry-After > 0, "
            "password verifier not consulted) exactly when a rejected attempt brought that user's consecutive failures to the "
            "limit less than the lockout ago with no success since (C24_locked_iff, C24_locked_refused, C24_only_locked_refused, "
            "history-unfolded as C24_locks_at_limit / C24_unlocked_after_lockout); a successful login removes the record and at "
            "least limit new wrong passwords are needed before any refusal (C24_success_clears); other users' attempts never "
            "change a user's record nor anything that user observes (C24_isolation_step, C24_isolation); limit 0 never refuses "
            "and records nothing (C24_limit_zero_never_locks); the stored record equals the history's summary "
            "(C24_record_tracks_history); the background scan forgets a user only when unlocked and idle for more than twice the "
            "lockout and never changes who is locked (C24_prune_only_stale, C24_prune_keeps_locks). The model is compared with "
            "the real Session.Authenticate / pruneLoginAttempts (explicit scans and the real 5-minute goroutine) on every run and "
            "the statement is evaluated independently on the real outputs. A boundary defect (failure exactly at the expiry "
            "instant started no new lockout) was repaired; the old code is kept as C24_old_refuted. full",
    "note": "Trusted: Coq kernel; each operation is atomic at one clock instant (time.Now read once per call, true under "
            "synctest; the mutex makes it so per call in production); strings.ToLower modelled on ASCII names; time.ParseDuration "
            "and settings.GetInt are inputs to the model's getMaxAttempts/getLockoutDuration (compared on the configured strings); "
            "Retry-After float arithmetic modelled by integer division (exact below ~4e6 s); overlay harness, generators and the "
            "Python oracle. The OAuth authorize form (authorize.go) uses the same three functions and is not driven.",
}

MS = 1000000
SEC = 1000 * MS
SCAN = 300 * SEC
SCAN_OFFSET = 123457          # harness starts the real scan goroutine at this instant
KNOWN = {"alice", "bob", "carol", "dave"}
NAMES = ["alice", "Alice", "ALICE", "bob", "Bob", "carol", "mallory", "dave", "aLiCe"]
UNIVERSE = sorted({n.lower() for n in NAMES})

LIMIT_SETTINGS = [("", False, 0), ("0", True, 0), ("1", True, 1), ("2", True, 2), ("3", True, 3), ("4", True, 4),
                  ("5", True, 5), ("6", True, 6), ("-1", True, -1), ("abc", True, 0), (" 3 ", True, 3)]
LOCK_SETTINGS = [("", None), ("1s", SEC), ("90s", 90 * SEC), ("1m", 60 * SEC), ("1500ms", 1500 * MS), ("5m", 300 * SEC),
                 ("10m", 600 * SEC), ("1h", 3600 * SEC), ("2m30s", 150 * SEC), ("0s", 0), ("-5s", -5 * SEC), ("junk", None),
                 ("7", None)]


def eff_limit(st):
    _, isset, n = st
    return n if (n >= 0 and isset) else 5


def eff_lock(st):
    d = st[1]
    return d if (d is not None and d > 0) else 900 * SEC


CORPUS = [
    # (limit setting, lockout setting, ops) — ops: ("A", name, kind) | ("S", ns) | ("P",)
    # the C24_old_refuted witness: a failure exactly at the expiry instant must relock
    ("2", "1m", [("A", "alice", "w"), ("A", "alice", "w"), ("S", 60 * SEC), ("A", "alice", "w"), ("A", "alice", "g"),
                 ("A", "alice", "w"), ("S", 1 * MS), ("A", "alice", "g")]),
    # relock after expiry: one more failure is enough; the right password while locked is refused unchecked
    ("3", "90s", [("A", "bob", "w")] * 3 + [("A", "bob", "g"), ("A", "Bob", "g"), ("S", 90 * SEC + MS), ("A", "bob", "w"),
                                            ("A", "bob", "g"), ("S", 89 * SEC), ("A", "bob", "g"), ("S", SEC), ("A", "bob", "g"),
                                            ("A", "bob", "w")]),
    # success clears; case variants are one user; other users are untouched
    ("2", "1m", [("A", "alice", "w"), ("A", "ALICE", "g"), ("A", "Alice", "w"), ("A", "bob", "w"), ("A", "carol", "w"),
                 ("A", "alice", "g"), ("A", "aLiCe", "w"), ("A", "alice", "e"), ("A", "alice", "g"), ("A", "bob", "g")]),
    # the scan forgets an idle unlocked user: consecutive failures restart
    ("3", "1m", [("A", "alice", "w"), ("A", "alice", "w"), ("S", 120 * SEC), ("P",), ("S", MS), ("P",), ("A", "alice", "w"),
                 ("A", "alice", "g"), ("A", "alice", "w"), ("A", "alice", "w"), ("A", "alice", "w"), ("P",), ("A", "alice", "g"),
                 ("S", 60 * SEC), ("P",), ("S", 120 * SEC), ("P",), ("S", 1), ("P",), ("A", "alice", "w"), ("A", "alice", "g")]),
    # limit 0 and odd settings
    ("0", "1m", [("A", "alice", "w")] * 8 + [("A", "alice", "g")]),
    ("abc", "", [("A", "alice", "w")] * 7),
    ("", "", [("A", "mallory", "g")] * 5 + [("A", "mallory", "w"), ("S", 900 * SEC - 1), ("A", "mallory", "w"), ("S", 1),
                                           ("A", "mallory", "w"), ("A", "mallory", "w")]),
    ("-1", "0s", [("A", "dave", "e")] * 5 + [("A", "dave", "g")]),
    ("1", "1500ms", [("A", "carol", "w"), ("A", "carol", "g"), ("S", 499 * MS), ("A", "carol", "g"), ("S", 1000 * MS),
                     ("A", "carol", "g"), ("S", 1 * MS), ("A", "carol", "g")]),
]


def gen_history(rng, explicit):
    ls = rng.choice(LIMIT_SETTINGS if rng.random() < 0.25 else LIMIT_SETTINGS[1:8])
    ks = rng.choice(LOCK_SETTINGS if rng.random() < 0.25 else LOCK_SETTINGS[1:9])
    L, K = eff_limit(ls), eff_lock(ks)
    users = rng.sample(NAMES, rng.randint(1, 4))
    ops = []
    n = rng.randint(4, 40)
    while len(ops) < n:
        r = rng.random()
        if r < 0.25:      # a burst of failures on one user, often exactly to the limit
            u = rng.choice(users)
            k = rng.choice([max(L, 1), max(L, 1), max(L - 1, 1), L + 1, rng.randint(1, 7)])
            ops += [("A", u, rng.choice("wwwe"))] * k
        elif r < 0.60:
            ops.append(("A", rng.choice(users), rng.choice("gggwwwe")))
        elif r < 0.92 or not explicit:
            d = rng.choice([K, K, K - MS, K + MS, K // 2, 2 * K, 2 * K + MS, 2 * K - MS, MS, SEC, SCAN, 3 * K,
                            rng.randint(1, 3 * K // MS) * MS, rng.randint(1, 2000) * MS, 1, K - 1, K + 1])
            if not explicit:
                d = max(MS, d // MS * MS)       # real mode stays on the millisecond grid (scan is off-grid)
            ops.append(("S", max(d, 0)))
        else:
            ops.append(("P",))
    return (ls[0], ks[0], ops[:n + 6])


def setting_lookup(ls, ks):
    lim = next((x for x in LIMIT_SETTINGS if x[0] == ls), None)
    lk = next((x for x in LOCK_SETTINGS if x[0] == ks), None)
    return lim, lk


def hexs(s):
    return s.encode().hex() or "-"


def write_input(path, hists):
    with open(path, "w") as f:
        for ls, ks, ops in hists:
            f.write("H %s %s\n" % (hexs(ls), hexs(ks)))
            for o in ops:
                if o[0] == "A":
                    f.write("A %s %s\n" % (hexs(o[1]), o[2]))
                elif o[0] == "S":
                    f.write("S %d\n" % o[1])
                else:
                    f.write("P\n")


def parse_table(txt, base):
    t = {}
    txt = txt.strip()
    if not txt:
        return t
    for row in txt.split(","):
        u, f, lf, lu = row.split(":")
        t[bytes.fromhex(u).decode()] = (int(f), int(lf) - base, -1 if lu == "z" else int(lu) - base)
    return t


def parse_output(path, hists):
    """-> per history: dict(limit, lock, start, events=[dict(kind, locked, retry, auth, reads, now, table)])"""
    lines = [l.rstrip("\n") for l in open(path)]
    res, i = [], 0
    for ls, ks, ops in hists:
        f = lines[i].split()
        assert f[0] == "H", lines[i]
        h = {"limit": int(f[1]), "lock": int(f[2]), "start": int(f[3]), "events": []}
        i += 1
        for o in ops:
            head, _, tab = lines[i].partition("|")
            f = head.split()
            assert f[0] == o[0], (lines[i], o)
            if o[0] == "A":
                ev = {"locked": int(f[1]), "retry": int(f[2]), "auth": int(f[3]), "reads": int(f[4]), "now": int(f[5]) - h["start"]}
            else:
                ev = {"now": int(f[1]) - h["start"]}
            ev["table"] = parse_table(tab, h["start"])
            h["events"].append(ev)
            i += 1
        res.append(h)
    return res


def good_of(o):
    return o[2] == "g" and o[1].lower() in KNOWN


def oracle(ck, mode, hist, real, idx):
    """The property statement evaluated on the real outputs alone. Returns True when a violation was reported."""
    ls, ks, ops = hist
    L, K = real["limit"], real["lock"]
    cf, reach, lastfail = {}, {}, {}
    prev_table = {}

    def rep(sig, what, k):
        ck.violation(sig, what + " [mode=%s limit=%r lockout=%r, op #%d of the replayed history]" % (mode, ls, ks, k),
                     replay={"mode": mode, "limit_setting": ls, "lockout_setting": ks, "ops": [list(o) for o in ops[:k + 1]]})
        return True

    for k, (o, ev) in enumerate(zip(ops, real["events"])):
        t = ev["now"]
        if o[0] == "A":
            u = o[1].lower()
            want_refused = L > 0 and reach.get(u) is not None and t - reach[u] < K
            if bool(ev["locked"]) != want_refused:
                if want_refused:
                    return rep("not-refused-while-locked", "user %r reached %d consecutive failures %.3f s ago (lockout %.3f s) but "
                               "the attempt was not refused" % (u, L, (t - reach[u]) / SEC, K / SEC), k)
                return rep("refused-without-cause", "attempt of %r refused (Retry-After %d) although no limit-reaching failure is "
                           "younger than the lockout (consecutive failures %d, limit %d)" % (u, ev["retry"], cf.get(u, 0), L), k)
            if ev["locked"]:
                if ev["reads"] != 0 or ev["auth"] != 0 or ev["retry"] <= 0:
                    return rep("locked-but-verified", "refused attempt of %r consulted the user store %d times / authenticated=%d / "
                               "Retry-After=%d" % (u, ev["reads"], ev["auth"], ev["retry"]), k)
                want_retry = (reach[u] + K - t) // SEC + 1
                if ev["retry"] != want_retry:
                    return rep("retry-after", "Retry-After %d, want %d" % (ev["retry"], want_retry), k)
            else:
                if o[2] != "e" and ev["reads"] == 0:
                    return rep("unlocked-not-verified", "attempt of %r was let through but the password verifier did not run" % u, k)
                if bool(ev["auth"]) != good_of(o):
                    return rep("verdict", "attempt %r authenticated=%d, want %d" % (o, ev["auth"], good_of(o)), k)
                if ev["auth"]:
                    cf[u] = 0
                    reach[u] = None
                    lastfail[u] = None
                else:
                    cf[u] = cf.get(u, 0) + 1
                    lastfail[u] = t
                    if cf[u] >= L:
                        reach[u] = t
        # records that disappeared without a success: only stale ones may (scan), and the count restarts
        for u in prev_table:
            if u not in ev["table"] and not (o[0] == "A" and o[1].lower() == u and ev.get("auth")):
                locked = reach.get(u) is not None and t - reach[u] < K
                if locked or lastfail.get(u) is None or not (t - lastfail[u] > 2 * K):
                    return rep("pruned-too-early", "record of %r vanished while %s (last failure %.3f s ago, lockout %.3f s)" % (
                        u, "locked" if locked else "recent", (t - (lastfail.get(u) or 0)) / SEC, K / SEC), k)
                cf[u] = 0
                reach[u] = None
                lastfail[u] = None
        # the stored counters are the history's summary
        for u, (f, lf, lu) in ev["table"].items():
            if L == 0:
                return rep("limit-zero-records", "limit 0 but a record for %r exists" % u, k)
            if f != cf.get(u, 0) or lf != lastfail.get(u):
                return rep("counter", "record of %r holds failures=%d lastFailure=%s, history says %d / %s" % (
                    u, f, lf, cf.get(u, 0), lastfail.get(u)), k)
            want_lu = -1 if reach.get(u) is None else reach[u] + K
            if lu != want_lu:
                return rep("locked-until", "record of %r holds lockedUntil=%d, history says %d" % (u, lu, want_lu), k)
            if u != u.lower():
                return rep("key-case", "record key %r is not lower case" % u, k)
        for u in cf:
            if L > 0 and cf[u] > 0 and u not in ev["table"]:
                return rep("record-missing", "user %r has %d consecutive failures but no record" % (u, cf[u]), k)
        prev_table = ev["table"]
    return False


def model_ops(mode, hist, real):
    """history -> (list of Coq op terms, index of the model op that ends each harness op)"""
    ls, ks, ops = hist
    terms, ends = [], []
    tglob = real["start"]
    for o in ops:
        if o[0] == "A":
            terms.append("Attempt %s %s" % (vf.vrunes(o[1]), "true" if good_of(o) else "false"))
        elif o[0] == "P":
            if mode == "explicit":
                terms.append("Prune")
            else:
                terms.append("Advance 0")
        else:
            d = o[1]
            if mode == "real":
                t, end = tglob, tglob + d
                k = (t - SCAN_OFFSET) // SCAN + 1
                p = SCAN_OFFSET + k * SCAN
                while p <= end:
                    terms.append("Advance %d" % (p - t))
                    terms.append("Prune")
                    t = p
                    p += SCAN
                terms.append("Advance %d" % (end - t))
                tglob = end
            else:
                terms.append("Advance %d" % d)
        ends.append(len(terms) - 1)
    return terms, ends


PRELUDE = """From RateLimit Require Import Model.
Open Scope Z_scope.
Definition enc_out (x : out) : list Z :=
  match x with OLocked r => [1; r] | OAccepted => [2; 0] | ORejected => [3; 0] | OTick => [4; 0] | OPruned _ => [5; 0] end.
Definition enc_tbl (names : list str) (s : state) : list Z :=
  flat_map (fun u => match get u (tbl s) with
                     | Some r => [1; failures r; lastFailure r; match lockedUntil r with Some v => v | None => -1 end]
                     | None => [0; 0; 0; 0] end) names.
Fixpoint obs (names : list str) (c : cfg) (s : state) (h : list op) : list Z :=
  match h with
  | [] => []
  | o :: h' => let (s', x) := step c s o in
               enc_out x ++ [now s'; Z.of_nat (length (tbl s'))] ++ enc_tbl names s' ++ obs names c s' h'
  end.
Definition names : list str := [%s].
"""


def run_mode(ck, mode, hists, binp, tag):
    """Runs the histories on the real code and the model; returns stats."""
    inp = os.path.join(ck.work, "in-%s.txt" % tag)
    outp = os.path.join(ck.work, "out-%s.txt" % tag)
    write_input(inp, hists)
    rc, log = vf.run_bin(binp, "^TestVerifC24$", {"VERIF_IN": inp, "VERIF_OUT": outp, "VERIF_MODE": mode})
    if rc != 0 or not os.path.exists(outp):
        ck.violation("harness-run", "harness failed (mode %s):\n%s" % (mode, log[-1500:]), replay={"log": log[-3000:]}, found_input=False)
        return None
    try:
        reals = parse_output(outp, hists)
    except Exception as e:      # truncated output = the harness died half way
        ck.violation("harness-run", "harness output incomplete (mode %s): %r\n%s" % (mode, e, log[-1500:]),
                     replay={"log": log[-3000:]}, found_input=False)
        return None
    stats = {"ops": 0, "refused": 0, "nontrivial": set(), "oracle_viol": set(), "pruned": 0}
    for i, (h, r) in enumerate(zip(hists, reals)):
        stats["ops"] += len(h[2])
        nref = sum(1 for e in r["events"] if e.get("locked"))
        stats["refused"] += nref
        if nref:
            stats["nontrivial"].add(json.dumps(h))
        if oracle(ck, mode, h, r, i):
            stats["oracle_viol"].add(i)
    # ---- configuration correspondence (getMaxAttempts / getLockoutDuration)
    cfg_exprs, cfg_want = [], []
    for h, r in zip(hists, reals):
        lim, lk = setting_lookup(h[0], h[1])
        if lim is None or lk is None:
            continue
        cfg_exprs.append("max_attempts %s (%d); lockout_duration %s" % (
            "true" if lim[1] else "false", lim[2], "None" if lk[1] is None else "(Some (%d))" % lk[1]))
        cfg_want += [r["limit"], r["lock"]]
    if getattr(ck, "coq_broken", None):
        return stats
    # ---- behaviour correspondence
    prelude = PRELUDE % "; ".join(vf.vrunes(u) for u in UNIVERSE)
    exprs = {"cfg": "[" + "; ".join(cfg_exprs) + "]"} if cfg_exprs else {}
    plans = {}
    for i, (h, r) in enumerate(zip(hists, reals)):
        terms, ends = model_ops(mode, h, r)
        plans[i] = (terms, ends)
        exprs["h%d" % i] = "obs names {| limit := %d; lock := %d |} init [%s]" % (r["limit"], r["lock"], "; ".join(terms))
    ok, res = vf.coq_eval(GROUP, ck.work, "cases_" + tag, prelude, exprs)
    if not ok:
        ck.violation("correspondence-eval", "model evaluation failed:\n" + str(res)[-1500:], replay={"log": str(res)[-3000:]},
                     found_input=False)
        return stats
    if cfg_exprs and res["cfg"] != cfg_want:
        bad = next(k for k in range(len(cfg_want)) if k >= len(res["cfg"]) or res["cfg"][k] != cfg_want[k])
        h = [x for x in hists if setting_lookup(x[0], x[1])[0] is not None and setting_lookup(x[0], x[1])[1] is not None][bad // 2]
        ck.violation("corr-config", "getMaxAttempts/getLockoutDuration for settings %r / %r: real %d, model %s" % (
            h[0], h[1], cfg_want[bad], res["cfg"][bad] if bad < len(res["cfg"]) else "?"),
            replay={"mode": mode, "limit_setting": h[0], "lockout_setting": h[1], "ops": []}, found_input=False)
    W = 4 + 4 * len(UNIVERSE)
    validated = 0
    for i, (h, r) in enumerate(zip(hists, reals)):
        if i in stats["oracle_viol"]:
            continue
        terms, ends = plans[i]
        m = res["h%d" % i]
        if len(m) != W * len(terms):
            ck.violation("correspondence-eval", "model output has unexpected length", replay={"history": h}, found_input=False)
            continue
        for k, (o, ev) in enumerate(zip(h[2], r["events"])):
            row = m[W * ends[k]: W * (ends[k] + 1)]
            kind, retry, mnow, mlen = row[0], row[1], row[2], row[3]
            mt = {}
            for j, u in enumerate(UNIVERSE):
                q = row[4 + 4 * j: 8 + 4 * j]
                if q[0]:
                    mt[u] = (q[1], q[2], q[3])
            diff = None
            if o[0] == "A":
                rk = 1 if ev["locked"] else (2 if ev["auth"] else 3)
                if rk != kind or (rk == 1 and retry != ev["retry"]):
                    diff = "outcome: real %s, model %s" % ((rk, ev["retry"]), (kind, retry))
                elif (ev["reads"] > 0) != (kind != 1) and o[2] != "e":
                    diff = "verifier ran=%s but model outcome %d" % (ev["reads"] > 0, kind)
            if diff is None and (mnow != ev["now"] or mt != ev["table"] or mlen != len(ev["table"])):
                diff = "state: real now=%d %s, model now=%d %s" % (ev["now"], ev["table"], mnow, mt)
            if diff:
                ck.violation("corr-" + ("outcome" if diff.startswith(("outcome", "verifier")) else "state"),
                             "model and implementation disagree at op #%d %r (mode %s, limit %d, lockout %d ns): %s" % (
                                 k, o, mode, r["limit"], r["lock"], diff),
                             replay={"mode": mode, "limit_setting": h[0], "lockout_setting": h[1],
                                     "ops": [list(x) for x in h[2][:k + 1]]}, found_input=False)
                break
        else:
            validated += 1
    stats["validated"] = validated
    return stats


def run(ck):
    quick = ck.tier == "quick"
    ck.cov["rule"] = ("histories of login attempts (good/wrong/empty password, 9 spellings of 5 users incl. an unknown one), clock "
                      "advances biased to the lockout boundaries (K, K+-1ms, K+-1ns, 2K+-1ms, scan interval) and scans, over limit "
                      "settings '',0..6,-1,'abc' and 13 lockout settings; explicit-scan mode and real-goroutine mode. "
                      "distinct_nontrivial = distinct histories in which the real code refused at least one attempt")
    ck.assume("every operation happens at one clock instant (time.Now constant within a call; true under testing/synctest)",
              "user names are ASCII (strings.ToLower modelled on ASCII)",
              "the password verifier's verdict is an input of the model (auth.ValidatePassword is C25's subject)",
              "Retry-After: int(d.Seconds()) equals integer division for lockouts below ~4e6 s")
    ck.trusted("harness/C24/c24_test.go (in-package overlay, recording user store, testing/synctest clock)",
               "props/C24.py generators, Python oracle and comparison", "correspondence evaluated by vm_compute")
    t0 = time.time()
    ck.coq_stage(GROUP, theorems=THEOREMS)
    tm = {"coq_stage": round(time.time() - t0, 1)}
    ck.cov["timing_s"] = tm
    t0 = time.time()

    ok, binp = vf.go_test_build(ck.work, "internal/router", {"internal/router/zz_verif_c24_test.go":
                                os.path.join(vf.HARNESS, "C24", "c24_test.go")}, "c24.test")
    tm["go_build"] = round(time.time() - t0, 1)
    if not ok:
        ck.violation("harness-build", "harness for internal/router does not build:\n" + binp[-1500:],
                     replay={"log": binp[-3000:]}, found_input=False)
        return
    if ck.replay_file:
        rp = json.load(open(ck.replay_file))["replay"]
        hist = (rp.get("limit_setting", ""), rp.get("lockout_setting", ""), [tuple(o) for o in rp.get("ops", [])])
        modes = [(rp.get("mode", "explicit"), [hist])]
    else:
        ne, nr = (90, 30) if quick else (1500, 500)
        corpus = [(a, b, list(c)) for a, b, c in CORPUS]
        exp = corpus + [gen_history(ck.rng, True) for _ in range(ne)]
        real = [(a, b, [o if o[0] != "S" else ("S", max(MS, o[1] // MS * MS)) for o in c if o[0] != "P"]) for a, b, c in corpus]
        real += [gen_history(ck.rng, False) for _ in range(nr)]
        modes = [("explicit", exp), ("real", real)]
    tot = {"ops": 0, "refused": 0, "validated": 0, "hist": 0}
    nontriv = set()
    for mode, hs in modes:
        t0 = time.time()
        st = run_mode(ck, mode, hs, binp, mode)
        tm["mode_" + mode] = round(time.time() - t0, 1)
        if st is None:
            continue
        tot["ops"] += st["ops"]
        tot["refused"] += st["refused"]
        tot["validated"] += st.get("validated", 0)
        tot["hist"] += len(hs)
        nontriv |= st["nontrivial"]
        ck.cov.setdefault("input_distribution", {})[mode] = {"histories": len(hs), "operations": st["ops"],
                                                             "refused_attempts": st["refused"]}
        for h in hs[:2]:
            ck.sample({"mode": mode, "limit_setting": h[0], "lockout_setting": h[1], "ops": [list(o) for o in h[2][:12]]})
    ck.cov["evaluations"] = tot["ops"]
    ck.cov["distinct_nontrivial"] = len(nontriv)
    ck.cov["traces_validated_against_impl"] = tot["validated"]
    if getattr(ck, "coq_broken", None) and not ck.viol:
        grp, log = ck.coq_broken
        ck.violation("proof-broken", "Coq development %s no longer checks; %d histories (%d operations) run against the property "
                     "oracle on the real code found no failing input:\n%s" % (grp, tot["hist"], tot["ops"], log[-1200:]),
                     replay={"broken": "coq/" + grp, "log": log[-3000:]}, found_input=False)
