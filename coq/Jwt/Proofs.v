(* Jwt/Proofs.v — lemmas for C22 *)
From Common Require Import Base.
From Jwt Require Import Model.
Open Scope Z_scope.

(* ---- cache as association list *)
Lemma lookup_cons c id e id' :
  lookup ((id, e) :: c) id' = if Nat.eqb id id' then Some e else lookup c id'.
Proof. unfold lookup. cbn [find fst snd]. destruct (Nat.eqb id id'); reflexivity. Qed.

Lemma lookup_evict_same c id : lookup (evict c id) id = None.
Proof.
  unfold lookup, evict. induction c as [|[k e] c IH]; [reflexivity|].
  cbn [filter fst]. destruct (Nat.eqb k id) eqn:Hk; cbn [negb]; [exact IH|].
  cbn [find fst]. rewrite Hk. exact IH.
Qed.

Lemma lookup_evict_some c id id' e : lookup (evict c id) id' = Some e -> lookup c id' = Some e.
Proof.
  unfold lookup, evict. induction c as [|[k x] c IH]; [discriminate|].
  cbn [filter fst]. destruct (Nat.eqb k id) eqn:Hk; cbn [negb].
  - intros H. specialize (IH H). cbn [find fst]. destruct (Nat.eqb k id') eqn:Hk'; [|exact IH].
    (* k = id and k = id' : but then the evicted list cannot contain id' = id *)
    apply Nat.eqb_eq in Hk. apply Nat.eqb_eq in Hk'. subst.
    pose proof (lookup_evict_same c id') as Hn. unfold lookup, evict in Hn. rewrite Hn in H. discriminate.
  - cbn [find fst]. destruct (Nat.eqb k id'); [auto|exact IH].
Qed.

(* ---- invariant: every cached entry belongs to a token whose static checks passed and mirrors it *)
Definition static_ok (cfg : config) (t : token) : bool :=
  alg_allowed (t_alg t) && t_key_found t && t_sig_ok t && iss_ok cfg t && aud_ok cfg t.

Definition entry_ok (cfg : config) (nw : Z) (t : token) (e : entry) : Prop :=
  static_ok cfg t = true /\ t_exp t = Some (e_exp e) /\ nbf_ok nw t = true /\
  e_jti e = t_jti t /\ e_user e = user_of t /\ is_nil (user_of t) = false.

Definition Inv (cfg : config) (toks : nat -> token) (s : state) : Prop :=
  forall id e, lookup (cache s) id = Some e -> entry_ok cfg (now s) (toks id) e.

Lemma Inv_init cfg toks t0 : Inv cfg toks (init t0).
Proof. intros id e H. discriminate H. Qed.

Lemma verdict_some cfg nw t e :
  lib_verdict cfg nw t = Some e ->
  static_ok cfg t = true /\ t_exp t = Some e /\ exp_ok nw t = true /\ nbf_ok nw t = true.
Proof.
  unfold lib_verdict, static_ok. intros H.
  destruct (alg_allowed (t_alg t)), (t_key_found t), (t_sig_ok t), (exp_ok nw t) eqn:He, (nbf_ok nw t),
    (aud_ok cfg t), (iss_ok cfg t); cbn in H; try discriminate. auto.
Qed.

Lemma verdict_of_good cfg nw rv t :
  good cfg nw rv t = true -> exists e, lib_verdict cfg nw t = Some e /\ t_exp t = Some e.
Proof.
  unfold good, lib_verdict. intros H.
  destruct (alg_allowed (t_alg t)), (t_key_found t), (t_sig_ok t), (iss_ok cfg t), (aud_ok cfg t),
    (exp_ok nw t) eqn:He, (nbf_ok nw t); cbn in H; try discriminate.
  cbn. unfold exp_ok in He. destruct (t_exp t) as [e|]; [|discriminate]. exists e. auto.
Qed.

Lemma Inv_sub cfg toks nw c c' rv :
  (forall id e, lookup c' id = Some e -> lookup c id = Some e) ->
  Inv cfg toks (mkS nw c rv) -> Inv cfg toks (mkS nw c' rv).
Proof. intros Hsub HI id e H. apply (HI id e). cbn [cache] in *. apply Hsub, H. Qed.

Lemma Inv_miss fixed cfg toks s c id :
  Inv cfg toks (mkS (now s) c (revoked s)) ->
  Inv cfg toks (fst (validate_miss fixed cfg s c id (toks id))).
Proof.
  intros HI. unfold validate_miss.
  destruct (lib_verdict cfg (now s) (toks id)) as [e|] eqn:Hv; [|exact HI].
  destruct (fixed && is_revoked (revoked s) (t_jti (toks id))); [exact HI|].
  destruct (is_nil (user_of (toks id))) eqn:Hu; [exact HI|].
  cbn [fst]. intros id' e' H. cbn [cache now] in *. rewrite lookup_cons in H.
  destruct (Nat.eqb id id') eqn:Hid.
  - apply Nat.eqb_eq in Hid. subst id'. inversion H; subst e'. clear H.
    apply verdict_some in Hv. destruct Hv as [Hs [He [_ Hn]]].
    unfold entry_ok. cbn [e_user e_exp e_jti]. auto 10.
  - apply lookup_evict_some in H. apply (HI id' e' H).
Qed.

Lemma Inv_validate fixed cfg toks s id :
  Inv cfg toks s -> Inv cfg toks (fst (validate fixed cfg s id (toks id))).
Proof.
  intros HI. destruct s as [nw c rv]. unfold validate. cbn [cache now revoked].
  assert (Hev : Inv cfg toks (mkS nw (evict c id) rv)).
  { apply (Inv_sub cfg toks nw c); [|exact HI]. intros i e. apply lookup_evict_some. }
  destruct (lookup c id) as [e|] eqn:Hl.
  - destruct (nw <? e_exp e).
    + destruct (is_revoked rv (e_jti e)); [exact Hev|exact HI].
    + apply (Inv_miss fixed cfg toks (mkS nw c rv) (evict c id) id). exact Hev.
  - apply (Inv_miss fixed cfg toks (mkS nw c rv) c id). exact HI.
Qed.

Lemma nbf_mono t a b : a <= b -> nbf_ok a t = true -> nbf_ok b t = true.
Proof. unfold nbf_ok. destruct (t_nbf t); [|auto]. intros. lia. Qed.

Lemma Inv_step fixed cfg toks s o : Inv cfg toks s -> Inv cfg toks (fst (step fixed cfg toks s o)).
Proof.
  intros HI. destruct o as [id|j|d|id|]; cbn [step].
  - pose proof (Inv_validate fixed cfg toks s id HI) as H.
    destruct (validate fixed cfg s id (toks id)). exact H.
  - cbn [fst]. intros id e H. apply (HI id e H).
  - cbn [fst]. intros id e H. cbn [cache now] in *. destruct (HI id e H) as [A [B [C D]]].
    split; [exact A|]. split; [exact B|]. split; [|exact D].
    apply (nbf_mono _ (now s)); [lia|exact C].
  - cbn [fst]. destruct s as [nw c rv]. apply (Inv_sub cfg toks nw c); [|exact HI].
    intros i e. apply lookup_evict_some.
  - cbn [fst]. intros id e H. discriminate H.
Qed.

Lemma Inv_run fixed cfg toks h : forall s, Inv cfg toks s -> Inv cfg toks (run fixed cfg toks h s).
Proof.
  unfold run. induction h as [|o h IH]; intros s HI; [exact HI|]. cbn [fold_left]. apply IH, Inv_step, HI.
Qed.

(* ---- soundness of acceptance (repaired code) *)
Lemma accept_sound_inv cfg toks s id :
  Inv cfg toks s -> accepted (validate true cfg s id (toks id)) = true ->
  good cfg (now s) (revoked s) (toks id) = true.
Proof.
  intros HI. unfold validate.
  assert (Hmiss : forall c, accepted (validate_miss true cfg s c id (toks id)) = true ->
                            good cfg (now s) (revoked s) (toks id) = true).
  { intros c. unfold validate_miss.
    destruct (lib_verdict cfg (now s) (toks id)) as [e|] eqn:Hv; [|discriminate].
    cbn [andb].
    destruct (is_revoked (revoked s) (t_jti (toks id))) eqn:Hr; [discriminate|].
    destruct (is_nil (user_of (toks id))); [discriminate|]. intros _.
    apply verdict_some in Hv. destruct Hv as [Hs [_ [He Hn]]]. unfold good, static_ok in *.
    rewrite Hr, He, Hn.
    destruct (alg_allowed (t_alg (toks id))), (t_key_found (toks id)), (t_sig_ok (toks id)),
      (iss_ok cfg (toks id)), (aud_ok cfg (toks id)); cbn in Hs; try discriminate. reflexivity. }
  destruct (lookup (cache s) id) as [e|] eqn:Hl; [|apply Hmiss].
  destruct (Z.ltb_spec (now s) (e_exp e)) as [Hlt|Hge]; [|apply Hmiss].
  destruct (is_revoked (revoked s) (e_jti e)) eqn:Hr; [discriminate|]. intros _.
  destruct (HI id e Hl) as [Hs [He [Hn [Hj _]]]]. unfold good, static_ok in *.
  rewrite <- Hj, Hr, Hn. unfold exp_ok. rewrite He.
  destruct (alg_allowed (t_alg (toks id))), (t_key_found (toks id)), (t_sig_ok (toks id)),
    (iss_ok cfg (toks id)), (aud_ok cfg (toks id)); cbn in Hs; try discriminate.
  cbn. destruct (Z.ltb_spec (now s) (e_exp e)); [reflexivity|lia].
Qed.

Lemma good_fields cfg nw rv t :
  good cfg nw rv t = true ->
  alg_allowed (t_alg t) = true /\ t_key_found t = true /\ t_sig_ok t = true /\
  iss_ok cfg t = true /\ aud_ok cfg t = true /\
  (exists e, t_exp t = Some e /\ nw < e) /\ nbf_ok nw t = true /\ is_revoked rv (t_jti t) = false.
Proof.
  unfold good. intros H.
  destruct (alg_allowed (t_alg t)), (t_key_found t), (t_sig_ok t), (iss_ok cfg t), (aud_ok cfg t),
    (exp_ok nw t) eqn:He, (nbf_ok nw t), (is_revoked rv (t_jti t)); cbn in H; try discriminate.
  repeat split; try reflexivity. unfold exp_ok in He. destruct (t_exp t) as [e|]; [|discriminate].
  exists e. split; [reflexivity|lia].
Qed.

Lemma accept_sound cfg toks t0 h id :
  let s := run true cfg toks h (init t0) in
  accepted (validate true cfg s id (toks id)) = true ->
  let t := toks id in
  alg_allowed (t_alg t) = true /\ t_key_found t = true /\ t_sig_ok t = true /\
  iss_ok cfg t = true /\ aud_ok cfg t = true /\
  (exists e, t_exp t = Some e /\ now s < e) /\ nbf_ok (now s) t = true /\
  is_revoked (revoked s) (t_jti t) = false.
Proof.
  intros s H t. apply good_fields. apply accept_sound_inv; [|exact H].
  apply Inv_run, Inv_init.
Qed.

(* ---- revocation is effective for every later request, whatever the cache holds *)
Lemma revoked_step fixed cfg toks s o j : In j (revoked s) -> In j (revoked (fst (step fixed cfg toks s o))).
Proof.
  intros H. destruct o as [id|k|d|id|]; cbn [step]; try (cbn [fst revoked]; auto; right; exact H).
  unfold validate, validate_miss.
  destruct (lookup (cache s) id) as [e|].
  - destruct (now s <? e_exp e).
    + destruct (is_revoked (revoked s) (e_jti e)); cbn [fst revoked]; exact H.
    + destruct (lib_verdict cfg (now s) (toks id)); [|exact H].
      destruct (fixed && is_revoked (revoked s) (t_jti (toks id))); [exact H|].
      destruct (is_nil (user_of (toks id))); exact H.
  - destruct (lib_verdict cfg (now s) (toks id)); [|exact H].
    destruct (fixed && is_revoked (revoked s) (t_jti (toks id))); [exact H|].
    destruct (is_nil (user_of (toks id))); exact H.
Qed.

Lemma revoked_run fixed cfg toks h : forall s j, In j (revoked s) -> In j (revoked (run fixed cfg toks h s)).
Proof.
  unfold run. induction h as [|o h IH]; intros s j H; [exact H|]. cbn [fold_left]. apply IH, revoked_step, H.
Qed.

Lemma revoke_in_run fixed cfg toks j h : forall s, In (Revoke j) h -> In j (revoked (run fixed cfg toks h s)).
Proof.
  induction h as [|o h IH]; intros s H; [destruct H|]. destruct H as [H|H].
  - subst o. unfold run. cbn [fold_left step fst]. apply (revoked_run fixed cfg toks h). left. reflexivity.
  - unfold run. cbn [fold_left]. apply IH, H.
Qed.

Lemma run_app fixed cfg toks h1 h2 s :
  run fixed cfg toks (h1 ++ h2) s = run fixed cfg toks h2 (run fixed cfg toks h1 s).
Proof. unfold run. apply fold_left_app. Qed.

Lemma is_revoked_in rv j : j <> [] -> In j rv -> is_revoked rv j = true.
Proof.
  intros Hne Hin. unfold is_revoked. destruct j as [|c j]; [congruence|]. cbn [is_nil negb andb].
  apply existsb_exists. exists (c :: j). split; [exact Hin|]. apply str_eqb_eq. reflexivity.
Qed.

Lemma revocation_effective cfg toks s0 h1 h2 j id :
  Inv cfg toks s0 -> j <> [] -> t_jti (toks id) = j -> In (Revoke j) h1 ->
  accepted (validate true cfg (run true cfg toks (h1 ++ h2) s0) id (toks id)) = false.
Proof.
  intros HI Hne Hj Hin.
  destruct (accepted (validate true cfg (run true cfg toks (h1 ++ h2) s0) id (toks id))) eqn:Ha; [|reflexivity].
  exfalso. apply accept_sound_inv in Ha; [|apply Inv_run, HI].
  apply good_fields in Ha. destruct Ha as [_ [_ [_ [_ [_ [_ [_ Hr]]]]]]].
  rewrite Hj in Hr. rewrite is_revoked_in in Hr; [discriminate|exact Hne|].
  rewrite run_app. apply revoked_run. apply revoke_in_run. exact Hin.
Qed.

(* ---- completeness: a good, unrevoked token with a user is accepted, whatever the cache holds *)
Lemma accept_complete fixed cfg toks s id :
  Inv cfg toks s -> good cfg (now s) (revoked s) (toks id) = true -> is_nil (user_of (toks id)) = false ->
  snd (validate fixed cfg s id (toks id)) = Accept (user_of (toks id)).
Proof.
  intros HI Hg Hu.
  assert (Hmiss : forall c, snd (validate_miss fixed cfg s c id (toks id)) = Accept (user_of (toks id))).
  { intros c. unfold validate_miss. destruct (verdict_of_good _ _ _ _ Hg) as [e [Hv _]]. rewrite Hv.
    apply good_fields in Hg. destruct Hg as [_ [_ [_ [_ [_ [_ [_ Hr]]]]]]]. rewrite Hr, andb_false_r, Hu. reflexivity. }
  unfold validate. destruct (lookup (cache s) id) as [e|] eqn:Hl; [|apply Hmiss].
  destruct (now s <? e_exp e); [|apply Hmiss].
  destruct (HI id e Hl) as [_ [_ [_ [Hj [Hus _]]]]].
  apply good_fields in Hg. destruct Hg as [_ [_ [_ [_ [_ [_ [_ Hr]]]]]]].
  rewrite Hj, Hr. cbn [snd]. rewrite Hus. reflexivity.
Qed.

Lemma accept_complete_run fixed cfg toks t0 h id :
  let s := run fixed cfg toks h (init t0) in
  good cfg (now s) (revoked s) (toks id) = true -> is_nil (user_of (toks id)) = false ->
  snd (validate fixed cfg s id (toks id)) = Accept (user_of (toks id)).
Proof. apply accept_complete. apply Inv_run, Inv_init. Qed.

(* ---- the code before the repair: a revoked token that was never presented before is accepted *)
Definition demo_tok : token :=
  mkT RS256 true true [105]%N [[97]%N] (Some 1000) None [106]%N [117]%N [].
Definition demo_cfg : config := mkC [105]%N [97]%N.

Lemma refuted_current :
  exists cfg toks h id,
    In (Revoke (t_jti (toks id))) h /\ t_jti (toks id) <> [] /\
    accepted (validate false cfg (run false cfg toks h (init 0)) id (toks id)) = true.
Proof.
  exists demo_cfg, (fun _ => demo_tok), [Revoke [106]%N], 0%nat.
  split; [left; reflexivity|]. split; [discriminate|]. vm_compute. reflexivity.
Qed.
