(* Arith/Sites.v — every function of internal/language/bytecode that reads the type-strictness setting,
   classified by how C04 accounts for it.  The check regenerates the list of read sites from the Go
   source on every run and requires each to occur here (a new read site = the tie is broken).
   Definitions only. *)
From Coq Require Import String List ZArith Bool.
Import ListNotations.
Local Open Scope string_scope.

Inductive site_class :=
| Modelled (boundary : string)     (* behaviour in the mode is a function of Arith/Model.v, covered by a C04 theorem *)
| SameStrictRelaxed                (* the read only separates dynamic from {strict, relaxed} *)
| StrictOnlyRejects                (* strict adds a rejection and nothing else: can only remove programs *)
| ObservedOnly.                    (* mode-dependent conversion outside the model: differential runs only *)

Definition classified : list (string * string * site_class) := [
  ("math.go", "addByteCode", Modelled "binop");
  ("math.go", "subtractByteCode", Modelled "binop");
  ("math.go", "multiplyByteCode", Modelled "binop");
  ("math.go", "divideByteCode", Modelled "binop");
  ("math.go", "moduloByteCode", Modelled "binop");
  ("math.go", "incrementByteCode", Modelled "increment");
  ("context.go", "checkType", Modelled "store");
  ("context.go", "checkTypeRegister", Modelled "store");
  ("context.go", "checkTypeCore", Modelled "store");
  ("coerce.go", "coerceByteCode", Modelled "retval");
  ("types.go", "requiredTypeByteCodeImpl", Modelled "argument");
  ("call.go", "validateFunctionArguments", StrictOnlyRejects);
  ("branch.go", "branchFalseByteCode", Modelled "condition");
  ("branch.go", "branchTrueByteCode", Modelled "condition");
  ("equal.go", "genericEqualCompare", Modelled "compare");
  ("greaterThan.go", "greaterThanByteCode", Modelled "compare");
  ("greaterThanorEqual.go", "greaterThanOrEqualByteCode", Modelled "compare");
  ("lessThan.go", "lessThanByteCode", Modelled "compare");
  ("lessThanorEqual.go", "lessThanOrEqualByteCode", Modelled "compare");
  ("notEqual.go", "notEqualByteCode", Modelled "compare");
  ("store.go", "storeStringViaPointer", SameStrictRelaxed);
  ("store.go", "storeFloat32ViaPointer", SameStrictRelaxed);
  ("store.go", "storeFloat64ViaPointer", SameStrictRelaxed);
  ("store.go", "storeInt64ViaPointer", SameStrictRelaxed);
  ("store.go", "storeIntViaPointer", SameStrictRelaxed);
  ("store.go", "storeInt32ViaPointer", SameStrictRelaxed);
  ("store.go", "storeByteViaPointer", SameStrictRelaxed);
  ("store.go", "storeBoolViaPointer", SameStrictRelaxed);
  ("create.go", "coerceConstantArrayInitializer", ObservedOnly);
  ("create.go", "arrayByteCode", ObservedOnly);
  ("create.go", "structByteCode", ObservedOnly);
  ("structs.go", "checkStructFieldStrictType", ObservedOnly);
  ("structs.go", "storeInArray", ObservedOnly)
].

Definition site_eqb (a : string * string) (b : string * string * site_class) : bool :=
  String.eqb (fst a) (fst (fst b)) && String.eqb (snd a) (snd (fst b)).
Definition covered (s : string * string) : bool := existsb (site_eqb s) classified.
Fixpoint uncovered_idx (i : Z) (l : list (string * string)) : list Z :=
  match l with
  | [] => []
  | s :: r => if covered s then uncovered_idx (i + 1) r else i :: uncovered_idx (i + 1) r
  end.
