"""C16 SQL reformatting preserves statements (internal/sqlparse: parser, lexer, Format)."""
import json
import os
import re
import vf

GROUP = "SqlFmt"
META = {
    "group": "SqlFmt",
    "technique": "Coq proof of parse/print round trip over a generic precedence-tier parser (any operator table passing wf_table), instantiated with the SQL expression fragment; tier table and keyword-quoting table regenerated from the Go source on every run; vm_compute correspondence of model lexer/parser/printer with the real ones; AST-equality, idempotence and SQLite-execution oracle on generated statements",
    "text": "Theorems C16_reparse / C16_idempotent (every tree the expression parser returns is read back from the printed token list as the same tree, for every tier table without a repeated operator and every quoting table covering the parser's keywords), C16_wf_roundtrip + C16_parse_wf (exactly the trees nested as the tiers allow survive print-then-parse; parser results are such trees), C16_quote_string / C16_quote_ident (the lexer reads a quoted string/identifier back as the same value, all strings), C16_old_keyword_refuted / C16_old_minus_refuted (the tree before the two fixes lost quoted keyword names and wrote '- -x' as a comment) C16_text_lex / C16_parse_eok / C16_statement_text (the TEXT the repaired printer writes lexes to exactly the printed token list - proved over a char-level model of lexer.go - so every accepted token list of the fragment whose numbers are digit strings is read back from the printed text as the same tree) are proved for all inputs over the model of literals, names, prefix/binary operators of all nine tiers and parentheses; C16_reparse2 / C16_roundtrip2 extend the token-level round trip to a second expression type with IS [NOT] NULL, x IS [NOT] y, [NOT] LIKE-family, [NOT] BETWEEN (bounds one tier above AND), [NOT] IN (list), calls f(args) and tuples (on token lists in which the multi-word operators are fused; the fusing pass is compared with the real parser, not proved). partial: CASE/CAST/COLLATE/ESCAPE/subqueries/decorated calls, the token-fusing pass, the SELECT/INSERT/UPDATE/DELETE/DDL printers non-digit number spellings at text level are checked on the real code only (AST equality after re-parse, idempotence, same result on SQLite), not proved",
    "note": "Trusted: Coq kernel; hand-written model of expr.go/lexer.go/format_expr.go (ASCII) tied by the correspondence run; regex translators for the tier chain of expr.go and quotedKeywords of format.go; overlay harness with reflective AST dump; modernc SQLite as execution oracle.",
}

KW_FRAGMENT = ["null", "true", "false", "case", "cast", "exists", "not", "and", "or"]


# ----------------------------------------------------------------------------- translators
def read_tiers(repo):
    """Follow the chain parseExpr -> ... -> parsePrimary in expr.go; returns [(kind, [ops])] loosest first."""
    src = open(os.path.join(repo, "internal/sqlparse/expr.go")).read()
    funcs = {}
    for m in re.finditer(r"^func \(p \*parser\) (parse\w+)\(\) \(ast\.Node, error\) \{\n(.*?)^\}", src, re.S | re.M):
        funcs[m.group(1)] = m.group(2)
    lists = {m.group(1): re.findall(r'"([^"]+)"', m.group(2))
             for m in re.finditer(r"^var (\w+) = \[\]string\{([^}]*)\}", src, re.M)}
    m = re.search(r"return p\.(parse\w+)\(\)", funcs.get("parseExpr", ""))
    if not m:
        raise RuntimeError("parseExpr anchor not found in expr.go")
    cur, tiers, seen = m.group(1), [], set()
    while cur not in ("parsePrimary", "parseCollateExpr"):
        if cur in seen or cur not in funcs:
            raise RuntimeError("tier chain broken at " + cur)
        seen.add(cur)
        body = funcs[cur]
        calls = [c for c in re.findall(r"p\.(parse\w+Expr|parsePrimary)\(\)", body)]
        nxt = [c for c in calls if c != cur]
        if not nxt:
            raise RuntimeError("no next tier in " + cur)
        if cur in calls:                      # prefix tier: recurses into itself
            ops = []
            ops += re.findall(r'ast\.UnaryExpr\{Op: "([A-Z]+)"', body)        # NOT x (NOT EXISTS builds an ExistsExpr)
            if "ast.UnaryExpr{Op: op" in body:
                ops += re.findall(r'p\.cur\(\)\.isOp\("([^"]+)"\)', body)
            if not ops:
                raise RuntimeError("prefix tier without operators: " + cur)
            tiers.append(("pre", ops))
        else:
            ops = []
            hm = re.search(r"for (.*?) \{", body)
            head = hm.group(1) if hm and hm.group(1).strip() else ""
            if head:
                ops += [k.upper() for k in re.findall(r'p\.isKeyword\("(\w+)"\)', head)]
                ops += re.findall(r'isOp\("([^"]+)"\)', head)
                for lm in re.findall(r"isOpIn\(p\.cur\(\), (\w+)\)", head):
                    ops += lists[lm]
            else:                             # comparison tier: for { ... relOpAt ... }
                if "relOpAt(p.cur())" not in body or "relOps" not in lists:
                    raise RuntimeError("comparison tier anchor not found in " + cur)
                ops += lists["relOps"]
            tiers.append(("bin", ops))
        cur = nxt[-1] if cur in calls else nxt[0]
    if len(tiers) < 3:
        raise RuntimeError("tier chain too short")
    return tiers


def read_keywords(repo):
    fsrc = open(os.path.join(repo, "internal/sqlparse/format.go")).read()
    m = re.search(r"var quotedKeywords = map\[string\]bool\{(.*?)\n\}", fsrc, re.S)
    quoted = sorted(set(re.findall(r'"([a-z_]+)":\s*true', m.group(1)))) if m else []
    used = set()
    d = os.path.join(repo, "internal/sqlparse")
    for fn in os.listdir(d):
        if fn.endswith(".go") and not fn.endswith("_test.go"):
            s = open(os.path.join(d, fn)).read()
            used |= set(re.findall(r'(?:isKeyword|acceptKeyword|expectKeyword|\.is)\("([a-z_]+)"\)', s))
            used |= set(re.findall(r'isKeywordAt\(\d+, "([a-z_]+)"\)', s))
            lm = re.search(r"var likeFamily = \[\]string\{([^}]*)\}", s)
            if lm:
                used |= set(re.findall(r'"([a-z]+)"', lm.group(1)))
    return quoted, sorted(used)


def cstr(s):
    return vf.vstr(s)


def coq_tbl(tiers):
    return "[" + "; ".join("%s [%s]" % ("LBin" if k == "bin" else "LPre", "; ".join(cstr(o) for o in ops))
                           for k, ops in tiers) + "]"


# ----------------------------------------------------------------------------- generators
BINOPS = ["OR", "AND", "=", "==", "<>", "!=", "<", "<=", ">", ">=", "<<", ">>", "&", "|", "+", "-", "*", "/", "%", "||"]
NAMES = ["a", "b", "c", "x1", "_t", "Abc", "t$1"]
QNAMES = ["select", "null", "Not", "my col", "true", "and", "or", "case", "a\"b", "from", "x-y", "1st", "NOT", "Null", ""]


def case_mix(rng, w):
    r = rng.random()
    return w.lower() if r < 0.4 else (w.upper() if r < 0.8 else "".join(c.upper() if rng.random() < 0.5 else c.lower() for c in w))


def gen_atom(rng):
    r = rng.random()
    if r < 0.25:
        return rng.choice(NAMES)
    if r < 0.45:
        q = rng.choice(QNAMES)
        if not q:
            return '"q"'
        style = rng.random()
        if style < 0.7 or "]" in q or "`" in q:
            return '"' + q.replace('"', '""') + '"'
        if style < 0.85 and '"' not in q:
            return "[" + q + "]"
        return "`" + q + "`"
    if r < 0.65:
        return rng.choice(["0", "1", "42", "007", "3.14", "10.", ".5", "1e3", "2.5E-2", "0x1F", "123456789012"])
    if r < 0.8:
        return "'" + rng.choice(["", "x", "it''s", "a b", "--c", "%a_", "''", "NULL", "é"]) + "'"
    return case_mix(rng, rng.choice(["null", "true", "false"]))


def gen_expr(rng, depth):
    if depth <= 0 or rng.random() < 0.2:
        return gen_atom(rng)
    r = rng.random()
    sp = lambda: rng.choice(["", " ", " ", "  ", "\n", "\t"])
    if r < 0.55:
        op = rng.choice(BINOPS)
        ops = case_mix(rng, op) if op.isalpha() else op
        pad = " " if op.isalpha() else ""
        return gen_expr(rng, depth - 1) + pad + sp() + ops + sp() + pad + gen_expr(rng, depth - 1)
    if r < 0.75:
        op = rng.choice(["-", "-", "+", "~", "NOT"])
        if op == "NOT":
            return case_mix(rng, op) + " " + sp() + gen_expr(rng, depth - 1)
        return op + rng.choice(["", "", " "]) + gen_expr(rng, depth - 1)
    return "(" + sp() + gen_expr(rng, depth - 1) + sp() + ")"


OP_WORDS = ["and", "or", "not", "is", "in", "between", "isnull", "notnull", "like", "glob", "regexp", "match", "ilike",
            "null", "true", "false", "case", "cast", "exists"]
FUNCS = ["abs", "length", "coalesce", "max", "min", "ifnull", "substr", "upper", "round", "f1"]


def gen_tight(rng, depth):
    """an operand one tier above AND (usable as a BETWEEN bound, LIKE pattern, IS operand)"""
    r = rng.random()
    if depth <= 0 or r < 0.4:
        return gen_atom(rng)
    if r < 0.6:
        return gen_tight(rng, depth - 1) + " " + rng.choice(["+", "-", "*", "||", "&", "<<", "%"]) + " " + gen_tight(rng, depth - 1)
    if r < 0.7:
        return rng.choice(["-", "~", "+"]) + gen_tight(rng, depth - 1)
    if r < 0.85:
        return "(" + gen_expr2(rng, depth - 1) + ")"
    return "%s(%s)" % (rng.choice(FUNCS), ", ".join(gen_expr2(rng, depth - 1) for _ in range(rng.randint(1, 3))))


def gen_expr2(rng, depth):
    """expressions with the comparison-tier forms of the second model type"""
    if depth <= 0:
        return gen_tight(rng, 0)
    r = rng.random()
    x = gen_tight(rng, depth - 1)
    neg = rng.choice(["", "", "NOT ", "not "])
    if r < 0.12:
        return x + " " + rng.choice(["IS NULL", "is not null", "IS NOT NULL", "ISNULL", "NOTNULL", "isnull"])
    if r < 0.2:
        return x + rng.choice([" IS ", " IS NOT ", " is not "]) + gen_tight(rng, depth - 1)
    if r < 0.35:
        return "%s %s%s %s" % (x, neg, rng.choice(["LIKE", "like", "GLOB", "REGEXP", "MATCH"]), gen_tight(rng, depth - 1))
    if r < 0.52:
        return "%s %s%s %s %s %s" % (x, neg, rng.choice(["BETWEEN", "between"]), gen_tight(rng, depth - 1), rng.choice(["AND", "and"]),
                                    gen_tight(rng, depth - 1))
    if r < 0.67:
        return "%s %s%s (%s)" % (x, neg, rng.choice(["IN", "in"]), ", ".join(gen_expr2(rng, depth - 1) for _ in range(rng.randint(1, 3))))
    if r < 0.72:
        return "(%s)" % ", ".join(gen_expr2(rng, depth - 1) for _ in range(rng.randint(2, 3)))
    if r < 0.9:
        return gen_expr2(rng, depth - 1) + " " + rng.choice(["AND", "OR", "and", "=", "<", "<>"]) + " " + gen_expr2(rng, depth - 1)
    if r < 0.95:
        return "NOT " + gen_expr2(rng, depth - 1)
    return x


def xtree_to_coq(t):
    """harness xtree -> sexpr2 term (None when a node is outside the second model type)"""
    k = t["k"]
    sub = lambda key: xtree_to_coq(t[key])
    def items(lst):
        cs = [xtree_to_coq(i) for i in lst]
        if any(c is None for c in cs):
            return None
        acc = cs[0]
        for c in cs[1:]:
            acc = "(X2Bin %s %s %s)" % (cstr(","), acc, c)
        return acc
    b = lambda v: "true" if v else "false"
    if k == "bin":
        x, y = sub("x"), sub("y")
        return None if None in (x, y) else "(X2Bin %s %s %s)" % (cstr(t["op"]), x, y)
    if k == "un":
        x = sub("x")
        return None if x is None else "(X2Un %s %s)" % (cstr(t["op"]), x)
    if k == "paren":
        x = sub("x")
        return None if x is None else "(X2Paren %s)" % x
    if k == "isnull":
        x = sub("x")
        return None if x is None else "(X2IsNull %s %s)" % (x, b(t["neg"]))
    if k == "like":
        x, p = sub("x"), sub("p")
        return None if None in (x, p) else "(X2Like %s %s %s %s)" % (cstr(t["op"]), x, p, b(t["neg"]))
    if k == "between":
        x, lo, hi = sub("x"), sub("lo"), sub("hi")
        return None if None in (x, lo, hi) else "(X2Between %s %s %s %s)" % (x, lo, hi, b(t["neg"]))
    if k == "in":
        x, i = sub("x"), items(t["items"])
        return None if None in (x, i) else "(X2In %s %s %s)" % (x, i, b(t["neg"]))
    if k == "call":
        if bytes.fromhex(t["f"]).decode("utf8", "replace").lower() in OP_WORDS:
            return None      # "x = NOT (y)": the real parser reads a call of a function named NOT; outside the token pass
        a = items(t["args"])
        return None if a is None else "(X2Call %s %s)" % (vf.vN(bytes.fromhex(t["f"])), a)
    if k == "tuple":
        i = items(t["items"])
        return None if i is None else "(X2Paren %s)" % i
    a = tree_to_coq(t)
    return None if a is None else a.replace("(EAtom ", "(X2Atom ", 1) if a.startswith("(EAtom ") else None


def gen_malformed(rng):
    toks = ["a", "1", "'s'", "(", ")", "+", "-", "--", "NOT", "AND", "OR", "=", "<", ">", "\"q\"", "*", "/", ",", "'", "\"",
            "|", "||", "!", ".", "..", "1.", "x'", "~", "[", "]", "`", "null", "case", "is", "in"]
    return rng.choice(["", " ", ""]).join(rng.choice(toks) + rng.choice(["", " "]) for _ in range(rng.randint(1, 7)))


COLS = ["a", "b", "c", '"select"', '"null"', '"my col"', '"Not"', "t.a"]


def gen_val(rng, depth=1):
    """an operand: column, literal, or a small generated expression (numeric flavour unless text=True)"""
    r = rng.random()
    if depth <= 0 or r < 0.35:
        return rng.choice(COLS[:4] + ["t.a", "1", "2", "3", "0", "NULL"])
    if r < 0.5:
        return rng.choice(["-", "- -", "~", "+", "-"]) + gen_val(rng, depth - 1)
    if r < 0.7:
        return "%s %s %s" % (gen_val(rng, depth - 1), rng.choice(["+", "-", "*", "%", "&", "|", "<<", "||"]), gen_val(rng, depth - 1))
    if r < 0.8:
        return "(%s)" % gen_val(rng, depth - 1)
    if r < 0.9:
        return rng.choice(["abs(%s)", "coalesce(%s, 0)", "max(%s, 1)", "length(%s)", "CAST(%s AS INTEGER)", "ifnull(%s, -1)"]) % gen_val(rng, depth - 1)
    return rng.choice(["'x'", "'y''z'", "c", '"my col"', "c || 'z'", "CASE WHEN %s > 1 THEN 1 ELSE 2 END" % gen_val(rng, 0),
                       "CASE %s WHEN 1 THEN 'p' WHEN 2 THEN 'q' ELSE c END" % gen_val(rng, 0), "(SELECT max(a) FROM u)"])


def gen_cond(rng, depth=2):
    r = rng.random()
    c = rng.choice(COLS)
    v = lambda: gen_val(rng, rng.randint(0, 2))
    if depth <= 0 or r < 0.25:
        return rng.choice([
            lambda: "%s %s %s" % (v(), rng.choice(["=", "==", "<>", "!=", "<", "<=", ">", ">="]), v()),
            lambda: "%s IS %sNULL" % (v(), rng.choice(["", "NOT "])),
            lambda: "%s %s" % (v(), rng.choice(["ISNULL", "NOTNULL"])),
            lambda: "%s %sBETWEEN %s AND %s" % (v(), rng.choice(["", "NOT "]), v(), v()),
            lambda: "%s %sIN (%s)" % (v(), rng.choice(["", "NOT "]), ", ".join(v() for _ in range(rng.randint(1, 3)))),
            lambda: "%s %sIN (SELECT a FROM u WHERE %s)" % (v(), rng.choice(["", "NOT "]), gen_cond(rng, 0)),
            lambda: "%s %s%s %s%s" % (rng.choice(["c", '"my col"', '"null"', "c || 'x'"]), rng.choice(["", "NOT "]),
                                     rng.choice(["LIKE", "GLOB", "like"]), rng.choice(["'x%'", "'%z'", "'a*'", "'!%%' "]),
                                     rng.choice(["", "", " ESCAPE '!'"])),
            lambda: "%sEXISTS (SELECT 1 FROM u WHERE u.a = %s)" % (rng.choice(["", "NOT "]), v()),
            lambda: "%s IS %s%s" % (v(), rng.choice(["", "NOT "]), v()),
            lambda: "%s IS %sDISTINCT FROM %s" % (v(), rng.choice(["", "NOT "]), v()),
            lambda: "c COLLATE NOCASE = 'X'",
            lambda: "NOT %s" % v(),
            lambda: "%s = %d" % (c, rng.randint(-3, 6)),
        ])()
    if r < 0.5:
        return gen_cond(rng, depth - 1) + " AND " + gen_cond(rng, depth - 1)
    if r < 0.75:
        return gen_cond(rng, depth - 1) + " OR " + gen_cond(rng, depth - 1)
    if r < 0.9:
        return "NOT (" + gen_cond(rng, depth - 1) + ")"
    return "(" + gen_cond(rng, depth - 1) + ")"


def gen_nstmt(rng):
    """statements on the 12-row table n whose rows depend on LIMIT/OFFSET forms and function-call decorations"""
    a, b = rng.randint(0, 6), rng.randint(1, 6)
    lim = rng.choice(["LIMIT %d" % b, "LIMIT %d OFFSET %d" % (b, a), "LIMIT %d, %d" % (a, b), "LIMIT %d + 1, %d" % (a, b),
                      "LIMIT %d OFFSET %d - 1" % (b, a + 1), ""])
    cond = rng.choice(["v > %d" % a, "g = %d" % rng.randint(1, 3), "v %% 2 = %d" % rng.randint(0, 1), "s IS NOT NULL", "v BETWEEN %d AND %d" % (a, a + b)])
    r = rng.random()
    if r < 0.5:
        return "SELECT v, g FROM n WHERE %s ORDER BY %s %s" % (rng.choice(["v > 0", cond, "NOT (%s)" % cond]),
                                                              rng.choice(["v", "v DESC", "g, v", "g DESC NULLS LAST, v"]), lim)
    f = rng.choice(["count(*)", "count(*) FILTER (WHERE %s)" % cond, "count(DISTINCT g)", "count(DISTINCT g) FILTER (WHERE %s)" % cond,
                    "sum(v) FILTER (WHERE %s)" % cond, "sum(DISTINCT g)", "total(v)", "max(v, g)", "min(v) FILTER (WHERE %s)" % cond,
                    "group_concat(DISTINCT g)", "count(s)", "avg(v) FILTER (WHERE %s)" % cond])
    if r < 0.75 or "max(v, g)" in f:
        return "SELECT %s FROM n%s" % (f, "" if "max(v, g)" not in f else " ORDER BY v " + lim)
    return "SELECT g, %s FROM n GROUP BY g%s ORDER BY g %s" % (f, rng.choice(["", " HAVING count(*) > 2", " HAVING %s > 1" % f]), lim)


def gen_stmt(rng):
    r = rng.random()
    sel = rng.choice(["*", "a, b", "a + b * 2 AS s, c", '"select", "null" AS "from"', "count(*), max(a)", "t.*", "DISTINCT b",
                      "a, CASE WHEN b IS NULL THEN 'n' ELSE c END", '- -a, "my col" || \'!\'', "a AS \"order\", -b",
                      "(SELECT max(a) FROM u) AS m, a", "sum(a) FILTER (WHERE b > 2)", "a, (a, b) = (1, 2)"])
    if r < 0.5:
        s = "SELECT %s FROM t" % sel
        if rng.random() < 0.8:
            s += " WHERE " + gen_cond(rng)
        if "count" in sel or "sum" in sel:
            if rng.random() < 0.5:
                s = s.replace("count(*), max(a)", "b, count(*), max(a)") + " GROUP BY b HAVING count(*) > 0"
        elif rng.random() < 0.5:
            s += " ORDER BY " + rng.choice(["a", "a DESC, b", "2", "c COLLATE NOCASE, a", '"select" DESC', "b NULLS LAST, a"])
            if rng.random() < 0.5:
                s += " LIMIT %d" % rng.randint(0, 4) + rng.choice(["", " OFFSET 1"])
        return s
    if r < 0.6:
        j = rng.choice(["JOIN", "LEFT JOIN", "INNER JOIN", "CROSS JOIN", ","])
        on = "" if j in ("CROSS JOIN", ",") else " ON t.a = u.a"
        return "SELECT t.a, u.d FROM t %s u%s WHERE %s" % (j, on, gen_cond(rng, 1))
    if r < 0.66:
        return "WITH w AS (SELECT a, b FROM t WHERE %s) SELECT * FROM w WHERE a > 0" % gen_cond(rng, 1)
    if r < 0.72:
        return "SELECT a FROM t WHERE %s UNION SELECT a FROM u" % gen_cond(rng, 1)
    if r < 0.82:
        return rng.choice(["INSERT INTO t (a, b, c) VALUES (%d, - -%d, 'n''w')" % (rng.randint(0, 9), rng.randint(0, 9)),
                           "INSERT INTO t (a, \"select\", \"null\") VALUES (9, 8, 'z'), (10, 11, NULL)",
                           "INSERT INTO u SELECT a, c FROM t WHERE " + gen_cond(rng, 1),
                           "INSERT OR REPLACE INTO u (a, d) VALUES (1, 'uno')",
                           "INSERT INTO u (a, d) VALUES (20, 'x') RETURNING a, d"])
    if r < 0.92:
        st = rng.choice(["a = a + 1", "b = - -a, c = c || '!'", '"select" = "select" * 2', '"null" = NULL, "my col" = \'q\'',
                         "a = (SELECT max(a) FROM u)", "c = CASE WHEN a > 2 THEN 'big' ELSE c END"])
        return "UPDATE t SET %s WHERE %s" % (st, gen_cond(rng))
    return "DELETE FROM t WHERE " + gen_cond(rng)


CORPUS_E = ["- -1", "1 - - -2", '"null"', '"not" = 1', '"select" + 1', "NOT NOT a", "a = b = c", "a - b - c", "a - (b - c)",
            "-a || b", "~ ~a", "+ +a", "- + - a", "1 + 2 * 3", "(1 + 2) * 3", "a OR b AND NOT c = d", "'it''s' || 'x'",
            '"a""b"', "[x y]", "`sel`", "TRUE and FALSE", "null", "a<=b", "a<>b", "a!=b", "a==b", "1e5", "10.", ".5", "0x1F",
            '"and" or "or"', "- - - a", "a * - - b", "NOT - -a", "((a))", "a - -1", '"Null" = "TRUE"', "(- -1)"]
CORPUS_E2 = ["a IS NULL", "a IS NOT NULL", "a ISNULL", "a NOTNULL", "a IS b", "a IS NOT 2", "a LIKE 'x%'", "a NOT LIKE b || 'z'",
             "a GLOB 'p*'", "a BETWEEN 1 AND 2", "a NOT BETWEEN 1 AND 2 AND b", "a BETWEEN 1 + 1 AND 2 * 3 OR c", "a IN (1)",
             "a NOT IN (1, 2, 'x')", "abs(a)", "max(a, b, 1)", "coalesce(a, abs(-b), 0) + 1", "(a, b) = (1, 2)",
             "a BETWEEN (b AND c) AND d", "a IN (1, (2, 3))", "NOT a BETWEEN 1 AND 2", "- abs(a) BETWEEN -1 AND -f1(2)",
             "a IS NULL AND b NOTNULL OR c IN (1, 2) AND d LIKE 'q'", "a = b IS NULL", "length(c) > 1 AND c NOT GLOB '*z'"]
CORPUS_S = ['SELECT "select" FROM t', 'SELECT "null", "true" FROM t', 'SELECT a AS "from" FROM t', 'SELECT * FROM "where"',
            "SELECT - -a FROM t", "SELECT a FROM t WHERE a BETWEEN 1 AND 2 AND b", 'SELECT a FROM t WHERE a IS "distinct"',
            'SELECT a FROM t ORDER BY "desc"', 'UPDATE t SET "set" = 1', 'INSERT INTO "values" ("into") VALUES (1)',
            'SELECT a "limit" FROM t', 'SELECT count(*) FROM t GROUP BY "having"', 'DELETE FROM "from" WHERE "where" = 1',
            'SELECT t."select", "t"."a" FROM t', 'SELECT CURRENT_TIMESTAMP', "SELECT a FROM t WHERE c LIKE 'x' ESCAPE '\\'"]
CORPUS_X = ["SELECT - -a FROM t", 'SELECT "null" FROM t', 'SELECT "select" FROM t WHERE "Not" = 1', "SELECT a - - -b FROM t",
            "UPDATE t SET a = - -a WHERE b = 5", 'SELECT a FROM t ORDER BY "select" DESC', 'SELECT "my col", "Not" FROM t WHERE NOT "Not"',
            'UPDATE t SET "null" = \'v\' WHERE "null" IS NULL', 'DELETE FROM t WHERE "select" > 25', "SELECT a FROM t WHERE c = 'y''z'"]
# one executable statement per printed field of the statement trees; the result (or the final table contents)
# of each depends on that field being written back
FIELD_X = [
    "SELECT v FROM n ORDER BY v LIMIT 3", "SELECT v FROM n ORDER BY v LIMIT 3 OFFSET 5", "SELECT v FROM n ORDER BY v LIMIT 5, 3",
    "SELECT v FROM n ORDER BY v LIMIT 2 + 1, 4 - 1", "SELECT v FROM n ORDER BY v DESC LIMIT 2, 100", "SELECT v FROM n ORDER BY v LIMIT -1 OFFSET 9",
    "SELECT count(*) FILTER (WHERE v > 4) FROM n", "SELECT g, count(*) FILTER (WHERE v % 2 = 0), count(*) FROM n GROUP BY g ORDER BY g",
    "SELECT count(DISTINCT g), count(g), sum(DISTINCT g) FROM n", "SELECT count(DISTINCT g) FILTER (WHERE v > 6) FROM n",
    "SELECT sum(v) FILTER (WHERE g = 2) FROM n", "SELECT max(v, g), min(v, 5) FROM n ORDER BY v", "SELECT group_concat(s, '-') FROM n WHERE v < 4",
    "SELECT count(*), count(s) FROM n", "SELECT DISTINCT g FROM n ORDER BY g", "SELECT ALL g FROM n ORDER BY g, v",
    "SELECT g AS grp, count(*) AS c FROM n GROUP BY g HAVING count(*) > 3 ORDER BY grp", "SELECT g, v % 2, count(*) FROM n GROUP BY g, v % 2 ORDER BY 1, 2",
    "SELECT v FROM n WHERE g = 1 UNION ALL SELECT v FROM n WHERE v < 3 ORDER BY v", "SELECT v FROM n WHERE g = 1 UNION SELECT v FROM n WHERE v < 6 ORDER BY v",
    "SELECT v FROM n WHERE g = 1 INTERSECT SELECT v FROM n WHERE v < 6 ORDER BY v", "SELECT v FROM n EXCEPT SELECT v FROM n WHERE g = 1 ORDER BY v DESC LIMIT 4",
    "WITH RECURSIVE r (i) AS (SELECT 1 UNION ALL SELECT i + 1 FROM r WHERE i < 5) SELECT i FROM r ORDER BY i",
    "WITH w (p, q) AS (SELECT v, g FROM n WHERE v > 8), z AS (SELECT 1 AS one) SELECT q, p, one FROM w, z ORDER BY p",
    "SELECT x.v, x.dbl FROM (SELECT v, v * 2 AS dbl FROM n WHERE g = 3) AS x ORDER BY x.v", "SELECT m.v FROM n AS m WHERE m.g = 2 ORDER BY m.v",
    "SELECT n.v, u.d FROM n JOIN u ON n.v = u.a ORDER BY n.v", "SELECT n.v, u.d FROM n LEFT JOIN u ON n.v = u.a WHERE n.v < 5 ORDER BY n.v",
    "SELECT t.a, u.d FROM t JOIN u USING (a) ORDER BY t.a", "SELECT a, d FROM t NATURAL JOIN u ORDER BY a", "SELECT count(*) FROM t CROSS JOIN u",
    "SELECT n.v, u.a, t.b FROM n JOIN u ON n.v = u.a LEFT JOIN t ON t.a = u.a ORDER BY n.v",
    "SELECT v FROM n INDEXED BY n_g WHERE g = 2 ORDER BY v", "SELECT v FROM n NOT INDEXED WHERE g = 2 ORDER BY v",
    "SELECT s FROM n ORDER BY s COLLATE NOCASE DESC, v", "SELECT g, v FROM n ORDER BY g NULLS FIRST, v DESC", "SELECT g, v FROM n ORDER BY g DESC NULLS LAST, v",
    "SELECT s FROM n ORDER BY s NULLS LAST", "SELECT v, (SELECT count(*) FROM n AS i WHERE i.g = n.g) FROM n ORDER BY v",
    "INSERT INTO k (w, c) VALUES ('p', 5), ('q', 6)", "INSERT INTO k (w) VALUES ('only')", "INSERT INTO k DEFAULT VALUES",
    "INSERT OR IGNORE INTO k (id, w, c) VALUES (1, 'dup', 9), (9, 'nine', 9)", "INSERT OR REPLACE INTO k (id, w, c) VALUES (1, 'rep', 9)",
    "REPLACE INTO k (id, w, c) VALUES (2, 'rep2', 8)", "INSERT INTO k (w, c) SELECT s, v FROM n WHERE v > 10",
    "INSERT INTO k (w, c) VALUES ('x', 10) ON CONFLICT (w) DO NOTHING", "INSERT INTO k (w, c) VALUES ('x', 10) ON CONFLICT DO NOTHING",
    "INSERT INTO k (w, c) VALUES ('x', 10), ('new', 1) ON CONFLICT (w) DO UPDATE SET c = c + excluded.c",
    "INSERT INTO k (w, c) VALUES ('x', 10), ('y', 20) ON CONFLICT (w) DO UPDATE SET c = excluded.c WHERE excluded.c > 15",
    "INSERT INTO k (w, c) VALUES ('r', 4) RETURNING id, w AS word, c * 2", "WITH src AS (SELECT 'cte' AS w) INSERT INTO k (w) SELECT w FROM src",
    "UPDATE n SET g = g + 10 WHERE v > 9", "UPDATE n SET g = 0, s = 'z' WHERE v IN (1, 2)", "UPDATE n SET (g, s) = (5, 'five') WHERE v = 5",
    "UPDATE OR IGNORE k SET w = 'x' WHERE id > 1", "UPDATE OR REPLACE k SET w = 'x' WHERE id = 3", "UPDATE n SET s = u.d FROM u WHERE u.a = n.v",
    "UPDATE k SET c = c * 2 WHERE id < 3 RETURNING id, c", "UPDATE n AS m SET g = 9 WHERE m.v = 3",
    "WITH big AS (SELECT v FROM n WHERE v > 10) UPDATE n SET g = -1 WHERE v IN (SELECT v FROM big)",
    "DELETE FROM n WHERE g = 2", "DELETE FROM k WHERE id = 2 RETURNING w, c", "DELETE FROM n", "DELETE FROM n AS m WHERE m.v > 6",
    "WITH big AS (SELECT v FROM n WHERE v > 10) DELETE FROM n WHERE v IN (SELECT v FROM big)",
]
KNOWN_FUNC = "SELECT \"My Func\"(1)"


def tree_to_coq(t):
    k = t["k"]
    if k == "bin":
        return "(EBin %s %s %s)" % (cstr(t["op"]), tree_to_coq(t["x"]), tree_to_coq(t["y"]))
    if k == "un":
        return "(EUn %s %s)" % (cstr(t["op"]), tree_to_coq(t["x"]))
    if k == "paren":
        return "(EParen %s)" % tree_to_coq(t["x"])
    if k == "col":
        return "(EAtom (ACol %s))" % vf.vN(bytes.fromhex(t["v"]))
    if k == "num":
        return "(EAtom (ANum %s))" % vf.vN(bytes.fromhex(t["v"]))
    if k == "str":
        return "(EAtom (AStr %s))" % vf.vN(bytes.fromhex(t["v"]))
    if k == "null":
        return "(EAtom ANull)"
    if k == "bool":
        return "(EAtom (ABool %s))" % ("true" if t["v"] == "true" else "false")
    return None


def has_other(t):
    if t["k"] == "other":
        return True
    return any(has_other(t[c]) for c in ("x", "y") if c in t)


def toks_to_coq(toks):
    return "[" + "; ".join("(%d, %s, %s)" % (k, vf.vN(bytes.fromhex(h)), "true" if q else "false") for k, h, q in toks) + "]"


def run(ck):
    quick = ck.tier == "quick"
    ck.cov["rule"] = ("expressions of the modelled fragment generated from the grammar atom | prefix e | e binop e | (e) with "
                      "random spacing/keyword case, quoted names incl. keywords, plus a malformed token soup; statements from "
                      "SELECT/INSERT/UPDATE/DELETE/WITH/UNION templates with generated WHERE conditions (IS/IN/BETWEEN/LIKE/"
                      "CASE/CAST/EXISTS/functions). distinct_nontrivial = distinct inputs the real parser accepts whose tree "
                      "has at least one operator")
    ck.assume("identifiers and strings in the model are ASCII (bytes >= 128: the model lexer says 'outside')",
              "tokPunct is never an operator spelling (isOp accepts both kinds; the punctuation texts ( ) , ; . are no operators)",
              "SQLite (modernc) executes the statement text it is given faithfully")
    ck.trusted("harness/C16/c16_test.go (in-package overlay, reflective AST dump without positions)",
               "props/C16.py regex translators (tier chain of expr.go, quotedKeywords of format.go), generators and comparison",
               "correspondence evaluated by vm_compute in a generated cases file")
    coq_ok = ck.coq_stage(GROUP, theorems=["C16_reparse", "C16_idempotent", "C16_wf_roundtrip", "C16_parse_wf",
                                           "C16_quote_string", "C16_quote_ident", "C16_tables_ok",
                                           "C16_old_keyword_refuted", "C16_old_minus_refuted",
                                           "C16_text_lex", "C16_reparse_text", "C16_parse_eok", "C16_statement_text",
                                           "C16_tbl2_ok", "C16_reparse2", "C16_roundtrip2"])

    ok, binp = vf.go_test_build(ck.work, "internal/sqlparse", {"internal/sqlparse/zz_verif_c16_test.go":
                                os.path.join(vf.HARNESS, "C16", "c16_test.go")}, "c16.test")
    if not ok:
        ck.violation("harness-build", "harness for internal/sqlparse does not build:\n" + binp[-1500:],
                     replay={"log": binp[-3000:]}, found_input=False)
        return

    rng = ck.rng
    ne, nm, ns, nx = (260, 80, 220, 120) if quick else (2500, 800, 2500, 1200)
    exprs = list(CORPUS_E) + CORPUS_E2 + [gen_expr(rng, rng.randint(1, 4)) for _ in range(ne)] + [gen_expr2(rng, rng.randint(1, 3)) for _ in range(ne // 2)]
    mal = [gen_malformed(rng) for _ in range(nm)]
    stmts = [(0, s) for s in CORPUS_S] + [(1, s) for s in CORPUS_S[:6]] + [(rng.choice([0, 0, 1]), gen_stmt(rng)) for _ in range(ns)]
    execs = list(CORPUS_X) + FIELD_X + [gen_stmt(rng) if rng.random() < 0.6 else gen_nstmt(rng) for _ in range(nx)]
    stmts += [(d, s) for s in FIELD_X for d in (0, 1)]
    known_probe = [(0, KNOWN_FUNC)]
    if ck.replay_file:
        rp = json.load(open(ck.replay_file))["replay"]
        exprs, mal = rp.get("exprs", []), []
        stmts = [tuple(x) for x in rp.get("stmts", [])]
        execs = rp.get("execs", [])
        known_probe = []
    exprs = list(dict.fromkeys(exprs))
    allE = exprs + mal
    inp, outp = os.path.join(ck.work, "in.txt"), os.path.join(ck.work, "out.txt")
    with open(inp, "w") as f:
        for e in allE:
            f.write("E %s\n" % (e.encode().hex() or "20"))
        for d, s in stmts + known_probe:
            f.write("S %d %s\n" % (d, s.encode().hex()))
        for s in execs:
            f.write("X %s\n" % s.encode().hex())
    rc, log = vf.run_bin(binp, "^TestVerifC16$", {"VERIF_IN": inp, "VERIF_OUT": outp})
    if rc != 0:
        ck.violation("harness-run", "harness failed:\n" + log[-1500:], replay={"log": log[-3000:]}, found_input=False)
        return
    res = [json.loads(l) for l in open(outp)]
    RE, RS, RX = res[:len(allE)], res[len(allE):len(allE) + len(stmts) + len(known_probe)], res[len(allE) + len(stmts) + len(known_probe):]
    hx = lambda h: bytes.fromhex(h or "").decode("utf8", "replace")

    # ---- property oracle on the implementation
    nontriv = set()
    found = False
    for e, r in zip(allE, RE):
        if r.get("panic"):
            ck.violation("panic", "sqlparse panicked on expression %r: %s" % (e, r["panic"]), replay={"exprs": [e]})
            found = True
            continue
        if not r.get("ok"):
            continue
        if '"op"' in json.dumps(r.get("tree")):
            nontriv.add(e)
        if not r.get("ok2") or r.get("dump") != r.get("dump2"):
            ck.violation("expr-reparse", "expression %r is reformatted to %r which %s" % (
                e, hx(r.get("fmt")), "does not parse" if not r.get("ok2") else "parses to a different tree"), replay={"exprs": [e]})
            found = True
        elif r.get("fmt") != r.get("fmt2"):
            ck.violation("expr-idempotent", "formatting %r twice gives %r then %r" % (e, hx(r.get("fmt")), hx(r.get("fmt2"))),
                         replay={"exprs": [e]})
            found = True
    for (d, s), r in zip(stmts + known_probe, RS):
        if r.get("panic"):
            ck.violation("panic", "sqlparse panicked on %r: %s" % (s, r["panic"]), replay={"stmts": [[d, s]]})
            found = True
            continue
        if not r.get("ok"):
            continue
        nontriv.add(s)
        sig = None
        if not r.get("ok2") or r.get("dump") != r.get("dump2"):
            sig = "stmt-reparse"
            if re.search(r'"[^"]*"\s*\(', s) and "FuncCall" in r.get("dump", ""):
                sig = "quoted-function-name"
            what = "statement %r (dialect %d) is reformatted to %r which %s" % (
                s, d, hx(r.get("fmt")), "does not parse" if not r.get("ok2") else "parses to a different tree")
        elif r.get("fmt") != r.get("fmt2"):
            sig, what = "stmt-idempotent", "formatting %r twice gives %r then %r" % (s, hx(r.get("fmt")), hx(r.get("fmt2")))
        if sig:
            ck.violation(sig, what, replay={"stmts": [[d, s]]})
            found = found or sig != "quoted-function-name"
    nexec = 0
    for s, r in zip(execs, RX):
        if not r.get("ok") or r.get("r1") == "error":
            continue
        nexec += 1
        if not r.get("same"):
            ck.violation("exec-differs", "on SQLite %r gives %s but its reformatted text %r gives %s (or leaves other table contents)" % (
                s, r.get("r1", "")[:200], hx(r.get("fmt")), r.get("r2", "")[:200]), replay={"execs": [s]})
            found = True
    ck.cov["evaluations"] = len(res)
    ck.cov["distinct_nontrivial"] = len(nontriv)
    ck.cov["input_distribution"] = {
        "expressions": len(exprs), "malformed_stream": len(mal),
        "expressions_accepted": sum(1 for r in RE if r.get("ok")),
        "statements": len(stmts), "statements_accepted": sum(1 for r in RS if r.get("ok")),
        "postgres_dialect": sum(1 for d, _ in stmts if d == 1),
        "executed_on_sqlite": nexec, "exec_generated": len(execs),
        "field_corpus_executed": sum(1 for s, r in zip(execs, RX) if s in FIELD_X and r.get("ok") and r.get("r1") != "error"),
        "field_corpus_size": len(FIELD_X)}
    ck.cov["input_distribution"]["field_corpus_not_executed"] = [s for s, r in zip(execs, RX) if s in FIELD_X and not (r.get("ok") and r.get("r1") != "error")][:20]
    for e, r in list(zip(allE, RE))[40:43]:
        ck.sample({"expr": e, "accepted": r.get("ok"), "formatted": hx(r.get("fmt"))})
    for (d, s), r in list(zip(stmts, RS))[25:28]:
        ck.sample({"stmt": s, "dialect": d, "accepted": r.get("ok"), "formatted": hx(r.get("fmt"))})

    # ---- translators + correspondence
    try:
        tiers = read_tiers(vf.REPO)
        quoted, used = read_keywords(vf.REPO)
    except Exception as ex:  # anchors gone
        ck.violation("translator", "cannot re-read the tier chain / keyword table from the source: %s" % ex,
                     replay={"error": str(ex)}, found_input=found)
        return
    ck.cov["input_distribution"]["tiers_from_source"] = ["%s:%s" % (k, " ".join(o)) for k, o in tiers]
    ck.cov["input_distribution"]["quoted_keywords"] = len(quoted)
    missing = [w for w in used if w not in quoted]
    if getattr(ck, "coq_broken", None):
        if not found:
            grp, log = ck.coq_broken
            ck.violation("proof-broken", "Coq development %s no longer checks:\n%s" % (grp, log[-1200:]),
                         replay={"broken": "coq/%s" % grp, "log": log[-3000:]}, found_input=False)
        return

    # which cases are inside the modelled fragment: real lexer succeeded, tree has no foreign node
    cases = []
    for e, r in zip(allE, RE):
        if not r.get("lexok") or any(ord(c) > 127 for c in e):
            continue
        toks = r["toks"]
        if any(k in (4, 5) for k, _, _ in toks):
            continue
        tree = r.get("tree")
        if r.get("ok") and (tree is None or has_other(tree)):
            continue
        cases.append((e, r))
    cases2 = []
    structured = set(exprs)        # the token pass of the second model places keywords by look-ahead only: it is compared on
    for e, r in zip(allE, RE):     # grammar-generated expressions, not on the malformed token soup
        if e not in structured or not r.get("lexok") or not r.get("ok") or any(ord(c) > 127 for c in e) or not r.get("lexok2"):
            continue
        if any(k in (4, 5) for k, _, _ in r["toks"]) or r.get("xtree") is None:
            continue
        t2 = xtree_to_coq(r["xtree"])
        if t2 is not None:
            cases2.append((e, r, t2))
    lines = ["From Common Require Import Base.", "From SqlFmt Require Import PrecClimb Model Model2.", "Open Scope N_scope.",
             "Definition gen_tbl : list (level sym) := %s." % coq_tbl(tiers),
             "Definition gen_kws : list str := [%s]." % "; ".join(cstr(w) for w in quoted),
             "Definition used_kws : list str := [%s]." % "; ".join(cstr(w) for w in used),
             "Definition cases : list (str * list stok * option (sexpr * str * list stok)) := ["]
    rows = []
    for e, r in cases:
        if r.get("ok"):
            rows.append("(%s, %s, Some (%s, %s, %s))" % (vf.vstr(e), toks_to_coq(r["toks"]), tree_to_coq(r["tree"]),
                                                       vf.vN(bytes.fromhex(r["fmt"])), toks_to_coq(r["toks2"] or [])))
        else:
            rows.append("(%s, %s, None)" % (vf.vstr(e), toks_to_coq(r["toks"])))
    lines.append(";\n".join(rows))
    lines.append("].\nDefinition cases2 : list (list stok * sexpr2 * list stok) := [")
    lines.append(";\n".join("(%s, %s, %s)" % (toks_to_coq(r["toks"]), t2, toks_to_coq(r["toks2"] or [])) for e, r, t2 in cases2))
    lines.append("""].
Fixpoint idx {A} (f : nat -> A -> list nat) (i : nat) (l : list A) : list nat :=
  match l with [] => [] | x :: r => f i x ++ idx f (S i) r end.
Definition one (b : bool) (i : nat) : list nat := if b then [] else [i].
(* model lexer on the input text = real tokens *)
Definition lexbad (i : nat) (c : str * list stok * option (sexpr * str * list stok)) : list nat :=
  match lex (fst (fst c)) with LOk ts => one (toks_eqb ts (snd (fst c))) i | LErr => [i] | LOut => [] end.
(* model parser on the real tokens = real tree / real refusal *)
Definition parsebad (i : nat) (c : str * list stok * option (sexpr * str * list stok)) : list nat :=
  match sparse gen_tbl (snd (fst c)), snd c with
  | Some a, Some (b, _, _) => one (sexpr_eqb a b) i
  | None, None => []
  | _, _ => [i]
  end.
(* model printer (text and tokens) on the real tree = real text, real tokens of the real text *)
Definition printbad (i : nat) (c : str * list stok * option (sexpr * str * list stok)) : list nat :=
  match snd c with
  | Some (b, txt, ts2) => one (str_eqb (render true gen_kws b) txt && toks_eqb (sprint gen_kws b) ts2) i
  | None => []
  end.
(* second model type: fuse + extended tiers + dec on the real tokens = real tree; print2 = real tokens of the real text *)
Definition parse2bad (i : nat) (c : list stok * sexpr2 * list stok) : list nat :=
  match parse2 (fst (fst c)) with Some a => one (sexpr2_eqb a (snd (fst c))) i | None => [i] end.
Definition print2bad (i : nat) (c : list stok * sexpr2 * list stok) : list nat :=
  one (toks_eqb (print2 gen_kws (snd (fst c))) (snd c) &&
       match parse2 (print2 gen_kws (snd (fst c))) with Some a => sexpr2_eqb a (snd (fst c)) | None => false end) i.
(* inside the model: the printed text lexes to the printed tokens, and they parse back to the tree *)
Definition modelbad (i : nat) (c : str * list stok * option (sexpr * str * list stok)) : list nat :=
  match snd c with
  | Some (b, _, _) =>
      match lex (render true gen_kws b) with
      | LOk ts => one (toks_eqb ts (sprint gen_kws b) &&
                       match sparse gen_tbl ts with Some a => sexpr_eqb a b | None => false end) i
      | _ => [i]
      end
  | None => []
  end.
""")
        # noqa
    exprs_q = {"obl": "one (wf_table str_eqb gen_tbl) 1%nat ++ one (covers gen_kws) 2%nat ++ "
                      "one (forallb (fun w => existsb (str_eqb w) gen_kws) used_kws) 3%nat",
               "same": "one (tbl_eqb gen_tbl sql_tbl) 1%nat ++ one (toks_eqb (List.map (fun w => (1, w, false)) gen_kws) "
                       "(List.map (fun w => (1, w, false)) kws_pinned)) 2%nat",
               "lexbad": "idx lexbad 0 cases", "parsebad": "idx parsebad 0 cases",
               "printbad": "idx printbad 0 cases", "modelbad": "idx modelbad 0 cases",
               "parse2bad": "idx parse2bad 0 cases2", "print2bad": "idx print2bad 0 cases2"}
    okc, out = vf.coq_eval(GROUP, ck.work, "cases", "\n".join(lines), exprs_q)
    ck.add_obligations(3, 0)
    if not okc:
        ck.violation("correspondence-eval", "model evaluation failed:\n" + str(out)[-1500:], replay={"log": str(out)[-3000:]},
                     found_input=found)
        return
    ck.cov["traces_validated_against_impl"] = len(cases)
    ck.cov["input_distribution"]["table_same_as_pinned"] = not out["same"]
    obl = out["obl"]
    ck.cov["discharged"] += 3 - len(obl)
    if 1 in obl:
        ck.violation("tier-table", "the tier chain of expr.go has an operator in two tiers (wf_table fails): %s" % tiers,
                     replay={"tiers": tiers}, found_input=found)
    if 2 in obl or 3 in obl:
        ck.violation("keyword-quoting", "format.go does not quote every word the parser treats as a keyword; missing: %s" % (
            missing or [w for w in KW_FRAGMENT if w not in quoted]), replay={"missing": missing}, found_input=found)
    for key, what in (("lexbad", "lexer"), ("parsebad", "expression parser"), ("printbad", "printer"),
                      ("modelbad", "model round trip (printed text -> tokens -> tree)")):
        for i in out[key][:3]:
            e, r = cases[i]
            ck.violation("corr-" + key, "model and implementation disagree (%s) on %r: real accepted=%s formatted=%r" % (
                what, e, r.get("ok"), hx(r.get("fmt"))), replay={"exprs": [e]}, found_input=found)
    ck.cov["input_distribution"]["second_model_cases"] = len(cases2)
    for key, what in (("parse2bad", "extended expression parser (IS/LIKE/BETWEEN/IN/calls)"), ("print2bad", "extended printer")):
        for i in out[key][:3]:
            e, r, _ = cases2[i]
            ck.violation("corr-" + key, "second model and implementation disagree (%s) on %r: real formatted=%r" % (
                what, e, hx(r.get("fmt"))), replay={"exprs": [e]}, found_input=found)
