//go:build verif

package tokenizer

// Overlaid into /repo/internal/language/tokenizer by /verif/check C07 (kernel correspondence).
//
// VERIF_IN lines -> VERIF_OUT lines (same order, one per input line), every call under recover():
//   T                      -> T <class ident> <class int> <class float> <class complex> <class special> ; then one line
//                             "C <adjacent 0|1> <result class>:<hex spelling> <src class>:<hex spelling> ..." per crush entry
//   L <hex src>            -> L skip | L panic | L raw <toks> | crushed <toks>       toks = class:hexspelling:line:pos,...
//                             raw = New(src,false).Tokens, crushed = New(src,true).Tokens; skip when isCode would
//                             change the text that is scanned (so that both scans see the same characters)
//   G n start end          -> G <panic|count> <panic|count>     GetTokenText(start,end) / GetTokens(start,end,false) word counts
//   K n tp off             -> K <panic|none|index>              Peek(off) with TokenP = tp (tokens are "t0".."tn-1")
//   D n tp start end       -> D <panic|err|ok> <tokens joined by ,> <TokenP>
//   I n tp pos k           -> I <panic|err|ok> <tokens joined by ,> <TokenP>
//   M <hex src> tp         -> M <panic|hex remainder>          Remainder() of New(src,false) with TokenP = tp; also reports positions

import (
	"bufio"
	"encoding/hex"
	"fmt"
	"os"
	"strconv"
	"strings"
	"testing"
)

func verifC07Toks(ts []Token) string {
	parts := []string{}
	for _, t := range ts {
		parts = append(parts, fmt.Sprintf("%d:%s:%d:%d", int(t.class), hex.EncodeToString([]byte(t.spelling)), t.line, t.pos))
	}

	if len(parts) == 0 {
		return "-"
	}

	return strings.Join(parts, ",")
}

func verifC07Mk(n int) *Tokenizer {
	t := &Tokenizer{Tokens: make([]Token, 0), Source: []string{}}
	for i := 0; i < n; i++ {
		t.Tokens = append(t.Tokens, NewIdentifierToken(fmt.Sprintf("t%d", i)))
	}

	return t
}

func verifC07Guard(f func() string) (s string) {
	defer func() {
		if r := recover(); r != nil {
			s = "panic"
		}
	}()

	return f()
}

func verifC07Words(s string) string {
	return strconv.Itoa(len(strings.Fields(s)))
}

func verifC07Names(t *Tokenizer) string {
	parts := []string{}
	for _, k := range t.Tokens {
		parts = append(parts, k.spelling)
	}

	return "[" + strings.Join(parts, ",") + "]"
}

func TestVerifC07Tok(t *testing.T) {
	in, err := os.Open(os.Getenv("VERIF_IN"))
	if err != nil {
		t.Fatal(err)
	}
	defer in.Close()

	out, err := os.Create(os.Getenv("VERIF_OUT"))
	if err != nil {
		t.Fatal(err)
	}
	defer out.Close()

	w := bufio.NewWriter(out)
	defer w.Flush()

	sc := bufio.NewScanner(in)
	sc.Buffer(make([]byte, 1<<22), 1<<22)

	atoi := func(s string) int { v, _ := strconv.Atoi(s); return v }

	for sc.Scan() {
		f := strings.Fields(sc.Text())
		if len(f) == 0 {
			continue
		}

		switch f[0] {
		case "T":
			fmt.Fprintf(w, "T %d %d %d %d %d\n", int(IdentifierTokenClass), int(IntegerTokenClass), int(FloatTokenClass), int(ComplexTokenClass), int(SpecialTokenClass))

			for _, c := range crushedTokens {
				adj := 0
				if c.adjacent {
					adj = 1
				}

				fmt.Fprintf(w, "C %d %d:%s", adj, int(c.result.class), hex.EncodeToString([]byte(c.result.spelling)))

				for _, s := range c.source {
					fmt.Fprintf(w, " %d:%s", int(s.class), hex.EncodeToString([]byte(s.spelling)))
				}

				fmt.Fprintln(w)
			}

			fmt.Fprintln(w, "E")

		case "L":
			b, _ := hex.DecodeString(f[1])
			src := string(b)

			fmt.Fprintln(w, "L "+verifC07Guard(func() string {
				if strings.Join(splitLines(src, true), "\n") != src || strings.Join(splitLines(src, false), "\n") != src {
					return "skip"
				}

				raw := New(src, false)
				cr := New(src, true)

				return "raw " + verifC07Toks(raw.Tokens) + " crushed " + verifC07Toks(cr.Tokens)
			}))

		case "G":
			n, a, b := atoi(f[1]), atoi(f[2]), atoi(f[3])
			r1 := verifC07Guard(func() string { return verifC07Words(verifC07Mk(n).GetTokenText(a, b)) })
			r2 := verifC07Guard(func() string { return verifC07Words(verifC07Mk(n).GetTokens(a, b, true)) })
			fmt.Fprintf(w, "G %s %s\n", r1, r2)

		case "K":
			n, tp, off := atoi(f[1]), atoi(f[2]), atoi(f[3])
			fmt.Fprintln(w, "K "+verifC07Guard(func() string {
				tk := verifC07Mk(n)
				tk.TokenP = tp
				p := tk.Peek(off)
				if p.Is(EndOfTokens) {
					return "none"
				}

				return strings.TrimPrefix(p.spelling, "t")
			}))

		case "D":
			n, tp, a, b := atoi(f[1]), atoi(f[2]), atoi(f[3]), atoi(f[4])
			fmt.Fprintln(w, "D "+verifC07Guard(func() string {
				tk := verifC07Mk(n)
				tk.TokenP = tp

				if err := tk.Delete(a, b); err != nil {
					return "err"
				}

				return fmt.Sprintf("ok %s %d", verifC07Names(tk), tk.TokenP)
			}))

		case "I":
			n, tp, pos, k := atoi(f[1]), atoi(f[2]), atoi(f[3]), atoi(f[4])
			fmt.Fprintln(w, "I "+verifC07Guard(func() string {
				tk := verifC07Mk(n)
				tk.TokenP = tp
				ins := []Token{}

				for i := 0; i < k; i++ {
					ins = append(ins, NewIdentifierToken(fmt.Sprintf("n%d", i)))
				}

				if err := tk.Insert(pos, ins...); err != nil {
					return "err"
				}

				return fmt.Sprintf("ok %s %d", verifC07Names(tk), tk.TokenP)
			}))

		case "M":
			b, _ := hex.DecodeString(f[1])
			tp := atoi(f[2])
			fmt.Fprintln(w, "M "+verifC07Guard(func() string {
				tk := New(string(b), false)
				tk.TokenP = tp
				poss := []string{}

				for _, k := range tk.Tokens {
					poss = append(poss, strconv.Itoa(int(k.pos)))
				}

				r := tk.Remainder()

				return fmt.Sprintf("%s %s %s", hex.EncodeToString([]byte(r))+"-", strings.Join(poss, ",")+"-", hex.EncodeToString([]byte(tk.GetSource())))
			}))
		}
	}
}
