//go:build verif

package tables

// Overlaid into /repo/internal/server/tables by /verif/check C18 (never written into /repo).
//
// TestVerifC18 reads VERIF_IN: {"cases":[{"id":n,"type":"int","value":<raw JSON>}...], "chains":[[case...]...]}.
// For every column type it creates a table  k string, v <type>  through the real TableCreate handler on a SQLite
// file reached through a DSN, inserts every case as one row through the real InsertRows handler (the request body
// is built textually, so the raw JSON spelling of the value is exactly what the client sent) and reads it back
// through the real ReadRows handler with a filter on k.  Output per case: insert status, read status, the raw JSON
// text of the value that came back, the SQLite cell, plus what parsing.CoerceToColumnType does with the decoded
// value directly.  Then every table is read once more WITHOUT a filter (all rows in one response; "all").
// A chain is one table name that is dropped (real DeleteTable) and created again with the next case's column type
// before that case's round trip ("chains").

import (
	"bytes"
	"database/sql"
	"encoding/json"
	"fmt"
	"net/http"
	"net/http/httptest"
	"net/url"
	"os"
	"path/filepath"
	"strings"
	"testing"

	"github.com/tucats/ego/internal/cli/settings"
	"github.com/tucats/ego/internal/defs"
	"github.com/tucats/ego/internal/router"
	"github.com/tucats/ego/internal/dsns"
	"github.com/tucats/ego/internal/server/tables/parsing"

	_ "modernc.org/sqlite"
)

type c18Case struct {
	ID    int             `json:"id"`
	Type  string          `json:"type"`
	Value json.RawMessage `json:"value"`
}

type c18Out struct {
	ID      int    `json:"id"`
	Insert  int    `json:"insert"`
	Read    int    `json:"read"`
	Rows    int    `json:"rows"`
	Back    string `json:"back"`    // raw JSON of the value read back ("" when none)
	Coerced string `json:"coerced"` // fmt %T:%v of CoerceToColumnType(decoded value), "error" on error
	Stored  string `json:"stored"`  // typeof(v)|quote(v) as SQLite itself reports the stored cell
	Err     string `json:"err"`
}

func c18Session(table string, params map[string][]string) *router.Session {
	u, _ := url.Parse("/dsns/c18/tables/" + table + "/rows")

	return &router.Session{ID: 1, User: "admin", Admin: true, URL: u,
		URLParts: map[string]any{"dsn": "c18", "table": table}, Parameters: params}
}

func TestVerifC18(t *testing.T) {
	raw, err := os.ReadFile(os.Getenv("VERIF_IN"))
	if err != nil {
		t.Fatal(err)
	}

	in := struct {
		Cases  []c18Case   `json:"cases"`
		Chains [][]c18Case `json:"chains"`
	}{}
	if err := json.Unmarshal(raw, &in); err != nil {
		t.Fatal(err)
	}

	dir := t.TempDir()
	dataFile := filepath.Join(dir, "c18-data.db")

	h, err := sql.Open("sqlite", dataFile)
	if err != nil {
		t.Fatal(err)
	}
	defer h.Close()

	if _, err := h.Exec("CREATE TABLE c18_probe (x INTEGER)"); err != nil {
		t.Fatal(err)
	}

	svc, err := dsns.NewFileService("memory")
	if err != nil {
		t.Fatal(err)
	}

	dsns.DSNService = svc

	if err := dsns.DSNService.WriteDSN(1, "admin", defs.DSN{Name: "c18", Provider: defs.SqliteProvider, Database: dataFile}); err != nil {
		t.Fatal(err)
	}

	original := settings.Get(defs.LogonUserdataSetting)
	settings.Set(defs.LogonUserdataSetting, "sqlite://"+filepath.Join(dir, "c18-perms.db"))

	defer settings.Set(defs.LogonUserdataSetting, original)

	outs := []c18Out{}
	created := map[string]string{}
	tableOf := map[string]string{}

	create := func(table, typ string) string {
		body, _ := json.Marshal([]defs.DBColumn{{Name: "k", Type: "string"}, {Name: "v", Type: typ}})
		u := "/dsns/c18/tables/" + table
		req, _ := http.NewRequest(http.MethodPut, u, bytes.NewReader(body))
		rr := httptest.NewRecorder()
		s := c18Session(table, map[string][]string{})
		s.URL, _ = url.Parse(u)

		if st := TableCreate(s, rr, req); st != http.StatusOK && st != http.StatusCreated {
			return fmt.Sprintf("create table %s: status %d: %s", table, st, rr.Body.String())
		}

		return ""
	}

	drop := func(table string) string {
		u := "/dsns/c18/tables/" + table
		req, _ := http.NewRequest(http.MethodDelete, u, nil)
		rr := httptest.NewRecorder()
		s := c18Session(table, map[string][]string{})
		s.URL, _ = url.Parse(u)

		if st := DeleteTable(s, rr, req); st != http.StatusOK {
			return fmt.Sprintf("drop table %s: status %d: %s", table, st, rr.Body.String())
		}

		return ""
	}

	// one row written through InsertRows and read back through ReadRows with a filter on its key
	roundTrip := func(table string, c c18Case) c18Out {
		o := c18Out{ID: c.ID}
		key := fmt.Sprintf("case%d", c.ID)

		// write
		body := fmt.Sprintf(`{"rows":[{"k":%q,"v":%s}]}`, key, string(c.Value))
		req, _ := http.NewRequest(http.MethodPut, "/dsns/c18/tables/"+table+"/rows", strings.NewReader(body))
		rr := httptest.NewRecorder()
		o.Insert = InsertRows(c18Session(table, map[string][]string{}), rr, req)

		if o.Insert != http.StatusOK {
			o.Err = strings.TrimSpace(rr.Body.String())
		}

		// what SQLite holds
		var typ, quoted sql.NullString
		if err := h.QueryRow(fmt.Sprintf(`SELECT typeof(v), quote(v) FROM %q WHERE k = ?`, table), key).Scan(&typ, &quoted); err == nil {
			o.Stored = typ.String + "|" + quoted.String
		}

		// read
		req, _ = http.NewRequest(http.MethodGet, "/dsns/c18/tables/"+table+"/rows?filter="+url.QueryEscape(fmt.Sprintf(`EQ(k,"%s")`, key)), nil)
		rr = httptest.NewRecorder()
		s := c18Session(table, map[string][]string{"filter": {fmt.Sprintf(`EQ(k,"%s")`, key)}})
		s.URL = req.URL
		o.Read = ReadRows(s, rr, req)

		resp := struct {
			Rows []map[string]json.RawMessage `json:"rows"`
		}{}

		if err := json.Unmarshal(rr.Body.Bytes(), &resp); err == nil {
			o.Rows = len(resp.Rows)
			if len(resp.Rows) == 1 {
				o.Back = string(resp.Rows[0]["v"])
			}
		} else if o.Err == "" {
			o.Err = "read: " + strings.TrimSpace(rr.Body.String())
		}

		// the write-side coercion on its own, as the handler calls it
		var decoded any
		if err := json.Unmarshal(c.Value, &decoded); err == nil && decoded != nil {
			v, err := parsing.CoerceToColumnType("v", decoded, []defs.DBColumn{{Name: "k", Type: "string"}, {Name: "v", Type: c.Type}})
			if err != nil {
				o.Coerced = "error"
			} else {
				o.Coerced = fmt.Sprintf("%T:%v", v, v)
			}
		}

		return o
	}

	for _, c := range in.Cases {
		table := "c18_" + strings.ReplaceAll(c.Type, " ", "_")
		tableOf[c.Type] = table

		if _, done := created[c.Type]; !done {
			created[c.Type] = create(table, c.Type)
		}

		if msg := created[c.Type]; msg != "" {
			outs = append(outs, c18Out{ID: c.ID, Err: msg})

			continue
		}

		outs = append(outs, roundTrip(table, c))
	}

	// every table once more, all rows in ONE response (no filter): key -> raw JSON of v
	all := map[string]map[string]string{}
	allErr := map[string]string{}

	for typ, table := range tableOf {
		if created[typ] != "" {
			continue
		}

		req, _ := http.NewRequest(http.MethodGet, "/dsns/c18/tables/"+table+"/rows?limit=1000000", nil)
		rr := httptest.NewRecorder()
		s := c18Session(table, map[string][]string{"limit": {"1000000"}})
		s.URL = req.URL
		st := ReadRows(s, rr, req)

		resp := struct {
			Rows []map[string]json.RawMessage `json:"rows"`
		}{}

		if err := json.Unmarshal(rr.Body.Bytes(), &resp); err != nil || st != http.StatusOK {
			body := rr.Body.String()
			if len(body) > 400 {
				body = body[:400]
			}

			allErr[typ] = fmt.Sprintf("status %d, %v: %s", st, err, body)

			continue
		}

		m := map[string]string{}

		for _, row := range resp.Rows {
			var k string

			_ = json.Unmarshal(row["k"], &k)
			m[k] = string(row["v"])
		}

		all[typ] = m
	}

	// chains: the same table name dropped and created again with another column type between round trips
	chainOuts := [][]c18Out{}

	for ci, chain := range in.Chains {
		table := fmt.Sprintf("c18_chain%d", ci)
		res := []c18Out{}

		for si, c := range chain {
			if si > 0 {
				if msg := drop(table); msg != "" {
					res = append(res, c18Out{ID: c.ID, Err: msg})

					break
				}
			}

			if msg := create(table, c.Type); msg != "" {
				res = append(res, c18Out{ID: c.ID, Err: msg})

				break
			}

			res = append(res, roundTrip(table, c))
		}

		chainOuts = append(chainOuts, res)
	}

	b, _ := json.Marshal(map[string]any{"cases": outs, "all": all, "all_err": allErr, "chains": chainOuts})
	if err := os.WriteFile(os.Getenv("VERIF_OUT"), b, 0o644); err != nil {
		t.Fatal(err)
	}
}
