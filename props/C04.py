"""C04 Strict-mode programs mean the same under relaxed typing."""
import json
import os
import vf
import arith_util as au

GROUP = "Arith"
META = {
    "group": "Arith",
    "technique": "Coq proof, over the Arith model, that at every mode-dependent boundary (expression, assignment, argument, "
                 "return, fused Increment) a result accepted by strict mode is the result relaxed mode computes + a "
                 "translator that lists every read of the type-strictness setting in bytecode/*.go and an obligation that "
                 "each is classified + vm_compute correspondence of the boundaries with the real code + differential runs "
                 "of the real binary --types strict vs relaxed",
    "text": "Per boundary (C04_binop_partial, C04_compare_partial, C04_store_partial, C04_argument_partial, C04_return_partial, "
            "C04_increment_partial, C04_statement_forms_partial, C04_boundaries_partial), for all values (integer kinds, float64 "
            "values that are integers, bool, string), constness and operators incl. the six comparison opcodes in stack and "
            "operand-constant form: strict ... = Ok v -> relaxed ... = Ok v; C04_float_literal_partial: an integral float literal "
            "meeting an integer adapts in every mode. Program level: C04_program_partial / C04_program_state_partial, by induction "
            "over the instruction list from the boundary theorems: every forward-branching program over Push, Load, "
            "Add/Sub/Mul/Div/Modulo, the comparisons, Negate, Store, Increment, argument and return coercion, print, "
            "BranchFalse/BranchTrue/Jump that finishes under strict typing finishes under relaxed typing with the same output and "
            "the same final state (the invariant 'integers stay wrapped to their kind' is proved along the run). Every function of "
            "internal/language/bytecode that reads the type-strictness setting is regenerated from the source on each run and must "
            "be classified in coq/Arith/Sites.v (19 modelled incl. comparisons and branch conditions / 8 same in strict and relaxed "
            "/ 1 strict only adds a rejection / 5 observed only). Boundaries, comparisons and whole model programs (real ego stdout "
            "vs run of the program model, both modes) are compared with the real code on every run; the implication is evaluated "
            "on the real outputs; generated strict-clean programs (random typed arithmetic, int/float-literal mixes, aliasing "
            "through return/argument/store) run under both modes at several -o levels. "
            "partial: loops (backward branches), calls with their own frames, arrays/maps/structs/pointers, array constants, "
            "struct members, non-integral float and complex values are outside the program model and covered by the "
            "differential runs only; the compiler's emission for the modelled statements is tied by the program "
            "correspondence at -o 0, not proved",
    "note": "Trusted: Coq kernel; coq/Arith/Model.v (tied by the correspondence), the classification in coq/Arith/Sites.v "
            "(argued in docs/C04.md), the regex translator lib/arith_util.strictness_sites, harness/C03/c03_test.go, the "
            "program generator in props/C04.py.",
}


CMPS = ["eq", "ne", "lt", "le", "gt", "ge"]
COQCMP = {"eq": "CEq", "ne": "CNe", "lt": "CLt", "le": "CLe", "gt": "CGt", "ge": "CGe"}
GOCMP = {"eq": "==", "ne": "!=", "lt": "<", "le": "<=", "gt": ">", "ge": ">="}


def gen_lines(ck, quick):
    rng = ck.rng
    L = []
    n = [0]

    def add(kind, *f):
        n[0] += 1
        L.append("%s %d %s" % (kind, n[0], " ".join(f)))

    bnd = {k: au.boundary(k, rng, 2) for k in au.IK}
    others = [("bool", True), ("bool", False), ("string", ""), ("string", "ab"), ("string", "7")]
    reps = 1 if quick else 3
    # every case is emitted for strict and relaxed (and dynamic for the correspondence) with identical operands
    for k in au.IK:
        for kv in au.IK:
            for c in (0, 1):
                for _ in range(reps):
                    v = au.hv((kv, c, rng.choice(bnd[kv])))
                    ex = au.hv((k, 0, rng.choice(bnd[k])))
                    for mode in au.MODES:
                        add("S", mode, ex, v)
                        add("A", mode, k, v)
                        add("R", mode, k, v)
        for (ko, po) in others:
            c = rng.randint(0, 1)
            for mode in au.MODES:
                add("S", mode, au.hv((k, 0, 1)), au.hv((ko, c, po)))
                add("A", mode, k, au.hv((ko, c, po)))
                add("R", mode, k, au.hv((ko, c, po)))
                v = au.hv((k, c, rng.choice(bnd[k])))
                add("S", mode, au.hv((ko, 0, po)), v)
                add("A", mode, ko, v)
                add("R", mode, ko, v)
    for op in au.OPS:
        for k1 in au.IK:
            for k2 in au.IK:
                for c1 in (0, 1):
                    for c2 in (0, 1):
                        a, b = rng.choice(bnd[k1]), rng.choice(bnd[k2])
                        for mode in ("strict", "relaxed"):
                            add("B", mode, op, au.hv((k1, c1, a)), au.hv((k2, c2, b)))
        for (ko, po) in others:
            for k in au.IK + ["bool", "string"]:
                v = (k, rng.randint(0, 1), rng.choice(bnd[k]) if k in au.BITS else (True if k == "bool" else "q"))
                for mode in ("strict", "relaxed"):
                    add("B", mode, op, au.hv((ko, rng.randint(0, 1), po)), au.hv(v))
    for k in au.IK:
        for ks in au.IK:
            for cs in (0, 1):
                v, s = au.hv((k, 0, rng.choice(bnd[k]))), au.hv((ks, cs, rng.choice(bnd[ks])))
                for mode in ("strict", "relaxed"):
                    add("I", mode, v, s)
    # float64 values that are integers (the only float literals strict lets meet an integer) against every integer kind,
    # either side, either constness, at every boundary
    fl = [0, 1, 2, 3, 4, 7, -1, -2, 100, 300, 70000, 1 << 31, 1 << 53, 10 ** 15]
    for k in au.IK:
        for cf in (0, 1):
            for ci in (0, 1):
                for op in au.OPS:
                    a = au.hv((k, ci, rng.choice(bnd[k])))
                    f = au.hv(("float64", cf, rng.choice(fl)))
                    for mode in ("strict", "relaxed"):
                        add("B", mode, op, a, f)
                        add("B", mode, op, f, a)
            f = au.hv(("float64", cf, rng.choice(fl)))
            v = au.hv((k, cf, rng.choice(bnd[k])))
            for mode in au.MODES:
                add("S", mode, au.hv((k, 0, 1)), f)
                add("S", mode, "float64:0:1", v)
                add("A", mode, k, f)
                add("A", mode, "float64", v)
                add("R", mode, k, f)
                add("R", mode, "float64", v)
            for mode in ("strict", "relaxed"):
                add("I", mode, au.hv((k, 0, rng.choice(bnd[k]))), f)
                add("I", mode, "float64:0:%d" % rng.choice(fl), v)
    # the six comparison opcodes, stack form and operand-constant form
    for op in CMPS:
        for k1 in au.IK:
            for k2 in au.IK:
                c1, c2 = rng.randint(0, 1), rng.randint(0, 1)
                a = rng.choice(bnd[k1])
                b = a if (rng.random() < 0.4 and au.in_range(k2, a)) else rng.choice(bnd[k2])
                kform = ["k"] if (c2 and rng.random() < 0.6) else []
                for mode in ("strict", "relaxed"):
                    add("C", mode, op, au.hv((k1, c1, a)), au.hv((k2, c2, b)), *kform)
        for (ko, po) in others + [("float64", 2), ("float64", -1)]:
            for k in au.IK + ["bool", "string", "float64"]:
                if k in au.BITS:
                    v = (k, rng.randint(0, 1), rng.choice([2, 1, 0, rng.choice(bnd[k])]))
                else:
                    v = (k, rng.randint(0, 1), True if k == "bool" else "ab" if k == "string" else 2)
                o = (ko, rng.randint(0, 1), po)
                x, y = (o, v) if rng.random() < 0.5 else (v, o)
                for mode in ("strict", "relaxed"):
                    add("C", mode, op, au.hv(x), au.hv(y))
    add("B", "strict", "div", "int:0:7", "float64:1:2")
    add("B", "relaxed", "div", "int:0:7", "float64:1:2")
    return L


def case_of(line):
    f = line.split()
    t = f[0]
    c = {"line": line, "id": f[1], "t": t, "mode": f[2], "model": None, "key": " ".join([t] + f[3:])}
    if t == "B":
        v1, v2 = au.parse_hv(f[4]), au.parse_hv(f[5])
        if au.modelled(v1) and au.modelled(v2):
            c["model"] = "binop %s %s %s %s" % (au.COQM[f[2]], au.COQOP[f[3]], au.coq_vc(v1), au.coq_vc(v2))
    elif t == "C":
        v1, v2 = au.parse_hv(f[4]), au.parse_hv(f[5])
        if au.modelled(v1) and au.modelled(v2):
            c["model"] = "compare_op %s %s %s %s" % (au.COQM[f[2]], COQCMP[f[3]], au.coq_vc(v1), au.coq_vc(v2))
    elif t == "I":
        v, s = au.parse_hv(f[3]), au.parse_hv(f[4])
        c["model"] = "increment cfg_now %s %s %s" % (au.COQM[f[2]], au.coq_val(v), au.coq_vc(s))
    elif t == "S":
        ex, v = au.parse_hv(f[3]), au.parse_hv(f[4])
        c["model"] = "store %s %s %s" % (au.COQM[f[2]], au.coq_val(ex), au.coq_vc(v))
    elif t in ("A", "R"):
        v = au.parse_hv(f[4])
        c["model"] = "%s %s %s %s" % ("argument" if t == "A" else "retval", au.COQM[f[2]], au.coq_kind(f[3]), au.coq_vc(v))
    return c


# ------------------------------------------------------------------ strict-clean program generator
def lit(rng, k, small=False):
    hi = min(au.kmax(k), 120 if small else (1 << 62))
    lo = max(au.kmin(k), -120 if small else -(1 << 62))
    v = rng.choice([0, 1, 2, 3, 7, hi, lo, rng.randint(lo, hi)])
    return v


def gen_program(rng):
    kinds = rng.sample(au.IK, 4) + rng.sample(["float64", "string", "bool"], 2)
    out = ["package main", 'import "fmt"']
    funcs = []
    for i, k in enumerate([k for k in kinds if k in au.BITS][:3]):
        op = rng.choice(["+", "-", "*"])
        body = rng.choice(["return a %s b" % op, "return a %s %d" % (op, rng.randint(1, 9)), "c := a %s b\n    return c" % op,
                           "return %d" % lit(rng, k, True)])
        out.append("func f%d(a %s, b %s) %s {\n    %s\n}" % (i, k, k, k, body))
        funcs.append((i, k))
    out.append("func main() {")
    vars_ = []
    for i, k in enumerate(kinds):
        name = "v%d" % i
        if k in au.BITS:
            out.append("    var %s %s = %d" % (name, k, lit(rng, k)))
        elif k == "float64":
            out.append("    var %s float64 = %s" % (name, rng.choice(["1.5", "0.25", "100.0", "3"])))
        elif k == "string":
            out.append('    var %s string = "%s"' % (name, rng.choice(["a", "", "xyz"])))
        else:
            out.append("    var %s bool = %s" % (name, rng.choice(["true", "false"])))
        vars_.append((name, k))
    ints = [(n, k) for n, k in vars_ if k in au.BITS]
    for _ in range(rng.randint(6, 14)):
        n, k = rng.choice(vars_)
        r = rng.random()
        if k in au.BITS:
            c = lit(rng, k, True) if rng.random() < 0.9 else lit(rng, "int64")      # sometimes not representable: strict rejects
            c = abs(c) if k not in au.SIGNED else c
            cs = "%d" % c if c >= 0 else "(%d)" % c
            if r < 0.15:
                out.append("    %s%s" % (n, rng.choice(["++", "--"])))
            elif r < 0.35:
                out.append("    %s %s %s" % (n, rng.choice(["+=", "-=", "*="]), cs))
            elif r < 0.5:
                out.append("    %s = %s %s %s" % (n, n, rng.choice(["+", "-", "*"]), cs))
            elif r < 0.6:
                out.append("    %s = %s %s %d" % (n, n, rng.choice(["/", "%"]), abs(c) + 1 if abs(c) + 1 <= au.kmax(k) else 1))
            elif r < 0.7:
                same = [x for x in ints if x[1] == k]
                o = rng.choice(same)[0]
                out.append("    %s = %s %s %s" % (n, n, rng.choice(["+", "-", "*"]), o))
            elif r < 0.8 and funcs:
                fi, fk = rng.choice(funcs)
                tgt = [x for x in ints if x[1] == fk]
                if tgt:
                    t = rng.choice(tgt)[0]
                    out.append("    %s = f%d(%s, %s)" % (t, fi, t, rng.choice([t, "%d" % abs(lit(rng, fk, True))])))
            elif r < 0.9:
                out.append("    if %s %s %s {\n        fmt.Println(\"c\", %s)\n    }" % (n, rng.choice(["<", ">", "==", "!=", "<=", ">="]), cs, n))
            elif r < 0.95:
                out.append("    for i := 0; i < 3; i++ {\n        %s += %d\n    }" % (n, abs(lit(rng, k, True)) % 5))
            else:
                out.append("    %s = -%s" % (n, n))
        elif k == "float64":
            out.append(rng.choice(["    %s = %s * 2", "    %s += 1", "    %s = %s / 4", "    %s++", "    %s = %s - 0.5"]).replace("%s", n))
        elif k == "string":
            out.append(rng.choice(['    %s = %s + "b"', '    %s += "c"', '    if %s == "a" {\n        fmt.Println("eq")\n    }']).replace("%s", n))
        else:
            out.append(rng.choice(["    %s = !%s", "    if %s {\n        fmt.Println(\"yes\")\n    }", "    %s = %s && true"]).replace("%s", n))
        if rng.random() < 0.3:
            out.append('    fmt.Printf("%%T %%v\\n", %s, %s)' % (n, n))
    for n, k in vars_:
        out.append('    fmt.Printf("%s %%T %%v\\n", %s, %s)' % (n, n, n))
    out.append("}")
    return "\n".join(out) + "\n"


def gen_mixed_program(rng):
    """strict-clean arithmetic mixing integer variables with integral float literals and float variables with
    integer literals, in every operator and on both sides, printing %T %v of every result"""
    out = ["package main", 'import "fmt"']
    ks = rng.sample(au.IK, 3)
    for i, k in enumerate(ks):
        out.append("func h%d(a %s) %s {\n    return a %s %d.0\n}" % (i, k, k, rng.choice("+-*/"), rng.choice([1, 2, 3, 4])))
    out.append("func main() {")
    n = 0
    for i, k in enumerate(ks):
        v = rng.choice([7, 9, 15, 101, min(au.kmax(k), 12345)])
        out.append("    var n%d %s = %d" % (i, k, v))
        for op in "+-*/":
            lit = "%d.0" % rng.choice([2, 3, 4, 7])
            for e in ("n%d %s %s" % (i, op, lit), "%s %s n%d" % (lit, op, i)):
                n += 1
                out.append("    q%d := %s" % (n, e))
                out.append('    fmt.Printf("q%d %%T %%v\\n", q%d, q%d)' % (n, n, n))
        out.append("    n%d %s= %d.0" % (i, rng.choice("+-*/"), rng.choice([2, 3, 4])))
        out.append("    n%d = n%d %s %d.0" % (i, i, rng.choice("+-*/"), rng.choice([2, 3])))
        out.append("    n%d = h%d(n%d)" % (i, i, i))
        out.append("    n%d = h%d(%d.0)" % (i, i, rng.choice([3, 5, 8])))
        out.append("    n%d = n%d + 3.0" % (i, i))
        out.append('    fmt.Printf("n%d %%T %%v\\n", n%d, n%d)' % (i, i, i))
    for i, k in enumerate(("float64", "float32")):
        out.append("    var f%d %s = %s" % (i, k, rng.choice(["7.5", "0.25", "10.0", "3"])))
        for op in "+-*/":
            for e in ("f%d %s %d" % (i, op, rng.choice([2, 3, 4])), "%d %s f%d" % (rng.choice([2, 3, 5]), op, i)):
                n += 1
                out.append("    q%d := %s" % (n, e))
                out.append('    fmt.Printf("q%d %%T %%v\\n", q%d, q%d)' % (n, n, n))
        out.append("    f%d %s= %d" % (i, rng.choice("+-*/"), rng.choice([2, 4])))
        out.append('    fmt.Printf("f%d %%T %%v\\n", f%d, f%d)' % (i, i, i))
    out.append("}")
    return "\n".join(out) + "\n"


ELEMS = [("int", ["1", "2", "3"], "50", "9"), ("float64", ["1.5", "2.5", "3.5"], "9.5", "0.25"),
         ("string", ['"a"', '"b"', '"c"'], '"zz"', '"q"'), ("bool", ["true", "false", "true"], "false", "true"),
         ("int32", ["1", "2", "3"], "int32(50)", "int32(9)"), ("byte", ["1", "2", "3"], "byte(50)", "byte(9)"),
         ("int64", ["1", "2", "3"], "int64(50)", "int64(9)"), ("float32", ["1.5", "2.5", "3.5"], "float32(9.5)", "float32(0.25)")]


def gen_alias_program(rng, which):
    """aliasing-sensitive: obtain a value through a coercion boundary (return, argument, store), write through one
    name, read through the other. which = index into ELEMS, or 'map' / 'struct'."""
    out = ["package main", 'import "fmt"']
    if which == "map":
        out += ["func idm(mm map[string]int) map[string]int {\n    return mm\n}",
                "func setm(mm map[string]int) {\n    mm[\"z\"] = 26\n}", "func main() {",
                '    m := map[string]int{"a": 1}', "    gm := idm(m)", '    gm["b"] = %d' % rng.randint(2, 9),
                '    fmt.Println("r1", len(m), m["b"])', "    setm(m)", '    fmt.Println("r2", len(m), m["z"])',
                "    var m2 map[string]int", "    m2 = m", '    m2["c"] = 3', '    fmt.Println("r3", len(m), m["c"])',
                "    m3 := m", '    m["d"] = 4', '    fmt.Println("r4", len(m3), m3["d"])', "}"]
        return "\n".join(out) + "\n"
    if which == "struct":
        out += ["type Point struct {\n    x int\n    tags []string\n}", "func bump(q Point) Point {\n    q.x = 9\n    return q\n}",
                "func bumpp(q *Point) {\n    q.x = 5\n}", "func idp(q *Point) *Point {\n    return q\n}",
                "func tags(q Point) []string {\n    return q.tags\n}", "func main() {",
                '    p := Point{x: 1, tags: []string{"a", "b"}}', "    q := bump(p)", '    fmt.Println("r1", p.x, q.x)',
                "    bumpp(&p)", '    fmt.Println("r2", p.x)', "    pp := idp(&p)", "    pp.x = %d" % rng.randint(6, 60),
                '    fmt.Println("r3", p.x)', "    r := p", "    r.x = 100", '    fmt.Println("r4", p.x, r.x)',
                '    r.tags[0] = "shared"', '    fmt.Println("r5", p.tags, r.tags)', "    t := tags(p)", '    t[1] = "viaret"',
                '    fmt.Println("r6", p.tags, t)', "}"]
        return "\n".join(out) + "\n"
    T, init, X, Y = ELEMS[which]
    lit = "[]%s{%s}" % (T, ", ".join(init))
    out += ["var table []%s = %s" % (T, lit), "func lookup() []%s {\n    return table\n}" % T,
            "func same(a []%s) []%s {\n    return a\n}" % (T, T), "func set(a []%s) {\n    a[0] = %s\n}" % (T, X),
            "type Box struct {\n    items []%s\n}" % T, "func (b *Box) Items() []%s {\n    return b.items\n}" % T, "func main() {"]
    blocks = [
        ["    g := lookup()", "    g[1] = %s" % X, '    fmt.Println("ret1", table, g)', "    table[2] = %s" % Y, '    fmt.Println("ret2", table, g)'],
        ["    f := %s" % lit, "    h := same(f)", "    h[0] = %s" % X, '    fmt.Println("arg-ret1", f, h)', "    f[2] = %s" % Y,
         '    fmt.Println("arg-ret2", f, h)', "    set(f)", '    fmt.Println("arg", f, h)'],
        ["    s0 := %s" % lit, "    var c []%s" % T, "    c = s0", "    c[1] = %s" % Y, '    fmt.Println("store1", s0, c)', "    d := s0",
         "    d[2] = %s" % X, '    fmt.Println("store2", s0, d)'],
        ["    bx := Box{items: %s}" % lit, "    it := bx.Items()", "    it[0] = %s" % X, '    fmt.Println("method", bx.items, it)'],
    ]
    rng.shuffle(blocks)
    for b in blocks:
        out += b
    out.append("}")
    return "\n".join(out) + "\n"


def gen_model_program(rng):
    """A program inside the fragment of coq/Arith/Prog.v, as Ego source AND as the instruction list the compiler
    emits for it at -o 0 (Load/Push/op/Store, Push+compare, BranchFalse/Jump). Returns (text, coq instr list, coq state)."""
    ks = [rng.choice(au.IK) for _ in range(3)]
    if rng.random() < 0.6:
        ks[1] = ks[0]
    init = [rng.choice([0, 1, 5, 100, au.kmax(k) if au.kmax(k) < (1 << 63) else 7, au.kmin(k)]) for k in ks]
    src = ["package main", 'import "fmt"', "func main() {"]
    for i, (k, v) in enumerate(zip(ks, init)):
        src.append("    var v%d %s = %d" % (i, k, v))
    ins = []
    binop = {"+": "Add", "-": "Sub", "*": "Mul", "/": "Div", "%": "Mod"}

    def push(k):
        return "IPush (VInt Int (%d)) true" % k

    def pr(i):
        return ['    fmt.Printf("%%T %%v\\n", v%d, v%d)' % (i, i)], ["ILoad %d" % i, "IPrint"]

    for _ in range(rng.randint(5, 10)):
        x, y = rng.randrange(3), rng.randrange(3)
        k = rng.choice([1, 2, 3, 7, 100, 300, 70000]) if rng.random() < 0.8 else rng.choice([1 << 31, 1 << 40])
        r = rng.random()
        if r < 0.3:
            op = rng.choice("+-*/%")
            src.append("    v%d = v%d %s %d" % (x, y, op, k))
            ins += ["ILoad %d" % y, push(k), "IBin %s" % binop[op], "IStore %d" % x]
        elif r < 0.45:
            op = rng.choice("+-*/")
            src.append("    v%d %s= %d" % (x, op, k))
            ins += ["ILoad %d" % x, push(k), "IBin %s" % binop[op], "IStore %d" % x]
        elif r < 0.55:
            op = rng.choice(["++", "--"])
            src.append("    v%d%s" % (x, op))
            ins += ["ILoad %d" % x, push(1), "IBin %s" % ("Add" if op == "++" else "Sub"), "IStore %d" % x]
        elif r < 0.62:
            src.append("    v%d = v%d" % (x, y))
            ins += ["ILoad %d" % y, "IStore %d" % x]
        elif r < 0.7:
            src.append("    v%d = %d" % (x, k))
            ins += [push(k), "IStore %d" % x]
        elif r < 0.78:
            op = rng.choice("+-*")
            src.append("    v%d = v%d %s v%d" % (x, x, op, y))
            ins += ["ILoad %d" % x, "ILoad %d" % y, "IBin %s" % binop[op], "IStore %d" % x]
        else:
            cm = rng.choice(CMPS)
            (s1, i1), (s2, i2) = pr(x), pr(y)
            if rng.random() < 0.5:
                src.append("    if v%d %s %d {" % (x, GOCMP[cm], k))
                cond = ["ILoad %d" % x, push(k), "ICmp %s" % COQCMP[cm]]
            else:
                src.append("    if v%d %s v%d {" % (x, GOCMP[cm], y))
                cond = ["ILoad %d" % x, "ILoad %d" % y, "ICmp %s" % COQCMP[cm]]
            src += ["    " + l for l in s1] + ["    } else {"] + ["    " + l for l in s2] + ["    }"]
            ins += cond + ["IBranchFalse %d" % (len(i1) + 1)] + i1 + ["IJump %d" % len(i2)] + i2
        if rng.random() < 0.4:
            s1, i1 = pr(x)
            src += s1
            ins += i1
    for i in range(3):
        s1, i1 = pr(i)
        src += s1
        ins += i1
    src.append("}")
    state = "{| stack := []; vars := [%s]; out := []; skip := 0%%nat |}" % "; ".join(
        "VInt %s (%d)" % (au.COQK[k], v) for k, v in zip(ks, init))
    return "\n".join(src) + "\n", "[" + "; ".join(ins) + "]", state


def parse_printed(out):
    """lines '<type> <value>' printed by fmt.Printf("%T %v") -> Coq list of values, or None if not all integer kinds"""
    vals = []
    for line in out.splitlines():
        f = line.split()
        if len(f) != 2 or f[0] not in au.BITS:
            return None
        vals.append("VInt %s (%d)" % (au.COQK[f[0]], int(f[1])))
    return "[" + "; ".join(vals) + "]"


def run_ego(ck, ego, path, mode, opt):
    for attempt in range(3):
        try:
            return vf.sh([ego, "run", "--types", mode, "-o", str(opt), path], cwd=ck.work, env=vf.ego_env(ck.work), timeout=120)
        except OSError:                     # binary being replaced by a concurrent build of the same tree
            import time
            time.sleep(2)
            vf.build_ego()
    return 1, "Error: could not start ego"


def coq_compare_prog(ck, exprs):
    prelude = ("From Coq Require Import ZArith List.\nFrom Common Require Import Base.\nFrom Arith Require Import Model Prog.\n"
               "Import ListNotations.\nOpen Scope Z_scope.\nDefinition allc : list Z := Eval vm_compute in [\n%s\n].\n" % ";\n".join(exprs))
    ok, res = vf.coq_eval(GROUP, ck.work, "progs", prelude, {"bad": "idx_where 1 0 allc", "oom": "idx_where 2 0 allc"})
    if not ok:
        return False, res, None
    return True, res["bad"], res["oom"]


def run(ck):
    quick = ck.tier == "quick"
    ck.cov["rule"] = ("every (boundary in {store, argument, return}, declared integer kind, value kind incl. bool/string, constness) "
                      "cell and every (opcode, kind1, const1, kind2, const2) cell, each run with identical operands under strict and "
                      "relaxed; generated programs (typed variables of 6 random kinds, constant/variable arithmetic, compound "
                      "assignment, ++/--, comparisons, calls of typed functions, loops) run under --types strict and relaxed at "
                      "several -o levels. distinct_nontrivial = distinct harness operand tuples that strict mode accepted with a "
                      "conversion (operand kinds differ) + distinct strict-clean programs")
    ck.assume("ego.runtime.precision.error=false", "values on the VM stack are wrapped to their kind (wf) - true of every value the harness observed")
    ck.trusted("harness/C03/c03_test.go, lib/arith_util.py (generators, regex translator strictness_sites), props/C04.py program generator",
               "classification of read sites in coq/Arith/Sites.v")
    thms = ["C04_binop_partial", "C04_store_partial", "C04_argument_partial", "C04_return_partial", "C04_increment_partial",
            "C04_statement_forms_partial", "C04_float_literal_partial", "C04_boundaries_partial",
            "C04_compare_partial", "C04_program_partial", "C04_program_state_partial"]
    ck.coq_stage(GROUP, module="PropertiesC04", theorems=thms)
    replay = json.load(open(ck.replay_file))["replay"] if ck.replay_file else None

    # ---- translator: every read of the strictness setting must be a classified site
    sites = au.strictness_sites(vf.REPO)
    ck.cov["input_distribution"] = {"strictness_read_sites": len(sites)}
    unc = None
    if not getattr(ck, "coq_broken", None):
        dumped = "[" + "; ".join('("%s"%%string, "%s"%%string)' % s for s in sites) + "]"
        okc, res = vf.coq_eval(GROUP, ck.work, "sites",
                               "From Coq Require Import String List ZArith.\nFrom Arith Require Import Sites.\nImport ListNotations.\n"
                               "Definition dumped : list (string * string) := %s.\n" % dumped,
                               {"unc": "uncovered_idx 0%Z dumped", "n": "[Z.of_nat (length dumped)]"})
        ck.add_obligations(1, 1 if okc and res["unc"] == [] and len(sites) > 10 else 0)
        if not okc:
            ck.violation("sites-eval", "site obligation did not evaluate:\n" + str(res)[-1200:], replay={"log": str(res)[-3000:]}, found_input=False)
        else:
            unc = [sites[i] for i in res["unc"]]
            if len(sites) <= 10:
                ck.violation("sites-translator", "the translator found only %d reads of typeStrictness in bytecode/*.go (anchors lost)" % len(sites),
                             replay={"sites": sites}, found_input=False)

    ok, binp = au.build_harness(ck)
    if not ok:
        ck.violation("harness-build", "harness does not build:\n" + binp[-1500:], replay={"log": binp[-3000:]}, found_input=False)
        return
    lines = gen_lines(ck, quick) if replay is None else list(replay.get("lines", []))
    cases = [case_of(l) for l in lines]
    obs, log = au.run_harness(ck, binp, lines) if lines else ({}, "")
    if obs is None:
        ck.violation("harness-run", "harness failed:\n" + log[-1500:], replay={"log": log[-3000:]}, found_input=False)
        return

    # ---- property oracle on the implementation: strict ok -> relaxed ok with the same value
    found = set()
    bykey = {}
    for c in cases:
        bykey.setdefault(c["key"], {})[c["mode"]] = c
    nontriv = set()
    for key, d in bykey.items():
        if "strict" not in d or "relaxed" not in d:
            continue
        os_, or_ = obs.get(d["strict"]["id"]), obs.get(d["relaxed"]["id"])
        for c, o in ((d["strict"], os_), (d["relaxed"], or_)):
            if o is None or o[0] in ("panic", "badinput"):
                ck.violation("boundary:%s:%s" % (c["t"], o[0] if o else "missing"), "real code %s on `%s`" % (o[0] if o else "gave no output", c["line"]),
                             replay={"lines": [c["line"]]})
                found.add(key)
        if os_ and os_[0] == "ok":
            f = key.split()
            kinds = [x.split(":")[0] for x in f[1:] if ":" in x] + [x for x in f[1:] if ":" not in x and x not in au.OPS]
            if len(set(kinds)) > 1:
                nontriv.add(key)
            if or_ != os_:
                ck.violation("strict-vs-relaxed:%s:%s" % (d["strict"]["t"], " ".join(x.rsplit(":", 1)[0] if ":" in x else x for x in f[1:])),
                             "strict accepted `%s` with %s but relaxed gives %s" % (d["strict"]["line"], os_, or_),
                             replay={"lines": [d["strict"]["line"], d["relaxed"]["line"]]})
                found.add(key)
    ck.cov["evaluations"] = len(cases)
    ck.cov["input_distribution"]["harness_cases"] = len(cases)
    ck.cov["input_distribution"]["strict_accepted_with_conversion"] = len(nontriv)
    for key in sorted(nontriv)[:3]:
        d = bykey[key]
        ck.sample({"case": d["strict"]["line"], "strict": obs.get(d["strict"]["id"]), "relaxed": obs.get(d["relaxed"]["id"])})

    # ---- differential runs of the real binary on generated strict-clean programs
    clean = 0
    if replay is None or "program" in replay:
        okb, ego = vf.build_ego()
        if not okb:
            ck.violation("ego-build", "ego does not build:\n" + ego[-1500:], replay={"log": ego[-3000:]}, found_input=False)
        else:
            if replay is None:
                nrand = 24 if quick else 100
                progs = [gen_program(ck.rng) for _ in range(nrand)]
                progs += [gen_mixed_program(ck.rng) for _ in range(4 if quick else 20)]
                progs += [gen_alias_program(ck.rng, w) for w in list(range(len(ELEMS))) + ["map", "struct"]]
            else:
                progs = [replay["program"]]
            opts = (0, 2) if quick else (0, 1, 2, 3)
            nrun = 0
            from concurrent.futures import ThreadPoolExecutor
            paths = []
            for pi, text in enumerate(progs):
                p = os.path.join(ck.work, "p%d.ego" % pi)
                with open(p, "w") as f:
                    f.write(text)
                paths.append(p)
            jobs = [(pi, o) for pi in range(len(progs)) for o in opts]
            if paths:
                run_ego(ck, ego, paths[0], "strict", 0)        # warm-up: creates the private profile before the parallel runs
            with ThreadPoolExecutor(max_workers=6) as ex:
                strict = list(ex.map(lambda j: run_ego(ck, ego, paths[j[0]], "strict", j[1]), jobs))
                cleanjobs = [j for j, (rc_s, out_s) in zip(jobs, strict) if rc_s == 0 and "Error:" not in out_s]
                relaxed = list(ex.map(lambda j: run_ego(ck, ego, paths[j[0]], "relaxed", j[1]), cleanjobs))
            nrun = len(jobs) + len(cleanjobs)
            sres = dict(zip(jobs, strict))
            reported = set()
            for j, (rc_r, out_r) in zip(cleanjobs, relaxed):
                pi, o = j
                out_s = sres[j][1]
                nontriv.add("prog%d" % pi)
                if (rc_r != 0 or out_r != out_s) and pi not in reported:
                    reported.add(pi)
                    a, b = out_s.splitlines(), out_r.splitlines()
                    d = next((i for i in range(max(len(a), len(b))) if i >= len(a) or i >= len(b) or a[i] != b[i]), 0)
                    ck.violation("program-differs", "a program that runs cleanly under --types strict -o %d prints something else under "
                                 "--types relaxed: line %d strict %r relaxed %r" % (o, d + 1, a[d:d + 1], b[d:d + 1]),
                                 replay={"program": progs[pi], "opt": o})
                    found.add("prog")
            clean = len({j[0] for j in cleanjobs})
            # programs inside the fragment of the program model: real stdout vs `run` of coq/Arith/Prog.v, both modes, -o 0
            if replay is None and not getattr(ck, "coq_broken", None):
                mprogs = [gen_model_program(ck.rng) for _ in range(12 if quick else 60)]
                mpaths = []
                for pi, (text, _, _) in enumerate(mprogs):
                    p = os.path.join(ck.work, "m%d.ego" % pi)
                    with open(p, "w") as f:
                        f.write(text)
                    mpaths.append(p)
                mjobs = [(pi, m) for pi in range(len(mprogs)) for m in ("strict", "relaxed")]
                with ThreadPoolExecutor(max_workers=6) as ex:
                    mres = list(ex.map(lambda j: run_ego(ck, ego, mpaths[j[0]], j[1], 0), mjobs))
                nrun += len(mjobs)
                exprs, meta = [], []
                for (pi, m), (rc, out_m) in zip(mjobs, mres):
                    failed = rc != 0 or "Error:" in out_m
                    exp = None if failed else parse_printed(out_m)
                    if not failed and exp is None:
                        continue
                    exprs.append("chk_run %s %s %s %s" % (au.COQM[m], mprogs[pi][1], mprogs[pi][2], "None" if failed else "(Some %s)" % exp))
                    meta.append((pi, m, out_m))
                okp, badp, oomp = coq_compare_prog(ck, exprs)
                if not okp:
                    ck.violation("program-model-eval", "program model evaluation failed:\n" + str(badp)[-1200:], replay={"log": str(badp)[-3000:]}, found_input=False)
                else:
                    ck.cov["input_distribution"]["model_programs_compared(program x mode)"] = len(exprs) - len(oomp)
                    for i in badp[:3]:
                        pi, m, out_m = meta[i]
                        ck.violation("corr:program:%s" % m, "the program model (coq/Arith/Prog.v run) and the real binary disagree under --types %s -o 0; real output:\n%s\nprogram:\n%s" % (
                            m, out_m[-300:], mprogs[pi][0]), replay={"program": mprogs[pi][0], "opt": 0, "instrs": mprogs[pi][1]}, found_input=False)
            ck.cov["evaluations"] += nrun
            ck.cov["input_distribution"]["programs_generated"] = len(progs)
            ck.cov["input_distribution"]["program_families"] = "random typed arithmetic / int-var x integral-float-literal and float-var x int-literal / aliasing through return, argument, store (8 element types, map, struct)"
            ck.cov["input_distribution"]["programs_strict_clean"] = clean
            ck.cov["input_distribution"]["ego_runs"] = nrun
            if progs:
                ck.sample({"program_head": progs[0][:400]})
    ck.cov["distinct_nontrivial"] = len(nontriv)

    # ---- a new, unclassified read site: correspondence broken (after the searches above)
    if unc:
        for s in unc:
            ck.violation("strictness-site:%s:%s" % s, "function %s in bytecode/%s reads the type-strictness setting but is not a boundary the "
                         "model covers (coq/Arith/Sites.v); %d harness cells and %d strict-clean programs showed no difference" % (
                             s[1], s[0], len(cases), clean), replay={"site": s, "all_sites": sites}, found_input=False)

    # ---- correspondence: model vs implementation on the boundaries
    if not getattr(ck, "coq_broken", None):
        mc = [c for c in cases if c["model"] is not None and obs.get(c["id"]) and obs[c["id"]][0] in ("ok", "err")
              and (obs[c["id"]][0] == "err" or au.modelled(obs[c["id"]][1]))]
        exprs = ["cmp_res (%s) %s" % (c["model"], au.coq_obs(obs[c["id"]])) for c in mc]
        okc, bad, oom = au.coq_compare(ck, "cases", exprs)
        if not okc:
            ck.violation("correspondence-eval", "model evaluation failed:\n" + str(bad)[-1500:], replay={"log": str(bad)[-3000:]}, found_input=False)
        else:
            ck.cov["traces_validated_against_impl"] = len(mc) - len(oom)
            ck.cov["input_distribution"]["outside_model_fragment"] = len(oom) + (len(cases) - len(mc))
            for i in bad[:5]:
                if mc[i]["key"] in found:
                    continue
                ck.violation("corr:%s:%s" % (mc[i]["t"], mc[i]["mode"]), "model and implementation disagree on `%s`: real %s" % (
                    mc[i]["line"], obs[mc[i]["id"]]), replay={"lines": [mc[i]["line"]]}, found_input=False)
    elif not ck.viol:
        grp, log = ck.coq_broken
        ck.violation("proof-broken", "Coq development %s no longer checks (C04 theorems); the oracle found no failing input on %d cells and "
                     "%d strict-clean programs:\n%s" % (grp, len(cases), clean, log[-1200:]),
                     replay={"broken": "coq/%s" % grp, "log": log[-3000:]}, found_input=False)
