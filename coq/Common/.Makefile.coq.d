Base.vo Base.glob Base.v.beautified Base.required_vo: Base.v 
Base.vio: Base.v 
Base.vos Base.vok Base.required_vos: Base.v 
