//go:build verif

package main

// Overlaid into /repo/tools/lang by /verif/check C35. Runs the real compileFile on a file holding
// the given bytes and prints the key -> message table it built for language "xx".
// Line protocol (VERIF_IN -> VERIF_OUT), texts hex ("-" = empty):
//   C <id> <hex data>  ->  C <id> ok <n> <hex key>:<hex message> ...   (sorted by key; n = number of
//                          "Duplicate message" reports compileFile printed = redefinitions)
//                          C <id> panic

import (
	"bufio"
	"encoding/hex"
	"fmt"
	"os"
	"path/filepath"
	"sort"
	"strings"
	"testing"
)

func c35compile(path string, data []byte, capture *os.File) (tbl map[string]string, dups int, ok bool) {
	saved := os.Stdout

	defer func() {
		os.Stdout = saved

		if r := recover(); r != nil {
			tbl, ok = nil, false
		}

		if text, err := os.ReadFile(capture.Name()); err == nil {
			dups = strings.Count(string(text), "Duplicate")
		}

		_ = capture.Truncate(0)
		_, _ = capture.Seek(0, 0)
	}()

	os.Stdout = capture

	if err := os.WriteFile(path, data, 0o644); err != nil {
		panic(err)
	}

	messages := map[string]map[string]string{}

	compileFile(path, "xx", messages)

	tbl = map[string]string{}

	for k, m := range messages {
		if v, found := m["xx"]; found {
			tbl[k] = v
		}
	}

	return tbl, 0, true
}

func TestVerifC35Lang(t *testing.T) {
	in, err := os.Open(os.Getenv("VERIF_IN"))
	if err != nil {
		t.Fatal(err)
	}
	defer in.Close()

	out, err := os.Create(os.Getenv("VERIF_OUT"))
	if err != nil {
		t.Fatal(err)
	}
	defer out.Close()

	// compileFile reports duplicates and long messages on stdout: captured per case
	capture, err := os.Create(filepath.Join(t.TempDir(), "stdout.txt"))
	if err != nil {
		t.Fatal(err)
	}
	defer capture.Close()

	w := bufio.NewWriter(out)
	defer w.Flush()

	enc := func(s string) string {
		if len(s) == 0 {
			return "-"
		}

		return hex.EncodeToString([]byte(s))
	}

	initDigest()

	path := filepath.Join(t.TempDir(), "messages_xx.txt")
	sc := bufio.NewScanner(in)
	sc.Buffer(make([]byte, 1<<24), 1<<24)

	for sc.Scan() {
		f := strings.Fields(sc.Text())
		if len(f) != 3 || f[0] != "C" {
			continue
		}

		data := []byte{}
		if f[2] != "-" {
			data, _ = hex.DecodeString(f[2])
		}

		tbl, dups, ok := c35compile(path, data, capture)
		if !ok {
			fmt.Fprintf(w, "C %s panic\n", f[1])

			continue
		}

		keys := make([]string, 0, len(tbl))
		for k := range tbl {
			keys = append(keys, k)
		}

		sort.Strings(keys)
		fmt.Fprintf(w, "C %s ok %d", f[1], dups)

		for _, k := range keys {
			fmt.Fprintf(w, " %s:%s", enc(k), enc(tbl[k]))
		}

		fmt.Fprintln(w)
	}
}
