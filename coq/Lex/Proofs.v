(* Lex/Proofs.v — lemmas for C06. *)
From Lex Require Import Model.
From Coq Require Import ZifyBool ZifyN ZifyNat.
Open Scope N_scope.

Ltac bsplit := repeat match goal with
  | |- context [if ?b then _ else _] => let E := fresh "E" in destruct b eqn:E
  end.

(* ------------------------------------------------------------------ digits *)
Lemma hex_digit_facts c d : hex_digit_val c = Some d ->
  sc_digit c = Some d /\ d < 16 /\ (c =? c_us) = false /\ c < 128 /\ c <> 0 /\
  (is_digit c = true /\ d < 10 \/ is_digit c = false /\ is_hex_letter c = true /\ 10 <= d).
Proof.
  unfold hex_digit_val, sc_digit, c_us, is_digit, is_hex_letter.
  bsplit; intros H; inversion H; subst; repeat split; try lia.
Qed.

Lemma digit_val_facts base c d : digit_val base c = Some d ->
  hex_digit_val c = Some d /\ d < base.
Proof.
  unfold digit_val. destruct (hex_digit_val c) as [d'|]; [|discriminate].
  destruct (N.ltb_spec d' base); [|discriminate]. intros Hd; inversion Hd; subst. auto.
Qed.


(* ------------------------------------------------------------------ the ParseUint loop on spec-shaped digit runs *)
Lemma sd_mono base : 1 <= base -> forall s need acc v, sd base need acc s = Some v -> acc <= v.
Proof.
  intros Hb. induction s as [|c r IH]; intros need acc v H; cbn [sd] in H.
  - destruct need; inversion H; subst; lia.
  - destruct (c =? c_us).
    + destruct need; [discriminate|]. eauto.
    + destruct (digit_val base c) as [d|]; [|discriminate].
      apply IH in H. nia.
Qed.

Lemma sd_loop base maxv (base0 : bool) :
  2 <= base <= 16 -> maxv <= max_u64 ->
  forall s need acc v, sd base need acc s = Some v -> v <= maxv ->
    (base0 = true \/ has_us s = false) ->
    pu_loop base base0 maxv acc s = Some v.
Proof.
  intros Hb Hm. induction s as [|c r IH]; intros need acc v H Hv Hu; cbn [sd] in H; cbn [pu_loop].
  - destruct need; inversion H; subst; reflexivity.
  - destruct (c =? c_us) eqn:Ec.
    + destruct need; [discriminate|].
      destruct Hu as [->|Hu]; [|cbn in Hu; rewrite Ec in Hu; discriminate].
      cbn [andb]. eapply IH; eauto.
    + destruct (digit_val base c) as [d|] eqn:Ed; [|discriminate].
      apply digit_val_facts in Ed as [Eh Hd]. apply hex_digit_facts in Eh as (Es & _).
      cbn [andb]. rewrite Es.
      pose proof (sd_mono base ltac:(lia) _ _ _ _ H) as Hmono.
      destruct (N.leb_spec base d); [lia|].
      assert (acc <= max_u64 / base) by (apply N.div_le_lower_bound; nia).
      destruct (N.leb_spec (max_u64 / base + 1) acc); [lia|].
      cbv zeta. destruct (N.ltb_spec maxv (acc * base + d)); [lia|].
      eapply IH; eauto.
      destruct Hu as [Hu|Hu]; [auto|right]. cbn in Hu. rewrite Ec in Hu. exact Hu.
Qed.

(* ------------------------------------------------------------------ underscoreOK on spec-shaped digit runs *)
Lemma sd_uok base hex : (base <= 10 \/ hex = true) ->
  forall s need acc v sw, sd base need acc s = Some v -> (need = false -> sw = SDig) ->
    uok_loop hex sw s = true.
Proof.
  intros Hh. induction s as [|c r IH]; intros need acc v sw H Hs; cbn [sd] in H; cbn [uok_loop].
  - destruct need; [discriminate|]. rewrite Hs; reflexivity.
  - destruct (c =? c_us) eqn:Ec.
    + destruct need; [discriminate|]. rewrite (Hs eq_refl).
      assert (is_digit c = false) as -> by (unfold is_digit, c_us in *; lia).
      assert (is_hex_letter c = false) as -> by (unfold is_hex_letter, c_us in *; lia).
      rewrite andb_false_r. cbn [orb]. eapply IH; eauto. discriminate.
    + destruct (digit_val base c) as [d|] eqn:Ed; [|discriminate].
      apply digit_val_facts in Ed as [Eh Hd]. apply hex_digit_facts in Eh as (_ & _ & _ & _ & _ & Hk).
      assert ((is_digit c || hex && is_hex_letter c) = true) as ->.
      { destruct Hk as [[-> _]|(_ & Hl & Hd10)]; [reflexivity|].
        destruct Hh as [Hh| ->]; [lia|]. rewrite Hl. apply orb_true_r. }
      eapply IH; eauto.
Qed.

Lemma opt_us_uok base hex s acc v : (base <= 10 \/ hex = true) ->
  opt_us_digits base acc s = Some v -> uok_loop hex SDig s = true.
Proof.
  intros Hh H. destruct s as [|u r]; [discriminate|]. unfold opt_us_digits in H.
  destruct (u =? c_us) eqn:Eu.
  - cbn [uok_loop].
    assert (is_digit u = false) as -> by (unfold is_digit, c_us in *; lia).
    assert (is_hex_letter u = false) as -> by (unfold is_hex_letter, c_us in *; lia).
    rewrite andb_false_r. cbn [orb]. rewrite Eu.
    eapply sd_uok; eauto; try discriminate.
  - eapply sd_uok; eauto; try discriminate.
Qed.

Lemma opt_us_loop base maxv (base0 : bool) s acc v :
  2 <= base <= 16 -> maxv <= max_u64 ->
  opt_us_digits base acc s = Some v -> v <= maxv -> (base0 = true \/ has_us s = false) ->
  pu_loop base base0 maxv acc s = Some v.
Proof.
  intros Hb Hm H Hv Hu. destruct s as [|u r]; [discriminate|]. unfold opt_us_digits in H.
  destruct (u =? c_us) eqn:Eu.
  - destruct Hu as [->|Hu]; [|cbn in Hu; rewrite Eu in Hu; discriminate].
    cbn [pu_loop]. rewrite Eu. cbn [andb]. eapply sd_loop; eauto.
  - eapply sd_loop; eauto.
Qed.

Lemma opt_us_nonempty base acc s v : opt_us_digits base acc s = Some v -> s <> [].
Proof. destruct s; [discriminate|discriminate]. Qed.

Lemma opt_us_mono base acc s v : 1 <= base -> opt_us_digits base acc s = Some v -> acc <= v.
Proof.
  intros Hb H. destruct s as [|u r]; [discriminate|]. unfold opt_us_digits in H.
  destruct (u =? c_us); eapply sd_mono; eauto.
Qed.

(* ------------------------------------------------------------------ strconv.ParseInt(text, 0, 64) on Go integer literals *)
Lemma max64 : 2 ^ 64 - 1 = max_u64. Proof. reflexivity. Qed.
Lemma max32_le : 2 ^ 32 - 1 <= max_u64. Proof. unfold max_u64. cbn. lia. Qed.
Lemma half64 : 2 ^ (64 - 1) = 9223372036854775808. Proof. reflexivity. Qed.

Lemma sd_need_irrelevant base acc u r : (u =? c_us) = false ->
  sd base false acc (u :: r) = sd base true acc (u :: r).
Proof. intros E. cbn [sd]. rewrite E. reflexivity. Qed.

(* decimal_lit with a non-zero first digit, as one digit run *)
Lemma dec_as_sd c r v : (49 <=? c) && (c <=? 57) = true ->
  match r with [] => Some (c - 48) | _ => opt_us_digits 10 (c - 48) r end = Some v ->
  sd 10 true 0 (c :: r) = Some v.
Proof.
  intros Hc H. cbn [sd].
  assert ((c =? c_us) = false) as -> by (unfold c_us; lia).
  assert (digit_val 10 c = Some (c - 48)) as ->.
  { unfold digit_val, hex_digit_val.
    assert ((48 <=? c) && (c <=? 57) = true) as -> by lia.
    assert (c - 48 <? 10 = true) as -> by lia. reflexivity. }
  replace (0 * 10 + (c - 48)) with (c - 48) by lia.
  destruct r as [|u r1]; [exact H|].
  unfold opt_us_digits, sep_digits in H. cbn [sd]. destruct (u =? c_us) eqn:Eu; [exact H|].
  cbn [sd] in H. rewrite Eu in H. exact H.
Qed.

Lemma parse_uint_tail s b body (maxv v : N) :
  pu_loop b true maxv 0 body = Some v -> underscore_ok s = true ->
  match pu_loop b true maxv 0 body with
  | None => None
  | Some n => if true && has_us body && negb (underscore_ok s) then None else Some n
  end = Some v.
Proof. intros -> ->. rewrite andb_false_r. reflexivity. Qed.

Lemma parse_uint0_ok s v maxv : maxv <= max_u64 ->
  go_int_lit s = Some v -> v <= maxv -> parse_uint s 0 maxv = Some v.
Proof.
  intros Hm H Hv. destruct s as [|c r]; [discriminate|]. unfold go_int_lit in H.
  unfold parse_uint. change (0 =? 0) with true. cbv iota.
  destruct (c =? c_0) eqn:Ec.
  - apply N.eqb_eq in Ec. subst c. destruct r as [|p r'].
    + inversion H; subst. reflexivity.
    + assert (Hpre : forall base hex, 2 <= base <= 16 -> (base <= 10 \/ hex = true) ->
                opt_us_digits base 0 r' = Some v ->
                (lower_is p 98 || lower_is p 111 || lower_is p 120) = true -> hex = lower_is p 120 ->
                match pu_loop base true maxv 0 r' with
                | None => None
                | Some n => if true && has_us r' && negb (underscore_ok (c_0 :: p :: r')) then None else Some n
                end = Some v).
      { intros base hex Hb Hh Ho Hp Hx. apply parse_uint_tail.
        - eapply opt_us_loop; eauto.
        - unfold underscore_ok. change (is_sign c_0) with false. cbv iota.
          rewrite N.eqb_refl, Hp. cbn [andb]. rewrite <- Hx. eapply opt_us_uok; eauto. }
      destruct (lower_is p 98) eqn:Eb.
      { pose proof (opt_us_nonempty _ _ _ _ H) as Hne. destruct r' as [|x r'']; [congruence|].
        apply (Hpre 2 (lower_is p 120)); auto; lia. }
      destruct (lower_is p 120) eqn:Ex.
      { pose proof (opt_us_nonempty _ _ _ _ H) as Hne. destruct r' as [|x r'']; [congruence|].
        destruct (lower_is p 111) eqn:Eo.
        { exfalso. unfold lower_is in *. lia. }
        apply (Hpre 16 true); auto; lia. }
      destruct (lower_is p 111) eqn:Eo.
      { pose proof (opt_us_nonempty _ _ _ _ H) as Hne. destruct r' as [|x r'']; [congruence|].
        apply (Hpre 8 false); auto; lia. }
      (* legacy octal *)
      assert (Hgoal : match pu_loop 8 true maxv 0 (p :: r') with
                      | None => None
                      | Some n => if true && has_us (p :: r') && negb (underscore_ok (c_0 :: p :: r')) then None else Some n
                      end = Some v).
      { apply parse_uint_tail.
        - eapply opt_us_loop; eauto. lia.
        - unfold underscore_ok. change (is_sign c_0) with false. cbv iota.
          rewrite Eb, Eo, Ex. rewrite andb_false_r.
          change (uok_loop false SBeg (c_0 :: p :: r')) with (uok_loop false SDig (p :: r')).
          eapply (opt_us_uok 8); eauto. left; lia. }
      destruct r'; exact Hgoal.
  - destruct ((49 <=? c) && (c <=? 57)) eqn:Hc; [|discriminate].
    pose proof (dec_as_sd _ _ _ Hc H) as Hsd.
    apply parse_uint_tail.
    + eapply sd_loop; eauto. lia.
    + unfold underscore_ok.
      assert (is_sign c = false) as -> by (unfold is_sign; lia).
      assert (Hu : uok_loop false SBeg (c :: r) = true).
      { eapply (sd_uok 10 false); [left; lia|exact Hsd|discriminate]. }
      destruct r as [|p r']; [exact Hu|]. rewrite Ec. cbn [andb]. exact Hu.
Qed.

Lemma parse_int0_ok s v : go_int_lit s = Some v -> v < 2 ^ 63 -> parse_int s 0 64 = Some v.
Proof.
  intros H Hv. unfold parse_int. rewrite max64, half64.
  change (2 ^ 63) with 9223372036854775808 in Hv.
  rewrite (parse_uint0_ok s v max_u64); auto; [|unfold max_u64; lia|unfold max_u64; lia].
  destruct (N.leb_spec 9223372036854775808 v); [lia|reflexivity].
Qed.

(* ------------------------------------------------------------------ decimal texts: pushIntConstant *)
Definition dstep (a c : N) : N := 10 * a + (c - 48).

Lemma dstep_mono : forall s acc, acc <= fold_left dstep s acc.
Proof.
  induction s as [|c r IH]; intros acc; cbn [fold_left]; [lia|].
  specialize (IH (dstep acc c)). unfold dstep in *. lia.
Qed.

Lemma pu_dec_complete maxv : maxv <= max_u64 ->
  forall s acc, all_digits s = true -> fold_left dstep s acc <= maxv ->
    pu_loop 10 false maxv acc s = Some (fold_left dstep s acc).
Proof.
  intros Hm. induction s as [|c r IH]; intros acc Hd Hv; cbn [fold_left pu_loop] in *; [reflexivity|].
  unfold all_digits in Hd. cbn [forallb] in Hd. apply andb_true_iff in Hd as [Hc Hr].
  rewrite andb_false_r.
  assert (sc_digit c = Some (c - 48)) as ->.
  { unfold sc_digit, is_digit in *. rewrite Hc. reflexivity. }
  pose proof (dstep_mono r (dstep acc c)) as Hmono. unfold dstep in Hmono at 1.
  unfold is_digit in Hc.
  destruct (N.leb_spec 10 (c - 48)); [lia|].
  assert (acc <= max_u64 / 10) by (apply N.div_le_lower_bound; lia).
  destruct (N.leb_spec (max_u64 / 10 + 1) acc); [lia|].
  cbv zeta. destruct (N.ltb_spec maxv (acc * 10 + (c - 48))); [lia|].
  replace (acc * 10 + (c - 48)) with (dstep acc c) by (unfold dstep; lia).
  apply IH; auto.
Qed.

Lemma pu_loop_maxv_indep base b0 m1 m2 : forall s acc n1 n2,
  pu_loop base b0 m1 acc s = Some n1 -> pu_loop base b0 m2 acc s = Some n2 -> n1 = n2.
Proof.
  induction s as [|c r IH]; intros acc n1 n2 H1 H2; cbn [pu_loop] in *; [congruence|].
  destruct ((c =? c_us) && b0); [eauto|].
  destruct (sc_digit c) as [d|]; [|discriminate].
  destruct (base <=? d); [discriminate|].
  destruct (max_u64 / base + 1 <=? acc); [discriminate|].
  cbv zeta in *.
  destruct (m1 <? acc * base + d); [discriminate|].
  destruct (m2 <? acc * base + d); [discriminate|]. eauto.
Qed.

Lemma push_int_ok txt v : parse_int txt 10 64 = Some v -> exists w, push_int txt = EInt w v.
Proof.
  intros H. unfold push_int. destruct (parse_int txt 10 32) as [i|] eqn:E32.
  - exists false. f_equal. unfold parse_int, parse_uint in *.
    destruct txt as [|c0 t]; [discriminate|]. change (10 =? 0) with false in *. cbv iota in *.
    destruct (pu_loop 10 false (2 ^ 32 - 1) 0 (c0 :: t)) as [a|] eqn:Ea; [|discriminate].
    destruct (pu_loop 10 false (2 ^ 64 - 1) 0 (c0 :: t)) as [b|] eqn:Eb; [|discriminate].
    cbn [andb] in *. pose proof (pu_loop_maxv_indep _ _ _ _ _ _ _ _ Ea Eb). subst b.
    destruct (2 ^ (32 - 1) <=? a); [discriminate|].
    destruct (2 ^ (64 - 1) <=? a); [discriminate|]. congruence.
  - exists true. rewrite H. reflexivity.
Qed.

Lemma parse_int10_digits v : v < 2 ^ 63 -> parse_int (digits v) 10 64 = Some v.
Proof.
  intros Hv. change (2 ^ 63) with 9223372036854775808 in Hv.
  unfold parse_int, parse_uint. pose proof (digits_nonempty v) as Hne.
  destruct (digits v) as [|c0 t] eqn:Ed; [congruence|]. change (10 =? 0) with false. cbv iota.
  rewrite max64, half64. rewrite <- Ed.
  rewrite (pu_dec_complete max_u64 ltac:(lia) (digits v) 0 (digits_all_digits v)).
  - fold (dec_val (digits v)). unfold dstep. 
    change (fold_left (fun a c => 10 * a + (c - 48)) (digits v) 0) with (dec_val (digits v)).
    rewrite digits_val. cbn [andb].
    destruct (N.leb_spec 9223372036854775808 v); [lia|reflexivity].
  - change (fold_left dstep (digits v) 0) with (dec_val (digits v)). rewrite digits_val.
    unfold max_u64. lia.
Qed.

(* a decimal literal without separators is accepted by ParseInt(text, 10, 64) *)
Lemma parse_int10_plain c r v : (c =? c_0) = false -> has_us (c :: r) = false ->
  go_int_lit (c :: r) = Some v -> v < 2 ^ 63 -> parse_int (c :: r) 10 64 = Some v.
Proof.
  intros Ec Hu H Hv. change (2 ^ 63) with 9223372036854775808 in Hv.
  unfold go_int_lit in H. rewrite Ec in H.
  destruct ((49 <=? c) && (c <=? 57)) eqn:Hc; [|discriminate].
  pose proof (dec_as_sd _ _ _ Hc H) as Hsd.
  unfold parse_int, parse_uint. change (10 =? 0) with false. cbv iota.
  rewrite max64, half64.
  rewrite (sd_loop 10 max_u64 false ltac:(lia) ltac:(lia) _ _ _ _ Hsd); [|unfold max_u64; lia|auto].
  cbn [andb]. destruct (N.leb_spec 9223372036854775808 v); [lia|reflexivity].
Qed.

(* ------------------------------------------------------------------ C06_int *)
(* the first character after a leading 0 of a legacy octal literal is '_' or a digit *)
Lemma opt_us_head base acc p r v : base <= 10 -> opt_us_digits base acc (p :: r) = Some v ->
  ((p =? c_us) || is_digit p) = true.
Proof.
  intros Hb H. unfold opt_us_digits, sep_digits in H. destruct (p =? c_us) eqn:Ep; [reflexivity|].
  cbn [sd] in H. rewrite Ep in H. destruct (digit_val base p) as [d|] eqn:Ed; [|discriminate].
  apply digit_val_facts in Ed as [Eh Hd]. apply hex_digit_facts in Eh as (_ & _ & _ & _ & _ & Hk).
  destruct Hk as [[-> _]|(_ & _ & Hd10)]; [reflexivity|lia].
Qed.

Lemma ego_num_int s v : go_int_lit s = Some v -> v < 2 ^ 63 -> exists w, ego_num s = EInt w v.
Proof.
  intros H Hv. pose proof (parse_int0_ok s v H Hv) as H0.
  pose proof (parse_int10_digits v Hv) as Hd.
  unfold ego_num, convert.
  destruct s as [|c r]; [discriminate|].
  destruct r as [|p r'].
  - (* one digit *)
    cbn [length Nat.ltb Nat.leb orb]. 
    assert (Hp : parse_int [c] 10 64 = Some v).
    { destruct (c =? c_0) eqn:Ec.
      - apply N.eqb_eq in Ec. subst c. cbn in H. inversion H; subst. reflexivity.
      - apply parse_int10_plain; auto. cbn. unfold go_int_lit in H. rewrite Ec in H.
        destruct ((49 <=? c) && (c <=? 57)) eqn:Hc; [|discriminate]. unfold c_us. lia. }
    rewrite Hp. apply push_int_ok; exact Hp.
  - cbn [length Nat.ltb Nat.leb orb nth_c nth].
    assert (Hdig : is_digit c = true).
    { unfold go_int_lit in H. destruct (c =? c_0) eqn:Ec; [unfold is_digit, c_0 in *; lia|].
      destruct ((49 <=? c) && (c <=? 57)) eqn:Hc; [|discriminate]. unfold is_digit. lia. }
    rewrite Hdig. cbn [negb].
    destruct (c =? c_0) eqn:Ec.
    + (* radix or legacy octal *)
      assert ((lower_is p 98 || lower_is p 111 || lower_is p 120 || (p =? c_us) || is_digit p) = true) as ->.
      { unfold go_int_lit in H. rewrite Ec in H.
        destruct (lower_is p 98); [reflexivity|]. destruct (lower_is p 120); [rewrite orb_true_r; reflexivity|].
        destruct (lower_is p 111); [reflexivity|]. cbn [orb].
        eapply opt_us_head; [|exact H]. lia. }
      cbn [andb negb]. rewrite H0. apply push_int_ok; exact Hd.
    + cbn [andb negb].
      destruct (has_us (c :: p :: r')) eqn:Hu.
      * cbn [negb]. rewrite H0. apply push_int_ok; exact Hd.
      * cbn [negb]. pose proof (parse_int10_plain _ _ _ Ec Hu H Hv) as Hp. rewrite Hp.
        apply push_int_ok; exact Hp.
Qed.

Lemma C06_int_proof s v : go_int_lit s = Some v -> v < 2 ^ 63 -> exists w, ego_lit s = EInt w v.
Proof.
  intros H Hv. pose proof (ego_num_int _ _ H Hv) as Hn.
  unfold ego_lit, ego_dispatch. destruct s as [|c r]; [discriminate|].
  assert (is_digit c = true) as ->; [|exact Hn].
  unfold go_int_lit in H. destruct (c =? c_0) eqn:Ec; [unfold is_digit, c_0 in *; lia|].
  destruct ((49 <=? c) && (c <=? 57)) eqn:Hc; [|discriminate]. unfold is_digit. lia.
Qed.

(* ------------------------------------------------------------------ characters: spec vs strconv.UnquoteChar *)
Lemma hex_n_len : forall n acc s v r, hex_n n acc s = Some (v, r) -> (n <= length s)%nat.
Proof.
  induction n as [|k IH]; intros acc s v r H; cbn [hex_n] in H; [lia|].
  destruct s as [|c t]; [discriminate|]. destruct (hex_digit_val c); [|discriminate].
  apply IH in H. cbn [length]. lia.
Qed.
Lemma oct_n_len : forall n acc s v r, oct_n n acc s = Some (v, r) -> (n <= length s)%nat.
Proof.
  induction n as [|k IH]; intros acc s v r H; cbn [oct_n] in H; [lia|].
  destruct s as [|c t]; [discriminate|]. destruct (digit_val 8 c); [|discriminate].
  apply IH in H. cbn [length]. lia.
Qed.

Definition out_bytes (r : N) (mb : bool) : bytes := if (r <? 128) || negb mb then [r] else utf8_encode r.

Lemma ltb_len_false (n : nat) (s : str) : (n <= length s)%nat -> (length s <? n)%nat = false.
Proof. intros. apply Nat.ltb_ge. lia. Qed.

Lemma go_char_unquote q s cv rest : (q = c_sq \/ q = c_dq) ->
  go_char q s = Some (cv, rest) ->
  exists mb, unquote_char q s = Some (cval_num cv, mb, rest) /\ out_bytes (cval_num cv) mb = cval_bytes cv.
Proof.
  intros Hq H. destruct s as [|c r]; [discriminate|]. unfold go_char in H. unfold unquote_char.
  destruct (c =? c_bs) eqn:Ec.
  - apply N.eqb_eq in Ec. subst c.
    assert (((c_bs =? q) && ((q =? c_sq) || (q =? c_dq))) = false) as -> by (destruct Hq; subst q; reflexivity).
    change (128 <=? c_bs) with false. change (negb (c_bs =? c_bs)) with false. cbv iota.
    destruct r as [|e r2]; [discriminate|].
    destruct (e =? 120) eqn:E1.
    { apply N.eqb_eq in E1. subst e. cbn [N.eqb Pos.eqb orb].
      destruct (hex_n 2 0 r2) as [[v r3]|] eqn:Eh; [|discriminate]. inversion H; subst.
      rewrite (ltb_len_false _ _ (hex_n_len _ _ _ _ _ Eh)). exists false. split; [reflexivity|].
      unfold out_bytes. cbn [negb cval_num cval_bytes]. rewrite orb_true_r. reflexivity. }
    destruct (e =? 117) eqn:E2.
    { apply N.eqb_eq in E2. subst e. cbn [N.eqb Pos.eqb orb].
      destruct (hex_n 4 0 r2) as [[v r3]|] eqn:Eh; [|discriminate].
      destruct (valid_cp v) eqn:Ev; [|discriminate]. inversion H; subst.
      rewrite (ltb_len_false _ _ (hex_n_len _ _ _ _ _ Eh)). exists true. split; [reflexivity|].
      cbn [cval_num cval_bytes]. unfold out_bytes, utf8_encode. cbn [negb]. rewrite orb_false_r.
      destruct (v <? 128); reflexivity. }
    destruct (e =? 85) eqn:E3.
    { apply N.eqb_eq in E3. subst e. cbn [N.eqb Pos.eqb orb].
      destruct (hex_n 8 0 r2) as [[v r3]|] eqn:Eh; [|discriminate].
      destruct (valid_cp v) eqn:Ev; [|discriminate]. inversion H; subst.
      rewrite (ltb_len_false _ _ (hex_n_len _ _ _ _ _ Eh)). exists true. split; [reflexivity|].
      cbn [cval_num cval_bytes]. unfold out_bytes, utf8_encode. cbn [negb]. rewrite orb_false_r.
      destruct (v <? 128); reflexivity. }
    destruct ((48 <=? e) && (e <=? 55)) eqn:E4.
    { assert ((e =? 97) = false) as -> by lia. assert ((e =? 98) = false) as -> by lia.
      assert ((e =? 102) = false) as -> by lia. assert ((e =? 110) = false) as -> by lia.
      assert ((e =? 114) = false) as -> by lia. assert ((e =? 116) = false) as -> by lia.
      assert ((e =? 118) = false) as -> by lia. cbn [orb negb].
      change (oct_n 3 0 (e :: r2)) with (match digit_val 8 e with Some d => oct_n 2 (8 * 0 + d) r2 | None => None end) in H.
      assert (digit_val 8 e = Some (e - 48)) as Hdv.
      { unfold digit_val, hex_digit_val. assert ((48 <=? e) && (e <=? 57) = true) as -> by lia.
        assert (e - 48 <? 8 = true) as -> by lia. reflexivity. }
      rewrite Hdv in H. replace (8 * 0 + (e - 48)) with (e - 48) in H by lia.
      destruct (oct_n 2 (e - 48) r2) as [[v r3]|] eqn:Eo; [|discriminate].
      destruct (N.leb_spec v 255); [|discriminate]. inversion H; subst.
      rewrite (ltb_len_false _ _ (oct_n_len _ _ _ _ _ Eo)).
      destruct (N.ltb_spec 255 v); [lia|]. exists false. split; [reflexivity|].
      unfold out_bytes. cbn [negb cval_num cval_bytes]. rewrite orb_true_r. reflexivity. }
    cbn [orb negb].
    unfold escaped_char in H.
    assert (Hsmall : forall v, v < 128 -> out_bytes v false = utf8_encode v).
    { intros v Hv. unfold out_bytes, utf8_encode. cbn [negb]. rewrite orb_true_r.
      destruct (N.ltb_spec v 128); [reflexivity|lia]. }
    destruct (e =? 97); [inversion H; subst; exists false; split; [reflexivity|cbn [cval_num cval_bytes]; apply Hsmall; lia]|].
    destruct (e =? 98); [inversion H; subst; exists false; split; [reflexivity|cbn [cval_num cval_bytes]; apply Hsmall; lia]|].
    destruct (e =? 102); [inversion H; subst; exists false; split; [reflexivity|cbn [cval_num cval_bytes]; apply Hsmall; lia]|].
    destruct (e =? 110); [inversion H; subst; exists false; split; [reflexivity|cbn [cval_num cval_bytes]; apply Hsmall; lia]|].
    destruct (e =? 114); [inversion H; subst; exists false; split; [reflexivity|cbn [cval_num cval_bytes]; apply Hsmall; lia]|].
    destruct (e =? 116); [inversion H; subst; exists false; split; [reflexivity|cbn [cval_num cval_bytes]; apply Hsmall; lia]|].
    destruct (e =? 118); [inversion H; subst; exists false; split; [reflexivity|cbn [cval_num cval_bytes]; apply Hsmall; lia]|].
    destruct (e =? c_bs) eqn:E5; [inversion H; subst; exists false; split; [reflexivity|cbn [cval_num cval_bytes]; apply Hsmall; unfold c_bs; lia]|].
    destruct ((e =? c_sq) && (q =? c_sq)) eqn:E6.
    { apply andb_true_iff in E6 as [Ea Eb]. apply N.eqb_eq in Ea, Eb. subst e q. inversion H; subst.
      exists false. split; [reflexivity|cbn [cval_num cval_bytes]; apply Hsmall; unfold c_sq; lia]. }
    destruct ((e =? c_dq) && (q =? c_dq)) eqn:E7; [|discriminate].
    apply andb_true_iff in E7 as [Ea Eb]. apply N.eqb_eq in Ea, Eb. subst e q. inversion H; subst.
    exists false. split; [reflexivity|cbn [cval_num cval_bytes]; apply Hsmall; unfold c_dq; lia].
  - destruct ((c =? c_nl) || (c =? q) || (c =? 0) || negb (valid_cp c)) eqn:Eb; [discriminate|].
    inversion H; subst.
    assert ((c =? q) = false) as -> by lia. cbn [andb].
    destruct (N.leb_spec 128 c).
    + exists true. split; [reflexivity|]. unfold out_bytes. cbn [negb cval_num cval_bytes]. rewrite orb_false_r.
      destruct (N.ltb_spec c 128); [lia|reflexivity].
    + cbn [negb]. exists false. split; [reflexivity|].
      cbn [cval_num cval_bytes]. unfold out_bytes, utf8_encode. cbn [negb]. rewrite orb_true_r.
      destruct (N.ltb_spec c 128); [reflexivity|lia].
Qed.

(* ------------------------------------------------------------------ C06_rune *)
Lemma last_cons_ne (q : N) (body : str) : body <> [] -> last (q :: body) 0 = last body 0.
Proof. destruct body; [congruence|reflexivity]. Qed.

Lemma C06_rune_proof s v : go_rune_lit s = Some v -> ego_lit s = ERunes [v].
Proof.
  intros H. destruct s as [|q body]; [discriminate|]. unfold go_rune_lit in H.
  destruct ((q =? c_sq) && (1 <=? length body)%nat && (last body 0 =? c_sq)) eqn:Eg; [|discriminate].
  apply andb_true_iff in Eg as [Eg El]. apply andb_true_iff in Eg as [Eq Eb].
  apply N.eqb_eq in Eq. subst q.
  destruct (go_char c_sq (removelast body)) as [[cv rest]|] eqn:Ec; [|discriminate].
  destruct rest; [|discriminate]. inversion H; subst.
  destruct (go_char_unquote c_sq _ _ _ (or_introl eq_refl) Ec) as (mb & Hu & _).
  unfold ego_lit, ego_dispatch. change (is_digit c_sq) with false. change (c_sq =? 46) with false.
  rewrite N.eqb_refl. cbv iota.
  assert (body <> []) as Hne by (destruct body; [cbn in Eb; discriminate|discriminate]).
  rewrite (last_cons_ne _ _ Hne), El.
  assert ((2 <=? length (c_sq :: body))%nat = true) as ->.
  { destruct body; [congruence|reflexivity]. }
  cbn [andb]. unfold ego_rune. cbn [tl]. rewrite Hu. reflexivity.
Qed.

(* ------------------------------------------------------------------ C06_string *)
Lemma str_loop : forall fuel s acc b, go_str_body fuel s acc = Some b ->
  forall fuel2, (fuel <= fuel2)%nat -> uq_loop fuel2 s acc = Some (b, [c_dq]).
Proof.
  induction fuel as [|f IH]; intros s acc b H fuel2 Hf; cbn [go_str_body] in H; [discriminate|].
  destruct fuel2 as [|f2]; [lia|]. cbn [uq_loop].
  destruct s as [|c r]; [discriminate|].
  destruct (c =? c_dq) eqn:Ec.
  - destruct r; [|discriminate]. inversion H; subst. apply N.eqb_eq in Ec. subst c. reflexivity.
  - destruct (go_char c_dq (c :: r)) as [[cv r']|] eqn:Eg; [|discriminate].
    destruct (go_char_unquote c_dq _ _ _ (or_intror eq_refl) Eg) as (mb & Hu & Hb).
    rewrite Hu.
    assert ((c =? c_nl) = false) as ->.
    { destruct (c =? c_nl) eqn:En; [|reflexivity]. exfalso. apply N.eqb_eq in En. subst c.
      cbn in Eg. discriminate. }
    specialize (IH _ _ _ H f2 ltac:(lia)). rewrite <- Hb in IH. unfold out_bytes in IH. exact IH.
Qed.

(* without a backslash before it, the first double quote is the closing one *)
Lemma str_fast : forall s fuel acc b e, go_str_body fuel s acc = Some b ->
  index_of c_dq s = Some e -> contains c_bs (firstn e s) = false ->
  skipn (S e) s = [] /\ b = acc ++ encode_all (firstn e s).
Proof.
  induction s as [|c r IH]; intros fuel acc b e H Hi Hc; [discriminate|].
  destruct fuel as [|f]; [discriminate|]. cbn [go_str_body] in H. cbn [index_of] in Hi.
  destruct (c =? c_dq) eqn:Ec.
  - inversion Hi; subst e. destruct r; [|discriminate]. inversion H; subst.
    cbn. rewrite app_nil_r. auto.
  - destruct (index_of c_dq r) as [e'|] eqn:Ei; [|discriminate]. inversion Hi; subst e.
    cbn [firstn contains existsb] in Hc. apply orb_false_iff in Hc as [Hcb Hc'].
    assert (go_char c_dq (c :: r) = match go_char c_dq (c :: r) with Some _ => Some (Cp c, r) | None => None end) as Hg.
    { unfold go_char. rewrite Hcb. destruct ((c =? c_nl) || (c =? c_dq) || (c =? 0) || negb (valid_cp c)); reflexivity. }
    destruct (go_char c_dq (c :: r)) as [[cv r']|] eqn:Eg; [|discriminate]. inversion Hg; subst cv r'.
    destruct (IH _ _ _ _ H eq_refl Hc') as [Hs Hb]. split; [exact Hs|].
    rewrite Hb. cbn [firstn encode_all flat_map cval_bytes]. rewrite <- app_assoc. reflexivity.
Qed.

Lemma last_index (q : N) : forall s, s <> [] -> last s 0 = q -> exists e, index_of q s = Some e.
Proof.
  induction s as [|c r IH]; intros Hne Hl; [congruence|]. cbn [index_of].
  destruct (c =? q) eqn:Ec; [eauto|].
  destruct r as [|c2 r2].
  - cbn in Hl. subst. rewrite N.eqb_refl in Ec. discriminate.
  - destruct (IH ltac:(discriminate) Hl) as [e ->]. eauto.
Qed.

Lemma dq_proof body b : last body 0 = c_dq ->
  go_str_body (length (c_dq :: body)) body [] = Some b -> unquote_dq (c_dq :: body) = Some b.
Proof.
  intros Hl H. assert (body <> []) as Hne.
  { destruct body; [cbn in H; discriminate|discriminate]. }
  unfold unquote_dq.
  assert ((length (c_dq :: body) <? 2)%nat = false) as ->.
  { destruct body; [congruence|reflexivity]. }
  destruct (last_index c_dq body Hne Hl) as [e He]. rewrite He.
  destruct (negb (contains c_bs (firstn e body)) && negb (contains c_nl (firstn e body))) eqn:Ef.
  - apply andb_true_iff in Ef as [Ef _]. apply negb_true_iff in Ef.
    destruct (str_fast _ _ _ _ _ H He Ef) as [-> ->]. reflexivity.
  - rewrite (str_loop _ _ _ _ H _ (le_n _)). rewrite N.eqb_refl. reflexivity.
Qed.

Lemma raw_proof : forall body acc b, go_raw_body body acc = Some b ->
  body <> [] /\ last body 0 = c_bq /\
  b = acc ++ encode_all (filter (fun c => negb (c =? c_cr)) (removelast body)).
Proof.
  induction body as [|c r IH]; intros acc b H; [discriminate|]. cbn [go_raw_body] in H.
  destruct (c =? c_bq) eqn:Ec.
  - destruct r; [|discriminate]. inversion H; subst. apply N.eqb_eq in Ec. subst c.
    cbn. rewrite app_nil_r. repeat split. discriminate.
  - destruct ((c =? 0) || negb (valid_cp c)); [discriminate|].
    destruct (IH _ _ H) as (Hne & Hl & Hb). split; [discriminate|].
    destruct r as [|c2 r2]; [congruence|]. split; [exact Hl|].
    rewrite Hb. cbn [removelast filter].
    destruct (c =? c_cr); cbn [negb].
    + reflexivity.
    + cbn [encode_all flat_map]. rewrite <- app_assoc. reflexivity.
Qed.

Lemma C06_string_proof s b : go_string_lit s = Some b -> ego_lit s = EStr b.
Proof.
  intros H. destruct s as [|q body]; [discriminate|]. unfold go_string_lit in H.
  unfold ego_lit, ego_dispatch.
  destruct (q =? c_dq) eqn:Eq.
  - apply N.eqb_eq in Eq. subst q. destruct (last body 0 =? c_dq) eqn:El; [|discriminate].
    apply N.eqb_eq in El.
    change (is_digit c_dq) with false. change (c_dq =? 46) with false. change (c_dq =? c_sq) with false.
    cbv iota.
    assert (body <> []) as Hne by (destruct body; [cbn in H; discriminate|discriminate]).
    rewrite (last_cons_ne _ _ Hne), El, N.eqb_refl.
    unfold ego_dq. rewrite (dq_proof _ _ El H). reflexivity.
  - destruct (q =? c_bq) eqn:Eb; [|discriminate]. apply N.eqb_eq in Eb. subst q.
    change (is_digit c_bq) with false. change (c_bq =? 46) with false. change (c_bq =? c_sq) with false.
    cbv iota.
    destruct (raw_proof _ _ _ H) as (Hne & Hl & Hb).
    destruct body as [|c r]; [congruence|].
    rewrite (last_cons_ne _ _ Hne), Hl, N.eqb_refl. unfold ego_raw. cbn [tl]. rewrite Hb. reflexivity.
Qed.

(* ------------------------------------------------------------------ witnesses *)
Definition w_0x_FF : str := [48;120;95;70;70].                       (* 0x_FF *)
Definition w_0xFFFFFFFF : str := [48;120;70;70;70;70;70;70;70;70].   (* 0xFFFFFFFF *)
Definition w_1_000 : str := [49;95;48;48;48].                        (* 1_000 *)
Definition w_nl : str := [39;92;110;39].                             (* '\n' *)
Definition w_rawcr : str := [96;97;13;98;96].                        (* `a<CR>b` *)
Definition w_2p63 : str := [57;50;50;51;51;55;50;48;51;54;56;53;52;55;55;53;56;48;56]. (* 9223372036854775808 *)

Lemma old_refuted :
  (go_int_lit w_0x_FF = Some 255 /\ ego_lit_old w_0x_FF = ENotInt) /\
  (go_int_lit w_0xFFFFFFFF = Some 4294967295 /\ ego_lit_old w_0xFFFFFFFF = ENotInt) /\
  (go_int_lit w_1_000 = Some 1000 /\ ego_lit_old w_1_000 = ENotInt) /\
  (go_rune_lit w_nl = Some 10 /\ ego_lit_old w_nl = ERunes [92; 110]) /\
  (go_string_lit w_rawcr = Some [97; 98] /\ ego_lit_old w_rawcr = EStr [97; 13; 98]).
Proof. vm_compute. repeat split. Qed.

Lemma unbounded_refuted : go_int_lit w_2p63 = Some (2 ^ 63) /\ ego_lit w_2p63 = ENotInt.
Proof. vm_compute. split; reflexivity. Qed.
