(* Assets/Model.v — C39: internal/server/assets/handler.go
   Range header parsing (AssetsHandler), range arithmetic (Loader with smartRangeLoading = true,
   readAssetRange), the Content-Range text, and the lexical confinement of normalizeAssetPath.
   Go run-time panics are explicit outcomes.  fx = true: the repaired code; fx = false: before. *)
From Common Require Import Base.
From Coq Require Import ZArith.
Open Scope Z_scope.

Definition max_int64 : Z := 9223372036854775807.
Definition EOD : Z := max_int64.                      (* EndOfData = math.MaxInt64 *)

(* strings.ReplaceAll(h, "bytes=", "") *)
Fixpoint strip_unit (s : str) : str :=
  match s with
  | 98%N :: 121%N :: 116%N :: 101%N :: 115%N :: 61%N :: r => strip_unit r
  | c :: r => c :: strip_unit r
  | [] => []
  end.

(* strings.Split(text, "-"): never empty *)
Fixpoint split_dash (s : str) : list str :=
  match s with
  | [] => [[]]
  | c :: r => if (c =? 45)%N then [] :: split_dash r
              else match split_dash r with f :: fs => (c :: f) :: fs | [] => [[c]] end
  end.

(* strconv.ParseInt(s, 10, 64): optional sign, at least one digit, only digits, int64 range *)
Definition parse_int (s : str) : option Z :=
  let '(neg, ds) := match s with
                    | 43%N :: r => (false, r)
                    | 45%N :: r => (true, r)
                    | _ => (false, s)
                    end in
  match ds with
  | [] => None
  | _ => if all_digits ds then
           let v := Z.of_N (dec_val ds) in
           if neg then (if v <=? max_int64 + 1 then Some (- v) else None)
           else (if v <=? max_int64 then Some v else None)
         else None
  end.

Inductive parsed :=
| PPanic                       (* index out of range [1] with length 1 *)
| PBad                         (* 400 *)
| PNone                        (* no Range header *)
| PRange (start stop : Z).     (* hasRange <> "" ; stop = EOD when open ended *)

(* the Range block of AssetsHandler followed by the sanity check *)
Definition parse_range (fx : bool) (h : option str) : parsed :=
  match h with
  | None => PNone
  | Some hv =>
    let ranges := split_dash (strip_unit hv) in
    if fx && Nat.ltb (length ranges) 2 then PBad else
    match parse_int (nth 0 ranges []) with
    | None => PBad
    | Some start =>
      match ranges with
      | _ :: r1 :: _ =>
        match r1 with
        | [] => if start <? 0 then PBad else PRange start EOD
        | _ => match parse_int r1 with
               | None => PBad
               | Some stop => if (start <? 0) || (negb (stop =? EOD) && (stop <? start)) then PBad
                              else PRange start stop
               end
        end
      | _ => PPanic        (* ranges[1] evaluated with len(ranges) = 1 *)
      end
    end
  end.

Inductive outcome :=
| Panic
| Err (status : Z)
| Full (body : list N)                                  (* 200 *)
| Partial (first last total : Z) (body : list N).       (* 206, Content-Range: bytes first-last/total *)

Definition zlen (l : list N) : Z := Z.of_nat (length l).
Definition slice (file : list N) (from count : Z) : list N :=
  firstn (Z.to_nat count) (skipn (Z.to_nat from) file).

(* Loader + the tail of AssetsHandler for an existing file.
   cached: the asset is already in the asset cache (matters only before the repair) *)
Definition serve (fx cached : bool) (p : parsed) (file : list N) : outcome :=
  let size := zlen file in
  match p with
  | PPanic => Panic
  | PBad => Err 400
  | PNone => Full file
  | PRange start stop =>
    if (start =? 0) && (stop =? EOD) then
      (* not a "range" for Loader: whole asset, through the cache *)
      let total := if fx then size else (if cached then 0 else size) in
      if fx && (total <=? start) then Err 416 else
      let rep := if (stop =? EOD) || (total <=? stop) then total - 1 else stop in
      Partial start rep total file
    else
      (* readAssetRange *)
      if fx && (size <=? start) then Err 416 else
      let stop' := if (stop =? EOD) || (size <=? stop) then size - 1 else stop in
      let n := stop' - start + 1 in
      if n <? 0 then Panic                                (* make([]byte, negative) *)
      else
        let count := Z.max 0 (Z.min n (size - start)) in  (* file.ReadAt(data, start) *)
        let body := slice file start count in
        let rep := if (stop =? EOD) || (size <=? stop) then size - 1 else stop in
        Partial start rep size body
  end.

Definition handle (fx cached : bool) (h : option str) (file : list N) : outcome :=
  serve fx cached (parse_range fx h) file.

(* fmt.Sprintf("bytes %d-%d/%d", ...) *)
Definition zdigits (z : Z) : str := if z <? 0 then 45%N :: digits (Z.to_N (- z)) else digits (Z.to_N z).
Definition content_range (a b t : Z) : str :=
  [98; 121; 116; 101; 115; 32]%N ++ zdigits a ++ [45%N] ++ zdigits b ++ [47%N] ++ zdigits t.

(* ---- what HTTP asks for the header forms the handler understands *)
Definition spec_range (start stop size : Z) : option (Z * Z) :=
  if (0 <=? start) && (start <? size) && ((stop =? EOD) || (start <=? stop))
  then Some (start, Z.min stop (size - 1)) else None.

(* ---- normalizeAssetPath, on path segments.
   filepath.Clean(filepath.Join(root, path)) for an absolute root: "" and "." vanish, ".." pops
   (stays at "/" when nothing is left); the confinement test strings.HasPrefix(fn, root + "/") holds
   exactly when root's segments are a proper prefix of fn's segments (root clean and absolute). *)
Definition seg := str.
Definition dot : seg := [46%N].
Definition dotdot : seg := [46%N; 46%N].
Definition invalid_seg : seg := [95;95;105;110;118;97;108;105;100;95;95]%N.   (* "__invalid__" *)

Definition split_slash (s : str) : list seg :=
  let fix go (s : str) (cur : seg) : list seg :=
    match s with
    | [] => [rev cur]
    | c :: r => if (c =? 47)%N then rev cur :: go r [] else go r (c :: cur)
    end in go s [].

Definition clean_step (stack : list seg) (s : seg) : list seg :=   (* stack is reversed *)
  if str_eqb s [] || str_eqb s dot then stack
  else if str_eqb s dotdot then tl stack
  else s :: stack.
Definition clean (segs : list seg) : list seg := rev (fold_left clean_step segs []).

Fixpoint proper_prefix (a b : list seg) : bool :=
  match a, b with
  | [], _ :: _ => true
  | x :: a', y :: b' => str_eqb x y && proper_prefix a' b'
  | _, _ => false
  end.

Definition normalize (root : list seg) (path : str) : list seg :=
  let fn := clean (root ++ split_slash path) in
  if proper_prefix root fn then fn else root ++ [invalid_seg].

Definition normal_seg (s : seg) : bool :=
  negb (str_eqb s []) && negb (str_eqb s dot) && negb (str_eqb s dotdot) && negb (existsb (N.eqb 47) s).

(* the two early 403 tests of AssetsHandler *)
Fixpoint has_suffix_slash (s : str) : bool :=
  match s with [] => false | [c] => (c =? 47)%N | _ :: r => has_suffix_slash r end.
Definition forbidden (path : str) : bool :=
  match path with [] => true | _ => has_suffix_slash path || existsb (str_eqb dotdot) (removelast (tl (split_slash path))) end.

(* ---- flat encodings for the correspondence run *)
Definition outcome_code (o : outcome) : list Z :=
  match o with
  | Panic => [-1]
  | Err s => [s]
  | Full b => [200; zlen b]
  | Partial a b t body => [206; a; b; t; zlen body; match body with x :: _ => Z.of_N x | [] => -1 end;
                           Z.of_N (last body 0%N)]
  end.

(* ====================================================================================
   Conditional requests: the ETag / If-None-Match block of AssetsHandler (runs only when
   hasRange = "", i.e. no Range header).  hash stands for fmt.Sprintf("%x", sha256.Sum256(data)). *)
Fixpoint split_char (sep : N) (s : str) : list str :=
  match s with
  | [] => [[]]
  | c :: r => if (c =? sep)%N then [] :: split_char sep r
              else match split_char sep r with f :: fs => (c :: f) :: fs | [] => [[c]] end
  end.

(* strings.TrimSpace on ASCII text: space, \t \n \v \f \r *)
Definition is_space (c : N) : bool := ((c =? 32) || ((9 <=? c) && (c <=? 13)))%N.
Fixpoint ltrim (s : str) : str :=
  match s with c :: r => if is_space c then ltrim r else s | [] => [] end.
Definition trim_space (s : str) : str := rev (ltrim (rev (ltrim s))).

Definition etag (hash : list N -> str) (data : list N) : str := 34%N :: hash data ++ [34%N].

(* match := r.Header.Get("If-None-Match"); match != "" && some TrimSpace(piece of Split(match, ",")) == etag *)
Definition inm_match (tag : str) (inm : option str) : bool :=
  match inm with
  | None => false
  | Some [] => false
  | Some m => existsb (fun t => str_eqb (trim_space t) tag) (split_char 44 m)
  end.

Inductive outcome2 :=
| NotModified (tag : str)                    (* 304, ETag header, no body *)
| FullTag (tag : str) (body : list N)        (* 200, ETag header *)
| Plain (o : outcome).                       (* a Range header was present: no validator processing *)

Definition handle_cond (hash : list N -> str) (fx cached : bool) (h inm : option str) (file : list N) : outcome2 :=
  match parse_range fx h with
  | PNone => let t := etag hash file in if inm_match t inm then NotModified t else FullTag t file
  | p => Plain (serve fx cached p file)
  end.

Definition outcome2_code (o : outcome2) : list Z :=
  match o with
  | NotModified _ => [304]
  | FullTag _ b => [200; zlen b]
  | Plain o => outcome_code o
  end.
