(* SqlFmt/PrecClimb.v — generic development shared by C16 (SQL formatter) and C05 (ego fmt):
   a parser that is a chain of precedence tiers (loosest first; each tier is either a set of
   left-associative binary operators or a set of prefix operators that recurse into their own tier),
   a printer that writes the tree verbatim (parentheses only where the tree has a Paren node),
   Definitions only; the theorems (PrecClimbProofs.v) are
     - parse_print   : every tree that is well formed for the table is read back from its own print,
     - parse_sound   : every tree the parser returns is well formed for the table,
     - reparse/idempotent as corollaries,
   proved once for every table that passes the computable check wf_table. *)
From Coq Require Import List Arith Lia Bool.
Import ListNotations.

Section PrecClimb.
  Variables tok sym atom : Type.
  Variable sym_eqb : sym -> sym -> bool.
  (* what the parser recognises *)
  Variable binop_of : tok -> option sym.
  Variable preop_of : tok -> option sym.
  Variable atom_of : tok -> option atom.
  Variables is_lp is_rp : tok -> bool.
  (* what the printer writes *)
  Variables tok_bin tok_pre : sym -> tok.
  Variable tok_atom : atom -> tok.
  Variables tlp trp : tok.

  Inductive level := LBin (ops : list sym) | LPre (ops : list sym).
  Variable tbl : list level.

  Inductive expr :=
  | EAtom (a : atom)
  | EUn (s : sym) (x : expr)
  | EBin (s : sym) (x y : expr)
  | EParen (x : expr).

  Definition mem (s : sym) (l : list sym) : bool := existsb (sym_eqb s) l.

  Fixpoint pe (fuel : nat) (lvs : list level) (ts : list tok) {struct fuel} : option (expr * list tok) :=
    match fuel with
    | O => None
    | S f =>
      match lvs with
      | [] =>
          match ts with
          | t :: r =>
              match atom_of t with
              | Some a => Some (EAtom a, r)
              | None =>
                  if is_lp t then
                    match pe f tbl r with
                    | Some (e, t' :: r') => if is_rp t' then Some (EParen e, r') else None
                    | _ => None
                    end
                  else None
              end
          | [] => None
          end
      | LPre ops :: lvs' =>
          match ts with
          | t :: r =>
              match preop_of t with
              | Some s =>
                  if mem s ops then
                    match pe f lvs r with
                    | Some (x, r') => Some (EUn s x, r')
                    | None => None
                    end
                  else pe f lvs' ts
              | None => pe f lvs' ts
              end
          | [] => pe f lvs' ts
          end
      | LBin ops :: lvs' =>
          match pe f lvs' ts with
          | Some (l, r) => ploop f ops lvs' l r
          | None => None
          end
      end
    end
  with ploop (fuel : nat) (ops : list sym) (lvs' : list level) (left : expr) (ts : list tok)
         {struct fuel} : option (expr * list tok) :=
    match fuel with
    | O => None
    | S f =>
      match ts with
      | t :: r =>
          match binop_of t with
          | Some s =>
              if mem s ops then
                match pe f lvs' r with
                | Some (y, r') => ploop f ops lvs' (EBin s left y) r'
                | None => None
                end
              else Some (left, ts)
          | None => Some (left, ts)
          end
      | [] => Some (left, ts)
      end
    end.

  Fixpoint print (e : expr) : list tok :=
    match e with
    | EAtom a => [tok_atom a]
    | EUn s x => tok_pre s :: print x
    | EBin s x y => print x ++ tok_bin s :: print y
    | EParen x => tlp :: print x ++ [trp]
    end.

  Definition K : nat := length tbl + 2.
  Definition fuel_for (ts : list tok) : nat := length tbl + K * length ts.

  Definition parse (ts : list tok) : option expr :=
    match pe (fuel_for ts) tbl ts with
    | Some (e, []) => Some e
    | _ => None
    end.

  (* ---- well-formedness of a tree for a suffix of the table *)
  Inductive WF (P : atom -> Prop) : list level -> expr -> Prop :=
  | WF_atom a : P a -> WF P [] (EAtom a)
  | WF_paren x : WF P tbl x -> WF P [] (EParen x)
  | WF_skip lv lvs e : WF P lvs e -> WF P (lv :: lvs) e
  | WF_un ops lvs s x : In s ops -> WF P (LPre ops :: lvs) x -> WF P (LPre ops :: lvs) (EUn s x)
  | WF_bin ops lvs s x y : In s ops -> WF P (LBin ops :: lvs) x -> WF P lvs y ->
                           WF P (LBin ops :: lvs) (EBin s x y).

  Fixpoint atoms_all (P : atom -> Prop) (e : expr) : Prop :=
    match e with
    | EAtom a => P a
    | EUn _ x => atoms_all P x
    | EBin _ x y => atoms_all P x /\ atoms_all P y
    | EParen x => atoms_all P x
    end.

  (* ---- the table check *)
  Definition binops_of (lvs : list level) : list sym :=
    flat_map (fun l => match l with LBin o => o | LPre _ => [] end) lvs.
  Definition preops_of (lvs : list level) : list sym :=
    flat_map (fun l => match l with LPre o => o | LBin _ => [] end) lvs.

  Fixpoint nodupb (l : list sym) : bool :=
    match l with
    | [] => true
    | x :: r => negb (mem x r) && nodupb r
    end.

  Definition wf_table (t : list level) : bool := nodupb (binops_of t) && nodupb (preops_of t).

End PrecClimb.

Arguments EAtom {sym atom} a.
Arguments EUn {sym atom} s x.
Arguments EBin {sym atom} s x y.
Arguments EParen {sym atom} x.
Arguments LBin {sym} ops.
Arguments LPre {sym} ops.
Arguments pe {tok sym atom}.
Arguments ploop {tok sym atom}.
Arguments print {tok sym atom}.
Arguments parse {tok sym atom}.
Arguments mem {sym}.
Arguments WF {sym atom}.
Arguments atoms_all {sym atom}.
Arguments binops_of {sym}.
Arguments preops_of {sym}.
Arguments nodupb {sym}.
Arguments wf_table {sym}.
Arguments K {sym}.
Arguments fuel_for {tok sym}.
