(* Users/Proofs.v — C31: both stores simulate one abstract user map. *)
From Users Require Import Model.
From Common Require Import Base.
From Coq Require Import String.
Open Scope list_scope.
Open Scope N_scope.

Lemma str_eqb_refl a : str_eqb a a = true.
Proof. apply str_eqb_eq. reflexivity. Qed.
Lemma str_eqb_false a b : str_eqb a b = false <-> a <> b.
Proof.
  split.
  - intros H E. apply str_eqb_eq in E. congruence.
  - intros H. destruct (str_eqb a b) eqn:E; [|reflexivity]. apply str_eqb_eq in E. contradiction.
Qed.

(* ---- association lists keyed by uname *)
Lemma aget_name : forall m n u, aget m n = Some u -> uname u = n.
Proof.
  induction m as [|x m IH]; intros n u H; [discriminate|]. cbn in H.
  destruct (str_eqb (uname x) n) eqn:E.
  - inversion H; subst. apply str_eqb_eq. exact E.
  - eapply IH; eassumption.
Qed.

Lemma aget_aput : forall m u n, aget (aput m u) n = if str_eqb (uname u) n then Some u else aget m n.
Proof.
  induction m as [|x m IH]; intros u n; cbn.
  - reflexivity.
  - destruct (str_eqb (uname x) (uname u)) eqn:E; cbn.
    + apply str_eqb_eq in E. rewrite E. destruct (str_eqb (uname u) n); reflexivity.
    + destruct (str_eqb (uname x) n) eqn:E2.
      * destruct (str_eqb (uname u) n) eqn:E3; [|reflexivity].
        apply str_eqb_eq in E2. apply str_eqb_eq in E3. apply str_eqb_false in E. congruence.
      * apply IH.
Qed.

Lemma aget_adel : forall m k n, aget (adel m k) n = if str_eqb k n then None else aget m n.
Proof.
  induction m as [|x m IH]; intros k n; cbn.
  - destruct (str_eqb k n); reflexivity.
  - destruct (str_eqb (uname x) k) eqn:E.
    + rewrite IH. destruct (str_eqb k n) eqn:E2; [reflexivity|].
      destruct (str_eqb (uname x) n) eqn:E3; [|reflexivity].
      apply str_eqb_eq in E. apply str_eqb_eq in E3. apply str_eqb_false in E2. congruence.
    + cbn. destruct (str_eqb (uname x) n) eqn:E3.
      * destruct (str_eqb k n) eqn:E2; [|reflexivity].
        apply str_eqb_eq in E2. apply str_eqb_eq in E3. apply str_eqb_false in E. congruence.
      * apply IH.
Qed.

Lemma adel_absent : forall m n, aget m n = None -> adel m n = m.
Proof.
  induction m as [|x m IH]; intros n H; [reflexivity|]. cbn in *.
  destruct (str_eqb (uname x) n); [discriminate|]. rewrite IH by assumption. reflexivity.
Qed.

Section MapF.
  Variable f : user -> user.
  Hypothesis f_name : forall u, uname (f u) = uname u.
  Lemma aget_map : forall m n, aget (List.map f m) n = option_map f (aget m n).
  Proof. induction m as [|x m IH]; intros n; cbn; [reflexivity|]. rewrite f_name. destruct (str_eqb (uname x) n); [reflexivity|apply IH]. Qed.
  Lemma aput_map : forall m u, aput (List.map f m) (f u) = List.map f (aput m u).
  Proof. induction m as [|x m IH]; intros u; cbn; [reflexivity|]. rewrite !f_name. destruct (str_eqb (uname x) (uname u)); cbn; [reflexivity|]. rewrite IH. reflexivity. Qed.
  Lemma adel_map : forall m n, adel (List.map f m) n = List.map f (adel m n).
  Proof. induction m as [|x m IH]; intros n; cbn; [reflexivity|]. rewrite f_name. destruct (str_eqb (uname x) n); cbn; rewrite IH; reflexivity. Qed.
End MapF.

Lemma norm_name u : uname (norm u) = uname u. Proof. reflexivity. Qed.
Lemma persist_name u : uname (persist u) = uname u. Proof. reflexivity. Qed.
Lemma perms_list_norm u : perms_list (norm u) = perms_list u. Proof. reflexivity. Qed.
Lemma norm_persist u : norm (persist u) = norm u.
Proof. destruct u as [n [[|p ps]|] r]; reflexivity. Qed.
Lemma persist_persist u : persist (persist u) = persist u.
Proof. destruct u as [n [[|p ps]|] r]; reflexivity. Qed.
Lemma map_norm_persist m : List.map norm (List.map persist m) = List.map norm m.
Proof. rewrite map_map. apply map_ext. exact norm_persist. Qed.
Lemma map_persist_persist m : List.map persist (List.map persist m) = List.map persist m.
Proof. rewrite map_map. apply map_ext. exact persist_persist. Qed.
Lemma norm_set_perm u p on : norm (set_perm_user u p on) = set_perm_user (norm u) p on.
Proof. reflexivity. Qed.

Lemma run_from_app {S} (stp : S -> op -> S * ans) : forall h1 h2 s,
  run_from stp s (h1 ++ h2) =
  let '(s1, l1) := run_from stp s h1 in let '(s2, l2) := run_from stp s1 h2 in (s2, l1 ++ l2).
Proof.
  induction h1 as [|o h1 IH]; intros h2 s; cbn [app run_from].
  - destruct (run_from stp s h2). reflexivity.
  - destruct (stp s o) as [s' a]. rewrite IH.
    destruct (run_from stp s' h1) as [s1 l1]. destruct (run_from stp s1 h2) as [s2 l2]. reflexivity.
Qed.
Lemma run_from_length {S} (stp : S -> op -> S * ans) : forall h s, List.length (snd (run_from stp s h)) = List.length h.
Proof.
  induction h as [|o h IH]; intros s; cbn [run_from]; [reflexivity|].
  destruct (stp s o) as [s' a]. specialize (IH s'). destruct (run_from stp s' h). cbn in *. congruence.
Qed.

Lemma aget_app1 : forall m u n, aget (m ++ [u]) n =
  match aget m n with Some v => Some v | None => if str_eqb (uname u) n then Some u else None end.
Proof.
  induction m as [|x m IH]; intros u n; cbn; [reflexivity|].
  destruct (str_eqb (uname x) n); [reflexivity|apply IH].
Qed.

Lemma cadd_get cap c u m v : aget (cadd cap c u) m = Some v ->
  (str_eqb (uname u) m = true /\ v = u) \/ (str_eqb (uname u) m = false /\ aget c m = Some v).
Proof.
  unfold cadd. destruct (Nat.leb cap (List.length (adel c (uname u)))).
  - rewrite aget_adel. destruct (str_eqb (uname u) m); [discriminate|]. intros H. right. split; [reflexivity|exact H].
  - rewrite aget_app1, aget_adel. destruct (str_eqb (uname u) m).
    + intros H. inversion H. left. split; reflexivity.
    + destruct (aget c m) as [w|]; [|discriminate]. intros H. right. split; [reflexivity|exact H].
Qed.

Section Sim.
  Variable admin : user.
  Variable cap : nat.
  Notation an := (uname admin).

  (* ---- file store *)
  Definition Rf (fs : fstate) (s : amap) : Prop :=
    List.map norm (fmem fs) = s /\
    (fdirty fs = false -> fdisk fs = Some (List.map persist (fmem fs))) /\
    aget (fmem fs) an <> None.

  Lemma Rf_flush fs s : Rf fs s -> Rf (fflush fs) s.
  Proof.
    intros HR. unfold fflush. destruct (fdirty fs) eqn:E; [|exact HR].
    destruct HR as (H1 & H2 & H3). repeat split; cbn; auto.
  Qed.

  Lemma Rf_write fs s u : Rf fs s -> Rf (fwrite fs u) (aput s (norm u)).
  Proof.
    intros (H1 & H2 & H3). repeat split; cbn.
    - rewrite <- H1. symmetry. apply aput_map. exact norm_name.
    - discriminate.
    - rewrite aget_aput. destruct (str_eqb (uname u) an); [discriminate|assumption].
  Qed.

  Lemma fstep_sim : forall fs s o, keeps_admin admin o = true -> Rf fs s ->
    let '(fs', a) := fstep admin false fs o in let '(s', b) := sstep s o in Rf fs' s' /\ a = b.
  Proof.
    intros fs s o Hk HR. pose proof HR as (H1 & H2 & H3).
    assert (HG : forall n, aget s n = option_map norm (aget (fmem fs) n)).
    { intros n. rewrite <- H1. apply aget_map. exact norm_name. }
    destruct o as [u|n|n| |n|n p|n p on| | | ]; cbn [fstep sstep].
    - split; [apply Rf_write; assumption|reflexivity].
    - cbn in Hk. apply negb_true_iff, str_eqb_false in Hk.
      destruct (aget (fmem fs) n) as [u|] eqn:E.
      + pose proof (aget_name _ _ _ E) as Hn. rewrite Hn. split; [|reflexivity].
        repeat split; cbn.
        * rewrite <- H1. symmetry. apply adel_map. exact norm_name.
        * discriminate.
        * rewrite aget_adel. destruct (str_eqb n an) eqn:E2; [|assumption].
          apply str_eqb_eq in E2. congruence.
      + split; [|reflexivity]. rewrite adel_absent; [assumption|]. rewrite HG, E. reflexivity.
    - split; [assumption|]. rewrite HG. reflexivity.
    - split; [assumption|]. rewrite H1. reflexivity.
    - split; [assumption|]. rewrite HG. destruct (aget (fmem fs) n); reflexivity.
    - split; [assumption|]. rewrite HG. destruct (aget (fmem fs) n); reflexivity.
    - rewrite HG. destruct (aget (fmem fs) n) as [u|] eqn:E; cbn [option_map].
      + split; [|reflexivity]. apply Rf_flush. unfold spu. rewrite <- norm_set_perm. apply Rf_write. assumption.
      + split; [assumption|reflexivity].
    - split; [apply Rf_flush; assumption|reflexivity].
    - split; [|reflexivity].
      pose proof (Rf_flush _ _ HR) as (F1 & F2 & F3).
      assert (HF : fdirty (fflush fs) = false)
        by (unfold fflush; destruct (fdirty fs) eqn:E; cbn; [reflexivity|exact E]).
      pose proof (F2 HF) as HD.
      assert (HM : fmem (fflush fs) = fmem fs) by (unfold fflush; destruct (fdirty fs); reflexivity).
      rewrite HD, HM. unfold fopen.
      destruct (List.map persist (fmem fs)) as [|x r] eqn:EM.
      * exfalso. apply H3. destruct (fmem fs); [reflexivity|discriminate].
      * rewrite <- EM. repeat split; cbn.
        -- rewrite map_norm_persist. assumption.
        -- intros _. rewrite map_persist_persist. reflexivity.
        -- rewrite (aget_map persist persist_name). destruct (aget (fmem fs) an); [discriminate|contradiction].
    - split; [assumption|reflexivity].
  Qed.

  (* ---- database store *)
  Definition Rd (ds : dstate) (s : amap) : Prop :=
    List.map norm (dtbl ds) = s /\
    (forall n u, aget (dcache ds) n = Some u -> aget (dtbl ds) n = Some u) /\
    aget (dtbl ds) an <> None.

  Lemma dread_ok ds s n : Rd ds s ->
    let '(ds', r) := dread cap ds n in Rd ds' s /\ dtbl ds' = dtbl ds /\ r = aget (dtbl ds) n.
  Proof.
    intros (H1 & H2 & H3). unfold dread.
    destruct (aget (dcache ds) n) as [u|] eqn:EC.
    - repeat split; auto. symmetry. apply H2. exact EC.
    - destruct (aget (dtbl ds) n) as [u|] eqn:ET.
      + repeat split; cbn; auto.
        intros m v Hm. apply cadd_get in Hm as [[E Hv]|[E Hm]].
        * subst v. apply str_eqb_eq in E. rewrite <- E, (aget_name _ _ _ ET). exact ET.
        * apply H2. exact Hm.
      + repeat split; auto.
  Qed.

  Lemma dwrite_ok ds s u : Rd ds s -> Rd (dwrite cap ds u) (aput s (norm u)).
  Proof.
    intros (H1 & H2 & H3). unfold dwrite.
    assert (R1 : Rd (mkd (dtbl ds) (adel (dcache ds) (uname u))) s).
    { repeat split; cbn; auto. intros m v Hm. rewrite aget_adel in Hm.
      destruct (str_eqb (uname u) m); [discriminate|]. apply H2. exact Hm. }
    pose proof (dread_ok _ _ (uname u) R1) as HD.
    destruct (dread cap (mkd (dtbl ds) (adel (dcache ds) (uname u))) (uname u)) as [s2 r].
    destruct HD as ((D1 & D2 & D3) & DT & _). cbn in DT.
    repeat split; cbn.
    - rewrite DT, <- H1. symmetry. apply aput_map. exact norm_name.
    - intros m v Hm. rewrite aget_aput. apply cadd_get in Hm as [[E Hv]|[E Hm]]; rewrite E.
      + subst v. reflexivity.
      + apply D2. exact Hm.
    - rewrite aget_aput. destruct (str_eqb (uname u) an); [discriminate|]. rewrite DT. assumption.
  Qed.

  Lemma dstep_sim : forall ds s o, keeps_admin admin o = true -> Rd ds s ->
    let '(ds', a) := dstep admin false cap ds o in let '(s', b) := sstep s o in Rd ds' s' /\ a = b.
  Proof.
    intros ds s o Hk HR. pose proof HR as (H1 & H2 & H3).
    assert (HG : forall n, aget s n = option_map norm (aget (dtbl ds) n)).
    { intros n. rewrite <- H1. apply aget_map. exact norm_name. }
    destruct o as [u|n|n| |n|n p|n p on| | | ]; cbn [dstep sstep].
    - split; [apply dwrite_ok; assumption|reflexivity].
    - cbn in Hk. apply negb_true_iff, str_eqb_false in Hk. split; [|reflexivity].
      repeat split; cbn.
      + rewrite <- H1. symmetry. apply adel_map. exact norm_name.
      + intros m v Hm. rewrite aget_adel in *. destruct (str_eqb n m); [discriminate|]. apply H2. exact Hm.
      + rewrite aget_adel. destruct (str_eqb n an) eqn:E2; [|assumption]. apply str_eqb_eq in E2. congruence.
    - pose proof (dread_ok _ _ n HR) as HD. destruct (dread cap ds n) as [ds' r]. destruct HD as (R & _ & Hr).
      split; [assumption|]. rewrite HG, Hr. reflexivity.
    - split; [assumption|]. rewrite H1. reflexivity.
    - pose proof (dread_ok _ _ n HR) as HD. destruct (dread cap ds n) as [ds' r]. destruct HD as (R & _ & Hr).
      split; [assumption|]. rewrite HG, Hr. destruct (aget (dtbl ds) n); reflexivity.
    - pose proof (dread_ok _ _ n HR) as HD. destruct (dread cap ds n) as [ds' r]. destruct HD as (R & _ & Hr).
      split; [assumption|]. rewrite HG, Hr. destruct (aget (dtbl ds) n); reflexivity.
    - pose proof (dread_ok _ _ n HR) as HD. destruct (dread cap ds n) as [ds' r]. destruct HD as (R & _ & Hr).
      rewrite HG, Hr. destruct (aget (dtbl ds) n) as [u|]; cbn [option_map].
      + split; [|reflexivity]. unfold spu. rewrite <- norm_set_perm. apply dwrite_ok. assumption.
      + split; [assumption|reflexivity].
    - split; [assumption|reflexivity].
    - split; [|reflexivity]. unfold dopen.
      destruct (aget (dtbl ds) an) eqn:E; [|contradiction].
      repeat split; cbn; auto; [intros; discriminate|rewrite E; discriminate].
    - split; [|reflexivity]. repeat split; cbn; auto. intros; discriminate.
  Qed.

  Lemma run_sim {S} (stp : S -> op -> S * ans) (R : S -> amap -> Prop)
        (Hstep : forall x s o, keeps_admin admin o = true -> R x s ->
                   let '(x', a) := stp x o in let '(s', b) := sstep s o in R x' s' /\ a = b) :
    forall h x s, guard admin h = true -> R x s ->
      R (fst (run_from stp x h)) (fst (run_from sstep s h)) /\ snd (run_from stp x h) = snd (run_from sstep s h).
  Proof.
    induction h as [|o h IH]; intros x s Hg HR; cbn [run_from]; [split; [assumption|reflexivity]|].
    cbn [guard forallb] in Hg. apply andb_true_iff in Hg as [Ho Hh].
    pose proof (Hstep x s o Ho HR) as HS.
    destruct (stp x o) as [x' a]. destruct (sstep s o) as [s' b]. destruct HS as [HR' Hab].
    specialize (IH x' s' Hh HR').
    destruct (run_from stp x' h) as [x'' l]. destruct (run_from sstep s' h) as [s'' l']. cbn in *.
    destruct IH as [IH1 IH2]. split; [assumption|congruence].
  Qed.

  Lemma Rf_init : Rf (fopen admin None) [norm admin].
  Proof. repeat split; cbn; [discriminate|]. rewrite str_eqb_refl. discriminate. Qed.
  Lemma Rd_init : Rd (dopen admin []) [norm admin].
  Proof. unfold dopen. cbn. repeat split; cbn; [intros; discriminate|]. rewrite str_eqb_refl. discriminate. Qed.

  Lemma file_refines h : guard admin h = true -> file_answers admin false h = spec_answers admin h.
  Proof. intros Hg. unfold file_answers, spec_answers. apply (run_sim (fstep admin false) Rf fstep_sim h _ _ Hg Rf_init). Qed.
  Lemma db_refines h : guard admin h = true -> db_answers admin false cap h = spec_answers admin h.
  Proof. intros Hg. unfold db_answers, spec_answers. apply (run_sim (dstep admin false cap) Rd dstep_sim h _ _ Hg Rd_init). Qed.

  (* a restart anywhere only adds its own Ok to the abstract answers *)
  Lemma spec_reopen h1 h2 : exists l1 l2,
    List.length l1 = List.length h1 /\
    spec_answers admin (h1 ++ h2) = l1 ++ l2 /\
    spec_answers admin (h1 ++ OReopen :: h2) = l1 ++ AOk :: l2.
  Proof.
    unfold spec_answers. rewrite !run_from_app.
    pose proof (run_from_length sstep h1 [norm admin]) as HL.
    destruct (run_from sstep [norm admin] h1) as [s1 l1]. cbn [run_from sstep].
    destruct (run_from sstep s1 h2) as [s2 l2]. cbn in *.
    exists l1, l2. repeat split; assumption.
  Qed.

  Lemma guard_app h1 h2 : guard admin (h1 ++ h2) = guard admin h1 && guard admin h2.
  Proof. unfold guard. apply forallb_app. Qed.
End Sim.

(* ---- witnesses *)
Definition bob (p : option (list str)) : user := mkuser (L "bob") p (L "id|pw|").

Definition witness_default : list op :=
  [OWrite (bob (Some [L "logon"])); ODelete (L "admin"); OReopen; OList].
Definition witness_old : list op :=
  [OWrite (bob (Some [L "logon"])); OSetPerm (L "bob") (L "LOGON") false; OPerms (L "bob"); OReopen;
   OSetPerm (L "bob") (L "x") true; OPerms (L "bob")].

Lemma default_user_refuted :
  file_answers demo_admin false witness_default <> db_answers demo_admin false 1000 witness_default.
Proof. vm_compute. intros H. discriminate H. Qed.

Definition witness_old_noreopen : list op :=
  [OWrite (bob (Some [L "logon"])); OSetPerm (L "bob") (L "LOGON") false; OPerms (L "bob");
   OSetPerm (L "bob") (L "x") true; OPerms (L "bob")].

(* pinned setPermission: the stores disagree, and the file store answers differently with and without a restart *)
Lemma old_refuted :
  guard demo_admin witness_old = true /\
  file_answers demo_admin true witness_old <> db_answers demo_admin true 1000 witness_old /\
  last (file_answers demo_admin true witness_old) AOk <> last (file_answers demo_admin true witness_old_noreopen) AOk.
Proof. split; [reflexivity|]. split; vm_compute; intros H; discriminate H. Qed.
