Model.vo Model.glob Model.v.beautified Model.required_vo: Model.v 
Model.vio: Model.v 
Model.vos Model.vok Model.required_vos: Model.v 
Proofs.vo Proofs.glob Proofs.v.beautified Proofs.required_vo: Proofs.v 
Proofs.vio: Proofs.v 
Proofs.vos Proofs.vok Proofs.required_vos: Proofs.v 
Properties.vo Properties.glob Properties.v.beautified Properties.required_vo: Properties.v 
Properties.vio: Properties.v 
Properties.vos Properties.vok Properties.required_vos: Properties.v 
