(* Diag/Properties.v — property theorems of C12 (diagnostics modes do not change behaviour). *)
From Coq Require Import ZArith NArith List Bool.
Import ListNotations.
From VM Require Import Model.
From Diag Require Import Model Proofs Simulation.
Open Scope nat_scope.

(* Tracing and profiling: ANY observer hooked into the dispatch loop that only reads the context and appends
   to its own channel leaves shared state, context and outcome of every run exactly those of the plain run. *)
Theorem C12_observer_transparent : forall ev (obs : ctx -> instr -> list ev) fuel p g c log,
  project ev (run_with ev obs fuel p g c log) = run fuel p g c.
Proof. exact run_with_project. Qed.

Theorem C12_trace_transparent : forall fuel p g c log,
  project dev (run_with dev trace_obs fuel p g c log) = run fuel p g c.
Proof. intros. apply run_with_project. Qed.

Theorem C12_profile_transparent : forall fuel p g c log,
  project dev (run_with dev profile_obs fuel p g c log) = run fuel p g c.
Proof. intros. apply run_with_project. Qed.

(* Debugger with `continue`: after the repair the catch layer hands the line signal through untouched, for
   every context (try active or not) ... *)
Theorem C12_debug_signal_not_caught : forall c, handle_catch c (Some ESignalDebugger) = (c, Some ESignalDebugger).
Proof. exact signal_passes. Qed.

(* ... so a stop at a line returns to the debugger with shared state and context exactly those the plain run
   continues from, and `continue` resumes there (one stuttering step).  The whole-run equality for the debug
   mode is not proved (it needs the simulation over all 35 instructions); it is checked by the
   correspondence on every run. *)
Theorem C12_debug_continue_partial : forall stops fuel p g c n,
  c_running c = true -> c_debug c = true -> n <> 0%Z ->
  nth_error (code_of p (c_code c)) (c_pc c) = Some (IAtLine n) ->
  debug_loop (S stops) (S fuel) p g c = debug_loop stops (S fuel) p g (set_pc c (S (c_pc c))) /\
  run (S fuel) p g (set_debug c false) = run fuel p g (set_debug (set_pc c (S (c_pc c))) false).
Proof. exact debug_stop_resumes. Qed.

(* The code before fix 6274accc: with a try active the line signal was caught: control went to the catch
   address, the try entry was spent, no signal reached the debugger. *)
Theorem C12_debug_old_refuted :
  exists p g c n, c_debug c = true /\ c_trys c <> [] /\
    step_old (fun g _ => (g, None)) p g c (IAtLine n) = (g, set_trys (set_stack (set_pc c 5) []) [0], None).
Proof. exists old_prog, init_glob, old_ctx, 3%Z. split; [reflexivity|]. split; [discriminate|]. exact old_signal_caught. Qed.

Definition C12_statement : Prop := forall stops fuel p,
  fst (debug_loop stops fuel p init_glob (init_ctx true)) = fst (run fuel p init_glob (init_ctx false)) \/
  snd (debug_loop stops fuel p init_glob (init_ctx true)) = OutOfFuel.

(* non-vacuity: a program with a try block, traced, profiled and debugged *)
Definition ex_prog : program :=
  [{| u_lit := false; u_nret := 0;
      u_code := [IAtLine 1; IPushV (VInt 1); IPrint 1; ITry 14; IPushMark L_try; IAtLine 2; IPushV (VInt 2); IPrint 1;
                 IAtLine 3; IPushV (VInt 1); IPushV (VInt 0); IBin BDiv; IDropToMarker (Some L_try); IBranch 17;
                 IAtLine 4; IPushV (VInt 4); IPrint 1; ITryPop; IAtLine 5; IPushV (VInt 5); IPrint 1] |}].

Example C12_nonvacuous :
  run_program 100 ex_prog = [0; 1; 2; 4; 5]%Z /\
  run_program_debug 20 100 ex_prog = [0; 1; 2; 4; 5]%Z /\
  length (snd (run_with dev trace_obs 100 ex_prog init_glob (init_ctx false) [])) = 19 /\
  snd (run_with dev profile_obs 100 ex_prog init_glob (init_ctx false) []) =
    [ProfileLine 1; ProfileLine 2; ProfileLine 3; ProfileLine 4; ProfileLine 5]%Z.
Proof. vm_compute. repeat split; reflexivity. Qed.

(* ------------------------------------------------------------------ whole-run equality for the debug mode *)
(* The debugger driven with `continue` only (debugger.go runFrom fused with RunFromAddress: every stop at a line
   is answered by Resume()) ends EVERY run -- every program, shared state, context and fuel -- with the shared
   state (symbol tables, printed output, panic chain), the context (up to the debugging flag itself) and the
   outcome of the plain run of the same context.  Proved by induction on the dispatched instructions: the line
   marker is a stuttering step (C12_debug_signal_not_caught, C12_debug_continue_partial), every other instruction
   commutes with the flag (exec_sd / step_sd over all instructions of the model, including the nested runs of
   deferred calls, catch unwinding and panic unwinding). *)
Theorem C12_debug_continue_whole_run : forall fuel p g c,
  run_debug_continue fuel p g (set_debug c true) =
  (let '(g', c', o) := run fuel p g (set_debug c false) in (g', set_debug c' true, o)).
Proof. exact debug_continue_whole_run. Qed.

(* projected observables (printed markers + outcome class) of whole programs *)
Theorem C12_debug_continue_observables : forall fuel p,
  run_program_debug_continue fuel p = run_program fuel p.
Proof. exact debug_continue_observables. Qed.

Example C12_debug_continue_whole_run_nonvacuous :
  run_program_debug_continue 100 ex_prog = [0; 1; 2; 4; 5]%Z /\
  c_debug (snd (fst (run_debug_continue 100 ex_prog init_glob (init_ctx true)))) = true /\
  c_pc (snd (fst (run_debug_continue 100 ex_prog init_glob (init_ctx true)))) = 21.
Proof. vm_compute. repeat split; reflexivity. Qed.
