"""Helpers shared by props/C10.py and props/C12.py (MiniEgo VM model, coq/VM).

 * dump_to_coq: turns the text written by harness/C10/dump.go (real compiler output with operands)
   into a Coq term of type VM.Model.program, or None when an instruction lies outside the modelled set.
 * gen_program: seeded generator of Ego programs nesting try/catch, defer, panic/recover, loops with
   break/continue, function calls; every observable action is `print <int>`.
 * ref_trace: the documented order of the printed markers (reference semantics, independent of the VM).
"""
import re

BINOPS = {"Add": "BAdd", "Sub": "BSub", "Mul": "BMul", "Div": "BDiv", "Equal": "BEq", "NotEqual": "BNe",
          "LT": "BLt", "LTEQ": "BLe", "GT": "BGt", "GTEQ": "BGe"}


class Unsupported(Exception):
    pass


class Interner:
    def __init__(self):
        self.tab = {"try": 1}

    def get(self, s):
        if s not in self.tab:
            self.tab[s] = len(self.tab) + 10
        return self.tab[s]


def _unq(s):
    # Go strconv.Quote -> python string (only used for identity, so a cheap decode is enough)
    return s[1:-1]


def _split_list(body):
    parts, depth, cur, instr, esc = [], 0, "", False, False
    for ch in body:
        if instr:
            cur += ch
            if esc:
                esc = False
            elif ch == "\\":
                esc = True
            elif ch == '"':
                instr = False
            continue
        if ch == '"':
            instr = True
            cur += ch
        elif ch in "[(":
            depth += 1
            cur += ch
        elif ch in "])":
            depth -= 1
            cur += ch
        elif ch == "," and depth == 0:
            parts.append(cur)
            cur = ""
        else:
            cur += ch
    if cur:
        parts.append(cur)
    return parts


def _int(op):
    m = re.fullmatch(r"(?:c\()?i:(-?\d+)\)?", op)
    if not m:
        raise Unsupported("int operand expected: " + op)
    return int(m.group(1))


def _z(n):
    return "(%d)%%Z" % n


def _name(op, it):
    m = re.fullmatch(r'[st]:(".*")', op)
    if not m:
        raise Unsupported("name operand expected: " + op)
    return "%d%%N" % it.get(_unq(m.group(1)))


def _value(op, it):
    if op.startswith("c(") and op.endswith(")"):
        op = op[2:-1]
    if op == "nil":
        return "VNil"
    if op.startswith("i:"):
        return "VInt " + _z(int(op[2:]))
    if op.startswith("b:"):
        return "VBool " + op[2:]
    if op.startswith("s:"):
        return "VStr %d%%N" % it.get(_unq(op[2:]))
    raise Unsupported("push operand " + op)


def instr_to_coq(name, op, it):
    if name == "AtLine":
        if op.startswith("l["):
            op = _split_list(op[2:-1])[0]
        return "IAtLine " + _z(_int(op))
    if name == "Push":
        if op.startswith("m:"):
            m = re.fullmatch(r'm:(".*"):\d+', op)
            return "IPushMark %d%%N" % it.get(_unq(m.group(1)))
        if op.startswith("f:"):
            return "IPushFun %d" % int(op[2:])
        return "IPushV (%s)" % _value(op, it)
    if name in ("StoreGlobal", "SymbolCreate", "Store", "StoreAlways", "Load"):
        return "I%s %s" % (name, _name(op, it))
    if name == "Import":
        return "IImport"
    if name in ("Dup", "EntryPoint", "EntryPointExit", "TryPop", "RunDefers", "UserPanic", "Recover", "Newline"):
        if op != "nil":
            raise Unsupported(name + " with operand " + op)
        return "I" + name
    if name == "PushScope":
        if op not in ("nil", "i:1", "i:2"):
            raise Unsupported("PushScope " + op)
        return "IPushScope"
    if name == "PopScope":
        return "IPopScope %d" % (1 if op == "nil" else _int(op))
    if name == "ArgCheck":
        parts = _split_list(op[2:-1]) if op.startswith("l[") else []
        if len(parts) < 2 or parts[0] != "i:0" or parts[1] != "i:0":
            raise Unsupported("ArgCheck " + op)
        return "INop"
    if name == "Module":
        return "INop"
    if name == "Coerce":
        return "INop"      # only emitted for `return <int expression>` of an int function in the generated subset
    if name == "DeferStart":
        return "IDeferStart " + op[2:]
    if name in ("Defer", "Try", "Branch", "BranchFalse", "BranchTrue", "Call", "Print"):
        return "I%s %d" % (name, _int(op))
    if name == "DropToMarker":
        if op == "nil":
            return "IDropToMarker None"
        m = re.fullmatch(r'm:(".*"):\d+', op)
        return "IDropToMarker (Some %d%%N)" % it.get(_unq(m.group(1)))
    if name in BINOPS:
        return "IBin " + BINOPS[name]
    if name == "Return":
        if op in ("nil", "i:0"):
            return "IReturn RNone"
        if op == "b:true":
            return "IReturn RBool"
        return "IReturn (RInt %d)" % _int(op)
    raise Unsupported("opcode " + name)


def dump_to_coq(dump):
    """-> (coq term : program, n_instructions, opcode histogram) ; raises Unsupported"""
    it = Interner()
    units, hist = [], {}
    for line in dump.splitlines():
        if line.startswith("U "):
            m = re.fullmatch(r"U (\d+) ([01]) (\d+) (.*)", line)
            units.append({"lit": m.group(2) == "1", "nret": int(m.group(3)), "code": []})
        elif line.startswith("I "):
            _, name, op = line.split(" ", 2)
            hist[name] = hist.get(name, 0) + 1
            units[-1]["code"].append(instr_to_coq(name, op, it))
    term = "[" + ";\n".join(
        "{| u_lit := %s; u_nret := %d; u_code := [%s] |}" % ("true" if u["lit"] else "false", u["nret"], "; ".join(u["code"]))
        for u in units) + "]"
    return term, sum(len(u["code"]) for u in units), hist


# ------------------------------------------------------------------------------------------------ generator
# Abstract syntax (python tuples):
#   ("print", n) | ("err",)  division by zero | ("panic", n)
#   ("try", body, catch|None) | ("if", cond_true: bool, body)   (condition computed at run time from a variable)
#   ("loop", n_iter, body)    body may contain ("break_at", k) / ("continue_at", k): `if i == k { break }`
#   ("call", f) | ("callv", f)   call user function f as statement / `v := f()` + print v
#   ("defer_call", f) | ("defer_lit", body, recover: bool)
#   ("return",) | ("retv", n)
# functions: {"name", "ret": bool, "body"} ; function k may only call functions with a larger index.

class Gen:
    def __init__(self, rng, allow_defects=True):
        self.rng = rng
        self.mark = 100
        self.var = 0
        self.allow_defects = allow_defects
        self.void = set()        # indices of functions without a result (may fall off their end)
        self.no_lit = False      # no function literal, no top-level declaration: the body's scope can be elided

    def m(self):
        self.mark += 1
        return self.mark

    def v(self, p="v"):
        self.var += 1
        return "%s%d" % (p, self.var)

    def call_stmt(self, fj):
        if fj in self.void or (self.no_lit and self.rng.random() < 0.5):
            return ("call", fj)
        return (self.rng.choice(["call", "callv"]), fj)

    def elidable(self, fi, nfun):
        """body of a function without result whose own scope the compiler can elide (block.go scopeElisionScan):
        no declaration at the top level of the body, no function literal anywhere; deferred calls of named
        functions sit inside nested blocks; the function may reach its closing brace without a return statement"""
        rng = self.rng
        self.no_lit = True
        out = []
        for _ in range(rng.randint(2, 5)):
            r = rng.random()
            if r < 0.3:
                out.append(("print", self.m()))
            elif r < 0.7:
                inner = []
                if fi + 1 < nfun and rng.random() < 0.8:
                    inner.append(("defer_call", rng.randint(fi + 1, nfun - 1)))
                inner += self.block(2, fi, nfun, False, False, True, False, [4], 0, 0)
                out.append(("ifc", rng.random() < 0.8, inner))
            elif r < 0.85 and fi + 1 < nfun:
                out.append(("call", rng.randint(fi + 1, nfun - 1)))
            else:
                body = self.block(2, fi, nfun, False, True, True, False, [4], 1, 1)
                out.append(("try", body, [("print", self.m())]))
        self.no_lit = False
        return out

    def defer_lit(self, fi, nfun, rec=None, fail=None):
        """deferred closure: optional recover(), a marker, optionally a call, optionally a runtime error"""
        rng = self.rng
        b = [("print", self.m())]
        if rec is None:
            rec = rng.random() < 0.4
        if fail is None:
            fail = rng.random() < 0.15
        if rng.random() < 0.3 and fi + 1 < nfun:
            b.append(("call", rng.randint(fi + 1, nfun - 1)))
        if fail:
            b.append(("err",))
            b.append(("print", self.m()))
        return ("defer_lit", b, rec)

    def defer_heavy(self, fi, nfun):
        """a function body built around several deferred calls: recover() in a deferred call that is not the
        first registered, deferred calls that fail, return / failing return inside the function's own try,
        panic raised here or in a callee"""
        rng = self.rng
        out = [("print", self.m())]
        k = rng.randint(2, 4)
        recpos = rng.randint(0, k - 1) if rng.random() < 0.7 else -1
        failpos = rng.randint(0, k - 1) if rng.random() < 0.35 else -1
        for j in range(k):
            if rng.random() < 0.2 and fi + 1 < nfun:
                out.append(("defer_call", rng.randint(fi + 1, nfun - 1)))
            else:
                out.append(self.defer_lit(fi, nfun, rec=(j == recpos) or rng.random() < 0.15, fail=(j == failpos)))
            if rng.random() < 0.3:
                out.append(("print", self.m()))
        t = rng.random()
        if t < 0.35:
            inner = [("print", self.m())] if rng.random() < 0.5 else []
            inner.append(("reterr",) if rng.random() < 0.4 else ("retv", self.m()))
            out.append(("try", inner, [("print", self.m())]))
            out.append(("print", self.m()))
        elif t < 0.65:
            out.append(("panic", self.m()))
        elif t < 0.85 and fi + 1 < nfun:
            out.append(self.call_stmt(rng.randint(fi + 1, nfun - 1)))
            out.append(("print", self.m()))
        else:
            out.append(("try", [("err",)], [("print", self.m())]))
        return out

    def block(self, depth, fi, nfun, in_loop, in_try, infun, ret, budget, ntry=0, nmark=0):
        """ntry: lexically enclosing try statements (body or catch) in this function; nmark: enclosing try
        bodies + loops (stack markers alive in this frame).  allow_defects=False keeps clear of three shapes that
        were defects until fixes 030cc3b3 / 74b1e8a2 / 4b25dcd5 (a three-clause for loop inside a try statement,
        break/continue leaving a try, a value return below two or more stack markers); the default stream
        contains them."""
        rng = self.rng
        out = []
        n = rng.randint(1, 4)
        for _ in range(n):
            r = rng.random()
            if depth >= 4 or budget[0] <= 0:
                r = r * 0.3
            budget[0] -= 1
            if r < 0.22:
                out.append(("print", self.m()))
            elif r < 0.30:
                out.append(("err",))
                if rng.random() < 0.5:
                    out.append(("print", self.m()))
            elif r < 0.45:
                body = self.block(depth + 1, fi, nfun, in_loop, True, infun, ret, budget, ntry + 1, nmark + 1)
                catch = None if rng.random() < 0.2 else self.block(depth + 1, fi, nfun, in_loop, True, infun, ret, budget, ntry + 1, nmark)
                out.append(("try", body, catch))
            elif r < 0.53:
                out.append(("ifc" if (self.no_lit or rng.random() < 0.3) else "if", rng.random() < 0.7, self.block(depth + 1, fi, nfun, in_loop, in_try, infun, ret, budget, ntry, nmark)))
            elif r < 0.63 and (ntry == 0 or self.allow_defects):
                k = rng.randint(1, 3)
                body = self.block(depth + 1, fi, nfun, True, False, infun, ret, budget, ntry, nmark + 1)
                if rng.random() < 0.5:
                    pos = rng.randint(0, len(body))
                    body.insert(pos, (rng.choice(["break_at", "continue_at"]), rng.randint(0, k - 1)))
                tries = [x for x in body if x[0] == "try"]
                if tries and self.allow_defects and rng.random() < 0.6:
                    # leave the loop from inside a try body or a catch block
                    t = rng.choice(tries)
                    tgt = t[1] if (t[2] is None or rng.random() < 0.6) else t[2]
                    tgt.insert(rng.randint(0, len(tgt)), (rng.choice(["break_at", "continue_at"]), rng.randint(0, k - 1)))
                out.append(("loop", k, body))
            elif r < 0.75 and fi + 1 < nfun:
                out.append(self.call_stmt(rng.randint(fi + 1, nfun - 1)))
            elif r < 0.85 and infun:
                if (self.no_lit or rng.random() < 0.4) and fi + 1 < nfun:
                    out.append(("defer_call", rng.randint(fi + 1, nfun - 1)))
                elif not self.no_lit:
                    out.append(self.defer_lit(fi, nfun))
                else:
                    out.append(("print", self.m()))
            elif r < 0.91 and infun:
                out.append(("panic", self.m()))
                break
            elif r < 0.97 and infun and (nmark <= 1 or self.allow_defects):
                if in_try and ret and rng.random() < 0.3:
                    out.append(("reterr",))       # return 1 / 0 : defers run, then the error is raised
                else:
                    out.append(("retv", self.m()) if ret else ("return",))
                    break
            elif in_loop and in_try and self.allow_defects:
                out.append((rng.choice(["break_at", "continue_at"]), 0))
            else:
                out.append(("print", self.m()))
        return out


def gen_program(rng, allow_defects=True):
    g = Gen(rng, allow_defects)
    nfun = rng.randint(1, 4)
    g.void = set(fi for fi in range(nfun) if rng.random() < 0.3)
    funs = []
    for fi in range(nfun):
        ret = fi not in g.void     # functions with a result return int (`v := f()` and `f()` are both legal)
        if not ret and rng.random() < 0.6:
            body = g.elidable(fi, nfun)
        elif rng.random() < 0.3:
            body = g.defer_heavy(fi, nfun)
        else:
            body = g.block(0, fi, nfun, False, False, True, ret, [14])
        if not ret:
            body = _strip_value_returns(body)
        funs.append({"name": "f%d" % fi, "ret": ret, "body": body, "final": g.m() if ret else None})
    main = g.block(0, -1, nfun, False, False, False, False, [10])
    if not any(s[0] in ("call", "callv") for s in main):
        main.append(("call", 0))
    return {"funs": funs, "main": main}


def _strip_value_returns(stmts):
    """a function without result: `return v` / failing return expression become a plain return"""
    out = []
    for s in stmts:
        if s[0] in ("retv", "reterr"):
            out.append(("return",))
        elif s[0] == "try":
            out.append(("try", _strip_value_returns(s[1]), None if s[2] is None else _strip_value_returns(s[2])))
        elif s[0] in ("if", "ifc", "loop"):
            out.append((s[0], s[1], _strip_value_returns(s[2])))
        else:
            out.append(s)
    return out


def render(prog):
    lines = ["@extensions true", ""]
    ctr = [0]

    def fresh(p):
        ctr[0] += 1
        return "%s%d" % (p, ctr[0])

    def blk(stmts, ind, loopvar):
        pad = "    " * ind
        for s in stmts:
            k = s[0]
            if k == "print":
                lines.append("%sprint %d" % (pad, s[1]))
            elif k == "err":
                z = fresh("z")
                lines.append("%s%s := 0" % (pad, z))
                lines.append("%sprint 1 / %s" % (pad, z))
            elif k == "panic":
                lines.append("%spanic(%d)" % (pad, s[1]))
            elif k == "try":
                lines.append(pad + "try {")
                blk(s[1], ind + 1, loopvar)
                if s[2] is None:
                    lines.append(pad + "}")
                else:
                    lines.append(pad + "} catch {")
                    blk(s[2], ind + 1, loopvar)
                    lines.append(pad + "}")
            elif k == "if":
                c = fresh("c")
                lines.append("%s%s := %d" % (pad, c, 1 if s[1] else 0))
                lines.append("%sif %s == 1 {" % (pad, c))
                blk(s[2], ind + 1, loopvar)
                lines.append(pad + "}")
            elif k == "ifc":
                lines.append("%sif 1 == %d {" % (pad, 1 if s[1] else 2))
                blk(s[2], ind + 1, loopvar)
                lines.append(pad + "}")
            elif k == "loop":
                i = fresh("i")
                lines.append("%sfor %s := 0; %s < %d; %s = %s + 1 {" % (pad, i, i, s[1], i, i))
                blk(s[2], ind + 1, i)
                lines.append(pad + "}")
            elif k in ("break_at", "continue_at"):
                lines.append("%sif %s == %d {" % (pad, loopvar, s[1]))
                lines.append("%s    %s" % (pad, "break" if k == "break_at" else "continue"))
                lines.append(pad + "}")
            elif k == "call":
                lines.append("%sf%d()" % (pad, s[1]))
            elif k == "callv":
                v = fresh("r")
                lines.append("%s%s := f%d()" % (pad, v, s[1]))
                lines.append("%sprint %s" % (pad, v))
            elif k == "defer_call":
                lines.append("%sdefer f%d()" % (pad, s[1]))
            elif k == "defer_lit":
                lines.append(pad + "defer func() {")
                if s[2]:
                    rv = fresh("p")
                    lines.append("%s    %s := recover()" % (pad, rv))
                    lines.append("%s    if %s != nil {" % (pad, rv))
                    lines.append("%s        print %s" % (pad, rv))
                    lines.append("%s    }" % pad)
                blk(s[1], ind + 1, None)
                lines.append(pad + "}()")
            elif k == "return":
                lines.append(pad + "return")
            elif k == "retv":
                lines.append("%sreturn %d" % (pad, s[1]))
            elif k == "reterr":
                z = fresh("z")
                lines.append("%s%s := 0" % (pad, z))
                lines.append("%sreturn 1 / %s" % (pad, z))

    for f in prog["funs"]:
        if f.get("final") is None:
            lines.append("func %s() {" % f["name"])        # no result: may fall off its end
            blk(f["body"], 1, None)
        else:
            lines.append("func %s() int {" % f["name"])
            blk(f["body"], 1, None)
            lines.append("    return %d" % f["final"])
        lines.append("}")
        lines.append("")
    lines.append("func main() {")
    blk(prog["main"], 1, None)
    lines.append("}")
    return "\n".join(lines) + "\n"


# ------------------------------------------------------------------------------------------------ reference
# Documented order (docs/LANGUAGE.md "try and catch", "The defer Statement"; property C10):
#  * an error inside a try body (also inside called functions) abandons the rest of the body and runs the
#    catch block once, then continues after the try statement; without an active try it stops the program;
#  * deferred calls run once each, in reverse registration order, when the function returns (return
#    statement or end of body) or unwinds from panic(); recover() in a deferred call stops the panic and the
#    caller of the panicking function resumes (an unnamed result is nil);
#  * functions abandoned by an *error* unwinding to a try in a caller do not run their deferred calls (not
#    documented either way; this is what the VM does: handleCatch pops the frames).
#  * `return <expr>` runs the deferred calls before the value is evaluated (compileReturn).

class _Err(Exception):
    def __init__(self, panicky=False):
        self.panicky = panicky


class _Panic(Exception):
    def __init__(self, v):
        self.v = v


class _Ret(Exception):
    def __init__(self, v):
        self.v = v


class _Break(Exception):
    pass


class _Continue(Exception):
    pass


class _Budget(Exception):
    pass


class _Escape(Exception):
    """an error or unrecovered panic left the context of a deferred call"""
    def __init__(self, panicky):
        self.panicky = panicky


class _CtxFatal(Exception):
    """a deferred call failed while its context was unwinding a panic: the context's run ends with that
    error, no try/catch of the context sees it (run.go: the result of unwindPanic is returned directly)"""
    def __init__(self, panicky):
        self.panicky = panicky


def has_failing_defer(prog):
    def walk(stmts):
        for s in stmts:
            if s[0] == "defer_lit" and any(x[0] in ("err", "call") for x in s[1]):
                return True
            if s[0] == "defer_call":
                return True
            if s[0] in ("try",):
                if walk(s[1]) or (s[2] is not None and walk(s[2])):
                    return True
            if s[0] in ("if", "ifc", "loop") and walk(s[2]):
                return True
        return False
    return any(walk(f["body"]) for f in prog["funs"])


def ref_trace(prog, limit=20000, vm_variant=False):
    """-> (outcome class 0 ok / 1 error / 2 unhandled panic / 3 budget, [printed ints]).

    Every deferred call runs in a context of its own (defer.go: NewContext per call): an error or unrecovered
    panic that leaves it becomes an error at the point where the deferred calls were started -- the return
    statement (inside the function's own try blocks, if any) on the normal path; on the panic path it ends the
    run of the whole context.
    vm_variant=False: the documented reading -- every registered deferred call runs once, also after one of
    them failed.  vm_variant=True: what the VM does today (known finding failing-defer-skips-rest): the
    remaining deferred calls of the frame are dropped after the first one that fails."""
    out = []
    steps = [0]

    def tick():
        steps[0] += 1
        if steps[0] > limit:
            raise _Budget()

    # a context = [panic value or None, parent context reachable through panicContext or None]
    def recover(ctx):
        c = ctx
        while c is not None:
            if c[0] is not None:
                v = c[0]
                c[0] = None
                return v
            c = c[1]
        return None

    def run_deferred(d, parent, panic_path):
        ctx = [None, parent if panic_path else None]      # defer.go: only invokePanicDefers sets panicContext
        try:
            if d[0] == "call":
                run_fun(d[1], ctx)
            else:
                if d[2]:
                    v = recover(ctx)
                    if v is not None:
                        out.append(v)
                try:
                    block(d[1], None, None, ctx)
                except _Ret:
                    pass
        except _Err as e:
            raise _Escape(e.panicky)
        except _Panic:
            raise _Escape(True)
        except _CtxFatal as e:
            raise _Escape(e.panicky)

    def run_defers(defers, ctx, panic_path):
        lst = list(reversed(defers))
        del defers[:]                         # spent: a later return path starts nothing
        first = None
        for d in lst:
            try:
                run_deferred(d, ctx, panic_path)
            except _Escape as e:
                if first is None:
                    first = e
                if vm_variant:
                    break
        if first is not None:
            if panic_path:
                raise _CtxFatal(first.panicky)
            raise _Err(first.panicky)

    def block(stmts, loopvar, regs, ctx):
        for s in stmts:
            tick()
            k = s[0]
            if k == "print":
                out.append(s[1])
            elif k == "err":
                raise _Err()
            elif k == "panic":
                ctx[0] = s[1]
                raise _Panic(s[1])
            elif k == "try":
                try:
                    block(s[1], loopvar, regs, ctx)
                except _Err:
                    if s[2] is not None:
                        block(s[2], loopvar, regs, ctx)
            elif k in ("if", "ifc"):
                if s[1]:
                    block(s[2], loopvar, regs, ctx)
            elif k == "loop":
                for i in range(s[1]):
                    try:
                        block(s[2], i, regs, ctx)
                    except _Break:
                        break
                    except _Continue:
                        continue
            elif k == "break_at":
                if loopvar == s[1]:
                    raise _Break()
            elif k == "continue_at":
                if loopvar == s[1]:
                    raise _Continue()
            elif k == "call":
                run_fun(s[1], ctx)
            elif k == "callv":
                v = run_fun(s[1], ctx)
                out.append(v if v is not None else -3)
            elif k == "defer_call":
                regs.append(("call", s[1]))
            elif k == "defer_lit":
                regs.append(("lit", s[1], s[2]))
            elif k == "return":
                run_defers(regs, ctx, False)
                raise _Ret(None)
            elif k == "retv":
                # compileReturn: RunDefers first, then the value
                run_defers(regs, ctx, False)
                raise _Ret(s[1])
            elif k == "reterr":
                run_defers(regs, ctx, False)
                raise _Err()

    def run_fun(fi, ctx):
        f = prog["funs"][fi]
        defers = []
        try:
            block(f["body"], None, defers, ctx)
            run_defers(defers, ctx, False)
            return f["final"]
        except _Ret as r:
            return r.v
        except _Panic:
            # panic state lives in the context (Context.panicActive/panicValue); a deferred call of this frame,
            # or of a frame of a context further down the panicContext chain, may clear it
            run_defers(defers, ctx, True)
            if ctx[0] is None:
                return None          # recovered: the caller resumes, an unnamed result is nil
            raise _Panic(ctx[0])

    prog["funs"].append({"name": "main", "body": prog["main"], "final": None})
    try:
        run_fun(len(prog["funs"]) - 1, [None, None])
        return 0, out
    except _Err as e:
        return (2 if e.panicky else 1), out
    except _CtxFatal as e:
        return (2 if e.panicky else 1), out
    except _Panic:
        return 2, out
    except _Budget:
        return 3, out
    finally:
        prog["funs"].pop()
