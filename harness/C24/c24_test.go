//go:build verif

package router

// Overlaid into /repo/internal/router by /verif/check C24.  Drives the real Session.Authenticate
// (Basic credentials) -> CheckRateLimit / auth.ValidatePassword / RecordSuccess / RecordFailure and
// pruneLoginAttempts under a testing/synctest virtual clock, with a recording user store.
//
// VERIF_MODE=explicit : the background scan goroutine is never started (scanOnce is pre-fired); the
//                       history's own "P" operations call pruneLoginAttempts directly.  One bubble per history.
// VERIF_MODE=real     : the real background goroutine started by the first CheckRateLimit runs inside the
//                       (single) bubble and prunes every rateLimitScanInterval; "P" lines are ignored.  The
//                       goroutine never exits, so the process leaves with os.Exit(0) after flushing.
//
// Input lines (VERIF_IN):
//   H <maxattempts setting hex|-> <lockout setting hex|->     start a history (state reset)
//   A <name hex> <g|w|e>                                      login attempt: good / wrong / empty password
//   S <ns>                                                    advance the clock
//   P                                                         prune (explicit mode)
// Output lines (VERIF_OUT), one per input line:
//   H <getMaxAttempts()> <getLockoutDuration() ns> <now ns since process epoch>
//   A <lockedOut 0|1> <retryAfter> <authenticated 0|1> <store reads> <now> | <table>
//   S <now> | <table>
//   P <now> | <table>
// <table> = sorted "userhex:failures:lastFailure:lockedUntil" (times in ns since the epoch, z = zero time)

import (
	"bufio"
	"encoding/hex"
	"fmt"
	"net/http"
	"os"
	"sort"
	"strconv"
	"strings"
	"testing"
	"testing/synctest"
	"time"

	"github.com/tucats/ego/internal/cli/settings"
	"github.com/tucats/ego/internal/defs"
	"github.com/tucats/ego/internal/errors"
	auth "github.com/tucats/ego/internal/server/auth"
	"golang.org/x/crypto/bcrypt"
)

type c24Store struct {
	users map[string]defs.User
	reads int
}

func (s *c24Store) ReadUser(session int, name string, doNotLog bool) (defs.User, error) {
	s.reads++

	if u, ok := s.users[name]; ok {
		return u, nil
	}

	return defs.User{}, errors.ErrNoSuchUser
}
func (s *c24Store) WriteUser(session int, user defs.User) error { s.users[user.Name] = user; return nil }
func (s *c24Store) DeleteUser(session int, name string) error   { delete(s.users, name); return nil }
func (s *c24Store) ListUsers(bool) map[string]defs.User         { return s.users }
func (s *c24Store) Flush() error                                { return nil }
func (s *c24Store) Close() error                                { return nil }

func c24Password(user string) string { return "pw-" + user }

func c24Table(epoch time.Time) string {
	loginAttemptsMu.Lock()
	defer loginAttemptsMu.Unlock()

	rows := []string{}

	for u, r := range loginAttempts {
		lu := "z"
		if !r.lockedUntil.IsZero() {
			lu = strconv.FormatInt(int64(r.lockedUntil.Sub(epoch)), 10)
		}

		rows = append(rows, fmt.Sprintf("%s:%d:%d:%s", hex.EncodeToString([]byte(u)), r.failures,
			int64(r.lastFailure.Sub(epoch)), lu))
	}

	sort.Strings(rows)

	return strings.Join(rows, ",")
}

func c24Arg(s string) string {
	if s == "-" {
		return ""
	}

	b, _ := hex.DecodeString(s)

	return string(b)
}

func TestVerifC24(t *testing.T) {
	mode := os.Getenv("VERIF_MODE")

	in, err := os.ReadFile(os.Getenv("VERIF_IN"))
	if err != nil {
		t.Fatal(err)
	}

	out, err := os.Create(os.Getenv("VERIF_OUT"))
	if err != nil {
		t.Fatal(err)
	}

	w := bufio.NewWriter(out)

	// known users (lower case): bcrypt at minimum cost so that thousands of checks stay fast
	store := &c24Store{users: map[string]defs.User{}}
	for _, u := range []string{"alice", "bob", "carol", "dave"} {
		h, _ := bcrypt.GenerateFromPassword([]byte(c24Password(u)), bcrypt.MinCost)
		store.users[u] = defs.User{Name: u, Password: string(h), Permissions: []string{defs.LogonPermission}}
	}

	auth.AuthService = store

	// split the input into histories
	var histories [][]string

	for _, line := range strings.Split(string(in), "\n") {
		line = strings.TrimSpace(line)
		if line == "" {
			continue
		}

		if line[0] == 'H' {
			histories = append(histories, nil)
		}

		if len(histories) > 0 {
			histories[len(histories)-1] = append(histories[len(histories)-1], line)
		}
	}

	runHistory := func(lines []string, epoch time.Time) {
		now := func() int64 { return int64(time.Since(epoch)) }

		for _, line := range lines {
			f := strings.Fields(line)

			switch f[0] {
			case "H":
				settings.SetDefault(defs.AuthMaxAttemptsSetting, c24Arg(f[1]))
				settings.SetDefault(defs.AuthLockoutDurationSetting, c24Arg(f[2]))
				loginAttemptsMu.Lock()
				loginAttempts = map[string]*loginRecord{}
				loginAttemptsMu.Unlock()
				fmt.Fprintf(w, "H %d %d %d\n", getMaxAttempts(), int64(getLockoutDuration()), now())

			case "A":
				name := c24Arg(f[1])
				pass := ""

				switch f[2] {
				case "g":
					pass = c24Password(strings.ToLower(name))
				case "w":
					pass = "wrong-" + name
				}

				r, _ := http.NewRequest(http.MethodGet, "http://localhost/services/x", nil)
				r.SetBasicAuth(name, pass)

				store.reads = 0
				s := (&Session{ID: 1}).Authenticate(r)
				lo, au := 0, 0

				if s.LockedOut {
					lo = 1
				}

				if s.Authenticated {
					au = 1
				}

				fmt.Fprintf(w, "A %d %d %d %d %d | %s\n", lo, s.RetryAfter, au, store.reads, now(), c24Table(epoch))

			case "S":
				d, _ := strconv.ParseInt(f[1], 10, 64)
				time.Sleep(time.Duration(d))
				synctest.Wait()
				fmt.Fprintf(w, "S %d | %s\n", now(), c24Table(epoch))

			case "P":
				if mode != "real" {
					pruneLoginAttempts()
				}

				fmt.Fprintf(w, "P %d | %s\n", now(), c24Table(epoch))
			}
		}
	}

	if mode == "real" {
		synctest.Test(t, func(t *testing.T) {
			epoch := time.Now()
			// start the real scan goroutine off the millisecond grid used by the histories
			time.Sleep(123457 * time.Nanosecond)
			CheckRateLimit("")
			time.Sleep(time.Millisecond - 123457*time.Nanosecond)
			synctest.Wait()

			for _, h := range histories {
				runHistory(h, epoch)
			}

			w.Flush()
			out.Close()
			os.Exit(0) // the scan goroutine never returns; leaving the bubble normally is impossible
		})

		return
	}

	scanOnce.Do(func() {}) // explicit mode: no background goroutine

	for _, h := range histories {
		synctest.Test(t, func(t *testing.T) {
			runHistory(h, time.Now())
		})
	}

	w.Flush()
	out.Close()
}
