(* Assets/Properties.v — property theorems of C39 only; proofs live in Proofs.v. *)
From Common Require Import Base.
From Coq Require Import ZArith.
From Assets Require Import Model Proofs Resolved.
Open Scope Z_scope.

(* No Range header (or none at all) and no file size makes the handler panic. *)
Theorem C39_no_panic :
  forall (cached : bool) (h : option str) (file : list N),
    zlen file <= max_int64 -> handle true cached h file <> Panic.
Proof. exact handle_no_panic. Qed.

(* For every Range header and every file the answer is exactly one of: 400 (malformed), 416 (not
   satisfiable), the whole file (no header), or 206 with body = file[start .. min stop (size-1)]
   and Content-Range "bytes start-min(stop,size-1)/size" with 0 <= start <= last < size. *)
Theorem C39_range_exact :
  forall (cached : bool) (h : option str) (file : list N),
    zlen file <= max_int64 ->
    match parse_range true h with
    | PPanic => False
    | PBad => handle true cached h file = Err 400
    | PNone => handle true cached h file = Full file
    | PRange start stop =>
        match spec_range start stop (zlen file) with
        | Some (a, b) => handle true cached h file = Partial a b (zlen file) (slice file a (b - a + 1)) /\
                         0 <= a <= b /\ b < zlen file /\ a = start /\ b = Z.min stop (zlen file - 1)
        | None => handle true cached h file = Err 416
        end
    end.
Proof. exact handle_exact. Qed.

(* Whatever the path spelling, the file name handed to the file system is the root followed by at
   least one more segment, and has no "", "." or ".." segment: lexically inside the asset root. *)
Theorem C39_contained :
  forall (root : list seg) (path : str),
    forallb plain_seg root = true ->
    (exists rest, rest <> [] /\ normalize root path = root ++ rest) /\
    forallb plain_seg (normalize root path) = true.
Proof. exact normalize_contained. Qed.

(* The code before the repair: "bytes=5" panics (index out of range); "bytes=20-" on a 10-byte file
   panics (negative make); "bytes=10-" on a 10-byte file answers 206 "bytes 10-9/10"; "bytes=0-" on a
   cached asset answers 206 "bytes 0--1/0". *)
Definition ten : list N := [48;49;50;51;52;53;54;55;56;57]%N.
Theorem C39_old_refuted :
  handle false false (Some [98;121;116;101;115;61;53]%N) ten = Panic /\
  handle false false (Some [98;121;116;101;115;61;50;48;45]%N) ten = Panic /\
  handle false false (Some [98;121;116;101;115;61;49;48;45]%N) ten = Partial 10 9 10 [] /\
  handle false true (Some [98;121;116;101;115;61;48;45]%N) ten = Partial 0 (-1) 0 ten.
Proof. vm_compute. repeat split. Qed.

(* non-vacuity: concrete non-trivial instances *)
Example C39_range_nonvacuous :
  handle true false (Some [98;121;116;101;115;61;50;45;53]%N) ten = Partial 2 5 10 [50;51;52;53]%N /\
  handle true false (Some [98;121;116;101;115;61;55;45;57;57]%N) ten = Partial 7 9 10 [55;56;57]%N /\
  handle true true (Some [98;121;116;101;115;61;48;45]%N) ten = Partial 0 9 10 ten /\
  handle true false (Some [98;121;116;101;115;61;53]%N) ten = Err 400 /\
  handle true false (Some [98;121;116;101;115;61;50;48;45]%N) ten = Err 416 /\
  content_range 2 5 10 = [98;121;116;101;115;32;50;45;53;47;49;48]%N.
Proof. vm_compute. repeat split. Qed.

Example C39_contained_nonvacuous :
  let root := [[116;109;112]; [108;105;98]]%N in     (* /tmp/lib *)
  forallb plain_seg root = true /\
  (* "/assets/./a//b.txt" *)
  normalize root [47;97;115;115;101;116;115;47;46;47;97;47;47;98;46;116;120;116]%N
    = root ++ [[97;115;115;101;116;115]; [97]; [98;46;116;120;116]]%N /\
  (* "../../etc/passwd" *)
  normalize root [46;46;47;46;46;47;101;116;99;47;112;97;115;115;119;100]%N = root ++ [invalid_seg].
Proof. vm_compute. repeat split. Qed.

(* Conditional requests (ETag / If-None-Match), for every hash function standing for hex(sha256):
   - a 304 is sent only without a Range header, carries the tag of the content served now, and only if a
     comma-separated piece of the presented If-None-Match, trimmed, equals that tag;
   - a 200 carries the tag of its own body and the body is the file;
   - with a Range header no validator is consulted and the answer is the one of C39_range_exact (never 200). *)
Theorem C39_conditional :
  forall (hash : list N -> str) (cached : bool) (h inm : option str) (file : list N),
    zlen file <= max_int64 ->
    match handle_cond hash true cached h inm file with
    | NotModified t => h = None /\ t = etag hash file /\
                       exists m piece, inm = Some m /\ m <> [] /\ In piece (split_char 44 m) /\ trim_space piece = t
    | FullTag t body => h = None /\ t = etag hash file /\ body = file /\ inm_match t inm = false
    | Plain o => h <> None /\ o = handle true cached h file /\ (forall b, o <> Full b) /\ o <> Panic
    end.
Proof. exact handle_cond_spec. Qed.

(* With a collision-free hash (idealised SHA-256): if every validator the client presents is the tag of a
   copy it holds, a 304 is sent only when one of those copies IS the content served now. *)
Theorem C39_304_current :
  forall (hash : list N -> str) (cached : bool) (h : option str) (m : str) (file : list N) (olds : list (list N)),
    (forall a b, hash a = hash b -> a = b) -> zlen file <= max_int64 ->
    (forall piece, In piece (split_char 44 m) -> exists old, In old olds /\ trim_space piece = etag hash old) ->
    (exists t, handle_cond hash true cached h (Some m) file = NotModified t) -> In file olds.
Proof. exact not_modified_current. Qed.

Example C39_conditional_nonvacuous :
  let hash := fun d : list N => d in      (* an injective stand-in *)
  let tag := etag hash ten in
  (* If-None-Match: W/"x", <tag> with blanks -> 304; another file's tag -> 200 with the body; Range ignores it *)
  handle_cond hash true false None (Some ([87;47;34;120;34;44;32]%N ++ tag ++ [32]%N)) ten = NotModified tag /\
  handle_cond hash true false None (Some (etag hash [49]%N)) ten = FullTag tag ten /\
  handle_cond hash true false None (Some []) ten = FullTag tag ten /\
  handle_cond hash true false (Some [98;121;116;101;115;61;50;45;53]%N) (Some tag) ten = Plain (Partial 2 5 10 [50;51;52;53]%N) /\
  (forall a b : list N, hash a = hash b -> a = b).
Proof. vm_compute. repeat split. auto. Qed.

(* Symbolic links (tree file-system model of coq/Sandbox): the lexical confinement of the NAME does not
   confine what the kernel reads.  C39_resolved_statement (Resolved.v) is the property at full strength
   over the tree model; it is refuted by a link under the root that points outside — recorded as the
   known finding symlink-inside-root-followed and replayed on the real handler by every run. *)
Theorem C39_symlink_refuted : ~ C39_resolved_statement.
Proof. exact resolved_refuted. Qed.

Example C39_symlink_witness :
  forallb plain_seg sl_root = true /\
  Sandbox.Model.evalsym_t sl_fs (true, sl_root) = Some (true, sl_root) /\
  normalize sl_root sl_path = sl_root ++ [[108;105;110;107;102;105;108;101;46;116;120;116]]%N /\
  Sandbox.Model.touch_t sl_fs (true, normalize sl_root sl_path) = Some (true, [[114]; [115;101;99;114;101;116;46;116;120;116]]%N) /\
  Sandbox.Model.below (true, [[114]; [115;101;99;114;101;116;46;116;120;116]]%N) (true, sl_root) = false.
Proof. exact symlink_witness. Qed.
