(* NoPanicReq/Proofs.v *)
From Common Require Import Base.
From Coq Require Import ZArith List Bool Lia.
From NoPanicReq Require Import Model.
Import ListNotations.
Open Scope Z_scope.

Lemma len_nonneg {A} (l : list A) : 0 <= len l.
Proof. unfold len. lia. Qed.

Lemma idx_ok {A} (l : list A) i : 0 <= i < len l -> exists x, idx l i = Ok x.
Proof.
  unfold idx. intros H.
  destruct (Z.ltb_spec i 0); [lia|]. destruct (Z.leb_spec (len l) i); [lia|]. cbn [orb].
  destruct (nth_error l (Z.to_nat i)) eqn:N; [eauto|].
  apply nth_error_None in N. unfold len in *. lia.
Qed.

Lemma slice_ok {A} (l : list A) lo hi : 0 <= lo <= hi -> hi <= len l ->
  exists r, slice l lo hi = Ok r /\ len r = hi - lo.
Proof.
  unfold slice. intros H1 H2.
  destruct (Z.ltb_spec lo 0); [lia|]. destruct (Z.ltb_spec hi lo); [lia|].
  destruct (Z.ltb_spec (len l) hi); [lia|]. cbn [orb]. eexists. split; [reflexivity|].
  unfold len in *. rewrite firstn_length, skipn_length. lia.
Qed.

Lemma ok_not_panic {A} (r : res A) : (exists x, r = Ok x) -> r <> Panic.
Proof. intros [x E]. rewrite E. discriminate. Qed.

Ltac use_idx l i x Hx :=
  let H := fresh in
  assert (H : exists x, idx l i = Ok x) by (apply idx_ok; lia);
  destruct H as [x Hx]; rewrite Hx; cbn [bind].
Ltac use_slice l lo hi x Hx Hl :=
  let H := fresh in
  assert (H : exists x, slice l lo hi = Ok x /\ len x = hi - lo) by (apply slice_ok; lia);
  destruct H as [x [Hx Hl]]; rewrite Hx; cbn [bind].

Lemma split_on_nonempty sep s : 1 <= len (split_on sep s).
Proof.
  induction s as [|c r IH]; cbn [split_on]; [unfold len; cbn; lia|].
  destruct (c =? sep)%N.
  - unfold len in *. cbn [length]. lia.
  - destruct (split_on sep r); unfold len in *; cbn [length] in *; lia.
Qed.

(* ---- paging *)
Lemma page_slice_ok {A} (items : list A) start limit ms : 0 <= start -> exists r, page_slice items start limit ms = Ok r.
Proof.
  intros Hs. unfold page_slice. pose proof (len_nonneg items).
  set (l := if limit =? 0 then if 0 <? ms then ms else limit else limit).
  set (s := if len items <? start then len items else start).
  assert (0 <= s <= len items) by (subst s; destruct (Z.ltb_spec (len items) start); lia).
  use_slice items s (len items) paged Hp Hl.
  destruct (Z.ltb_spec 0 l); cbn [andb]; [|eauto].
  destruct (Z.ltb_spec l (len paged)); [|eauto].
  destruct (slice_ok paged 0 l ltac:(lia) ltac:(lia)) as [x [Hx _]]. eauto.
Qed.

Lemma validate_paging_start hs hl sv lv maxl s l : validate_paging hs hl sv lv maxl = POk s l -> 0 <= s.
Proof.
  unfold validate_paging. destruct (negb hs && negb hl). { intros E. inversion E. lia. }
  destruct hs.
  - destruct sv as [[n|]|].
    + destruct (Z.ltb_spec n 0); [discriminate|].
      destruct (if hl then _ else _); [|discriminate]. intros E. inversion E. lia.
    + discriminate.
    + destruct (if hl then _ else _); [|discriminate]. intros E. inversion E. lia.
  - destruct (if hl then _ else _); [|discriminate]. intros E. inversion E. lia.
Qed.

Lemma paging_no_panic {A} (items : list A) hs hl sv lv maxl ms : paging items hs hl sv lv maxl ms <> Panic.
Proof.
  apply ok_not_panic. unfold paging.
  destruct (validate_paging hs hl sv lv maxl) as [|s l] eqn:E; [eauto|].
  apply validate_paging_start in E.
  destruct (page_slice_ok items s l ms E) as [r Hr]. rewrite Hr. cbn [bind]. eauto.
Qed.

Lemma page_slice_unvalidated_refuted : exists (items : list Z) start, page_slice items start 0 0 = Panic.
Proof. exists [1], (-1). reflexivity. Qed.

(* ---- partsMap *)
Lemma parts_loop_ok path_parts : forall pattern index, 0 <= index -> exists r, parts_loop pattern path_parts index = Ok r.
Proof.
  induction pattern as [|part r IH]; intros index Hi; cbn [parts_loop]; [eauto|].
  pose proof (len_nonneg path_parts).
  destruct (is_glob part).
  - destruct (Z.ltb_spec index (len path_parts)); [|eauto].
    use_slice path_parts index (len path_parts) rest Hr Hl. eauto.
  - assert (V : exists v, (if is_var part then
                 if index <? len path_parts then do p <- idx path_parts index; Ok (PStr [p]) else Ok (PStr [])
               else if len path_parts <=? index then Ok (PBool false)
                    else do p <- idx path_parts index; Ok (PBool (str_eqb part p))) = Ok v).
    { destruct (is_var part).
      - destruct (Z.ltb_spec index (len path_parts)); [|eauto]. use_idx path_parts index p Hp. eauto.
      - destruct (Z.leb_spec (len path_parts) index); [eauto|]. use_idx path_parts index p Hp. eauto. }
    destruct V as [v Hv]. rewrite Hv. cbn [bind].
    destruct (IH (index + 1) ltac:(lia)) as [more Hm]. rewrite Hm. cbn [bind]. eauto.
Qed.

Lemma parts_map_no_panic endpoint path : parts_map endpoint path <> Panic.
Proof.
  apply ok_not_panic. unfold parts_map.
  pose proof (split_on_nonempty 63 (trim_slashes path)).
  use_idx (split_on 63 (trim_slashes path)) 0 seg0 Hs.
  apply parts_loop_ok. lia.
Qed.

Lemma accept_first_no_panic token : accept_first token <> Panic.
Proof.
  apply ok_not_panic. unfold accept_first. pose proof (split_on_nonempty 59 token).
  apply idx_ok. lia.
Qed.

(* ---- Authorization *)
Lemma has_prefix_len : forall p s, has_prefix s p = true -> len p <= len s.
Proof.
  induction p as [|a p IH]; intros s H. { pose proof (len_nonneg s). unfold len at 1. cbn. lia. }
  destruct s as [|b s]; cbn [has_prefix] in H; [discriminate|].
  apply andb_true_iff in H. destruct H as [_ H]. apply IH in H. unfold len in *. cbn [length]. lia.
Qed.

Lemma bearer_token_no_panic h : bearer_token h <> Panic.
Proof.
  apply ok_not_panic. unfold bearer_token. destruct (len h =? 0); [eauto|].
  destruct (has_prefix (map lower_byte h) auth_scheme) eqn:E; [|eauto].
  apply has_prefix_len in E. assert (len (map lower_byte h) = len h) by (unfold len; rewrite map_length; reflexivity).
  pose proof (len_nonneg auth_scheme).
  use_slice h (len auth_scheme) (len h) t Ht Hl. eauto.
Qed.

Lemma cluster_token_no_panic prefix h : cluster_token prefix h <> Panic.
Proof.
  apply ok_not_panic. unfold cluster_token. pose proof (len_nonneg prefix).
  destruct (Z.leb_spec (len h) (len prefix)); [eauto|].
  use_slice h (len prefix) (len h) t Ht Hl. eauto.
Qed.

(* ---- permissions *)
Lemma valid_permissions_ok known : forall perms, exists b, valid_permissions known perms = Ok b.
Proof.
  induction perms as [|p r IH]; cbn [valid_permissions]; [eauto|].
  pose proof (len_nonneg (trim p)).
  destruct (Z.eqb_spec (len (trim p)) 0); [exact IH|].
  use_idx (trim p) 0 c Hc.
  assert (P : exists p', (if (c =? 43)%N || (c =? 45)%N then slice (trim p) 1 (len (trim p)) else Ok (trim p)) = Ok p').
  { destruct (_ || _); [|eauto]. destruct (slice_ok (trim p) 1 (len (trim p)) ltac:(lia) ltac:(lia)) as [x [Hx _]]. eauto. }
  destruct P as [p' Hp']. rewrite Hp'. cbn [bind]. destruct (known p'); [exact IH|eauto].
Qed.

Lemma grant_loop_ok known : forall perms, exists r, grant_loop true known perms = Ok r.
Proof.
  induction perms as [|k r IH]; cbn [grant_loop]; [eauto|]. cbn [andb].
  pose proof (len_nonneg (trim k)).
  destruct (Z.eqb_spec (len (trim k)) 0); [exact IH|].
  use_idx (trim k) 0 c Hc.
  destruct (c =? 45)%N.
  - destruct (slice_ok (trim k) 1 (len (trim k)) ltac:(lia) ltac:(lia)) as [x [Hx _]]. rewrite Hx. cbn [bind fst].
    destruct (known x); [|eauto]. destruct IH as [m Hm]. rewrite Hm. cbn [bind]. eauto.
  - cbn [bind]. destruct (c =? 43)%N.
    + destruct (slice_ok (trim k) 1 (len (trim k)) ltac:(lia) ltac:(lia)) as [x [Hx _]]. rewrite Hx. cbn [bind fst].
      destruct (known x); [|eauto]. destruct IH as [m Hm]. rewrite Hm. cbn [bind]. eauto.
    + cbn [bind fst]. destruct (known (trim k)); [|eauto]. destruct IH as [m Hm]. rewrite Hm. cbn [bind]. eauto.
Qed.

Lemma grant_flags_no_panic known perms : grant_flags true known perms <> Panic.
Proof.
  apply ok_not_panic. unfold grant_flags.
  destruct (valid_permissions_ok known perms) as [b Hb]. rewrite Hb. cbn [bind].
  destruct b; [apply grant_loop_ok|eauto].
Qed.

Lemma grant_flags_old_refuted : exists known perms, grant_flags false known perms = Panic.
Proof. exists (fun _ => true), [[]]. reflexivity. Qed.

Lemma name_parts_no_panic full : name_parts full <> Panic.
Proof.
  apply ok_not_panic. unfold name_parts. pose proof (split_on_nonempty 46 full).
  destruct (Z.leb_spec 2 (len (split_on 46 full))).
  - use_idx (split_on 46 full) 0 a Ha. use_idx (split_on 46 full) (len (split_on 46 full) - 1) b Hb. eauto.
  - use_idx (split_on 46 full) 0 b Hb. eauto.
Qed.

(* ---- admin/users/update.go *)
Lemma ltrim_len s : len (ltrim s) <= len s.
Proof. induction s as [|c r IH]; cbn [ltrim]; [lia|]. destruct (is_space c); unfold len in *; cbn [length]; lia. Qed.

Lemma trim_nonempty s : len (trim s) <> 0 -> len s <> 0.
Proof.
  unfold trim. intros H E. apply H. assert (s = []) by (destruct s; [reflexivity|unfold len in E; cbn in E; lia]).
  subst s. reflexivity.
Qed.

Lemma user_perms_no_panic ok : forall perms, user_perms false ok perms <> Panic.
Proof.
  induction perms as [|p r IH]; cbn [user_perms]; [discriminate|].
  destruct (Z.eqb_spec (len (trim p)) 0) as [E|E]; [exact IH|].
  apply trim_nonempty in E. pose proof (len_nonneg p).
  use_idx p 0 c Hc.
  assert (P : exists p', (if (c =? 43)%N || (c =? 45)%N then slice p 1 (len p) else Ok p) = Ok p').
  { destruct (_ || _); [|eauto]. destruct (slice_ok p 1 (len p) ltac:(lia) ltac:(lia)) as [x [Hx _]]. eauto. }
  destruct P as [p' Hp']. rewrite Hp'. cbn [bind]. destruct (ok p'); [exact IH|discriminate].
Qed.

Lemma user_perms_early_trim_refuted : exists ok perms, user_perms true ok perms = Panic.
Proof. exists (fun _ => true), [[32%N]]. reflexivity. Qed.
