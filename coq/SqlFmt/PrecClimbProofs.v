(* SqlFmt/PrecClimbProofs.v — the generic parse/print theorems over any table with wf_table = true. *)
From Coq Require Import List Arith Lia Bool.
From SqlFmt Require Import PrecClimb.
Import ListNotations.

Section Proofs.
  Variables tok sym atom : Type.
  Variable sym_eqb : sym -> sym -> bool.
  Hypothesis sym_eqb_spec : forall a b, sym_eqb a b = true <-> a = b.
  Variable binop_of : tok -> option sym.
  Variable preop_of : tok -> option sym.
  Variable atom_of : tok -> option atom.
  Variables is_lp is_rp : tok -> bool.
  Variables tok_bin tok_pre : sym -> tok.
  Variable tok_atom : atom -> tok.
  Variables tlp trp : tok.
  Variable tbl : list (level sym).

  Notation expr := (expr sym atom).
  Notation pe := (pe sym_eqb binop_of preop_of atom_of is_lp is_rp tbl).
  Notation ploop := (ploop sym_eqb binop_of preop_of atom_of is_lp is_rp tbl).
  Notation print := (print tok_bin tok_pre tok_atom tlp trp).
  Notation parse := (parse sym_eqb binop_of preop_of atom_of is_lp is_rp tbl).
  Notation mem := (mem sym_eqb).
  Notation WF := (WF tbl).
  Notation Kc := (K tbl).

  (* lexical laws the printer's spellings must satisfy (proved for each instance) *)
  Variable atom_ok : atom -> Prop.
  Hypothesis H_atom : forall a, atom_ok a -> atom_of (tok_atom a) = Some a /\ preop_of (tok_atom a) = None.
  Hypothesis H_lp : atom_of tlp = None /\ is_lp tlp = true /\ preop_of tlp = None.
  Hypothesis H_rp : is_rp trp = true /\ binop_of trp = None.
  Hypothesis H_bin : forall s, binop_of (tok_bin s) = Some s.
  Hypothesis H_pre : forall s, preop_of (tok_pre s) = Some s.
  Hypothesis H_tbl : wf_table sym_eqb tbl = true.

  (* ---------------------------------------------------------------- basics *)
  Lemma mem_In s l : mem s l = true <-> In s l.
  Proof.
    unfold PrecClimb.mem. rewrite existsb_exists. split.
    - intros [x [Hi He]]. apply sym_eqb_spec in He. subst. exact Hi.
    - intros Hi. exists s. split; [exact Hi|]. apply sym_eqb_spec. reflexivity.
  Qed.

  Lemma mem_false s l : mem s l = false <-> ~ In s l.
  Proof.
    rewrite <- mem_In. destruct (mem s l).
    - split; [discriminate|]. intros H. exfalso. apply H. reflexivity.
    - split; [intros _ H'; discriminate|reflexivity].
  Qed.

  Lemma nodupb_NoDup l : nodupb sym_eqb l = true -> NoDup l.
  Proof.
    induction l as [|x l IH]; cbn [nodupb]; intros H; [constructor|].
    apply andb_true_iff in H as [H1 H2]. apply negb_true_iff in H1. apply mem_false in H1.
    constructor; auto.
  Qed.

  Definition good (lvs : list (level sym)) : Prop :=
    NoDup (binops_of lvs) /\ NoDup (preops_of lvs) /\ length lvs <= length tbl.

  Lemma good_tbl : good tbl.
  Proof.
    unfold wf_table in H_tbl. apply andb_true_iff in H_tbl as [H1 H2].
    repeat split; auto using nodupb_NoDup.
  Qed.

  Lemma NoDup_app_r (A : Type) (a b : list A) : NoDup (a ++ b) -> NoDup b.
  Proof. induction a as [|x a IH]; cbn; intros H; [exact H|]. inversion H; auto. Qed.

  Lemma NoDup_app_notin (A : Type) (a b : list A) x : NoDup (a ++ b) -> In x a -> ~ In x b.
  Proof.
    induction a as [|y a IH]; cbn; intros H Hi; [contradiction|].
    inversion H as [|? ? Hn Hd]; subst. destruct Hi as [->|Hi]; [|auto].
    intros Hb. apply Hn. apply in_or_app. right. exact Hb.
  Qed.

  Lemma good_tail lv lvs : good (lv :: lvs) -> good lvs.
  Proof.
    intros (H1 & H2 & H3). unfold binops_of, preops_of in *. cbn [flat_map length] in *.
    repeat split; try lia; eapply NoDup_app_r; eassumption.
  Qed.

  Lemma good_bin_notin ops lvs s : good (LBin ops :: lvs) -> In s ops -> ~ In s (binops_of lvs).
  Proof. intros (H1 & _ & _) Hi. unfold binops_of in *. cbn [flat_map] in H1. eapply NoDup_app_notin; eassumption. Qed.

  Lemma good_pre_notin ops lvs s : good (LPre ops :: lvs) -> In s (preops_of lvs) -> ~ In s ops.
  Proof.
    intros (_ & H2 & _) Hi Ho. unfold preops_of in *. cbn [flat_map] in H2.
    eapply NoDup_app_notin; eassumption.
  Qed.

  (* ---------------------------------------------------------------- one-step unfoldings *)
  Lemma pe_S f lvs ts :
    pe (S f) lvs ts =
      match lvs with
      | [] =>
          match ts with
          | t :: r =>
              match atom_of t with
              | Some a => Some (EAtom a, r)
              | None =>
                  if is_lp t then
                    match pe f tbl r with
                    | Some (e, t' :: r') => if is_rp t' then Some (EParen e, r') else None
                    | _ => None
                    end
                  else None
              end
          | [] => None
          end
      | LPre ops :: lvs' =>
          match ts with
          | t :: r =>
              match preop_of t with
              | Some s =>
                  if mem s ops then
                    match pe f lvs r with
                    | Some (x, r') => Some (EUn s x, r')
                    | None => None
                    end
                  else pe f lvs' ts
              | None => pe f lvs' ts
              end
          | [] => pe f lvs' ts
          end
      | LBin ops :: lvs' =>
          match pe f lvs' ts with
          | Some (l, r) => ploop f ops lvs' l r
          | None => None
          end
      end.
  Proof. reflexivity. Qed.

  Lemma ploop_S f ops lvs' left ts :
    ploop (S f) ops lvs' left ts =
      match ts with
      | t :: r =>
          match binop_of t with
          | Some s =>
              if mem s ops then
                match pe f lvs' r with
                | Some (y, r') => ploop f ops lvs' (EBin s left y) r'
                | None => None
                end
              else Some (left, ts)
          | None => Some (left, ts)
          end
      | [] => Some (left, ts)
      end.
  Proof. reflexivity. Qed.

  (* ---------------------------------------------------------------- more fuel never changes a result *)
  Lemma mono_S : forall f,
      (forall lvs ts r, pe f lvs ts = Some r -> pe (S f) lvs ts = Some r) /\
      (forall ops lvs l ts r, ploop f ops lvs l ts = Some r -> ploop (S f) ops lvs l ts = Some r).
  Proof.
    induction f as [|f [IHp IHl]].
    - split; intros; discriminate.
    - split.
      + intros lvs ts r H. rewrite pe_S in H. rewrite pe_S.
        destruct lvs as [|[ops|ops] lvs'].
        * destruct ts as [|t r0]; [discriminate|].
          destruct (atom_of t); [exact H|]. destruct (is_lp t); [|discriminate].
          destruct (pe f tbl r0) as [[e rr]|] eqn:E; [|discriminate].
          apply IHp in E. rewrite E. exact H.
        * destruct (pe f lvs' ts) as [[l rr]|] eqn:E; [|discriminate].
          apply IHp in E. rewrite E. apply IHl. exact H.
        * destruct ts as [|t r0]; [apply IHp; exact H|].
          destruct (preop_of t) as [s|]; [|apply IHp; exact H].
          destruct (mem s ops); [|apply IHp; exact H].
          destruct (pe f (LPre ops :: lvs') r0) as [[x rr]|] eqn:E; [|discriminate].
          apply IHp in E. rewrite E. exact H.
      + intros ops lvs l ts r H. rewrite ploop_S in H. rewrite ploop_S.
        destruct ts as [|t r0]; [exact H|].
        destruct (binop_of t) as [s|]; [|exact H].
        destruct (mem s ops); [|exact H].
        destruct (pe f lvs r0) as [[y rr]|] eqn:E; [|discriminate].
        apply IHp in E. rewrite E. apply IHl. exact H.
  Qed.

  Lemma pe_mono f f' lvs ts r : f <= f' -> pe f lvs ts = Some r -> pe f' lvs ts = Some r.
  Proof. intros Hle. induction Hle as [|m Hle IH]; intros H0; [exact H0|]. apply mono_S. auto. Qed.

  Lemma ploop_mono f f' ops lvs l ts r : f <= f' -> ploop f ops lvs l ts = Some r -> ploop f' ops lvs l ts = Some r.
  Proof. intros Hle. induction Hle as [|m Hle IH]; intros H0; [exact H0|]. apply mono_S. auto. Qed.

  (* ---------------------------------------------------------------- soundness: parser results are well formed *)
  Notation WFt := (WF (fun _ => True)).

  Lemma sound_both : forall f,
      (forall lvs ts e r, pe f lvs ts = Some (e, r) -> WFt lvs e) /\
      (forall ops lvs l ts e r, ploop f ops lvs l ts = Some (e, r) ->
                                WFt (LBin ops :: lvs) l -> WFt (LBin ops :: lvs) e).
  Proof.
    induction f as [|f [IHp IHl]].
    - split; intros; discriminate.
    - split.
      + intros lvs ts e r H. rewrite pe_S in H.
        destruct lvs as [|[ops|ops] lvs'].
        * destruct ts as [|t r0]; [discriminate|].
          destruct (atom_of t) as [a|].
          { inversion H; subst. constructor. exact I. }
          destruct (is_lp t); [|discriminate].
          destruct (pe f tbl r0) as [[e0 [|t' r']]|] eqn:E; try discriminate.
          destruct (is_rp t'); [|discriminate]. inversion H; subst.
          constructor. eapply IHp. exact E.
        * destruct (pe f lvs' ts) as [[l rr]|] eqn:E; [|discriminate].
          eapply IHl; [exact H|]. apply WF_skip. eapply IHp. exact E.
        * assert (Hskip : pe f lvs' ts = Some (e, r) -> WFt (LPre ops :: lvs') e).
          { intros E. apply WF_skip. eapply IHp. exact E. }
          destruct ts as [|t r0]; [auto|].
          destruct (preop_of t) as [s|]; [|auto].
          destruct (mem s ops) eqn:M; [|auto].
          destruct (pe f (LPre ops :: lvs') r0) as [[x rr]|] eqn:E; [|discriminate].
          inversion H; subst. apply WF_un; [apply mem_In; exact M|]. eapply IHp. exact E.
      + intros ops lvs l ts e r H Hl. rewrite ploop_S in H.
        destruct ts as [|t r0]; [inversion H; subst; exact Hl|].
        destruct (binop_of t) as [s|]; [|inversion H; subst; exact Hl].
        destruct (mem s ops) eqn:M; [|inversion H; subst; exact Hl].
        destruct (pe f lvs r0) as [[y rr]|] eqn:E; [|discriminate].
        eapply IHl; [exact H|]. apply WF_bin; [apply mem_In; exact M|exact Hl|].
        eapply IHp. exact E.
  Qed.

  Theorem parse_sound ts e : parse ts = Some e -> WFt tbl e.
  Proof.
    unfold PrecClimb.parse. destruct (pe _ tbl ts) as [[e0 [|? ?]]|] eqn:E; try discriminate.
    intros H; inversion H; subst. eapply sound_both. exact E.
  Qed.

  Lemma WF_atoms lvs e : WFt lvs e -> atoms_all atom_ok e -> WF atom_ok lvs e.
  Proof.
    induction 1; cbn [atoms_all]; intros Ha.
    - constructor. exact Ha.
    - constructor. auto.
    - apply WF_skip. auto.
    - apply WF_un; auto.
    - destruct Ha. apply WF_bin; auto.
  Qed.

  (* ---------------------------------------------------------------- completeness: print then parse *)
  Fixpoint cost (e : expr) : nat :=
    match e with
    | EAtom _ => Kc
    | EUn _ x => Kc + cost x
    | EBin _ x y => cost x + Kc + cost y
    | EParen x => 2 * Kc + cost x
    end.

  Lemma cost_print e : cost e = Kc * length (print e).
  Proof.
    induction e as [a|s x IHx|s x IHx y IHy|x IHx]; cbn [cost PrecClimb.print length].
    - lia.
    - rewrite IHx. lia.
    - rewrite app_length. cbn [length]. rewrite IHx, IHy. lia.
    - rewrite app_length. cbn [length]. rewrite IHx. lia.
  Qed.

  Lemma cost_pos e : 1 <= cost e.
  Proof. unfold K in *. destruct e; cbn [cost]; unfold K; lia. Qed.

  (* the token after a complete operand must not continue any binary tier of lvs *)
  Definition nocont (lvs : list (level sym)) (rest : list tok) : Prop :=
    match rest with
    | [] => True
    | t :: _ => match binop_of t with Some s => ~ In s (binops_of lvs) | None => True end
    end.

  Lemma nocont_tail lv lvs rest : nocont (lv :: lvs) rest -> nocont lvs rest.
  Proof.
    unfold nocont. destruct rest as [|t r]; [auto|]. destruct (binop_of t) as [s|]; [|auto].
    intros H Hi. apply H. unfold binops_of. cbn [flat_map]. apply in_or_app. right. exact Hi.
  Qed.

  Lemma nocont_head ops lvs rest : nocont (LBin ops :: lvs) rest ->
    match rest with
    | [] => True
    | t :: _ => match binop_of t with Some s => mem s ops = false | None => True end
    end.
  Proof.
    unfold nocont. destruct rest as [|t r]; [auto|]. destruct (binop_of t) as [s|]; [|auto].
    intros H. apply mem_false. intros Hi. apply H. unfold binops_of. cbn [flat_map].
    apply in_or_app. left. exact Hi.
  Qed.

  (* the first token of a well-formed tree: not a prefix operator of a looser tier *)
  Definition first_ok (lvs : list (level sym)) (ts : list tok) : Prop :=
    match ts with
    | [] => False
    | t :: _ => match preop_of t with Some s => In s (preops_of lvs) | None => True end
    end.

  Lemma first_ok_app lvs a b : first_ok lvs a -> first_ok lvs (a ++ b).
  Proof. destruct a; cbn; [contradiction|auto]. Qed.

  Lemma WF_first lvs e : WF atom_ok lvs e -> first_ok lvs (print e).
  Proof.
    induction 1 as [a Ha|x Hx IH|lv lvs e He IH|ops lvs s x Hs Hx IH|ops lvs s x y Hs Hx IHx Hy IHy];
      cbn [PrecClimb.print].
    - cbn. destruct (H_atom a Ha) as [_ ->]. exact I.
    - cbn. destruct H_lp as (_ & _ & ->). exact I.
    - unfold first_ok in *. destruct (print e) as [|t r]; [exact IH|].
      destruct (preop_of t) as [s|]; [|exact I]. unfold preops_of. cbn [flat_map].
      apply in_or_app. right. exact IH.
    - cbn. rewrite H_pre. unfold preops_of. cbn [flat_map]. apply in_or_app. left. exact Hs.
    - apply first_ok_app. exact IHx.
  Qed.

  Definition Pst (lvs : list (level sym)) (e : expr) : Prop :=
    forall rest f, nocont lvs rest -> length lvs + cost e <= f ->
                   pe f lvs (print e ++ rest) = Some (e, rest).

  Definition Qst (ops : list sym) (lvs' : list (level sym)) (e : expr) : Prop :=
    forall rest f1 f result, nocont lvs' rest -> ploop f1 ops lvs' e rest = Some result ->
                             f1 + length lvs' + cost e <= f ->
                             pe f (LBin ops :: lvs') (print e ++ rest) = Some result.

  Lemma P_of_Q ops lvs' e : Qst ops lvs' e -> Pst (LBin ops :: lvs') e.
  Proof.
    intros HQ rest f Hn Hf. apply (HQ rest 1 f (e, rest)).
    - eapply nocont_tail. exact Hn.
    - rewrite ploop_S. apply nocont_head in Hn. destruct rest as [|t r]; [reflexivity|].
      destruct (binop_of t) as [s|]; [|reflexivity]. rewrite Hn. reflexivity.
    - cbn [length] in Hf. lia.
  Qed.

  Lemma complete_both lvs e :
    WF atom_ok lvs e -> good lvs ->
    Pst lvs e /\ (forall ops lvs', lvs = LBin ops :: lvs' -> Qst ops lvs' e).
  Proof.
    induction 1 as [a Ha|x Hx IH|lv lvs e He IH|ops lvs s x Hs Hx IH|ops lvs s x y Hs Hx IHx Hy IHy];
      intros Hg.
    - (* atom *)
      split; [|intros; discriminate].
      intros rest f Hn Hf. cbn [cost length] in Hf. unfold K in Hf.
      destruct f as [|f]; [lia|]. cbn [PrecClimb.print app]. rewrite pe_S.
      destruct (H_atom a Ha) as [-> _]. reflexivity.
    - (* paren *)
      split; [|intros; discriminate].
      intros rest f Hn Hf. cbn [cost length] in Hf.
      destruct f as [|f]; [unfold K in Hf; lia|]. cbn [PrecClimb.print]. rewrite <- app_comm_cons. rewrite pe_S.
      destruct H_lp as (-> & -> & _). rewrite <- app_assoc. cbn [app].
      destruct (IH good_tbl) as [HP _].
      rewrite (HP (trp :: rest) f).
      + destruct H_rp as [-> _]. reflexivity.
      + cbn. destruct H_rp as [_ ->]. exact I.
      + unfold K in *. lia.
    - (* skip *)
      pose proof (good_tail _ _ Hg) as Hg'. destruct (IH Hg') as [HP _].
      assert (HQ : forall ops lvs', lv :: lvs = LBin ops :: lvs' -> Qst ops lvs' e).
      { intros ops lvs' Heq. inversion Heq; subst. intros rest f1 f result Hn Hl Hf.
        destruct f1 as [|f1]; [discriminate|].
        destruct f as [|f]; [pose proof (cost_pos e); lia|]. rewrite pe_S.
        rewrite (HP rest f Hn); [|lia].
        eapply ploop_mono; [|exact Hl]. pose proof (cost_pos e). lia. }
      split; [|exact HQ].
      destruct lv as [ops|ops].
      + apply P_of_Q. apply HQ. reflexivity.
      + intros rest f Hn Hf. cbn [length] in Hf. destruct f as [|f]; [lia|]. rewrite pe_S.
        pose proof (WF_first _ _ He) as Hfirst.
        assert (Hgo : pe f lvs (print e ++ rest) = Some (e, rest)).
        { apply HP; [eapply nocont_tail; exact Hn|lia]. }
        unfold first_ok in Hfirst. destruct (print e) as [|t r] eqn:Ep; [contradiction|].
        cbn [app] in *. destruct (preop_of t) as [s|]; [|exact Hgo].
        assert (M : mem s ops = false).
        { apply mem_false. eapply good_pre_notin; eassumption. }
        rewrite M. exact Hgo.
    - (* prefix operator *)
      split; [|intros; discriminate].
      destruct (IH Hg) as [HP _].
      intros rest f Hn Hf. cbn [cost] in Hf. destruct f as [|f]; [unfold K in Hf; lia|].
      cbn [PrecClimb.print]. rewrite <- app_comm_cons. rewrite pe_S. rewrite H_pre.
      assert (M : mem s ops = true) by (apply mem_In; exact Hs). rewrite M.
      rewrite (HP rest f Hn); [reflexivity|]. unfold K in *. lia.
    - (* binary operator *)
      pose proof (good_tail _ _ Hg) as Hg'.
      destruct (IHx Hg) as [_ HQx]. destruct (IHy Hg') as [HPy _].
      assert (HQ : Qst ops lvs (EBin s x y)).
      { intros rest f1 f result Hn Hl Hf. cbn [cost] in Hf.
        cbn [PrecClimb.print]. rewrite <- app_assoc. rewrite <- app_comm_cons.
        apply (HQx ops lvs eq_refl (tok_bin s :: print y ++ rest) (S (f1 + length lvs + cost y)) f result).
        - cbn. rewrite H_bin. eapply good_bin_notin; eassumption.
        - rewrite ploop_S. rewrite H_bin.
          assert (M : mem s ops = true) by (apply mem_In; exact Hs). rewrite M.
          rewrite (HPy rest _ Hn); [|lia].
          eapply ploop_mono; [|exact Hl]. lia.
        - destruct Hg as (_ & _ & Hlen). cbn [length] in Hlen. unfold K in *. lia. }
      split.
      + apply P_of_Q. exact HQ.
      + intros ops' lvs' Heq. inversion Heq; subst. exact HQ.
  Qed.

  Theorem parse_print e : WF atom_ok tbl e -> parse (print e) = Some e.
  Proof.
    intros Hw. unfold PrecClimb.parse, fuel_for.
    destruct (complete_both tbl e Hw good_tbl) as [HP _].
    specialize (HP [] (length tbl + Kc * length (print e))).
    rewrite app_nil_r in HP. rewrite HP; [reflexivity|exact I|].
    rewrite cost_print. lia.
  Qed.

  Theorem reparse ts e : parse ts = Some e -> atoms_all atom_ok e -> parse (print e) = Some e.
  Proof. intros H Ha. apply parse_print. apply WF_atoms; [eapply parse_sound; exact H|exact Ha]. Qed.

  Theorem idempotent ts e :
    parse ts = Some e -> atoms_all atom_ok e ->
    option_map print (parse (print e)) = Some (print e).
  Proof. intros H Ha. rewrite (reparse ts e H Ha). reflexivity. Qed.
End Proofs.
