"""C22 JWT bearer tokens are verified and revocable (internal/server/oauth/oauth.go ValidateJWT, jwt.go, jwks.go)."""
import json
import os
import vf

GROUP = "Jwt"
PKG = "internal/server/oauth"
META = {
    "group": "Jwt",
    "technique": "Coq proof by invariant over all histories (validate / revoke / clock advance / cache eviction / purge / JWKS rotation) of a Gallina model of ValidateJWT, key selection and the JWKS cache with the signature check as an oracle + vm_compute correspondence with the real ValidateJWT (real RSA/ECDSA keys, changing JWKS documents, SQLite revocation store, synctest clock)",
    "text": "Theorems C22_accept_sound (after every history an accepted JWT uses an allowed algorithm, matches issuer and audience, has exp in the future and nbf passed, its token ID is not revoked, and either it is a result-cache hit or its intact signature was made with the material the cached key set holds for its kid - first key without kid - that set being younger than the JWKS TTL when a kid is named), C22_keys_from_last_fetch (the cached key set is always exactly the usable keys of the document the IdP served at the most recent successful fetch: withdrawn keys are not carried over), C22_revocation_effective (from any cache content, after a revocation no later request with that token ID is accepted, seen before or not) and C22_accept_complete are proved over the model of the repaired code; C22_refuted_current keeps the defect of the code before the repair (revocation consulted only on a cache hit) as a witness. The model (including when the JWKS is re-fetched: no key cached, older than the TTL, unknown kid unless refreshed < 30 s ago) is compared with the real ValidateJWT on generated histories with key rotations, and the property is evaluated on the real outputs by an independent reference simulation. full",
    "note": "Trusted: Coq kernel; signature verification is an oracle (verifies iff the selected key is the signing material and the signed bytes are intact); a result-cache hit is not re-verified (its guarantee is that of the step that cached it; entries live until exp); tokens without kid use the first cached key and never trigger a re-fetch while any key is cached; JWKS fetches succeed unless the document has no usable key; the revocation store answers without error (on a database error the code fails open) and revocations are never undone; user claim = sub; golang-jwt's claim validation as modelled (exp required, now < exp, nbf <= now, iss equality, aud membership) - tied by the correspondence; issuer configuration is never empty in resource-server mode; the overlay harness and the Python comparison.",
}
ISS = "https://idp.example"
AUD = "ego-api"
ALGS = {"RS256": "RS256", "RS384": "RS384", "RS512": "RS512", "ES256": "ES256", "HS256": "HS256", "PS256": "PS256",
        "EdDSA": "EdDSA", "none": "NoneAlg"}
MATS = {"k-rsa": 1, "x-rsa": 2, "k-enc": 3, "k-ec": 4, "x-ec": 5, "e3": 6, "oct": 7}     # key material -> number in the model
KEYTYPE = {"k-rsa": "rsa", "x-rsa": "rsa", "k-enc": "rsa", "k-ec": "ec", "x-ec": "ec", "e3": "ec"}


def J(kid, mat, use="sig"):
    return {"kid": kid, "mat": mat, "use": use}


DOC0 = [J("k-enc", "k-enc", "enc"), J("k-rsa", "k-rsa"), J("k-ec", "k-ec"), J("k-oct", "oct")]
ROT_DOCS = [
    [J("k2", "x-rsa"), J("k-ec", "k-ec")],                       # k-rsa withdrawn, a new RSA key under a new kid
    [J("k-rsa", "x-rsa"), J("k-ec", "k-ec")],                    # kid reused with different key material
    [J("k-ec", "k-ec"), J("k-rsa", "k-rsa")],                    # order changed: the first key is now the EC key
    [J("k-enc", "k-enc", "enc"), J("k-oct", "oct")],             # no usable key: the fetch fails, cached keys stay
    [J("k-rsa", "k-rsa"), J("k-ec", "k-ec"), J("k3", "e3")],     # a key added
    [J("k3", "e3")],                                             # everything withdrawn, one new key
    [J("k-rsa", "k-rsa", ""), J("k-ec", "x-ec")],                # use absent; EC kid reused
]


def usable(doc):
    return [(k["kid"], k["mat"]) for k in doc if k["use"] in ("", "sig") and k["mat"] != "oct"]


def base_token(n):
    return {"alg": "RS256", "signer": "k-rsa", "kid": "k-rsa", "tamper": False, "iss": ISS, "aud": [AUD], "exp": 3600,
            "nbf": None, "jti": "jti-%d" % n, "sub": "user%d" % n, "client": ""}


MUTS = ["none", "none", "none", "rs384", "rs512", "es256", "hs256", "algnone", "ps256", "eddsa", "forged-rsa", "forged-ec", "kid-mismatch",
        "nokid-rsa", "nokid-ec", "kid-unknown", "kid-enc", "kid-oct", "tamper", "iss-wrong", "iss-missing", "aud-wrong", "aud-missing",
        "aud-multi-good", "aud-multi-bad", "exp-missing", "exp-past", "exp-now", "exp-1", "exp-30", "exp-90", "nbf-future", "nbf-past",
        "nojti", "client-only", "nouser", "iss-case", "aud-prefix"]


def mutate(t, m, rng):
    if m == "rs384":
        t["alg"] = "RS384"
    elif m == "rs512":
        t["alg"] = "RS512"
    elif m == "es256":
        t.update(alg="ES256", signer="k-ec", kid="k-ec")
    elif m == "hs256":
        t.update(alg="HS256", kid=rng.choice(["k-rsa", "", "k-oct"]))
    elif m == "algnone":
        t.update(alg="none")
    elif m == "ps256":
        t.update(alg="PS256")
    elif m == "eddsa":
        t.update(alg="EdDSA", kid=rng.choice(["k-rsa", "k-ec", ""]))
    elif m == "forged-rsa":
        t.update(signer="x-rsa")
    elif m == "forged-ec":
        t.update(alg="ES256", signer="x-ec", kid="k-ec")
    elif m == "kid-mismatch":
        if rng.random() < 0.5:
            t.update(alg="RS256", signer="k-rsa", kid="k-ec")
        else:
            t.update(alg="ES256", signer="k-ec", kid="k-rsa")
    elif m == "nokid-rsa":
        t.update(kid="")
    elif m == "nokid-ec":
        t.update(alg="ES256", signer="k-ec", kid="")
    elif m == "kid-unknown":
        t.update(kid="nope")
    elif m == "kid-enc":
        t.update(signer="k-enc", kid="k-enc")
    elif m == "kid-oct":
        t.update(kid="k-oct")
    elif m == "tamper":
        t.update(tamper=True)
    elif m == "iss-wrong":
        t.update(iss="https://evil.example")
    elif m == "iss-case":
        t.update(iss=ISS.upper())
    elif m == "iss-missing":
        t.update(iss="")
    elif m == "aud-wrong":
        t.update(aud=["other-api"])
    elif m == "aud-prefix":
        t.update(aud=[AUD + "x"])
    elif m == "aud-missing":
        t.update(aud=[])
    elif m == "aud-multi-good":
        t.update(aud=["other-api", AUD])
    elif m == "aud-multi-bad":
        t.update(aud=["other-api", "third"])
    elif m == "exp-missing":
        t.update(exp=None)
    elif m == "exp-past":
        t.update(exp=-rng.choice([1, 10, 3600]))
    elif m == "exp-now":
        t.update(exp=0)
    elif m == "exp-1":
        t.update(exp=1)
    elif m == "exp-30":
        t.update(exp=30)
    elif m == "exp-90":
        t.update(exp=90)
    elif m == "nbf-future":
        t.update(nbf=rng.choice([1, 30, 61, 100]))
    elif m == "nbf-past":
        t.update(nbf=-5)
    elif m == "nojti":
        t.update(jti="")
    elif m == "client-only":
        t.update(sub="", client="app%d" % rng.randint(1, 3))
    elif m == "nouser":
        t.update(sub="", client="")
    return t


def alg_family(a):
    return {"RS256": "rsa", "RS384": "rsa", "RS512": "rsa", "ES256": "ec"}.get(a)


def user_of(t):
    return t["sub"] or (("client:" + t["client"]) if t["client"] else "")


class Sim:
    """Independent statement of what ValidateJWT may accept, as a small reference implementation: the key set
    Ego trusts is the one most recently fetched; a fetch is due when no key is cached, when the set is older
    than the TTL (tokens naming a kid), or on an unknown kid unless such a fetch happened < 30 s ago."""

    def __init__(self, h):
        self.h = h
        self.now = 0
        self.rcache = {}
        self.revoked = set()
        self.pub = h["docs"][0]
        self.jw = []
        self.fetched_at = 0
        self.fetched_doc = None
        self.miss_last = None
        self.why = ""

    def refresh(self):
        ks = usable(self.pub)
        if not ks:
            return False
        self.jw, self.fetched_at, self.fetched_doc = ks, self.now, self.pub
        return True

    def find(self, kid):
        for k, m in self.jw:
            if k == kid:
                return m
        return None

    def select(self, t):
        if alg_family(t["alg"]) is None:
            self.why = "algorithm %s not allowed" % t["alg"]
            return None
        kid = t["kid"]
        if kid == "":
            if not self.jw and not self.refresh():
                self.why = "no usable key published"
                return None
            return self.jw[0][1]
        if self.jw and self.now - self.fetched_at < self.h["jwks_ttl"]:
            m = self.find(kid)
            if m is not None:
                return m
            if self.miss_last is not None and self.now - self.miss_last < 30:
                self.why = "kid %r unknown (refresh rate-limited)" % kid
                return None
            self.miss_last = self.now
        if not self.refresh():
            self.why = "JWKS fetch failed (no usable key published)"
            return None
        m = self.find(kid)
        if m is None:
            self.why = "kid %r is not in the key set fetched at t=%d: %s" % (kid, self.fetched_at, self.jw)
        return m

    def claims(self, t):
        if t["iss"] != ISS:
            return "issuer %r" % t["iss"]
        if self.h["aud"] and self.h["aud"] not in t["aud"]:
            return "audience %r" % t["aud"]
        if t["exp"] is None or self.now >= t["exp"]:
            return "exp %r at now=%d" % (t["exp"], self.now)
        if t["nbf"] is not None and t["nbf"] > self.now:
            return "nbf %r at now=%d" % (t["nbf"], self.now)
        return ""

    def validate(self, i):
        """returns (code, user, was it a result-cache hit)"""
        t = self.h["tokens"][i]
        self.why = ""
        e = self.rcache.get(i)
        if e is not None:
            if self.now < e[0]:
                if e[1] and e[1] in self.revoked:
                    del self.rcache[i]
                    self.why = "token ID %r revoked" % e[1]
                    return 2, "", True
                return 1, e[2], True
            del self.rcache[i]
        m = self.select(t)
        if m is None:
            return 0, "", False
        if m != t["signer"] or t["tamper"]:
            self.why = ("payload changed after signing" if t["tamper"] else
                        "signed with %s but the key set fetched at t=%d (%s) holds %s for kid %r" % (t["signer"], self.fetched_at, self.jw, m, t["kid"]))
            return 0, "", False
        c = self.claims(t)
        if c:
            self.why = c
            return 0, "", False
        if t["jti"] and t["jti"] in self.revoked:
            self.why = "token ID %r revoked" % t["jti"]
            return 2, "", False
        if not user_of(t):
            self.why = "no user claim"
            return 0, "", False
        self.rcache[i] = (t["exp"], t["jti"], user_of(t))
        return 1, user_of(t), False

    def op(self, o):
        if o[0] == "R":
            self.revoked.add(o[1])
        elif o[0] == "T":
            self.now += o[1]
        elif o[0] == "X":
            self.rcache.pop(o[1], None)
        elif o[0] == "P":
            self.rcache.clear()
        elif o[0] == "K":
            self.pub = self.h["docs"][o[1]]


def fix_signer(t):
    if alg_family(t["alg"]) == "ec" and KEYTYPE.get(t["signer"]) != "ec":
        t["signer"] = "k-ec"            # a token can only be signed with a key of its algorithm's family
    if t["alg"] in ("RS256", "RS384", "RS512", "PS256") and KEYTYPE.get(t["signer"]) != "rsa":
        t["signer"] = "k-rsa"
    return t


ROT_TOKENS = [("RS256", "k-rsa", "k-rsa"), ("RS256", "k-rsa", "k-rsa"), ("RS256", "x-rsa", "k2"), ("RS256", "x-rsa", "k-rsa"),
              ("ES256", "k-ec", "k-ec"), ("ES256", "e3", "k3"), ("RS256", "k-rsa", ""), ("ES256", "k-ec", ""), ("RS256", "k-rsa", "k2"),
              ("ES256", "x-ec", "k-ec"), ("RS512", "x-rsa", ""), ("ES256", "e3", "")]


def gen_rotation_history(rng, hid, quick):
    """histories in which the IdP changes its JWKS: keys withdrawn, added, kids reused, order changed."""
    docs = [DOC0] + rng.sample(ROT_DOCS, rng.randint(1, 3))
    if rng.random() < 0.2:
        docs[0], docs[1] = docs[1], docs[0]
    toks = []
    for i in range(rng.randint(3, 6)):
        t = base_token(hid * 10 + i)
        a, sg, kid = rng.choice(ROT_TOKENS)
        t.update(alg=a, signer=sg, kid=kid)
        if rng.random() < 0.2:
            t = fix_signer(mutate(t, rng.choice(["exp-90", "nojti", "client-only", "exp-30", "aud-multi-good", "tamper"]), rng))
        toks.append(t)
    nt = len(toks)
    ops = []
    for _ in range(rng.randint(6, 16 if quick else 30)):
        r = rng.random()
        if r < 0.5:
            ops.append(["V", rng.randrange(nt)])
        elif r < 0.65:
            ops.append(["K", rng.randrange(len(docs))])
        elif r < 0.83:
            ops.append(["T", rng.choice([1, 5, 29, 30, 31, 59, 60, 61, 119, 120, 121, 600, 3599, 3600, 3601])])
        elif r < 0.9:
            ops.append(["R", rng.choice(toks)["jti"] or "jti-unrelated"])
        elif r < 0.96:
            ops.append(["X", rng.randrange(nt)])
        else:
            ops.append(["P"])
    return {"id": hid, "iss": ISS, "aud": rng.choice([AUD, AUD, ""]), "ttl": "1000h", "jwks_ttl": rng.choice([3600, 3600, 120, 60]),
            "docs": docs, "tokens": toks, "ops": ops}


def gen_history(rng, hid, quick, ttl="1000h"):
    nt = rng.randint(2, 5)
    toks = []
    for i in range(nt):
        t = base_token(hid * 10 + i)
        for _ in range(rng.choice([1, 1, 1, 2])):
            t = mutate(t, rng.choice(MUTS), rng)
        toks.append(fix_signer(t))
    if nt >= 2 and rng.random() < 0.3:
        toks[1]["jti"] = toks[0]["jti"]          # two different strings sharing a token ID
    ops = []
    for _ in range(rng.randint(4, 14 if quick else 30)):
        r = rng.random()
        if r < 0.55:
            ops.append(["V", rng.randrange(nt)])
        elif r < 0.68:
            j = rng.choice(toks)["jti"] or "jti-unrelated"
            ops.append(["R", j if rng.random() < 0.9 else "jti-unrelated"])
        elif r < 0.83:
            ops.append(["T", rng.choice([1, 5, 29, 30, 31, 59, 60, 61, 89, 90, 120, 600, 3599, 3600, 3601])])
        elif r < 0.93:
            ops.append(["X", rng.randrange(nt)])
        else:
            ops.append(["P"])
    return {"id": hid, "iss": ISS, "aud": rng.choice([AUD, AUD, ""]), "ttl": ttl, "jwks_ttl": 3600, "docs": [DOC0], "tokens": toks, "ops": ops}


def corpus():
    t0, t1 = base_token(0), base_token(1)
    ec = mutate(base_token(2), "es256", None)
    hs = []

    def add(ops, toks=None, aud=AUD, ttl="1000h", docs=None, jwks_ttl=3600):
        hs.append({"id": len(hs), "iss": ISS, "aud": aud, "ttl": ttl, "jwks_ttl": jwks_ttl, "docs": docs or [DOC0],
                   "tokens": toks or [t0, t1, ec], "ops": ops})

    add([["R", "jti-0"], ["V", 0], ["V", 0], ["V", 0], ["V", 1]])                    # witness of C22_refuted_current
    add([["V", 0], ["R", "jti-0"], ["V", 0], ["V", 0], ["V", 0]])                    # hit -> revoked+evicted -> miss
    add([["V", 0], ["R", "jti-0"], ["X", 0], ["V", 0], ["V", 1]])
    add([["V", 0], ["R", "jti-0"], ["P"], ["V", 0], ["V", 2]])
    add([["V", 2], ["R", "jti-2"], ["T", 61], ["V", 2], ["T", 61], ["V", 2]], ttl="")  # real sweeper evicts the entry
    add([["V", 0], ["T", 3599], ["V", 0], ["T", 1], ["V", 0], ["V", 1]])              # expiry while cached
    add([["V", 0], ["V", 1], ["V", 2], ["V", 0], ["V", 1], ["V", 2]], aud="")
    # key rotation: A = k-rsa is withdrawn (replaced by x-rsa under kid k2); once Ego has re-fetched, a NEW token signed
    # with the withdrawn key must be refused (a0, a1: two different tokens signed with A; b: signed with the new key)
    a0, a1, b = base_token(3), base_token(4), dict(base_token(5), signer="x-rsa", kid="k2")
    rot = [DOC0, ROT_DOCS[0], ROT_DOCS[1], ROT_DOCS[5]]
    add([["V", 0], ["K", 1], ["V", 2], ["T", 31], ["V", 1], ["V", 0], ["X", 0], ["V", 0]], toks=[a0, a1, b], docs=rot)       # re-fetch on unknown kid
    add([["V", 0], ["K", 1], ["T", 3600], ["V", 1], ["V", 0], ["P"], ["V", 0]], toks=[a0, a1, b], docs=rot)                    # re-fetch on TTL expiry
    add([["V", 0], ["K", 1], ["V", 2], ["V", 1], ["T", 29], ["V", 1], ["T", 1], ["V", 1]], toks=[a0, a1, b], docs=rot)       # 30 s refresh rate limit
    add([["V", 0], ["K", 2], ["T", 120], ["V", 1], ["V", 0]], toks=[a0, a1, b], docs=rot, jwks_ttl=120)                        # kid reused, other material
    add([["V", 0], ["K", 3], ["T", 61], ["V", 1], ["V", 2]], toks=[a0, a1, dict(base_token(6), alg="ES256", signer="e3", kid="k3")], docs=rot, jwks_ttl=60)
    return hs


ALG_V = ALGS


def vstr(s):
    return vf.vstr(s) if s else "[]"


def coq_token(t):
    b = lambda x: "true" if x else "false"
    oz = lambda x: "None" if x is None else "(Some (%d))" % x
    return "mkT %s %s %d %s %s [%s] %s %s %s %s %s" % (ALGS[t["alg"]], vstr(t["kid"]), MATS.get(t["signer"], 0), b(not t["tamper"]), vstr(t["iss"]),
                                                       "; ".join(vstr(a) for a in t["aud"]), oz(t["exp"]), oz(t["nbf"]), vstr(t["jti"]),
                                                       vstr(t["sub"]), vstr(t["client"]))


def coq_doc(doc):
    return "[" + "; ".join("mkK %s %d %s" % (vstr(k["kid"]), MATS[k["mat"]], "true" if (k["use"] in ("", "sig") and k["mat"] != "oct") else "false")
                           for k in doc) + "]"


def coq_ops(ops):
    out = []
    for o in ops:
        if o[0] == "V":
            out.append("Validate %d" % o[1])
        elif o[0] == "R":
            out.append("Revoke %s" % vstr(o[1]))
        elif o[0] == "T":
            out.append("Advance %d" % o[1])
        elif o[0] == "X":
            out.append("Evict %d" % o[1])
        elif o[0] == "K":
            out.append("Rotate d%d" % o[1])
        else:
            out.append("Purge")
    return "[" + "; ".join(out) + "]"


def run(ck):
    quick = ck.tier == "quick"
    ck.cov["rule"] = ("histories over 2-6 JWTs built from a valid RS256 token by 1-2 mutations out of %d (algorithms RS256/384/512 ES256 HS256-key-confusion "
                      "none PS256 EdDSA; forged/mismatched/missing/unknown/non-signing kid; tampered payload; iss/aud/exp/nbf/jti/sub variations; shared "
                      "jti), ops validate/revoke/advance clock/evict/purge; 40%% of the histories also rotate the JWKS (key withdrawn, added, kid reused "
                      "with other material, order changed, document without usable key; JWKS TTL 60/120/3600 s); corpus first (witness of "
                      "C22_refuted_current, withdrawn-key scenarios). distinct_nontrivial = distinct (token fields, revoked?) validations of a token "
                      "that is accepted at some point of its history and validated again after a revocation, eviction, purge, rotation or clock advance" % len(set(MUTS)))
    ck.assume("signature verification is an oracle: verifying with the selected key succeeds iff that key is the material that signed the token and the signed bytes are intact",
              "a JWKS fetch itself succeeds (HTTP 200, well-formed); a document without usable keys is the modelled failure",
              "the revocation store answers without error and revocations are never undone (tokens.Delete is an administrator action outside the property)",
              "ego.server.oauth.user.claim = sub; ego.server.oauth.provider is non-empty in resource-server mode; JWKS cache TTL > 0")
    ck.trusted("harness/C22/c22_test.go (in-package overlay: test keys, in-process JWKS transport with changing documents, SQLite blacklist, synctest clock), props/C22.py generators, reference simulation and comparison",
               "correspondence evaluated by vm_compute in a generated cases file")
    ck.coq_stage(GROUP, theorems=["C22_accept_sound", "C22_keys_from_last_fetch", "C22_revocation_effective", "C22_accept_complete", "C22_refuted_current"])

    ok, binp = vf.go_test_build(ck.work, PKG, {PKG + "/zz_verif_c22_test.go": os.path.join(vf.HARNESS, "C22", "c22_test.go")}, "c22.test")
    if not ok:
        ck.violation("harness-build", "harness for %s does not build:\n%s" % (PKG, binp[-1500:]), replay={"log": binp[-3000:]}, found_input=False)
        return
    hs = corpus()
    n = 110 if quick else 1500
    while len(hs) < n:
        if ck.rng.random() < 0.4:
            hs.append(gen_rotation_history(ck.rng, len(hs), quick))
        else:
            hs.append(gen_history(ck.rng, len(hs), quick, ttl="" if ck.rng.random() < 0.2 else "1000h"))
    if ck.replay_file:
        rp = json.load(open(ck.replay_file))["replay"]
        if isinstance(rp, dict) and "history" in rp:
            hs = [dict(rp["history"], id=0)]
    inp, outp = os.path.join(ck.work, "in.json"), os.path.join(ck.work, "out.json")
    json.dump(hs, open(inp, "w"))
    rc, log = vf.run_bin(binp, "^TestVerifC22$", {"VERIF_IN": inp, "VERIF_OUT": outp}, timeout=900)
    if rc != 0 or not os.path.exists(outp):
        ck.violation("harness-run", "harness failed:\n" + log[-1500:], replay={"log": log[-3000:]}, found_input=False)
        return
    res = {r["id"]: r for r in json.load(open(outp))}

    # ---------------- property oracle on the real outputs (reference simulation, independent of the Coq model)
    nontriv = set()
    oracle_hit = False
    nval = nacc = nrev = nclass = nhit = nfetch = 0
    withdrawn_refused = 0
    for h in hs:
        r = res[h["id"]]
        if r.get("err"):
            ck.violation("harness-case", "harness: %s" % r["err"], replay={"history": h}, found_input=False)
            continue
        sim = Sim(h)
        k = 0
        seen_ok, disturbed = set(), set()
        for o in h["ops"]:
            if o[0] != "V":
                sim.op(o)
                disturbed |= seen_ok
                continue
            t = h["tokens"][o[1]]
            code, user = r["codes"][k], r["users"][k]
            k += 1
            nval += 1
            f0 = sim.fetched_at if sim.jw else None
            want, wuser, washit = sim.validate(o[1])
            nhit += washit
            nfetch += (sim.fetched_at if sim.jw else None) != f0
            what = None
            if code == 1:
                nacc += 1
                if want == 2:
                    what = ("revoked-token-accepted", "a JWT whose token ID %r was revoked earlier in the history was accepted" % t["jti"])
                elif want == 0:
                    sig = "unpublished-key-accepted" if ("key set" in sim.why or "kid" in sim.why or "JWKS" in sim.why or "usable" in sim.why) else "invalid-token-accepted"
                    what = (sig, "a JWT was accepted although: " + sim.why)
                elif user != wuser:
                    what = ("wrong-user", "accepted as user %r, token names %r" % (user, wuser))
                if o[1] in disturbed:
                    nontriv.add((json.dumps(t, sort_keys=True), t["jti"] in sim.revoked))
                seen_ok.add(o[1])
            elif want == 1:
                what = ("valid-token-refused", "a JWT satisfying every clause (not revoked, %s) was refused with class %d" % (
                    "result-cache hit" if washit else "signed with the key the most recently fetched key set holds for its kid", code))
            elif code != want:
                nclass += 1          # refusal class (revoked vs other) differs: informational, not part of the property
            if code != 1 and "key set fetched" in sim.why and sim.fetched_doc is not None and sim.fetched_doc is not h["docs"][0]:
                withdrawn_refused += 1
            if code == 2:
                nrev += 1
            if what:
                oracle_hit = True
                ck.violation(what[0], "%s; token %s; JWKS documents %s; history ops %s (V = validate, R = revoke, T = advance seconds, X = evict, P = purge, "
                             "K i = the IdP publishes document i; JWKS TTL %d s), validation #%d" % (
                                 what[1], json.dumps(t), json.dumps([usable(d) for d in h["docs"]]), json.dumps(h["ops"]), h["jwks_ttl"], k), replay={"history": h})
                break
    ck.cov["evaluations"] = nval
    ck.cov["distinct_nontrivial"] = len(nontriv)
    ck.cov["input_distribution"] = {"histories": len(hs), "validations": nval, "accepted": nacc, "refused_as_revoked": nrev,
                                    "refusal_class_differs_from_oracle": nclass, "result_cache_hits": nhit,
                                    "rotation_histories": sum(1 for h in hs if len(h["docs"]) > 1),
                                    "rotations": sum(1 for h in hs for o in h["ops"] if o[0] == "K"),
                                    "jwks_successful_fetches_in_reference_simulation": nfetch, "jwks_fetches_observed": sum(r.get("fetches", 0) for r in res.values()),
                                    "refused_because_key_not_in_refetched_set": withdrawn_refused,
                                    "real_sweeper_histories": sum(1 for h in hs if not h["ttl"]), "audience_unchecked": sum(1 for h in hs if not h["aud"])}
    for h in hs[:2] + hs[7:9] + hs[20:21]:
        ck.sample({"ops": h["ops"], "docs": [usable(d) for d in h["docs"]],
                   "tokens": [{k: v for k, v in t.items() if k in ("alg", "signer", "kid", "exp", "jti")} for t in h["tokens"]],
                   "codes": res[h["id"]].get("codes"), "users": res[h["id"]].get("users")})

    # ---------------- correspondence with the model
    if getattr(ck, "coq_broken", None):
        if not oracle_hit:
            grp, log = ck.coq_broken
            ck.violation("proof-broken", "Coq development coq/%s no longer checks (C22 theorems); %d validations on the real code showed no violation:\n%s" % (grp, nval, log[-1200:]),
                         replay={"broken": "coq/" + grp, "log": log[-3000:]}, found_input=False)
        return
    L = ["From Common Require Import Base.", "From Jwt Require Import Model.", "Open Scope Z_scope.",
         "Definition dflt := mkT NoneAlg [] 0 false [] [] None None [] [] [].",
         "Fixpoint nl_eqb (a b : list N) : bool := match a, b with [], [] => true | x :: a', y :: b' => N.eqb x y && nl_eqb a' b' | _, _ => false end.",
         "Fixpoint sl_eqb (a b : list str) : bool := match a, b with [], [] => true | x :: a', y :: b' => str_eqb x y && sl_eqb a' b' | _, _ => false end.",
         "Record hcase := HC { hc : config; hd0 : list jwk; ht : list token; ho : list op; hcodes : list N; husers : list str }.",
         "Definition acc (x : outcome) : N := match x with Accept _ => 1%N | _ => 0%N end.",
         "Definition hc_ok (c : hcase) : bool := let o := outcomes true (hc c) (tok_table (ht c) dflt) (ho c) (init 0 (hd0 c)) in nl_eqb (map acc o) (hcodes c) && sl_eqb (map outcome_user o) (husers c).",
         "Definition hc_old_differs (c : hcase) : bool := negb (nl_eqb (map acc (outcomes false (hc c) (tok_table (ht c) dflt) (ho c) (init 0 (hd0 c)))) (hcodes c)).",
         "Fixpoint idx {A} (f : A -> bool) (i : nat) (l : list A) : list nat := match l with [] => [] | x :: r => (if f x then [] else [i]) ++ idx f (S i) r end."]
    cs, cmap = [], []
    for h in hs:
        r = res[h["id"]]
        if r.get("err"):
            continue
        docs = " ".join("(let d%d := %s in" % (i, coq_doc(d)) for i, d in enumerate(h["docs"]))
        cs.append("%s HC (mkC %s %s %d) d0 [%s] %s %s [%s]%s" % (
            docs, vstr(h["iss"]), vstr(h["aud"]), h["jwks_ttl"], "; ".join(coq_token(t) for t in h["tokens"]), coq_ops(h["ops"]),
            vf.vN([1 if c == 1 else 0 for c in r["codes"]]) if r["codes"] else "[]", "; ".join(vstr(u) for u in (r["users"] or [])), ")" * len(h["docs"])))
        cmap.append(h)
    L.append("Definition cases : list hcase := [\n" + ";\n".join(cs) + "].")
    okc, ev = vf.coq_eval(GROUP, ck.work, "cases", "\n".join(L), {"BAD": "idx hc_ok 0 cases",
                                                                   "OLD": "[length (filter hc_old_differs cases)]"})
    if not okc:
        ck.violation("correspondence-eval", "model evaluation failed:\n" + str(ev)[-1500:], replay={"log": str(ev)[-3000:]}, found_input=False)
        return
    ck.cov["traces_validated_against_impl"] = len(cs) - len(ev["BAD"])
    ck.cov["input_distribution"]["histories_distinguishing_the_unrepaired_model"] = ev["OLD"][0] if ev["OLD"] else 0
    if not oracle_hit:
        for i in ev["BAD"][:5]:
            h = cmap[i]
            ck.violation("corr-history", "model and implementation disagree on history %s (docs %s): real codes %s users %s" % (
                json.dumps(h["ops"]), json.dumps([usable(d) for d in h["docs"]]), res[h["id"]]["codes"], res[h["id"]]["users"]), replay={"history": h}, found_input=False)
