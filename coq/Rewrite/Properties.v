From Rewrite Require Import Model Proofs.
