(* Opt/Generic.v — a peephole rewrite of straight-line windows preserves the behaviour of a branching
   machine.  Generic in the instruction type and the instruction semantics (Section variables with their
   laws as hypotheses; instantiated with the MiniEgo instruction semantics in Proofs.v).

   Machine: code is a list of instructions, a branch names an absolute address.  [run] recurses
   structurally over the code suffix for fall-through and spends one unit of fuel per taken branch, so the
   original and the rewritten program use exactly the same fuel and the theorem is an equality. *)
From Coq Require Import List Arith Lia Bool.
Import ListNotations.

Section Machine.
  Variables (I St X : Type).
  Inductive res := Cont (s : St) (j : option nat) | Fail (x : X).
  Inductive result := Done (s : St) | Failed (x : X) | OutOfFuel.

  Variable exec : I -> St -> res.
  Variable retarget : (nat -> nat) -> I -> I.
  Variable targets : I -> list nat.

  Hypothesis exec_retarget : forall f i s,
    exec (retarget f i) s = match exec i s with Cont s' (Some a) => Cont s' (Some (f a)) | r => r end.
  Hypothesis exec_targets : forall i s s' a, exec i s = Cont s' (Some a) -> In a (targets i).

  Fixpoint run (fuel : nat) (code : list I) {struct fuel} : list I -> St -> result :=
    fix go (suf : list I) (s : St) {struct suf} : result :=
      match suf with
      | [] => Done s
      | i :: rest =>
          match exec i s with
          | Cont s' None => go rest s'
          | Cont s' (Some a) => match fuel with O => OutOfFuel | S f => run f code (skipn a code) s' end
          | Fail x => Failed x
          end
      end.

  Definition jump (fuel : nat) (code : list I) (a : nat) (s : St) : result :=
    match fuel with O => OutOfFuel | S f => run f code (skipn a code) s end.

  Lemma run_cons fuel code i rest s :
    run fuel code (i :: rest) s =
    match exec i s with
    | Cont s' None => run fuel code rest s'
    | Cont s' (Some a) => jump fuel code a s'
    | Fail x => Failed x
    end.
  Proof. destruct fuel; reflexivity. Qed.

  Lemma run_nil fuel code s : run fuel code [] s = Done s.
  Proof. destruct fuel; reflexivity. Qed.

  (* straight-line execution of a window; None = an instruction of the window branched *)
  Fixpoint run_block (blk : list I) (s : St) : option (St + X) :=
    match blk with
    | [] => Some (inl s)
    | i :: r => match exec i s with
                | Cont s' None => run_block r s'
                | Cont _ (Some _) => None
                | Fail x => Some (inr x)
                end
    end.

  Definition straight (i : I) : Prop := forall s s' a, exec i s <> Cont s' (Some a).

  Lemma run_block_app fuel code blk rest s :
    Forall straight blk ->
    run fuel code (blk ++ rest) s =
    match run_block blk s with
    | Some (inl s') => run fuel code rest s'
    | Some (inr x) => Failed x
    | None => OutOfFuel
    end.
  Proof.
    intros H. revert s. induction H as [|i r Hi Hr IH]; intros s.
    - reflexivity.
    - cbn [app run_block]. rewrite run_cons. destruct (exec i s) as [s' [a|]|x] eqn:E.
      + exfalso. exact (Hi _ _ _ E).
      + apply IH.
      + reflexivity.
  Qed.

  Section Rewrite.
    Variables (pre pat rep post : list I).
    Let i0 := length pre.
    Let n := length pat.
    Let m := length rep.
    (* Patch: a destination after the start of the window moves by the change of length *)
    Definition phi (a : nat) : nat := if i0 <? a then a + m - n else a.
    Let rt := retarget phi.
    Let code := pre ++ pat ++ post.
    Let code' := map rt pre ++ rep ++ map rt post.

    Definition good (j : I) : Prop := forall a, In a (targets j) -> a <= i0 \/ i0 + n <= a.

    Hypothesis pat_straight : Forall straight pat.
    Hypothesis rep_straight : Forall straight rep.
    Hypothesis block_eq : forall s, run_block pat s = run_block rep s.
    Hypothesis pre_good : Forall good pre.
    Hypothesis post_good : Forall good post.

    Lemma skipn_good (l : list I) k : Forall good l -> Forall good (skipn k l).
    Proof.
      revert l; induction k as [|k IH]; intros l H; [exact H|].
      destruct l as [|x r]; [constructor|]. cbn [skipn]. apply IH. now inversion H.
    Qed.

    (* one level: if branches agree at this fuel, suffixes agree *)
    Section Level.
      Variable fuel : nat.
      Hypothesis Hjump : forall a s, (a <= i0 \/ i0 + n <= a) -> jump fuel code' (phi a) s = jump fuel code a s.

      Lemma level_plain : forall l s, Forall good l -> run fuel code' (map rt l) s = run fuel code l s.
      Proof.
        induction l as [|j r IH]; intros s Hg.
        - cbn [map]. now rewrite !run_nil.
        - cbn [map]. rewrite !run_cons. unfold rt at 1. rewrite exec_retarget.
          destruct (exec j s) as [s' [a|]|x] eqn:E.
          + apply Hjump. inversion Hg as [|? ? Hj _]; subst. apply Hj. eapply exec_targets; eauto.
          + apply IH. now inversion Hg.
          + reflexivity.
      Qed.

      Lemma level_window : forall l s, Forall good l ->
        run fuel code' (map rt l ++ rep ++ map rt post) s = run fuel code (l ++ pat ++ post) s.
      Proof.
        induction l as [|j r IH]; intros s Hg.
        - cbn [map app]. rewrite !run_block_app by assumption. rewrite block_eq.
          destruct (run_block rep s) as [[s'|x]|]; try reflexivity.
          apply level_plain. exact post_good.
        - cbn [map app]. rewrite !run_cons. unfold rt at 1. rewrite exec_retarget.
          destruct (exec j s) as [s' [a|]|x] eqn:E.
          + apply Hjump. inversion Hg as [|? ? Hj _]; subst. apply Hj. eapply exec_targets; eauto.
          + apply IH. now inversion Hg.
          + reflexivity.
      Qed.
    End Level.

    Lemma skip_low a : a <= i0 ->
      skipn a code = skipn a pre ++ pat ++ post /\
      skipn (phi a) code' = map rt (skipn a pre) ++ rep ++ map rt post.
    Proof.
      intros Ha. unfold phi. replace (i0 <? a) with false by (symmetry; apply Nat.ltb_ge; exact Ha).
      unfold code, code'. split.
      - rewrite skipn_app. replace (a - length pre) with 0 by (unfold i0 in Ha; lia). reflexivity.
      - rewrite skipn_app. rewrite map_length. replace (a - length pre) with 0 by (unfold i0 in Ha; lia).
        cbn [skipn]. f_equal. unfold rt. now rewrite skipn_map.
    Qed.

    Lemma skip_high a : i0 + n <= a -> 0 < n ->
      skipn a code = skipn (a - i0 - n) post /\
      skipn (phi a) code' = map rt (skipn (a - i0 - n) post).
    Proof.
      intros Ha Hn. unfold phi. replace (i0 <? a) with true by (symmetry; apply Nat.ltb_lt; lia).
      unfold code, code'. split.
      - rewrite skipn_app. rewrite (skipn_all2 pre) by (unfold i0 in Ha; lia). cbn [app].
        rewrite skipn_app. rewrite (skipn_all2 pat) by (unfold i0, n in *; lia). cbn [app].
        reflexivity.
      - rewrite skipn_app. rewrite map_length. rewrite (skipn_all2 (map rt pre)) by (rewrite map_length; unfold i0, n, m in *; lia).
        cbn [app]. rewrite skipn_app. rewrite (skipn_all2 rep) by (unfold i0, n, m in *; lia). cbn [app].
        unfold rt. rewrite skipn_map. do 2 f_equal. unfold i0, n, m in *. lia.
    Qed.

    Hypothesis pat_nonempty : 0 < n.

    Lemma jumps_agree : forall fuel a s, (a <= i0 \/ i0 + n <= a) ->
      jump fuel code' (phi a) s = jump fuel code a s.
    Proof.
      induction fuel as [|f IH]; intros a s Ha; [reflexivity|].
      cbn [jump]. destruct Ha as [Ha|Ha].
      - destruct (skip_low a Ha) as [E1 E2]. rewrite E1, E2.
        apply level_window; [exact IH|]. apply skipn_good. exact pre_good.
      - destruct (skip_high a Ha pat_nonempty) as [E1 E2]. rewrite E1, E2.
        apply level_plain; [exact IH|]. apply skipn_good. exact post_good.
    Qed.

    Theorem rewrite_sound : forall fuel s, run fuel code' code' s = run fuel code code s.
    Proof.
      intros fuel s.
      exact (level_window fuel (jumps_agree fuel) pre s pre_good).
    Qed.
  End Rewrite.
End Machine.
