//go:build verif

package router

// Overlaid into /repo/internal/router by /verif/check C40 (kernel correspondence).
// VERIF_IN JSON lines -> VERIF_OUT JSON lines, each call under recover():
//   {"op":"paging","decl":["start","limit"],"start":[...]|null,"limit":[...]|null}
//        -> {"panic":bool,"status":n,"start":n,"limit":n}      (validatePaging on a recorder)
//   {"op":"parts","endpoint":s,"path":s} -> {"panic":bool,"m":{key:value}}   ((*Route).partsMap)
//   {"op":"html","accept":[...]} -> {"panic":bool,"b":bool}    (requestWantsBrowserHTML)

import (
	"bufio"
	"encoding/json"
	"net/http"
	"net/http/httptest"
	"os"
	"testing"
)

type verifC40K struct {
	Op       string   `json:"op"`
	Decl     []string `json:"decl"`
	Start    []string `json:"start"`
	Limit    []string `json:"limit"`
	Endpoint string   `json:"endpoint"`
	Path     string   `json:"path"`
	Accept   []string `json:"accept"`
}

func TestVerifC40Kern(t *testing.T) {
	in, err := os.Open(os.Getenv("VERIF_IN"))
	if err != nil {
		t.Fatal(err)
	}
	defer in.Close()

	out, err := os.Create(os.Getenv("VERIF_OUT"))
	if err != nil {
		t.Fatal(err)
	}
	defer out.Close()

	w := bufio.NewWriter(out)
	defer w.Flush()

	sc := bufio.NewScanner(in)
	sc.Buffer(make([]byte, 1<<20), 1<<20)

	for sc.Scan() {
		q := verifC40K{}
		if json.Unmarshal(sc.Bytes(), &q) != nil {
			continue
		}

		res := map[string]any{"panic": false}

		func() {
			defer func() {
				if r := recover(); r != nil {
					res = map[string]any{"panic": true}
				}
			}()

			switch q.Op {
			case "paging":
				route := &Route{parameters: map[string]string{}}
				for _, d := range q.Decl {
					route.parameters[d] = "int"
				}

				s := &Session{Route: route, Parameters: map[string][]string{}}
				if q.Start != nil {
					s.Parameters["start"] = q.Start
				}

				if q.Limit != nil {
					s.Parameters["limit"] = q.Limit
				}

				res["status"] = validatePaging(s, httptest.NewRecorder())
				res["start"] = s.Start
				res["limit"] = s.Limit

			case "parts":
				res["m"] = (&Route{endpoint: q.Endpoint}).partsMap(q.Path)

			case "html":
				r := &http.Request{Header: http.Header{}}
				for _, a := range q.Accept {
					r.Header.Add("Accept", a)
				}

				res["b"] = requestWantsBrowserHTML(r)
			}
		}()

		b, _ := json.Marshal(res)
		w.Write(b)
		w.WriteString("\n")
	}
}
