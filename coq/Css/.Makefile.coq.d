Model.vo Model.glob Model.v.beautified Model.required_vo: Model.v ../Common/Base.vo
Model.vio: Model.v ../Common/Base.vio
Model.vos Model.vok Model.required_vos: Model.v ../Common/Base.vos
Proofs.vo Proofs.glob Proofs.v.beautified Proofs.required_vo: Proofs.v ../Common/Base.vo Model.vo
Proofs.vio: Proofs.v ../Common/Base.vio Model.vio
Proofs.vos Proofs.vok Proofs.required_vos: Proofs.v ../Common/Base.vos Model.vos
Tokens.vo Tokens.glob Tokens.v.beautified Tokens.required_vo: Tokens.v ../Common/Base.vo Model.vo Proofs.vo
Tokens.vio: Tokens.v ../Common/Base.vio Model.vio Proofs.vio
Tokens.vos Tokens.vok Tokens.required_vos: Tokens.v ../Common/Base.vos Model.vos Proofs.vos
Properties.vo Properties.glob Properties.v.beautified Properties.required_vo: Properties.v ../Common/Base.vo Model.vo Proofs.vo Tokens.vo
Properties.vio: Properties.v ../Common/Base.vio Model.vio Proofs.vio Tokens.vio
Properties.vos Properties.vok Properties.required_vos: Properties.v ../Common/Base.vos Model.vos Proofs.vos Tokens.vos
