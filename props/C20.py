"""C20 Routes run only for authorized requests (internal/router/serve.go ServeHTTP, auth.go, router.go builders)."""
import itertools
import json
import os
import vf

GROUP = "Gate"
META = {
    "group": "Gate",
    "technique": "Coq proofs over a Gallina model of the route builder calls and of ServeHTTP's authentication/permission gate "
                 "(credential processing abstracted to what Authenticate leaves in the session) + vm_compute correspondence "
                 "with the real builder methods and the real ServeHTTP (recording handler, 14 credential forms) + safe_flags "
                 "checked by coqc on the real route table dumped from the real declarations on every run",
    "text": "Theorems over the model of the REPAIRED router (fixes 443fbd75, 0c2c3c02 in /repo): C20_gate = C20_statement, "
            "UNGUARDED - for every flag combination (lightweight or not, any order of builder calls), every credential outcome, "
            "every outcome of the other request checks and every body (absent / valid / invalid for the payload validations): "
            "handler invoked -> authenticated when required, and authenticated with all required permissions or administrator "
            "when permissions are named; C20_rejected_not_invoked (a failed check is final whatever the body); "
            "C20_revoked_not_invoked (after any history of permission changes a user who NOW holds neither the permission nor "
            "ego.root is not served; driven on the file-backed and the SQL-backed user store); C20_builder_monotone (every call "
            "order: a requested authentication stays unless a LATER Authentication(false) withdraws it) and "
            "C20_permissions_imply_authentication (naming permissions anywhere makes the route need an authenticated caller); "
            "C20_old_refuted / C20_old_refuted_perms_unauth / C20_builder_old_refuted keep the three repaired defects as "
            "witnesses over serve_old / build_old. The model is compared with the real builder methods and the real ServeHTTP "
            "(declarations in all call orders x 14 credential forms x bodies; all 71 real routes with recording handlers; "
            "permission-change histories on both user stores), and forallb safe_flags holds on the regenerated real table. "
            "partial: Authenticate itself (password hashes, token decryption, JWT) is an oracle exercised through the 14 "
            "credential forms; JWT-resolved permissions are modelled but not driven (OAuth disabled); routes from lib/services "
            "are not in the dumped table",
    "note": "Trusted: Coq kernel; the hand-written model tied to the code by the correspondence run; overlay harnesses "
            "harness/C20/gate_test.go, harness/C32/router_dump.go + table_test.go; props/C20.py generators and comparison.",
}

PERM_ID = {"p1": 1, "p2": 2, "p3": 3, "ego.root": 4, "ego.logon": 5}
# credential form -> (locked, authenticated, admin, user named in the request or None)
CREDS = {
    "none": (0, 0, 0, None), "malformed_basic": (0, 0, 0, None),
    "badbasic_alice": (0, 0, 0, "alice"), "badbasic_admin": (0, 0, 0, "rootie"), "badbasic_carol": (0, 0, 0, "carol"),
    "goodbasic_alice": (0, 1, 0, "alice"), "goodbasic_bob": (0, 1, 0, "bob"), "goodbasic_admin": (0, 1, 1, "rootie"),
    "locked_carol": (1, 0, 0, "carol"),
    "goodtoken_alice": (0, 1, 0, "alice"), "goodtoken_bob": (0, 1, 0, "bob"), "goodtoken_admin": (0, 1, 1, "rootie"),
    "expiredtoken_alice": (0, 0, 0, None), "tamperedtoken": (0, 0, 0, None),
}
TOKEN_FORMS = {"goodtoken_alice", "goodtoken_bob", "goodtoken_admin"}

VAL = ["ValidateUsing", "@credentials"]
BODY = {"valid": "(Some true)", "invalid": "(Some false)", "empty": "(Some false)", "absent": "None"}
CORPUS = [
    ([["LightWeight", True], ["Authentication", True]], "none", "empty"),
    ([["Authentication", True], ["LightWeight", True]], "none", "empty"),
    ([["Permissions", ["ego.root"]], ["Authentication", False]], "badbasic_admin", "empty"),
    ([["Permissions", ["p1"]], ["Authentication", False]], "badbasic_alice", "empty"),
    ([["Permissions", []], ["LightWeight", True]], "none", "empty"),
    ([["Permissions", ["p1"]], ["LightWeight", True]], "goodbasic_alice", "empty"),
    ([["Permissions", ["p1", "p2"]]], "goodbasic_alice", "empty"),
    ([["Permissions", ["p1", "p3"]]], "goodtoken_alice", "empty"),
    ([["Permissions", ["p3"]]], "goodbasic_admin", "empty"),
    ([["Permissions", ["p1"]], ["CanAuthenticate", True]], "none", "empty"),
    ([["Authentication", True], ["CanAuthenticate", True]], "tamperedtoken", "empty"),
    ([["LightWeight", True], ["Authentication", True], ["CanAuthenticate", True]], "none", "empty"),
    ([["LightWeight", False]], "none", "empty"),
    ([], "none", "empty"),
    # payload validations: a valid body must not undo an earlier rejection (seeded change C20-2)
    ([["Permissions", ["p3"]], VAL], "goodbasic_alice", "valid"),
    ([["Permissions", ["p3"]], VAL], "goodtoken_bob", "valid"),
    ([VAL, ["Permissions", ["p1", "p3"]]], "goodtoken_alice", "valid"),
    ([["Permissions", ["p1"]], VAL], "goodtoken_alice", "valid"),
    ([["Permissions", ["p1"]], VAL], "goodtoken_alice", "invalid"),
    ([["Permissions", ["p1"]], VAL], "goodtoken_alice", "absent"),
    ([["Permissions", ["p1"]], VAL], "goodtoken_alice", "empty"),
    ([["Authentication", True], VAL], "none", "valid"),
    ([["Authentication", True], VAL], "tamperedtoken", "valid"),
    ([["Permissions", ["p1"]], VAL, ["CanAuthenticate", True]], "none", "valid"),
    ([VAL], "none", "valid"),
    ([VAL], "none", "invalid"),
    ([["Permissions", ["p3"]], VAL], "locked_carol", "valid"),
    # repeated Permissions calls with a duplicate before a new name (seeded change C20-1)
    ([["Permissions", ["p1"]], ["Permissions", ["p1", "p3"]]], "goodtoken_alice", "empty"),
    ([["Permissions", ["p1", "p2"]], ["Permissions", ["p2", "p1", "p3"]]], "goodbasic_alice", "empty"),
    ([["Permissions", ["p2"]], ["Authentication", True], ["Permissions", ["p2", "ego.root"]]], "goodtoken_alice", "empty"),
]


def call_pool(rng):
    perms = ["p1", "p2", "p3", "ego.root"]
    k = rng.choice([0, 1, 1, 1, 2, 2, 3])
    return [["Authentication", True], ["Authentication", False], ["LightWeight", True], ["LightWeight", False],
            ["CanAuthenticate", True], ["CanAuthenticate", False], VAL, VAL, ["Permissions", rng.sample(perms, k)],
            ["Permissions", rng.sample(perms, rng.choice([1, 2]))], ["Permissions", rng.sample(perms, rng.choice([2, 3, 4]))]]


def gen_cases(rng, n):
    """declarations: every order (permutation) of a random multiset of 1-4 builder calls x a credential form"""
    out = []
    forms = sorted(CREDS)
    while len(out) < n:
        pool = call_pool(rng)
        k = rng.choice([1, 2, 2, 3, 3, 4])
        calls = [rng.choice(pool) for _ in range(k)]
        orders = list(itertools.permutations(calls))
        rng.shuffle(orders)
        for o in orders[:6]:
            has_val = any(c[0] == "ValidateUsing" for c in o)
            body = rng.choice(["valid", "valid", "valid", "invalid", "empty", "absent"]) if has_val else rng.choice(["empty", "empty", "valid", "absent"])
            form = rng.choice(forms)
            if has_val and rng.random() < 0.5:      # authenticated callers lacking permissions are the interesting ones
                form = rng.choice(["goodtoken_alice", "goodtoken_bob", "goodbasic_bob", "goodtoken_alice", "goodtoken_admin"])
            out.append((list(o), form, body))
    return out[:n]


BUILDERS = ("Authentication", "LightWeight", "Permissions", "CanAuthenticate")


def scan_declarations(repo):
    """Builder-call chains of every route declaration `X.New(...).A(..).B(..)` in the non-test Go sources under internal/
    (syntactic: balanced parentheses, comments skipped). Returns [(file, line, [(name, argtext)])]."""
    import re
    out = []
    for root, _, files in os.walk(os.path.join(repo, "internal")):
        for fn in files:
            if not fn.endswith(".go") or fn.endswith("_test.go"):
                continue
            path = os.path.join(root, fn)
            src = open(path, errors="replace").read()
            if ".New(" not in src or not any(b + "(" in src for b in BUILDERS):
                continue
            for m in re.finditer(r"\.New\(", src):
                i = close_paren(src, m.end() - 1)
                chain = []
                while i is not None:
                    j = skip_ws(src, i)
                    mm = re.match(r"\.\s*([A-Za-z_]\w*)\s*\(", src[j:])
                    if not mm:
                        break
                    k = close_paren(src, j + mm.end() - 1)
                    if k is None:
                        break
                    chain.append((mm.group(1), src[j + mm.end():k - 1].strip()))
                    i = k
                if any(n in BUILDERS for n, _ in chain):
                    out.append((os.path.relpath(path, repo), src.count("\n", 0, m.start()) + 1, chain))
    return out


def close_paren(src, i):
    """i = index of '(' ; returns index just after the matching ')' (strings and comments skipped)"""
    depth, n = 0, len(src)
    while i < n:
        c = src[i]
        if c in "\"`":
            j = i + 1
            while j < n and src[j] != c:
                j += 2 if (c == '"' and src[j] == "\\") else 1
            i = j + 1
            continue
        if src.startswith("//", i):
            i = src.find("\n", i)
            if i < 0:
                return None
            continue
        if c == "(":
            depth += 1
        elif c == ")":
            depth -= 1
            if depth == 0:
                return i + 1
        i += 1
    return None


def skip_ws(src, i):
    n = len(src)
    while i < n:
        if src[i].isspace():
            i += 1
        elif src.startswith("//", i):
            j = src.find("\n", i)
            i = n if j < 0 else j
        else:
            break
    return i


def chain_variants(chain):
    """builder calls of a declaration as harness calls; a non-literal boolean argument yields both readings"""
    variants = [[]]
    for name, arg in chain:
        if name not in BUILDERS:
            continue
        if name == "Permissions":
            n = 0 if arg == "" else len([a for a in arg.split(",") if a.strip()])
            opts = [["Permissions", ["p1", "p2", "p3"][:max(0, min(n, 3))]]]
        elif arg in ("true", "false"):
            opts = [[name, arg == "true"]]
        else:
            opts = [[name, True], [name, False]]
        variants = [v + [o] for v in variants for o in opts]
    return variants[:8]


def unsafe_chain(calls):
    req = [i for i, c in enumerate(calls) if c[0] == "Permissions" or (c[0] == "Authentication" and c[1])]
    wd = [i for i, c in enumerate(calls) if (c[0] == "LightWeight" and c[1]) or (c[0] == "Authentication" and not c[1])]
    return bool(req and wd)


STORE_USERS = {"h1": 7, "h2": 8}
STORE_CORPUS = [
    # grant, use, revoke, use again (seeded change C20-4: the SQL-backed store kept serving the old record)
    [["set", "h1", ["ego.logon", "p1"]], ["req", ["p1"], "h1", "basic"], ["req", ["p1"], "h1", "token"],
     ["set", "h1", ["ego.logon"]], ["req", ["p1"], "h1", "basic"], ["req", ["p1"], "h1", "token"]],
    [["set", "h2", ["ego.root"]], ["req", ["p2", "p3"], "h2", "token"], ["set", "h2", ["ego.logon", "p2"]],
     ["req", ["p2", "p3"], "h2", "token"], ["req", ["p2"], "h2", "token"], ["set", "h2", ["ego.logon", "p3"]],
     ["req", ["p2"], "h2", "token"], ["req", ["p3"], "h2", "token"], ["req", ["p3"], "h1", "token"]],
    [["set", "h1", ["p1"]], ["req", ["p1"], "h1", "basic"], ["req", ["p1"], "h1", "token"]],
]


def gen_store_histories(rng, n):
    out = []
    for _ in range(n):
        h, basic = [], 0
        for _ in range(rng.randint(6, 11)):
            u = rng.choice(["h1", "h1", "h2"])
            if rng.random() < 0.4:
                ps = [p for p in ("p1", "p2", "p3") if rng.random() < 0.5]
                if rng.random() < 0.9:
                    ps = ["ego.logon"] + ps
                if rng.random() < 0.08:
                    ps.append("ego.root")
                h.append(["set", u, ps])
            else:
                kind = "token"
                if basic < 1 and rng.random() < 0.12:
                    kind, basic = "basic", basic + 1
                h.append(["req", rng.sample(["p1", "p2", "p3"], rng.choice([1, 1, 2])), u, kind])
        out.append(h)
    return out


def csop(op):
    if op[0] == "set":
        return "SetPerms %d [%s]%%N" % (STORE_USERS[op[1]], ";".join(str(PERM_ID[p]) for p in op[2]))
    return "Request (build [Permissions [%s]%%N]) %d %s" % (";".join(str(PERM_ID[p]) for p in op[1]), STORE_USERS[op[2]],
                                                           "true" if op[3] == "token" else "false")


def store_stage(ck, binp, env, coq_ok, quick):
    """permission changes and requests interleaved, on the file-backed and the SQL-backed user store"""
    if ck.replay_file:
        rp = json.load(open(ck.replay_file))["replay"]
        hists = [rp["store_history"]] if "store_history" in rp else []
    else:
        hists = STORE_CORPUS + gen_store_histories(ck.rng, 22 if quick else 300)
    if not hists:
        return 0
    sin, sout = os.path.join(ck.work, "sin.json"), os.path.join(ck.work, "sout.json")
    json.dump({"histories": hists}, open(sin, "w"))
    rc, log = vf.run_bin(binp, "^TestVerifStore$", {"VERIF_IN": sin, "VERIF_OUT": sout, "HOME": env["HOME"], "TMPDIR": env["TMPDIR"]})
    if rc != 0:
        ck.violation("harness-run", "user-store history harness failed:\n" + log[-1500:], replay={"log": log[-3000:]}, found_input=False)
        return 0
    got = json.load(open(sout))
    model = None
    if coq_ok:
        pre = ("From Common Require Import Base.\nFrom Gate Require Import Model.\nOpen Scope N_scope.\n"
               "Definition hists : list (list sop) := [\n" + ";\n".join("[%s]" % ";".join(csop(o) for o in h) for h in hists) + "].\n")
        okc, out = vf.coq_eval(GROUP, ck.work, "scases", pre, {
            "R": "flat_map (fun h => map (fun r => match r with Invoked => 1 | Status n => n end) (run_store [] h)) "
                 "(map (fun h => [SetPerms 7 [LOGON]; SetPerms 8 [LOGON]] ++ h) hists)"})
        if not okc:
            ck.violation("correspondence-eval", "model evaluation of the store histories failed:\n" + out[-1500:], replay={"log": out[-3000:]},
                         found_input=False)
        else:
            model = out["R"]
    n = k = 0
    for backend in ("file", "database"):
        k = 0
        for hi, h in enumerate(hists):
            cur = {"h1": {"ego.logon"}, "h2": {"ego.logon"}}
            ri = 0
            for op in h:
                if op[0] == "set":
                    cur[op[1]] = set(op[2])
                    continue
                r = got[backend][hi][ri]
                ri += 1
                n += 1
                need, u, kind = set(op[1]), op[2], op[3]
                rep = {"store_history": h, "backend": backend, "request_index": ri - 1, "request": op, "holds_now": sorted(cur[u]), "real": r}
                ok_now = ("ego.root" in cur[u] or need <= cur[u]) and (kind == "token" or bool(cur[u] & {"ego.logon", "ego.root"}))
                if r["invoked"] and not ok_now:
                    ck.violation("store:stale-permission:" + backend, "%s user store: handler ran for %s (%s) on a route requiring %r although the user "
                                 "now holds only %r (history %r)" % (backend, u, kind, sorted(need), sorted(cur[u]), h), replay=rep)
                elif model is not None:
                    want = model[k]
                    if (1 if r["invoked"] else r["status"]) != want:
                        ck.violation("corr-store:" + backend, "%s user store: request #%d %r of history %r answers %r, model %d (user holds %r)" % (
                            backend, ri - 1, op, h, r, want, sorted(cur[u])), replay=rep, found_input=False)
                k += 1
    ck.cov["store_histories"] = {"histories": len(hists), "requests_per_backend": k, "backends": ["file", "database (sqlite3)"]}
    return n


def ccall(c):
    if c[0] == "ValidateUsing":
        return "ValidateUsing"
    if c[0] == "Permissions":
        return "Permissions [%s]%%N" % ";".join(str(PERM_ID[p]) for p in c[1])
    return "%s %s" % (c[0], "true" if c[1] else "false")


def ccred(form, users):
    l, a, ad, user = CREDS[form]
    up = [PERM_ID[p] for p in users.get(user, [])] if user else []
    resolved = up if form in TOKEN_FORMS else []
    b = lambda x: "true" if x else "false"
    return "(mkCred %s %s %s %s [%s]%%N (fun p => memN p [%s]%%N))" % (
        b(l), b(a), b(ad), b(user is not None), ";".join(map(str, resolved)), ";".join(map(str, up)))


def run(ck):
    quick = ck.tier == "quick"
    ck.cov["rule"] = ("declarations = up to 6 orders of a random multiset of 1-4 builder calls (Authentication t/f, LightWeight t/f, "
                      "CanAuthenticate t/f, ValidateUsing, Permissions over {p1,p2,p3,ego.root} incl. empty) x a body (valid / invalid / "
                      "empty / no body reader) x one of %d credential forms "
                      "(%s); plus every route of the real table x all credential forms is covered by safe_flags + the theorem. "
                      "distinct_nontrivial = distinct (flags, credential form) pairs reached in which the route declares a "
                      "requirement (must-authenticate or permissions)" % (len(CREDS), ", ".join(sorted(CREDS))))
    ck.assume("Authenticate is represented by its result (LockedOut, Authenticated, Admin, User, resolved permissions) and "
              "auth.GetPermission by a lookup function; wf_cred: Admin implies Authenticated (auth.go sets Admin = isAuthenticated && isRoot)",
              "media-type, parameter, paging and payload checks are two booleans (they can only prevent the handler from running)",
              "the real route table is the one built by defineStaticRoutes + defineNativeAdminHandlers with default settings")
    ck.trusted("harness/C20/gate_test.go, harness/C32/router_dump.go, harness/C32/table_test.go (overlays), props/C20.py")
    thms = ["C20_gate", "C20_rejected_not_invoked", "C20_revoked_not_invoked", "C20_builder_monotone",
            "C20_permissions_imply_authentication", "C20_builder_partial", "C20_old_refuted", "C20_old_refuted_perms_unauth",
            "C20_builder_old_refuted"]
    coq_ok = ck.coq_stage(GROUP, theorems=thms)

    ok, binp = vf.go_test_build(ck.work, "internal/router",
                                {"internal/router/zz_verif_c20_test.go": os.path.join(vf.HARNESS, "C20", "gate_test.go")}, "c20.test")
    if not ok:
        ck.violation("harness-build", "harness for internal/router does not build:\n" + binp[-1500:],
                     replay={"log": binp[-3000:]}, found_input=False)
        return
    if ck.replay_file:
        rp = json.load(open(ck.replay_file))["replay"]
        cases = [(rp["calls"], rp["cred"], rp.get("body", "empty"))] if "calls" in rp else list(CORPUS)
    else:
        cases = list(CORPUS) + gen_cases(ck.rng, 360 if quick else 6000)
    # real declarations (source scan): every chain that mixes a requirement with a withdrawing call is also driven
    decls = [] if ck.replay_file else scan_declarations(vf.REPO)
    decl_cases = {}
    for fn, line, chain in decls:
        for v in chain_variants(chain):
            if unsafe_chain(v):
                decl_cases[len(cases)] = (fn, line)
                cases.append((v, "none", "empty"))
    if not ck.replay_file and len(decls) < 20:
        ck.violation("declaration-scan", "only %d route declarations with builder calls were found in the sources (anchors lost?)" % len(decls),
                     replay={"found": len(decls)}, found_input=False)
    ck.cov["real_declarations_scanned"] = len(decls)
    env = vf.ego_env(ck.work)
    inp, outp = os.path.join(ck.work, "gin.json"), os.path.join(ck.work, "gout.json")
    json.dump({"cases": [{"calls": c, "cred": f, "body": b} for c, f, b in cases]}, open(inp, "w"))
    rc, log = vf.run_bin(binp, "^TestVerifGate$", {"VERIF_IN": inp, "VERIF_OUT": outp, "HOME": env["HOME"], "TMPDIR": env["TMPDIR"]})
    if rc != 0:
        ck.violation("harness-run", "gate harness failed:\n" + log[-1500:], replay={"log": log[-3000:]}, found_input=False)
        return
    got = json.load(open(outp))
    users, res = got["users"], got["results"]
    if got["lookup0"] or sorted(users.get("alice", [])) != ["ego.logon", "p1", "p2"] or users.get("rootie") != ["ego.root"]:
        ck.violation("harness-users", "the user database of the harness is not as assumed: %r lookup0=%r" % (users, got["lookup0"]),
                     replay={"users": users}, found_input=False)
        return

    # ---------------------------------------------------------------- property oracle on the real outputs
    nontriv, hist = set(), {}
    for idx, (fn, line) in decl_cases.items():
        calls, r = cases[idx][0], res[idx]
        if not r["invoked"]:
            continue        # since fixes 443fbd75 / 0c2c3c02 such a declaration is enforced: only a reached handler is reported
        ck.violation("real-declaration:%s" % fn, "the route declared at %s:%d mixes a requirement with a call that withdraws it (%r): resulting flags "
                     "must=%s light=%s perms=%r; a request without credentials %s its handler" % (
                         fn, line, calls, r["must"], r["light"], r["perms"], "REACHES" if r["invoked"] else "does not reach"),
                     replay={"calls": calls, "cred": "none", "real": r, "declaration": "%s:%d" % (fn, line)}, found_input=r["invoked"])
    for (calls, form, body), r in zip(cases, res):
        l, a, ad, user = CREDS[form]
        uperms = set(users.get(user, [])) if user else set()
        rep = {"calls": calls, "cred": form, "body": body, "real": r}
        declared = r["must"] or r["perms"] is not None
        if declared:
            nontriv.add(json.dumps([r["must"], r["can"], r["light"], r["perms"], r["valid"], form, body]))
        hist[form] = hist.get(form, 0) + 1
        if r["invoked"]:
            if r["must"] and not a:
                sig = "gate:lightweight-must-authenticate" if r["light"] else "gate:must-authenticate-bypassed"
                ck.violation(sig, "handler ran for credential form %s although the route %r must authenticate (flags %r)" % (
                    form, calls, {k: r[k] for k in ("must", "can", "light", "perms")}), replay=rep)
            elif r["perms"] and not (a and (ad or set(r["perms"]) <= uperms)):
                sig = ("gate:lightweight-permissions" if r["light"] else
                       "gate:permissions-without-authentication" if not r["must"] else "gate:permission-check-bypassed")
                ck.violation(sig, "handler ran for credential form %s (authenticated=%d, holds %r; body %s) although the route %r requires %r" % (
                    form, a, sorted(uperms), body, calls, r["perms"]), replay=rep)
        # builder: every permission named in any Permissions(...) call of the declaration must be required
        declared_perms = [p for c in calls if c[0] == "Permissions" for p in c[1]]
        missing = [p for p in declared_perms if p not in (r["perms"] or [])]
        if missing:
            ck.violation("builder:permission-dropped", "declaration %r names permission(s) %r but the route requires only %r%s" % (
                calls, missing, r["perms"], "; the handler ran for %s who lacks them" % form if r["invoked"] and not ad and not set(missing) <= uperms else ""),
                replay=rep)
        # builder: a requested authentication that no later Authentication(false) withdrew must survive
        req_idx = [i for i, c in enumerate(calls) if c[0] == "Permissions" or (c[0] == "Authentication" and c[1])]
        if req_idx and not r["must"]:
            later = calls[req_idx[-1] + 1:]
            if not any(c[0] == "Authentication" and not c[1] for c in later):
                ck.violation("builder:LightWeight(true)-drops-authentication",
                             "declaration %r requested authentication, nothing withdrew it explicitly, yet mustAuthenticate=false" % calls,
                             replay=rep)

    # ---------------------------------------------------------------- correspondence with the model
    if coq_ok:
        pre = ["From Common Require Import Base.", "From Gate Require Import Model.", "Open Scope N_scope.",
               "Definition cases : list (list call * cred * option bool) := ["]
        pre.append(";\n".join("([%s], %s, %s)" % (";".join(ccall(c) for c in calls), ccred(form, users), BODY[body])
                              for calls, form, body in cases))
        pre.append("""].
Definition b2n (b : bool) : N := if b then 1 else 0.
Definition one (c : list call * cred * option bool) : list N :=
  let f := build (fst (fst c)) in
  [b2n (must_auth f); b2n (can_auth f); b2n (lightweight f); b2n (valid f);
   match serve f (snd (fst c)) (fun _ => false) true true (snd c) with Invoked => 1 | Status n => n end;
   match perms f with None => 0 | Some l => 1 + N.of_nat (length l) end] ++ match perms f with None => [] | Some l => l end.""")
        okc, out = vf.coq_eval(GROUP, ck.work, "gcases", "\n".join(pre), {"R": "flat_map one cases"})
        if not okc:
            ck.violation("correspondence-eval", "model evaluation failed:\n" + out[-1500:], replay={"log": out[-3000:]}, found_input=False)
        else:
            flat, i, bad = out["R"], 0, 0
            for (calls, form, body), r in zip(cases, res):
                must, can, light, vald, resp, np_ = flat[i:i + 6]
                mp = None if np_ == 0 else flat[i + 6:i + 5 + np_]
                i += 6 + (0 if np_ == 0 else np_ - 1)
                rp_ = None if r["perms"] is None else [PERM_ID[p] for p in r["perms"]]
                rresp = 1 if r["invoked"] else r["status"]
                if [must, can, light, vald] != [int(r["must"]), int(r["can"]), int(r["light"]), int(r["valid"])] or mp != rp_ or resp != rresp:
                    bad += 1
                    if bad <= 3 and not any(v["found_input"] and v["signature"].split(":")[0] in ("gate", "builder") and
                                            not vf.match_known(ck.known, ck.pid, v["signature"]) for v in ck.viol):
                        ck.violation("corr-gate", "model/implementation disagree on %r with %s, body %s: real flags %r perms %r response %r, "
                                     "model flags %r perms %r response %r" % (calls, form, body, [r["must"], r["can"], r["light"], r["valid"]],
                                                                              rp_, rresp, [must, can, light, vald], mp, resp),
                                     replay={"calls": calls, "cred": form, "body": body, "real": r}, found_input=False)
            ck.cov["traces_validated_against_impl"] = len(cases) - bad

    nstore = store_stage(ck, binp, env, coq_ok, quick)

    # ---------------------------------------------------------------- the real table satisfies safe_flags
    H = os.path.join(vf.HARNESS, "C32")
    ntab = nreal = 0
    if not ck.replay_file:
        ok, binc = vf.go_test_build(ck.work, "internal/commands",
                                    {"internal/router/zz_verif_dump.go": os.path.join(H, "router_dump.go"),
                                     "internal/commands/zz_verif_c32_test.go": os.path.join(H, "table_test.go")}, "c20tab.test")
        if not ok:
            ck.violation("harness-build", "table dumper for internal/commands does not build:\n" + binc[-1500:],
                         replay={"log": binc[-3000:]}, found_input=False)
        else:
            tab = os.path.join(ck.work, "table.txt")
            e2 = {k: env[k] for k in ("HOME", "TMPDIR", "EGO_PATH")}
            rc, log = vf.run_bin(binc, "^TestVerifRouteTable$", dict(e2, VERIF_OUT=tab))
            table = []
            if rc == 0:
                for line in open(tab):
                    f = line.split()
                    n = int(f[6])
                    table.append({"endpoint": bytes.fromhex(f[1]).decode(), "method": f[2], "must": f[3] == "1", "can": f[4] == "1",
                                  "light": f[5] == "1", "perms": [bytes.fromhex(x).decode() for x in f[7:7 + n]],
                                  "valid": f[-1].startswith("V") and f[-1] != "V0"})
            ntab = len(table)
            if rc != 0 or ntab < 10:
                ck.violation("table-dump", "the real route table could not be dumped (%d routes):\n%s" % (ntab, log[-1200:]),
                             replay={"log": log[-3000:]}, found_input=False)
            else:
                # direct oracle: no real route is lightweight with a requirement, none has permissions without must-authenticate
                for t in table:
                    unsafe = (t["light"] and (t["must"] or t["perms"])) or (t["perms"] and not t["must"])
                    if unsafe:
                        form = "none" if t["light"] or t["must"] else "badbasic_admin"
                        ck.violation("real-table-unsafe:%s %s" % (t["method"], t["endpoint"]),
                                     "real route %s %s has flags the gate does not enforce (must=%s light=%s perms=%r): a request with "
                                     "credential form %s reaches its handler" % (t["method"], t["endpoint"], t["must"], t["light"],
                                                                                  t["perms"], form), replay={"route": t, "cred": form})
                if coq_ok:
                    ids, nxt = dict(PERM_ID), 100
                    for t in table:
                        for p in t["perms"]:
                            if p not in ids:
                                ids[p] = nxt
                                nxt += 1
                    b = lambda x: "true" if x else "false"
                    # the dumper prints an empty list for both nil and []: treat "no permissions" as nil only when must=false,
                    # which is the less favourable reading for safe_flags on lightweight routes (Some [] is unsafe there)
                    rows = ";\n".join("mkFlags %s %s %s %s %s" % (b(t["must"]), b(t["can"]), b(t["light"]),
                                      ("(Some [%s]%%N)" % ";".join(str(ids[p]) for p in t["perms"])) if t["perms"] else "None",
                                      b(t["valid"])) for t in table)
                    src = ("From Common Require Import Base.\nFrom Gate Require Import Model Proofs Properties.\nOpen Scope N_scope.\n"
                           "Definition real_routes : list flags := [\n%s].\n"
                           "Theorem C20_real_table : forallb safe_flags real_routes = true.\nProof. vm_compute. reflexivity. Qed.\n"
                           "Theorem C20_real_routes_gated : forall f c l m p body, In f real_routes -> serve f c l m p body = Invoked ->\n"
                           "  (must_auth f = true -> authed c = true) /\\ (forall ps, perms f = Some ps -> authed c = true /\\ (admin c = true \\/ forallb (granted c) ps = true)).\n"
                           "Proof. intros f c l m p body _. apply C20_gate. Qed.\n"
                           "Print Assumptions C20_real_routes_gated.\n" % rows)
                    rc, out = vf.coq_run(GROUP, ck.work, "RealGate", src)
                    ck.add_obligations(2, 2 if rc == 0 else 0)
                    if rc != 0 and not any(v["signature"].startswith("real-table-unsafe") for v in ck.viol):
                        ck.violation("real-table-obligation", "C20_real_table (forallb safe_flags real_routes = true) no longer checks:\n" + out[-1200:],
                                     replay={"log": out[-3000:]}, found_input=False)
                    elif rc == 0:
                        ck.trusted("generated C20_real_table / C20_real_routes_gated: " + ("Closed under the global context" if "Closed under" in out else out[-300:]))
                # every real route through the real ServeHTTP with recording handlers: none / authenticated non-privileged / root,
                # valid and invalid bodies for the routes that validate their payload
                rg = os.path.join(ck.work, "realgate.json")
                rc, log = vf.run_bin(binc, "^TestVerifRealGate$", dict(e2, VERIF_OUT=rg))
                if rc != 0:
                    ck.violation("harness-run", "real-route gate driver failed:\n" + log[-1500:], replay={"log": log[-3000:]}, found_input=False)
                else:
                    rows_ = json.load(open(rg))
                    nreal = len(rows_)
                    root_ok = sum(1 for x in rows_ if x["cred"] == "root" and x["invoked"])
                    with_val = sum(1 for x in rows_ if x["nvalid"] and x["bodyvalid"] and x["cred"] == "norm")
                    for x in rows_:
                        authed, admin_ = x["cred"] != "none", x["cred"] == "root"
                        holds = {"ego.logon"} if x["cred"] == "norm" else set()
                        if x["nvalid"]:
                            nontriv.add(json.dumps(["real", x["method"], x["endpoint"], x["cred"], x["body"]]))
                        if x["invoked"] and ((x["must"] and not authed) or
                                             (x["perms"] and not (authed and (admin_ or set(x["perms"]) <= holds)))):
                            ck.violation("real-route-gate:%s %s" % (x["method"], x["endpoint"]),
                                         "real route %s %s (must=%s, perms=%r, %d validations) ran its handler for caller '%s' with a %s body" % (
                                             x["method"], x["endpoint"], x["must"], x["perms"], x["nvalid"], x["cred"], x["body"]),
                                         replay={"real_route": x})
                    if root_ok < ntab or with_val < 3:
                        ck.violation("real-gate-ineffective", "the real-route driver no longer reaches the handlers (root reached %d of %d routes; "
                                     "%d validated routes driven with a valid body)" % (root_ok, ntab, with_val), replay={"rows": rows_[:20]},
                                     found_input=False)
                    ck.cov["real_routes_driven"] = {"requests": nreal, "handler_reached_by_root": root_ok,
                                                    "validated_routes_x_valid_body_nonprivileged": with_val}
                ck.cov["real_table"] = {"routes": ntab, "lightweight": sum(t["light"] for t in table),
                                        "must_authenticate": sum(t["must"] for t in table),
                                        "with_permissions": sum(bool(t["perms"]) for t in table)}

    ck.cov["evaluations"] = len(cases) + ntab + nreal + nstore
    ck.cov["distinct_nontrivial"] = len(nontriv)
    ck.cov["input_distribution"] = {"declarations_x_credentials": len(cases), "per_credential_form": hist,
                                    "handler_invoked": sum(1 for r in res if r["invoked"]),
                                    "status_403": sum(1 for r in res if r["status"] == 403 and not r["invoked"]),
                                    "status_401": sum(1 for r in res if r["status"] == 401),
                                    "status_429": sum(1 for r in res if r["status"] == 429), "real_table_routes": ntab}
    for (calls, form, body), r in list(zip(cases, res))[:3] + list(zip(cases, res))[14:16]:
        ck.sample({"calls": calls, "cred": form, "body": body, "real": r})
    if not coq_ok and not any(v["found_input"] and not vf.match_known(ck.known, ck.pid, v["signature"]) for v in ck.viol):
        grp, log = ck.coq_broken
        ck.violation("proof-broken", "Coq development %s no longer checks (theorems %s):\n%s" % (grp, ", ".join(thms), log[-1200:]),
                     replay={"broken": "coq/%s" % grp, "log": log[-3000:]}, found_input=False)
