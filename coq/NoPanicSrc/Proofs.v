(* NoPanicSrc/Proofs.v — every modelled kernel returns Ok (never the explicit Panic outcome). *)
From Common Require Import Base.
From Coq Require Import ZArith List Bool Lia.
From NoPanicSrc Require Import Model.
Import ListNotations.
Open Scope Z_scope.

Lemma len_nonneg {A} (l : list A) : 0 <= len l.
Proof. unfold len. lia. Qed.

Lemma len_app {A} (a b : list A) : len (a ++ b) = len a + len b.
Proof. unfold len. rewrite app_length. lia. Qed.

Lemma idx_ok {A} (l : list A) i : 0 <= i < len l -> exists x, idx l i = Ok x.
Proof.
  unfold idx. intros H.
  destruct (Z.ltb_spec i 0); [lia|]. destruct (Z.leb_spec (len l) i); [lia|]. cbn [orb].
  destruct (nth_error l (Z.to_nat i)) eqn:N; [eauto|].
  apply nth_error_None in N. unfold len in *. lia.
Qed.

Lemma slice_ok {A} (l : list A) lo hi : 0 <= lo <= hi -> hi <= len l -> exists r, slice l lo hi = Ok r.
Proof.
  unfold slice. intros H1 H2.
  destruct (Z.ltb_spec lo 0); [lia|]. destruct (Z.ltb_spec hi lo); [lia|].
  destruct (Z.ltb_spec (len l) hi); [lia|]. cbn [orb]. eauto.
Qed.

Lemma mk_ok n : 0 <= n -> mk n = Ok tt.
Proof. unfold mk. intros. destruct (Z.ltb_spec n 0); [lia|reflexivity]. Qed.

Ltac use_idx l i x Hx :=
  let H := fresh in
  assert (H : exists x, idx l i = Ok x) by (apply idx_ok; lia);
  destruct H as [x Hx]; rewrite Hx; cbn [bind].
Ltac use_slice l lo hi x Hx :=
  let H := fresh in
  assert (H : exists x, slice l lo hi = Ok x) by (apply slice_ok; lia);
  destruct H as [x Hx]; rewrite Hx; cbn [bind].

(* ------------------------------------------------------------------ lexer *)
Lemma adj_loop_ok toks base : forall cnt i,
  0 <= base + i -> (0 < Z.of_nat cnt -> base + i + Z.of_nat cnt < len toks) ->
  exists b, adj_loop toks base i cnt = Ok b.
Proof.
  induction cnt as [|c IH]; intros i H0 H1; cbn [adj_loop]; [eauto|].
  assert (base + i + Z.of_nat (S c) < len toks) by (apply H1; lia).
  use_idx toks (base + i) t Ht. use_idx toks (base + i + 1) nx Hnx.
  destruct (_ || _); [eauto|]. apply IH; lia.
Qed.

Lemma spell_loop_ok toks base : forall src i,
  0 <= base + i -> base + i + len src <= len toks -> exists b, spell_loop toks base i src = Ok b.
Proof.
  induction src as [|ct r IH]; intros i H0 H1; cbn [spell_loop]; [eauto|].
  assert (len (ct :: r) = len r + 1) by (unfold len; cbn [length]; lia).
  pose proof (len_nonneg r).
  use_idx toks (base + i) t Ht.
  destruct (tok_is t ct); [|eauto]. apply IH; lia.
Qed.

Lemma crush_all_ok table : forall toks nt, exists r, crush_all table toks nt = Ok r.
Proof.
  induction table as [|c r IH]; intros toks nt; cbn [crush_all]; [eauto|].
  pose proof (len_nonneg (csrc c)) as Hk. pose proof (len_nonneg toks) as Hn.
  destruct (Z.ltb_spec (len toks) (len (csrc c))) as [Hlt|Hge]; [apply IH|].
  assert (F1 : exists b, (if cadj c then adj_loop toks (len toks - len (csrc c)) 0 (Z.to_nat (len (csrc c) - 1)) else Ok true) = Ok b).
  { destruct (cadj c); [|eauto]. apply adj_loop_ok; lia. }
  destruct F1 as [f1 E1]. rewrite E1. cbn [bind].
  assert (F2 : exists b, (if f1 then spell_loop toks (len toks - len (csrc c)) 0 (csrc c) else Ok false) = Ok b).
  { destruct f1; [|eauto]. apply spell_loop_ok; lia. }
  destruct F2 as [f2 E2]. rewrite E2. cbn [bind].
  destruct f2; [|apply IH].
  use_slice toks 0 (len toks - len (csrc c)) pre Hpre. eauto.
Qed.

Lemma imag_merge_ok cl toks : exists r, imag_merge cl toks = Ok r.
Proof.
  unfold imag_merge. destruct (Z.leb_spec 2 (len toks)) as [H|H]; [|eauto].
  use_idx toks (len toks - 1) sf Hsf. use_idx toks (len toks - 1 - 1) nb Hnb.
  destruct (_ && _); [|eauto].
  use_slice toks 0 (len toks - 1 - 1) pre Hpre. eauto.
Qed.

Lemma lex_step_ok table cl toks nt : exists r, lex_step table cl toks nt = Ok r.
Proof.
  unfold lex_step. destruct (crush_all_ok table (toks ++ [nt]) nt) as [t1 E]. rewrite E. cbn [bind].
  apply imag_merge_ok.
Qed.

Lemma lex_post_from_ok table cl : forall raw acc, exists r, lex_post_from table cl acc raw = Ok r.
Proof.
  induction raw as [|nt r IH]; intros acc; cbn [lex_post_from]; [eauto|].
  destruct (lex_step_ok table cl acc nt) as [a E]. rewrite E. cbn [bind]. apply IH.
Qed.

Lemma ok_not_panic {A} (r : res A) : (exists x, r = Ok x) -> r <> Panic.
Proof. intros [x E]. rewrite E. discriminate. Qed.

Lemma lex_post_no_panic table cl raw : lex_post table cl raw <> Panic.
Proof. apply ok_not_panic, lex_post_from_ok. Qed.

(* ------------------------------------------------------------------ token-stream helpers *)
Lemma get_token_text_no_panic {A} (toks : list A) start e : get_token_text toks start e <> Panic.
Proof.
  apply ok_not_panic. unfold get_token_text. pose proof (len_nonneg toks).
  set (s := if start <? 0 then 0 else start).
  set (e' := if (e <? 0) || (len toks <=? e) then len toks - 1 else e).
  assert (0 <= s) by (subst s; destruct (Z.ltb_spec start 0); lia).
  assert (e' < len toks).
  { subst e'. destruct (Z.ltb_spec e 0); cbn [orb]; [lia|]. destruct (Z.leb_spec (len toks) e); lia. }
  destruct (Z.ltb_spec e' s); [eauto|]. apply slice_ok; lia.
Qed.

Lemma get_tokens_no_panic {A} (toks : list A) p1 p2 : get_tokens toks p1 p2 <> Panic.
Proof.
  apply ok_not_panic. unfold get_tokens. pose proof (len_nonneg toks).
  set (q1 := if p1 <? 0 then 0 else if len toks <? p1 then len toks else p1).
  assert (0 <= q1 <= len toks).
  { subst q1. destruct (Z.ltb_spec p1 0); [lia|]. destruct (Z.ltb_spec (len toks) p1); lia. }
  set (q2 := if p2 <? q1 then q1 else if len toks <? p2 then len toks else p2).
  assert (q1 <= q2 <= len toks).
  { subst q2. destruct (Z.ltb_spec p2 q1); [lia|]. destruct (Z.ltb_spec (len toks) p2); lia. }
  apply slice_ok; lia.
Qed.

Lemma peek_no_panic {A} (toks : list A) tp off : peek toks tp off <> Panic.
Proof.
  apply ok_not_panic. unfold peek.
  destruct (Z.leb_spec (len toks) (tp + (off - 1))); cbn [orb]; [eauto|].
  destruct (Z.ltb_spec (tp + (off - 1)) 0); [eauto|].
  use_idx toks (tp + (off - 1)) t Ht. eauto.
Qed.

Lemma remainder_no_panic poss tp src : remainder poss tp src <> Panic.
Proof.
  apply ok_not_panic. unfold remainder.
  destruct (Z.ltb_spec tp 0); cbn [orb]; [eauto|].
  destruct (Z.leb_spec (len poss) tp); [eauto|].
  use_idx poss tp ps Hps.
  destruct (Z.ltb_spec (ps - 1) 0); cbn [orb]; [eauto|].
  destruct (Z.leb_spec (len src) (ps - 1)); [eauto|].
  apply slice_ok; lia.
Qed.

Lemma tok_delete_no_panic {A} (toks : list A) tp s e : tok_delete toks tp s e <> Panic.
Proof.
  apply ok_not_panic. unfold tok_delete.
  destruct (Z.ltb_spec s 0); cbn [orb]; [eauto|].
  destruct (Z.leb_spec (len toks) s); cbn [orb]; [eauto|].
  destruct (Z.ltb_spec e s); cbn [orb]; [eauto|].
  destruct (Z.ltb_spec (len toks) e); [eauto|].
  rewrite mk_ok by lia. cbn [bind].
  use_slice toks 0 s a Ha. use_slice toks e (len toks) b Hb. eauto.
Qed.

Lemma tok_insert_no_panic {A} (toks : list A) tp pos ins : tok_insert toks tp pos ins <> Panic.
Proof.
  apply ok_not_panic. unfold tok_insert. pose proof (len_nonneg ins).
  destruct (Z.ltb_spec pos 0); cbn [orb]; [eauto|].
  destruct (Z.leb_spec (len toks) pos); [eauto|].
  destruct (len ins =? 0); [eauto|].
  rewrite mk_ok by lia. cbn [bind].
  use_slice toks 0 pos a Ha. use_slice toks pos (len toks) b Hb. eauto.
Qed.

(* ------------------------------------------------------------------ compiler kernels *)
Lemma test_desc_no_panic unq s : test_desc true unq s <> Panic.
Proof.
  apply ok_not_panic. unfold test_desc. cbn [andb]. pose proof (len_nonneg s).
  destruct (Z.eqb_spec (len s) 0); [eauto|].
  use_idx s 0 c Hc.
  destruct (if (c =? 34)%N then unq s else Some s) as [d|]; [|eauto].
  destruct (Z.ltb_spec 48 (len d)); [|eauto].
  use_slice d 0 46 pre Hpre. eauto.
Qed.

Lemma test_desc_old_refuted : exists unq s, test_desc false unq s = Panic.
Proof. exists (fun _ => None), []. reflexivity. Qed.

Lemma rune_lit_no_panic s uq rn : rune_lit s uq rn <> Panic.
Proof.
  apply ok_not_panic. unfold rune_lit.
  destruct (Z.ltb_spec 1 (len s)); [|eauto].
  use_idx s 0 c0 Hc0. destruct (c0 =? 39)%N; [|eauto].
  use_idx s (len s - 1) cl Hcl. destruct (cl =? 39)%N; [|eauto].
  use_slice s 1 (len s - 1) inner Hin.
  set (runes := match uq inner with Some r => [r] | None => rn s end).
  pose proof (len_nonneg runes).
  destruct (Z.eqb_spec (len runes) 1).
  - use_idx runes 0 r0 Hr0. eauto.
  - rewrite mk_ok by lia. cbn [bind]. eauto.
Qed.

Lemma radix_probe_no_panic text : radix_probe text <> Panic.
Proof.
  apply ok_not_panic. unfold radix_probe.
  destruct (Z.ltb_spec (len text) 2); [eauto|].
  use_idx text 0 c0 Hc0. destruct (c0 <? 48)%N; [eauto|]. cbn [bind].
  destruct (57 <? c0)%N; [eauto|]. cbn [bind].
  destruct (c0 =? 48)%N; [|eauto].
  use_idx text 1 c1 Hc1. eauto.
Qed.

Lemma macro_strip_no_panic semi toks : macro_strip true semi toks <> Panic.
Proof.
  apply ok_not_panic. unfold macro_strip. cbn [andb]. pose proof (len_nonneg toks).
  destruct (Z.eqb_spec (len toks) 0); [eauto|].
  use_idx toks (len toks - 1) ltk Hltk.
  destruct (tok_is ltk semi); [|eauto]. apply slice_ok; lia.
Qed.

Lemma macro_strip_old_refuted : exists semi, macro_strip false semi [] = Panic.
Proof. exists {| tclass := 0; tspell := []; tline := 0; tpos := 0 |}. reflexivity. Qed.

(* ------------------------------------------------------------------ VM kernels *)
Lemma pop_ok m : exists r, pop m = Ok r.
Proof.
  unfold pop. destruct (Z.leb_spec (sp m) 0); cbn [orb]; [eauto|].
  destruct (Z.ltb_spec (len (stack m)) (sp m)); [eauto|].
  use_idx (stack m) (sp m - 1) v Hv. eauto.
Qed.

Lemma pop_no_panic m : pop m <> Panic.
Proof. apply ok_not_panic, pop_ok. Qed.

Lemma drop_loop_ok target opnil throw : forall fuel m, exists r, drop_loop fuel target opnil throw m = Ok r.
Proof.
  induction fuel as [|f IH]; intros m; cbn [drop_loop]; [eauto|].
  destruct (sp m <=? fp m); [eauto|].
  destruct (pop_ok m) as [p Hp]. rewrite Hp. cbn [bind].
  destruct p as [[v m']|]; [|eauto].
  destruct v as [l|? ?|[|]|]; try apply IH.
  - destruct opnil; [eauto|]. cbn [bind]. destruct (l =? target)%N; [eauto|apply IH].
  - destruct throw; [eauto|apply IH].
Qed.

Lemma drop_to_marker_no_panic operand opnil throw m : drop_to_marker operand opnil throw m <> Panic.
Proof. apply ok_not_panic, drop_loop_ok. Qed.

Lemma scan_down_ok st : forall fuel i, i < len st -> exists b, scan_down st i fuel = Ok b.
Proof.
  induction fuel as [|f IH]; intros i Hi; cbn [scan_down]; [eauto|].
  destruct (Z.ltb_spec i 0); [eauto|].
  use_idx st i v Hv. destruct (is_marker v); [eauto|]. apply IH. lia.
Qed.

(* the operand (number of values expected) is produced by the compiler and is never negative; the
   stack pointer never exceeds the stack length *)
Lemma stack_check_partial m count : 0 <= count -> sp m <= len (stack m) -> stack_check m count <> Panic.
Proof.
  intros Hc Hsp. apply ok_not_panic. unfold stack_check.
  destruct (Z.leb_spec (sp m) count); [eauto|].
  set (s0 := sp m - (count - 1)).
  set (s1 := if sp m - 1 <? s0 then sp m - 1 else s0).
  set (s2 := if len (stack m) <=? s1 then len (stack m) - 1 else s1).
  assert (s2 < len (stack m)).
  { subst s2. destruct (Z.leb_spec (len (stack m)) s1); lia. }
  destruct (scan_down_ok (stack m) (S (Z.to_nat s2)) s2 ltac:(lia)) as [b Hb]. rewrite Hb. cbn [bind].
  destruct b; [eauto|].
  use_idx (stack m) (sp m - (count + 1)) v Hv. eauto.
Qed.

Lemma stack_check_refuted : exists m count, sp m <= len (stack m) /\ stack_check m count = Panic.
Proof. exists {| stack := [VOther]; sp := 1; fp := 0 |}, (-1). split; [cbn; lia|reflexivity]. Qed.

(* handleCatch *)
Lemma g_idx_ok s i : gsl_ok s -> 0 <= i < tln s -> exists t, g_idx s i = Ok t.
Proof.
  unfold gsl_ok, g_idx. intros Hs Hi.
  destruct (Z.ltb_spec i 0); [lia|]. destruct (Z.leb_spec (tln s) i); [lia|]. cbn [orb].
  apply idx_ok. lia.
Qed.

Lemma find_try_ok s : gsl_ok s -> forall fuel i, i < tln s ->
  exists r, find_try s i fuel = Ok r /\ -1 <= r < tln s.
Proof.
  intros Hs. induction fuel as [|f IH]; intros i Hi; cbn [find_try].
  - exists (-1). split; [reflexivity|]. unfold gsl_ok in Hs. lia.
  - destruct (Z.ltb_spec i 0). { exists (-1). split; [reflexivity|]. unfold gsl_ok in Hs. lia. }
    destruct (g_idx_ok s i Hs ltac:(lia)) as [t Ht]. rewrite Ht. cbn [bind].
    destruct (taddr t <=? 0); [apply IH; lia|].
    destruct (tsel t); [apply IH; lia|]. exists i. split; [reflexivity|lia].
Qed.

Lemma count_live_ok s : gsl_ok s -> forall fuel i acc, 0 <= i -> exists r, count_live s i fuel acc = Ok r.
Proof.
  intros Hs. induction fuel as [|f IH]; intros i acc Hi; cbn [count_live]; [eauto|].
  destruct (Z.leb_spec (tln s) i); [eauto|].
  destruct (g_idx_ok s i Hs ltac:(lia)) as [t Ht]. rewrite Ht. cbn [bind]. apply IH. lia.
Qed.

Lemma unwind_trunc_ok : forall depths s, gsl_ok s ->
  exists s', unwind_trunc s depths = Ok s' /\ gsl_ok s' /\ tarr s' = tarr s.
Proof.
  induction depths as [|d r IH]; intros s Hs; cbn [unwind_trunc]; [eauto|].
  destruct (Z.ltb_spec (Z.of_N d) (tln s)); [|apply IH; assumption].
  unfold g_reslice. unfold gsl_ok in Hs.
  destruct (Z.ltb_spec (Z.of_N d) 0); [lia|]. destruct (Z.ltb_spec (len (tarr s)) (Z.of_N d)); [lia|].
  cbn [orb bind].
  destruct (IH {| tarr := tarr s; tln := Z.of_N d |}) as [s' [E [Hok Harr]]].
  { unfold gsl_ok. cbn. lia. }
  exists s'. auto.
Qed.

Lemma handle_catch_no_panic s running depths underflow :
  gsl_ok s -> handle_catch s running depths underflow <> Panic.
Proof.
  intros Hs. apply ok_not_panic. unfold handle_catch.
  assert (F : exists ti, (if running then find_try s (tln s - 1) (Z.to_nat (tln s)) else Ok (-1)) = Ok ti
                         /\ -1 <= ti < tln s).
  { destruct running; [apply find_try_ok; [assumption|lia]|].
    exists (-1). split; [reflexivity|]. unfold gsl_ok in Hs. lia. }
  destruct F as [ti [E Hti]]. rewrite E. cbn [bind].
  destruct (Z.leb_spec 0 ti); [|eauto].
  destruct (g_idx_ok s ti Hs ltac:(lia)) as [t Ht]. rewrite Ht. cbn [bind].
  destruct (count_live_ok s Hs (Z.to_nat (tln s)) (ti + 1) 1 ltac:(lia)) as [n Hn]. rewrite Hn. cbn [bind].
  destruct (unwind_trunc_ok depths s Hs) as [s1 [E1 [Hok1 Harr1]]]. rewrite E1. cbn [bind].
  destruct underflow; [eauto|].
  unfold g_reslice. unfold gsl_ok in Hs, Hok1. rewrite Harr1.
  destruct (Z.ltb_spec (ti + 1) 0); [lia|]. destruct (Z.ltb_spec (len (tarr s)) (ti + 1)); [lia|].
  cbn [orb bind].
  destruct (g_idx_ok {| tarr := tarr s; tln := ti + 1 |} ti) as [t2 Ht2].
  { unfold gsl_ok. cbn. lia. } { cbn. lia. }
  rewrite Ht2. cbn [bind]. eauto.
Qed.

(* ------------------------------------------------------------------ run-time value kernels *)
Lemma nkind_eqb_refl k : nkind_eqb k k = true.
Proof. destruct k; reflexivity. Qed.

Lemma modulo_op_no_panic k v2 : modulo_op true k k v2 <> Panic.
Proof.
  apply ok_not_panic. unfold modulo_op. cbn [negb andb].
  destruct (is_int_kind k); [|eauto].
  unfold assert_kind. rewrite nkind_eqb_refl. cbn [bind andb].
  destruct (Z.eqb_spec v2 0); [eauto|].
  unfold int_div. destruct (Z.eqb_spec v2 0); [contradiction|]. cbn [bind]. eauto.
Qed.

Lemma modulo_hoisted_refuted : exists k v2, modulo_op false k k v2 = Panic.
Proof. exists KInt32, 0. reflexivity. Qed.

Lemma divide_op_no_panic k v2 dz : divide_op k k v2 dz <> Panic.
Proof.
  apply ok_not_panic. unfold divide_op, assert_kind. rewrite nkind_eqb_refl.
  destruct k; cbn [bind]; try (destruct (Z.eqb_spec v2 0); [eauto|]; unfold int_div;
    destruct (Z.eqb_spec v2 0); [contradiction|]; cbn [bind]; eauto); try (destruct (_ && _); eauto); eauto.
Qed.

Lemma get_slice_no_panic a first last : get_slice a first last <> Panic.
Proof.
  apply ok_not_panic. unfold get_slice.
  set (size := if aisbyte a then len (abytes a) else len (adata a)).
  destruct (Z.ltb_spec first 0); cbn [orb]; [eauto|].
  destruct (Z.ltb_spec last first); cbn [orb]; [eauto|].
  destruct (Z.ltb_spec size first); cbn [orb]; [eauto|].
  destruct (Z.ltb_spec size last); [eauto|].
  subst size. destruct (aisbyte a).
  - use_slice (abytes a) first last s Hs. pose proof (len_nonneg s). rewrite mk_ok by lia. cbn [bind]. eauto.
  - use_slice (adata a) first last s Hs. eauto.
Qed.

Lemma get_slice_as_array_no_panic a first last : get_slice_as_array false a first last <> Panic.
Proof.
  unfold get_slice_as_array. destruct (aisbyte a) eqn:B.
  - apply ok_not_panic.
    destruct (Z.ltb_spec first 0); cbn [orb]; [eauto|].
    destruct (Z.ltb_spec last first); cbn [orb]; [eauto|].
    destruct (Z.ltb_spec (len (abytes a)) first); cbn [orb]; [eauto|].
    destruct (Z.ltb_spec (len (abytes a)) last); [eauto|].
    use_slice (abytes a) first last s Hs. eauto.
  - destruct (_ || _); [discriminate|apply get_slice_no_panic].
Qed.

Lemma get_slice_as_array_merged_refuted : exists a first last, get_slice_as_array true a first last = Panic.
Proof. exists {| aisbyte := true; abytes := [1;2;3;4;5;6;7]; adata := [] |}, 6, 2. reflexivity. Qed.

(* ------------------------------------------------------------------ defer.go *)
Lemma scan_chain_ok toks : forall fuel pos, 0 <= pos ->
  exists r, scan_chain toks pos fuel = Ok r /\ pos <= r /\ (r <= len toks \/ r = pos).
Proof.
  induction fuel as [|f IH]; intros pos Hp; cbn [scan_chain]. { exists pos. split; [reflexivity|lia]. }
  destruct (Z.leb_spec (len toks) pos). { exists pos. split; [reflexivity|lia]. }
  use_idx toks pos t Ht.
  destruct t; try (exists pos; split; [reflexivity|lia]);
    (destruct (IH (pos + 1) ltac:(lia)) as [r [E [H1 H2]]]; exists r; split; [exact E|lia]).
Qed.

Lemma scan_parens_ok toks : forall fuel pos depth, 0 <= pos ->
  exists r, scan_parens toks pos depth fuel = Ok r /\ pos <= r /\ (r <= len toks \/ r = pos) /\
            (fuel <> O -> pos < len toks -> pos + 1 <= r).
Proof.
  induction fuel as [|f IH]; intros pos depth Hp; cbn [scan_parens].
  { exists pos. repeat split; try lia; try (intros H; contradiction). }
  destruct (Z.leb_spec (len toks) pos). { exists pos. repeat split; lia. }
  use_idx toks pos t Ht.
  destruct t.
  1,2,5: destruct (IH (pos + 1) depth ltac:(lia)) as [r [E [H1 [H2 _]]]]; exists r; repeat split; try exact E; lia.
  - destruct (IH (pos + 1) (depth + 1) ltac:(lia)) as [r [E [H1 [H2 _]]]]. exists r. repeat split; try exact E; lia.
  - destruct (depth - 1 =? 0). { exists (pos + 1). repeat split; lia. }
    destruct (IH (pos + 1) (depth - 1) ltac:(lia)) as [r [E [H1 [H2 _]]]]. exists r. repeat split; try exact E; lia.
Qed.

Lemma last_dot_ok toks stop : stop <= len toks -> forall fuel i acc, 0 <= i -> -1 <= acc < Z.max i 0 \/ acc = -1 ->
  exists r, last_dot toks i stop acc fuel = Ok r /\ (r = -1 \/ (0 <= r < stop) \/ r = acc).
Proof.
  intros Hs. induction fuel as [|f IH]; intros i acc Hi Ha; cbn [last_dot]. { exists acc. split; [reflexivity|lia]. }
  destruct (Z.leb_spec stop i). { exists acc. split; [reflexivity|lia]. }
  use_idx toks i t Ht.
  destruct (IH (i + 1) (match t with TDot => i | _ => acc end) ltac:(lia)) as [r [E Hres]].
  { destruct t; lia. }
  exists r. split; [exact E|]. destruct t; lia.
Qed.

Lemma hoist_receiver_no_panic toks start : 0 <= start -> hoist_receiver true toks start <> Panic.
Proof.
  intros Hs. apply ok_not_panic. unfold hoist_receiver, find_args_start.
  destruct (scan_chain_ok toks (S (length toks)) start Hs) as [a [Ea [Ha1 Ha2]]]. rewrite Ea. cbn [bind].
  unfold has_call_args. cbn [andb].
  destruct (Z.leb_spec (len toks) a); cbn [bind negb]; [eauto|].
  use_idx toks a t Ht.
  destruct t; cbn [negb]; eauto.
  (* the token at a is "(" and a < len toks *)
  destruct (last_dot_ok toks a ltac:(lia) (S (length toks)) start (-1) Hs ltac:(lia)) as [ld [El Hl]]. rewrite El. cbn [bind].
  destruct (Z.ltb_spec ld 0); [eauto|].
  unfold find_call_end, find_args_start. rewrite Ea. cbn [bind].
  destruct (scan_parens_ok toks (S (length toks)) a 0 ltac:(lia)) as [e [Ee [He1 [He2 He3]]]]. rewrite Ee. cbn [bind].
  assert (a + 1 <= e) by (apply He3; [discriminate|lia]).
  rewrite mk_ok by lia. cbn [bind].
  use_slice toks ld e sfx Hsfx. eauto.
Qed.

Lemma hoist_receiver_unguarded_refuted : exists toks start, 0 <= start /\ hoist_receiver false toks start = Panic.
Proof. exists [TIdent; TDot], 0. split; [lia|reflexivity]. Qed.

(* ------------------------------------------------------------------ mutex bookkeeping *)
Definition rw_inv (s : rwm) : Prop := bk_w s = rw_w s /\ bk_r s = rw_r s /\ 0 <= rw_r s.

Lemma rw_step_inv s o : rw_inv s -> rw_inv (fst (rw_step false s o)) /\ snd (rw_step false s o) <> MFatal.
Proof.
  intros [Hw [Hr H0]]. destruct s as [w r bw br]. cbn in Hw, Hr, H0. subst bw br.
  destruct o; cbn [rw_step rw_w rw_r bk_w bk_r].
  - destruct (w || (0 <? r)); cbn; unfold rw_inv; cbn; repeat split; try lia; discriminate.
  - destruct w; cbn; unfold rw_inv; cbn; repeat split; try lia; discriminate.
  - destruct w; cbn; unfold rw_inv; cbn; repeat split; try lia; discriminate.
  - destruct (Z.leb_spec r 0); cbn; unfold rw_inv; cbn; repeat split; try lia; discriminate.
  - destruct (w || (0 <? r)); cbn; unfold rw_inv; cbn; repeat split; try lia; discriminate.
  - destruct w; cbn; unfold rw_inv; cbn; repeat split; try lia; discriminate.
Qed.

Lemma rw_run_no_fatal : forall ops s, rw_inv s -> ~ In MFatal (rw_run false s ops).
Proof.
  induction ops as [|o r IH]; intros s Hs; cbn [rw_run]; [intros []|].
  pose proof (rw_step_inv s o Hs) as [Hi Hf]. destruct (rw_step false s o) as [s' out]. cbn [fst snd] in Hi, Hf.
  destruct out; try (intros [E|E]; [discriminate|exact (IH s' Hi E)]).
  - intros [E|[]]. discriminate.
  - contradiction.
Qed.

Lemma rw_run_pre_refuted : In MFatal (rw_run true rwm0 [MLock; MTryRLock; MUnlock; MRUnlock]).
Proof. vm_compute. tauto. Qed.

Lemma mx_run_no_fatal : forall ops w, ~ In MFatal (mx_run (w, w) ops).
Proof.
  induction ops as [|o r IH]; intros w; cbn [mx_run]; [intros []|].
  destruct o, w; cbn; try (intros [E|E]; [discriminate|exact (IH _ E)]); try (intros [E|[]]; discriminate).
Qed.
