//go:build verif

package tables

// Overlaid into /repo/internal/server/tables by /verif/check C18 (never written into /repo).
//
// TestVerifC18 reads VERIF_IN: {"cases":[{"id":n,"type":"int","value":<raw JSON>}...]}.  For every column type it
// creates a table  k string, v <type>  through the real TableCreate handler on a SQLite file reached through a DSN,
// inserts every case as one row through the real InsertRows handler (the request body is built textually, so the
// raw JSON spelling of the value is exactly what the client sent) and reads it back through the real ReadRows
// handler with a filter on k.  Output per case: insert status, read status, the raw JSON text of the value that
// came back, plus what parsing.CoerceToColumnType does with the decoded value directly (the model's write side).

import (
	"bytes"
	"database/sql"
	"encoding/json"
	"fmt"
	"net/http"
	"net/http/httptest"
	"net/url"
	"os"
	"path/filepath"
	"strings"
	"testing"

	"github.com/tucats/ego/internal/cli/settings"
	"github.com/tucats/ego/internal/defs"
	"github.com/tucats/ego/internal/router"
	"github.com/tucats/ego/internal/dsns"
	"github.com/tucats/ego/internal/server/tables/parsing"

	_ "modernc.org/sqlite"
)

type c18Case struct {
	ID    int             `json:"id"`
	Type  string          `json:"type"`
	Value json.RawMessage `json:"value"`
}

type c18Out struct {
	ID      int    `json:"id"`
	Insert  int    `json:"insert"`
	Read    int    `json:"read"`
	Rows    int    `json:"rows"`
	Back    string `json:"back"`    // raw JSON of the value read back ("" when none)
	Coerced string `json:"coerced"` // fmt %T:%v of CoerceToColumnType(decoded value), "error" on error
	Stored  string `json:"stored"`  // typeof(v)|quote(v) as SQLite itself reports the stored cell
	Err     string `json:"err"`
}

func c18Session(table string, params map[string][]string) *router.Session {
	u, _ := url.Parse("/dsns/c18/tables/" + table + "/rows")

	return &router.Session{ID: 1, User: "admin", Admin: true, URL: u,
		URLParts: map[string]any{"dsn": "c18", "table": table}, Parameters: params}
}

func TestVerifC18(t *testing.T) {
	raw, err := os.ReadFile(os.Getenv("VERIF_IN"))
	if err != nil {
		t.Fatal(err)
	}

	in := struct {
		Cases []c18Case `json:"cases"`
	}{}
	if err := json.Unmarshal(raw, &in); err != nil {
		t.Fatal(err)
	}

	dir := t.TempDir()
	dataFile := filepath.Join(dir, "c18-data.db")

	h, err := sql.Open("sqlite", dataFile)
	if err != nil {
		t.Fatal(err)
	}
	defer h.Close()

	if _, err := h.Exec("CREATE TABLE c18_probe (x INTEGER)"); err != nil {
		t.Fatal(err)
	}

	svc, err := dsns.NewFileService("memory")
	if err != nil {
		t.Fatal(err)
	}

	dsns.DSNService = svc

	if err := dsns.DSNService.WriteDSN(1, "admin", defs.DSN{Name: "c18", Provider: defs.SqliteProvider, Database: dataFile}); err != nil {
		t.Fatal(err)
	}

	original := settings.Get(defs.LogonUserdataSetting)
	settings.Set(defs.LogonUserdataSetting, "sqlite://"+filepath.Join(dir, "c18-perms.db"))

	defer settings.Set(defs.LogonUserdataSetting, original)

	outs := []c18Out{}
	created := map[string]string{}

	for _, c := range in.Cases {
		o := c18Out{ID: c.ID}
		table := "c18_" + strings.ReplaceAll(c.Type, " ", "_")

		if msg, done := created[c.Type]; !done {
			body, _ := json.Marshal([]defs.DBColumn{{Name: "k", Type: "string"}, {Name: "v", Type: c.Type}})
			u := "/dsns/c18/tables/" + table
			req, _ := http.NewRequest(http.MethodPut, u, bytes.NewReader(body))
			rr := httptest.NewRecorder()
			s := c18Session(table, map[string][]string{})
			s.URL, _ = url.Parse(u)

			msg = ""
			if st := TableCreate(s, rr, req); st != http.StatusOK && st != http.StatusCreated {
				msg = fmt.Sprintf("create table %s: status %d: %s", table, st, rr.Body.String())
			}

			created[c.Type] = msg
		}

		if msg := created[c.Type]; msg != "" {
			o.Err = msg
			outs = append(outs, o)

			continue
		}

		key := fmt.Sprintf("case%d", c.ID)

		// write
		body := fmt.Sprintf(`{"rows":[{"k":%q,"v":%s}]}`, key, string(c.Value))
		req, _ := http.NewRequest(http.MethodPut, "/dsns/c18/tables/"+table+"/rows", strings.NewReader(body))
		rr := httptest.NewRecorder()
		o.Insert = InsertRows(c18Session(table, map[string][]string{}), rr, req)

		if o.Insert != http.StatusOK {
			o.Err = strings.TrimSpace(rr.Body.String())
		}

		// what SQLite holds
		var typ, quoted sql.NullString
		if err := h.QueryRow(fmt.Sprintf(`SELECT typeof(v), quote(v) FROM %q WHERE k = ?`, table), key).Scan(&typ, &quoted); err == nil {
			o.Stored = typ.String + "|" + quoted.String
		}

		// read
		req, _ = http.NewRequest(http.MethodGet, "/dsns/c18/tables/"+table+"/rows?filter="+url.QueryEscape(fmt.Sprintf(`EQ(k,"%s")`, key)), nil)
		rr = httptest.NewRecorder()
		s := c18Session(table, map[string][]string{"filter": {fmt.Sprintf(`EQ(k,"%s")`, key)}})
		s.URL = req.URL
		o.Read = ReadRows(s, rr, req)

		resp := struct {
			Rows []map[string]json.RawMessage `json:"rows"`
		}{}

		if err := json.Unmarshal(rr.Body.Bytes(), &resp); err == nil {
			o.Rows = len(resp.Rows)
			if len(resp.Rows) == 1 {
				o.Back = string(resp.Rows[0]["v"])
			}
		} else if o.Err == "" {
			o.Err = "read: " + strings.TrimSpace(rr.Body.String())
		}

		// the write-side coercion on its own, as the handler calls it
		var decoded any
		if err := json.Unmarshal(c.Value, &decoded); err == nil && decoded != nil {
			v, err := parsing.CoerceToColumnType("v", decoded, []defs.DBColumn{{Name: "k", Type: "string"}, {Name: "v", Type: c.Type}})
			if err != nil {
				o.Coerced = "error"
			} else {
				o.Coerced = fmt.Sprintf("%T:%v", v, v)
			}
		}

		outs = append(outs, o)
	}

	b, _ := json.Marshal(outs)
	if err := os.WriteFile(os.Getenv("VERIF_OUT"), b, 0o644); err != nil {
		t.Fatal(err)
	}
}
