"""C11 Runtime packages match the Go functions they wrap (internal/runtime/*, bytecode/callNative.go)."""
import os
import re
import time

import vf

GROUP = "RtConv"
THEOREMS = ["C11_conv_roundtrip", "C11_wrapper_returns_go", "C11_args_all_or_error", "C11_args_old_refuted",
            "C11_uint32_result_refused", "C11_multi_return_order", "C11_roman_roundtrip", "C11_base64_roundtrip",
            "C11_sort_sorted_perm", "C11_stable_wrapper_stable"]
META = {
    "group": "RtConv",
    "technique": "Coq proofs over a Gallina model of the native-call value conversion, the Roman-numeral codec and the base64/sort glue + regenerated list of mirrored functions + differential run of every covered wrapper (ego binary) against the Go function called directly",
    "text": "Proved: C11_conv_roundtrip (scalars and arrays of int/int16/uint16/int32/int64/bool/byte/float32/float64/string survive Ego->Go->Ego), C11_wrapper_returns_go (a pass-through wrapper returns what Go returns when the result is representable), C11_args_all_or_error (repaired: any unconvertible argument fails the call; C11_args_old_refuted for the old code), C11_multi_return_order, C11_roman_roundtrip (Rtoi(Itor n) = n for all 1..3999), C11_base64_roundtrip, C11_sort_sorted_perm and C11_stable_wrapper_stable (over the Go codec / Go sort laws as Section hypotheses; the stable entries reach only stable Go sort functions by a go/ast table regenerated every run). Every run regenerates the list of IsNative functions from the running package tables (each must be covered by signature or listed as exempt) and compares each covered wrapper through the real ego binary with the Go function called directly on random strings incl. Unicode, boundary numbers, NaN/Inf; Roman numerals exhaustively; base64 and sort laws and JSON output on the real binary. partial: the Go library functions are trusted; cmplx/os/time/runtime mirrors and slice-taking functions are exempt from the differential run; JSON Marshal/MarshalIndent/Unmarshal are compared byte for byte with encoding/json on maps, arrays and scalars (structs, json.Parse and file functions not covered); fmt verbs are not covered; sort.Stable stability on scalars only through the regenerated table obligation",
    "note": "Trusted: Coq kernel; hand-written model of callNative conversions tied by an in-package harness on arrays of every element kind; harness/C11/*.go; props/C11.py generators; the ego binary's fmt.Println/strconv.Quote used to print results.",
}

OKIN = {"string", "int", "int64", "float64", "bool", "int32", "uint8"}
OKOUT = {"string", "int", "int64", "uint64", "bool", "float64", "[]string", "error"}
COVERED_PKGS = ("strings", "strconv", "math", "filepath")
EXEMPT = {
    "cmplx": ["Abs", "Conj", "Cos", "Exp", "Inf", "IsInf", "IsNaN", "Log", "Log10", "NaN", "Phase", "Polar", "Pow", "Rect", "Sin", "Sqrt", "Tan"],  # complex values
    "filepath": ["Abs", "Join"],             # depends on the working directory / variadic slice
    "os": ["Chdir", "Chown", "Clearenv", "Create", "CreateTemp", "Environ", "Executable", "ExpandEnv", "Getenv", "Hostname", "LookupEnv", "Open", "Remove", "RemoveAll", "Setenv", "TempDir"],  # process state
    "runtime": ["GC", "GOMAXPROCS", "NumCPU", "Version"],
    "strconv": ["FormatComplex", "FormatUint", "ParseComplex"],
    "strings": ["Join", "NewReader"],
    "time": ["FixedZone", "LoadLocation", "Now", "Parse", "Since", "Sleep", "Unix"],
}
STRS = ["", "a", "abc", "Hello, World", "  padded  ", "a,b,,c", "ÄÖü ß", "日本語", "chicken", "ken", ",", "x=1;y=2", "ABC abc", "éé", "0", "-12",
        "12x", "3.25", "true", "1e3", "0x1F", "TRUE", "nan", "+Inf", "a/b/../c", "/usr//lib/", "file.tar.gz", ".", "..", "%d", "tab\there", "ǅ", "ſ", "İ"]
SMALL = [-2, -1, 0, 1, 2, 3, 8, 10, 16, 36, 64]
BIG = [0, 1, -1, 255, 256, 65535, -32768, 2147483647, -2147483648, 2147483648, 9223372036854775807, -9223372036854775808, 1 << 53, 97, 233, 8364, 1114111]
FLTS = ["0", "-0", "1", "-1", "0.5", "2", "1e308", "-1e308", "5e-324", "1e-7", "3.141592653589793", "nan", "+inf", "-inf", "1.5", "2.5", "-2.5", "1e22",
        "123456789.125", "0.1"]


def ego_str(s):
    return '"' + s.replace("\t", "\\t") + '"'


def ego_flt(f):
    return {"nan": "math.NaN()", "+inf": "math.Inf(1)", "-inf": "math.Inf(-1)", "-0": "(0.0 * (-1.0))"}.get(
        f, f if any(c in f for c in ".e") and not f.startswith("-") else ("(%s)" % (f if any(c in f for c in ".e") else f + ".0")))


def roman(n):
    out = ""
    for v, s in [(1000, "M"), (900, "CM"), (500, "D"), (400, "CD"), (100, "C"), (90, "XC"), (50, "L"), (40, "XL"), (10, "X"), (9, "IX"), (5, "V"), (4, "IV"), (1, "I")]:
        while n >= v:
            out += s
            n -= v
    return out


def run(ck):
    quick = ck.tier == "quick"
    rng = ck.rng
    ck.cov["rule"] = ("every IsNative function of strings/strconv/math/filepath whose Go signature uses only string/int/int64/float64/bool/rune/byte "
                      "parameters and string/int/bool/float64/[]string/error results, called with arguments drawn from fixed pools (Unicode and empty "
                      "strings, small and boundary integers, NaN/Inf/-0/denormal floats) through a generated Ego program and directly; Roman numerals "
                      "1..3999; base64 and sort laws on random data. distinct_nontrivial = distinct (function, arguments) calls whose Go result is not a panic")
    ck.assume("the Go standard-library functions are correct (trusted)",
              "base64.StdEncoding decodes what it encodes; sort.Slice/SliceStable return an ordered permutation (Section hypotheses)")
    ck.trusted("harness/C11/c11_direct_test.go, harness/C11/c11_conv_test.go, props/C11.py", "the ego binary's fmt.Println, strconv.Quote, strconv.FormatFloat and strings.Join used to print results")
    ck.coq_stage(GROUP, theorems=THEOREMS)

    ok, bind = vf.go_test_build(ck.work, "internal/runtime", {"internal/runtime/zz_verif_c11_test.go": os.path.join(vf.HARNESS, "C11", "c11_direct_test.go")}, "c11d.test")
    if not ok:
        ck.violation("harness-build", "harness for internal/runtime does not build:\n" + bind[-1500:], replay={"log": bind[-3000:]}, found_input=False)
        return
    ok, binc = vf.go_test_build(ck.work, "internal/language/bytecode", {"internal/language/bytecode/zz_verif_c11_test.go": os.path.join(vf.HARNESS, "C11", "c11_conv_test.go")}, "c11c.test")
    if not ok:
        ck.violation("harness-build", "harness for bytecode does not build:\n" + binc[-1500:], replay={"log": binc[-3000:]}, found_input=False)
        return
    ok, ego = vf.build_ego()
    if not ok:
        ck.violation("ego-build", "ego does not build:\n" + ego[-1500:], replay={"log": ego[-3000:]}, found_input=False)
        return

    ck.notes.append("t_builds=%.1fs" % (time.time() - ck.t0))
    # ------------------------------------------------------------------ translator: list of mirrored functions
    inp, outp = os.path.join(ck.work, "l.txt"), os.path.join(ck.work, "lo.txt")
    open(inp, "w").write("L\n")
    rc, log = vf.run_bin(bind, "^TestVerifC11Direct$", {"VERIF_IN": inp, "VERIF_OUT": outp})
    if rc != 0:
        ck.violation("harness-run", "harness failed:\n" + log[-1500:], replay={"log": log[-3000:]}, found_input=False)
        return
    funcs, uncovered = [], []
    for l in open(outp):
        f = l.split()
        if len(f) < 6 or f[0] != "F":
            continue
        p, n = f[1], f[2]
        ins = [x for x in f[3].strip("()").split(",") if x]
        outs = [x for x in f[4].strip("()").split(",") if x]
        cov = p in COVERED_PKGS and all(x in OKIN for x in ins) and all(x in OKOUT for x in outs) and outs and f[5] == "false"
        if n in EXEMPT.get(p, []):
            continue
        if cov:
            funcs.append((p, n, ins, outs))
        else:
            uncovered.append("%s.%s%s%s" % (p, n, f[3], f[4]))
    ck.add_obligations(len(funcs) + len(uncovered), len(funcs))
    for u in uncovered:
        ck.violation("uncovered-mirrored-function", "mirrored (IsNative) function %s is neither covered by the differential generator nor listed as exempt" % u,
                     replay={"function": u}, found_input=False)

    # ------------------------------------------------------------------ translator: which Go sort function each sort wrapper reaches
    inp, outp = os.path.join(ck.work, "t.txt"), os.path.join(ck.work, "to.txt")
    open(inp, "w").write("T %s\n" % os.path.join(vf.REPO, "internal/runtime/sort"))
    rc, log = vf.run_bin(bind, "^TestVerifC11Direct$", {"VERIF_IN": inp, "VERIF_OUT": outp})
    wrappers, reach = {}, {}
    for l in open(outp):
        f = l.split()
        if len(f) == 3 and f[0] == "W":
            wrappers[f[1]] = f[2]
        elif len(f) == 3 and f[0] == "T":
            reach[f[1]] = [] if f[2] == "-" else f[2].split(",")
    GOFN = {"Slice": "GoSlice", "SliceStable": "GoSliceStable", "Stable": "GoStable", "Sort": "GoSort", "Ints": "GoInts", "Strings": "GoStrings",
            "Float64s": "GoFloat64s", "Search": "GoSearch"}
    sort_table = [(n, reach.get(w, None)) for n, w in sorted(wrappers.items())]
    table_broken = None
    if rc != 0 or not wrappers or any(r is None for _, r in sort_table) or "SliceStable" not in wrappers or "Stable" not in wrappers:
        table_broken = "the sort package table / wrapper functions could not be read from internal/runtime/sort (go/ast): %s" % (log[-300:] if rc else sort_table)
    elif not getattr(ck, "coq_broken", None):
        rows = "; ".join("(%s, [%s])" % (vf.vN(n.encode()), "; ".join(GOFN.get(x, "GoOther") for x in r)) for n, r in sort_table)
        okc, rr = vf.coq_eval(GROUP, ck.work, "sorttable", "From RtConv Require Import Model.\nDefinition tbl : list (str * list gosortfn) := [%s]." % rows,
                              {"OK": "[if table_ok tbl && has_row name_SliceStable tbl && has_row name_Stable tbl then 1%nat else 0%nat]"})
        ck.add_obligations(1, 1 if okc and rr["OK"] == [1] else 0)
        if not okc or rr["OK"] != [1]:
            bad = [(n, r) for n, r in sort_table if n in ("SliceStable", "Stable") and (not r or any(x not in ("SliceStable", "Stable") for x in r))]
            table_broken = "generated obligation table_ok fails: the wrapper of a stable sort entry reaches a Go sort function that is not stable: %s" % bad
    ck.cov.setdefault("input_distribution", {})
    sort_reach_note = {n: r for n, r in sort_table if r}

    # ------------------------------------------------------------------ generated calls
    calls = []
    per = 6 if quick else 40
    if ck.replay_file:
        import json
        rp = json.load(open(ck.replay_file))["replay"]
        if "call" in rp:
            c = rp["call"]
            calls.append((c[0], c[1], c[2], c[3], [tuple(a) for a in c[4]]))
    else:
        for p, n, ins, outs in funcs:
            hasstr = "string" in ins
            for _ in range(per):
                args = []
                for t in ins:
                    if t == "string":
                        args.append(("s", rng.choice(STRS)))
                    elif t in ("int", "int64"):
                        if n in ("ParseInt", "ParseUint", "ParseFloat", "FormatInt", "FormatFloat") and len(args) >= 1:
                            args.append(("i", str(rng.choice([0, 2, 8, 10, 16, 36, 32, 64, -1, 1, 37]))))
                        else:
                            args.append(("i", str(rng.choice(SMALL if hasstr else BIG))))
                    elif t == "int32":
                        args.append(("i", str(rng.choice([97, 65, 32, 233, 8364, 26085, 0, 10, 1114111, 55296, 128512]))))
                    elif t == "uint8":
                        args.append(("i", str(rng.choice([101, 102, 103, 69, 71, 98, 120, 97, 44, 0]))))
                    elif t == "float64":
                        args.append(("f", rng.choice(FLTS)))
                    elif t == "bool":
                        args.append(("b", rng.choice(["true", "false"])))
                calls.append((p, n, ins, outs, args))
    lines, prog = [], ['import "json"', 'import "strings"', 'import "strconv"', 'import "math"', 'import "fmt"', 'import "filepath"', 'import "sort"', 'import "base64"', "func main() {"]
    for i, (p, n, ins, outs, args) in enumerate(calls):
        lines.append("C %d %s %s %s" % (i, p, n, " ".join("%s:%s" % (t, v.encode().hex()) for t, v in args)))
        ea = []
        for t, v in args:
            ea.append(ego_str(v) if t == "s" else ego_flt(v) if t == "f" else v if t == "b" else ("(%s)" % v if v.startswith("-") else v))
        names = ["r%d" % k for k in range(len(outs))]
        canon = []
        for nm, t in zip(names, outs):
            if t == "string":
                canon.append("strconv.Quote(%s)" % nm)
            elif t == "float64":
                canon.append("strconv.FormatFloat(%s, 103, -1, 64)" % nm)
            elif t == "[]string":
                canon.append('strconv.Itoa(len(%s)) + ":" + strconv.Quote(strings.Join(%s, "|"))' % (nm, nm))
            elif t == "error":
                canon.append("errs(%s)" % nm)
            else:
                canon.append(nm)
        prog.append("  try { %s := %s.%s(%s); fmt.Println(\"#\", %d, %s) } catch (e) { fmt.Println(\"#\", %d, \"PANIC\") }" % (
            ", ".join(names), p, n, ", ".join(ea), i, ", ".join(canon), i))
    # Roman numerals, base64, sort on the real binary
    rn = 3999
    prog.append("  for i := 1; i <= %d; i = i + 1 { r, e := strconv.Itor(i); n, e2 := strconv.Rtoi(r); fmt.Println(\"R\", i, r, n, errs(e), errs(e2)) }" % rn)
    prog.append("  for _, i := range []int{0, -1, 4000, 100000} { r, e := strconv.Itor(i); fmt.Println(\"RX\", i, errs(e)) }")
    prog.append("  n3, e3 := strconv.Rtoi(\"  mcmxciv \"); fmt.Println(\"RL\", n3, errs(e3))")
    b64 = [rng.choice(STRS) + "".join(rng.choice("abcXYZ019 +/=éß日") for _ in range(rng.randint(0, 9))) for _ in range(12 if quick else 100)]
    for k, s in enumerate(b64):
        prog.append("  { d, e := base64.Decode(base64.Encode(%s)); fmt.Println(\"B\", %d, strconv.Quote(d), errs(e)) }" % (ego_str(s), k))
    # sort wrappers: every sorting entry of the package table, sizes around Go's insertion-sort threshold (12),
    # few distinct keys carrying distinguishable payloads (key*1000+seq, or a struct compared on one field)
    SIZES = [0, 1, 2, 12, 13, 50, 200]
    sorts = []          # (wrapper, values as given, key function name)

    def keyed(n, nkeys):
        return [rng.randrange(nkeys) * 1000 + i for i in range(n)]
    plan = []
    for n in SIZES:
        plan += [("Slice", n), ("SliceStable", n)]
    plan += [("SliceStable-struct", 13), ("SliceStable-struct", rng.choice([50, 200])), ("Slice-struct", rng.choice([13, 50]))]
    typed = ["Ints", "Strings", "Float64s", "Int32s", "Int64s", "Float32s", "Bytes", "Sort", "Stable", "Stable-strings"]
    for i, t in enumerate(typed):
        plan.append((t, SIZES[(i + rng.randrange(7)) % 7]))
        plan.append((t, rng.choice([13, 50, 200])))
    if not quick:
        for _ in range(60):
            plan.append((rng.choice(["Slice", "SliceStable", "SliceStable-struct"] + typed), rng.choice(SIZES + [rng.randint(3, 120)])))
    for k, (wr, n) in enumerate(plan):
        if wr in ("Slice", "SliceStable"):
            vals = keyed(n, rng.choice([1, 2, 4, 7]))
            sorts.append((wr, vals))
            prog.append("  try { a := []int{%s}; sort.%s(a, func(i, j int) bool { return a[i] / 1000 < a[j] / 1000 }); fmt.Println(\"S\", %d, a) } catch (e) { fmt.Println(\"S\", %d, \"FAILED\", e) }" % (
                ", ".join(map(str, vals)), wr, k, k))
        elif wr.endswith("-struct"):
            vals = keyed(n, rng.choice([2, 3, 5]))
            sorts.append((wr, vals))
            prog.append("  { a := []C11P{%s}; sort.%s(a, func(i, j int) bool { return a[i].k < a[j].k }); o := []int{}; "
                        "for _, p := range a { o = append(o, p.k * 1000 + p.s) }; fmt.Println(\"S\", %d, o) }" % (
                            ", ".join("C11P{k: %d, s: %d}" % (v // 1000, v % 1000) for v in vals), wr.split("-")[0], k))
            prog[-1] = "  try " + prog[-1].strip() + " catch (e) { fmt.Println(\"S\", %d, \"FAILED\", e) }" % k
        elif wr in ("Strings", "Stable-strings"):
            vals = [rng.choice(["b", "a", "", "ab", "B", "é", "a", "z", "zz"]) for _ in range(n)]
            sorts.append((wr, vals))
            prog.append("  { a := []string{%s}; sort.%s(a); fmt.Println(\"S\", %d, strconv.Quote(strings.Join(a, \"|\"))) }" % (
                ", ".join(ego_str(v) for v in vals), wr.split("-")[0], k))
            prog[-1] = "  try " + prog[-1].strip() + " catch (e) { fmt.Println(\"S\", %d, \"FAILED\", e) }" % k
        else:
            ty = {"Ints": "int", "Float64s": "float64", "Int32s": "int32", "Int64s": "int64", "Float32s": "float32", "Bytes": "byte", "Sort": "int", "Stable": "int"}[wr]
            if ty.startswith("float"):
                vals = [rng.choice([0.5, -1.5, 2.25, 0.0, 100.0, 2.25, -7.75]) for _ in range(n)]
                lit = ", ".join(repr(v) if v >= 0 else "(%r)" % v for v in vals)
            elif ty == "byte":
                vals = [rng.choice([0, 1, 7, 7, 200, 255, 128]) for _ in range(n)]
                lit = ", ".join(map(str, vals))
            else:
                vals = [rng.choice([0, 1, -1, 5, 5, 100, -100, 7, 2147483647, -2147483648]) for _ in range(n)]
                if wr == "Int32s" and n >= 2:
                    vals[rng.randrange(n)] = -2147483648      # regression: math.MinInt32 (fix 312faacd)
                lit = ", ".join(str(v) if v >= 0 else "(%d)" % v for v in vals)
            sorts.append((wr, vals))
            prog.append("  try { a := []%s{%s}; sort.%s(a); fmt.Println(\"S\", %d, a) } catch (e) { fmt.Println(\"S\", %d, \"FAILED\", e) }" % (ty, lit, wr, k, k))
    # JSON: Marshal / MarshalIndent / multi-argument Marshal byte-for-byte against Go's encoding/json on the same value,
    # Unmarshal + re-Marshal against Go's; strings are built from bytes at run time so that any byte sequence can be used
    import json as pyjson
    JSTR = [b"", b"plain", b"a<b", b"x>y", b"q&r", b"</script>", b"<&>", b'say "hi"', b"back\\slash", b"tab\tnl\n", b"\x00\x01\x1f\x7f",
            "\u2028\u2029".encode(), "h\u00e9llo \u65e5\u672c".encode(), "\U0001F600".encode(), b"\xff", b"a\xc3", b"\xed\xa0\x80", b"/slash/", b"&amp;", b"1 < 2 && 3 > 2"]
    JKEYS = ["a", "k<", "a&b", "z", "Name", "x>y", "id", "0"]
    JINTS = [0, 1, -1, 255, 2147483648, 9007199254740993, 9223372036854775807, -9223372036854775807, 1234567890123]
    JFLTS = ["1.5", "0.1", "1e21", "1e-7", "123456789.125", "1e20", "0.000001", "100.0", "-2.5"]

    def jval(d=0):
        k = rng.randrange(9 if d < 3 else 5)
        if k <= 1:
            return {"t": "s", "v": rng.choice(JSTR).hex()}
        if k == 2:
            return {"t": "i", "v": str(rng.choice(JINTS))}
        if k == 3:
            return {"t": "f", "v": rng.choice(JFLTS)}
        if k == 4:
            return rng.choice([{"t": "b", "v": True}, {"t": "b", "v": False}, {"t": "n"}, {"t": "s", "v": rng.choice(JSTR[2:7]).hex()}])
        if k in (5, 6):
            return {"t": "a", "v": [jval(d + 1) for _ in range(rng.randint(0, 4))]}
        return {"t": "m", "v": {key: jval(d + 1) for key in rng.sample(JKEYS, rng.randint(0, 4))}}

    def jego(v):
        t = v["t"]
        if t == "s":
            b = bytes.fromhex(v["v"])
            return '""' if not b else "string([]byte{%s})" % ", ".join(str(c) for c in b)
        if t == "i":
            return v["v"] if not v["v"].startswith("-") else "(%s)" % v["v"]
        if t == "f":
            return {"nan": "(0.0 / 0.0)", "+inf": "math.Inf(1)"}.get(v["v"], v["v"] if not v["v"].startswith("-") else "(%s)" % v["v"])
        if t == "b":
            return "true" if v["v"] else "false"
        if t == "n":
            return "nil"
        if t == "a":
            return "[]any{%s}" % ", ".join(jego(e) for e in v["v"])
        return "map[string]any{%s}" % ", ".join('"%s": %s' % (k, jego(e)) for k, e in v["v"].items())
    jcases = []       # (mode, description for the replay, go-side line payload)
    JBASE = 1000000
    fixedj = [{"t": "s", "v": b"a<b".hex()}, {"t": "m", "v": {"k<": {"t": "a", "v": [{"t": "s", "v": b"x>y & z".hex()}]}}}, {"t": "f", "v": "nan"},
              {"t": "a", "v": [{"t": "f", "v": "+inf"}]}, {"t": "s", "v": "\u2028".encode().hex()}, {"t": "s", "v": b"\xff\x00".hex()}]
    for v in fixedj + [jval() for _ in range(30 if quick else 300)]:
        k = len(jcases)
        jcases.append(("M", v))
        lines.append("J %d M %s" % (JBASE + k, pyjson.dumps(v).encode().hex()))
        prog.append("  try { b, e := json.Marshal(%s); fmt.Println(\"J\", %d, errs(e), b) } catch (x) { fmt.Println(\"J\", %d, \"PANIC\", x) }" % (jego(v), k, k))
    for _ in range(10 if quick else 80):
        v = jval(1) if rng.random() < 0.3 else {"t": rng.choice("am"), "v": None}
        if "v" in v and v["v"] is None:
            v = {"t": "a", "v": [jval(1) for _ in range(rng.randint(0, 3))]} if v["t"] == "a" else {"t": "m", "v": {key: jval(1) for key in rng.sample(JKEYS, rng.randint(0, 3))}}
        pre, ind = rng.choice(["", ">", "  "]), rng.choice(["  ", "\t", "", "--"])
        k = len(jcases)
        jcases.append(("I", [v, pre, ind]))
        lines.append("J %d I %s %s %s" % (JBASE + k, pyjson.dumps(v).encode().hex(), pre.encode().hex() or "-", ind.encode().hex() or "-"))
        prog.append("  try { b, e := json.MarshalIndent(%s, %s, %s); fmt.Println(\"J\", %d, errs(e), b) } catch (x) { fmt.Println(\"J\", %d, \"PANIC\", x) }" % (
            jego(v), ego_str(pre), ego_str(ind), k, k))
    for _ in range(6 if quick else 40):
        vs = [jval(1) for _ in range(rng.randint(2, 3))]
        v = {"t": "a", "v": vs}
        k = len(jcases)
        jcases.append(("M", v))
        lines.append("J %d M %s" % (JBASE + k, pyjson.dumps(v).encode().hex()))
        prog.append("  try { b, e := json.Marshal(%s); fmt.Println(\"J\", %d, errs(e), b) } catch (x) { fmt.Println(\"J\", %d, \"PANIC\", x) }" % (", ".join(jego(e) for e in vs), k, k))

    def plain(v):
        t = v["t"]
        if t == "s":
            return bytes.fromhex(v["v"]).decode("utf8", "replace")
        if t == "i":
            return int(v["v"])
        if t == "f":
            return float(v["v"]) if v["v"] not in ("nan", "+inf") else 0.5
        if t in ("b",):
            return v["v"]
        if t == "n":
            return None
        if t == "a":
            return [plain(e) for e in v["v"]]
        return {k2: plain(e) for k2, e in v["v"].items()}
    utexts = ['{"a": 12345678901234567890, "b": [1.0, 2, "<"], "c": {"d": null, "e": 1e400}}', '{"a": 1234567890123, "b": [1.0, 2, "<&>"], "c": {"d": null, "e": -1e-7}}',
              '[1, "x", [true], {"k": 2}]', '{"s": "a\\u2028\\ud800<", "t": "\\u003c\\/"}', "{bad", '{"a":1,"a":2}', ' { "w" : [ ] } ', '[1e2, 1E+2, -0, 0.10]', '{"n": 9007199254740993}', "[", '{"a": tru}', '[]', '{}']
    for _ in range(12 if quick else 100):
        v = {"t": "m", "v": {key: jval(1) for key in rng.sample(JKEYS, rng.randint(0, 4))}} if rng.random() < 0.6 else {"t": "a", "v": [jval(1) for _ in range(rng.randint(0, 4))]}
        utexts.append(pyjson.dumps(plain(v), ensure_ascii=rng.random() < 0.5))
    for txt in utexts:
        k = len(jcases)
        tb = txt.encode()
        jcases.append(("U", txt))
        lines.append("J %d U %s" % (JBASE + k, tb.hex()))
        model = "map[string]interface{}{}" if txt.lstrip().startswith("{") else "[]interface{}{}"
        prog.append("  try { m := %s; e := json.Unmarshal(string([]byte{%s}), &m); b, e2 := json.Marshal(m); if e != nil { fmt.Println(\"J\", %d, \"error\", b) } else { fmt.Println(\"J\", %d, errs(e2), b) } } "
                    "catch (x) { fmt.Println(\"J\", %d, \"PANIC\", x) }" % (model, ", ".join(str(c) for c in tb), k, k, k))
    prog.append("}")
    prog.append('func errs(e error) string { if e != nil { return "error" }; return "noerr" }')
    prog.insert(prog.index("func main() {"), "type C11P struct { k int; s int }")
    src = os.path.join(ck.work, "c11.ego")
    open(src, "w").write("\n".join(prog) + "\n")
    rc, eout = vf.sh([ego, "--set", "ego.compiler.extensions=true", "run", src], env=vf.ego_env(ck.work), timeout=900)
    ck.notes.append("t_ego_run=%.1fs" % (time.time() - ck.t0))
    egores, R, RX, RL, B, S = {}, {}, {}, None, {}, {}
    Jego = {}
    for l in eout.split("\n"):
        f = l.split(" ", 2)
        if l.startswith("# ") and len(f) == 3:
            egores[int(f[1])] = f[2].strip()
        elif l.startswith("R "):
            g = l.split()
            R[int(g[1])] = g[2:]
        elif l.startswith("RX "):
            g = l.split()
            RX[int(g[1])] = g[2]
        elif l.startswith("RL "):
            RL = l.split()[1:]
        elif l.startswith("B "):
            B[int(f[1])] = f[2].strip()
        elif l.startswith("S "):
            S[int(f[1])] = f[2].strip()
        elif l.startswith("J ") and len(f) == 3:
            Jego[int(f[1])] = f[2].strip()
    if rc != 0 and len(egores) < len(calls):
        ck.notes.append("ego run ended early (rc=%d): %s" % (rc, eout[-300:].replace("\n", " | ")))
    inp, outp = os.path.join(ck.work, "c.txt"), os.path.join(ck.work, "co.txt")
    open(inp, "w").write("\n".join(lines) + "\n")
    rc, log = vf.run_bin(bind, "^TestVerifC11Direct$", {"VERIF_IN": inp, "VERIF_OUT": outp})
    gores = {}
    for l in open(outp):
        f = l.rstrip("\n").split(" ", 1)
        if len(f) == 2 and f[0].isdigit():
            gores[int(f[0])] = f[1].strip()
    nontriv, found = set(), False
    missing = 0
    for i, (p, n, ins, outs, args) in enumerate(calls):
        g, e = gores.get(i), egores.get(i)
        if e is None:
            missing += 1
            continue
        if g == "NOGO":
            ck.violation("uncovered-mirrored-function", "mirrored function %s.%s has no entry in the harness's table of Go functions (c11go)" % (p, n),
                         replay={"function": "%s.%s" % (p, n)}, found_input=False)
            continue
        if g != "PANIC":
            nontriv.add((p, n, tuple(args)))
        if g != e:
            found = True
            ck.violation("wrapper-diverges:%s.%s" % (p, n), "%s.%s(%s): Go returns %s, the Ego wrapper returns %s" % (p, n, ", ".join(v for _, v in args), g, e),
                         replay={"call": [p, n, ins, outs, [list(a) for a in args]]})
    if missing:
        ck.violation("ego-run-incomplete", "the generated Ego program did not report %d of %d calls:\n%s" % (missing, len(calls), eout[-600:]),
                     replay={"log": eout[-3000:]}, found_input=False)
    if not ck.replay_file:
        for n in range(1, rn + 1):
            want = [roman(n), str(n), "noerr", "noerr"]
            if R.get(n) != want:
                found = True
                ck.violation("roman-roundtrip", "strconv.Itor(%d)/Rtoi gives %s, want %s" % (n, R.get(n), want), replay={"n": n})
                break
        for n in (0, -1, 4000, 100000):
            if RX.get(n) != "error":
                found = True
                ck.violation("roman-range", "strconv.Itor(%d) outside 1..3999 must fail, got %s" % (n, RX.get(n)), replay={"n": n})
        if RL != ["1994", "noerr"]:
            found = True
            ck.violation("roman-parse", "strconv.Rtoi('  mcmxciv ') = %s, want 1994" % RL, replay={"text": "  mcmxciv "})
        for k, s in enumerate(b64):
            import json as _j
            want = _go_quote(s) + " noerr"
            if B.get(k) != want:
                found = True
                ck.violation("base64-roundtrip", "base64.Decode(base64.Encode(%r)) = %s, want %s" % (s, B.get(k), want), replay={"text": s})
        for k, (wr, vals) in enumerate(sorts):
            got = S.get(k)
            bad = None
            if wr in ("Strings", "Stable-strings"):
                want = _go_quote("|".join(sorted(vals, key=lambda x: x.encode())))
                if got != want:
                    bad = "result %s, want %s" % (got, want)
            else:
                try:
                    out = [float(x) if "." in x or "e" in x else int(x) for x in re.findall(r"-?[0-9][0-9.e+-]*", got or "")]
                except ValueError:
                    out = None
                if got is None or out is None or "FAILED" in got:
                    bad = "the call failed or printed nothing (%r); Go sorts this input" % got
                else:
                    keyf = (lambda v: v // 1000) if wr.split("-")[0] in ("Slice", "SliceStable") else (lambda v: v)
                    if sorted(out) != sorted(vals):
                        bad = "result is not a permutation of the input: %r" % out[:20]
                    elif any(keyf(out[i]) > keyf(out[i + 1]) for i in range(len(out) - 1)):
                        bad = "result is not ordered: %r" % out[:20]
                    elif wr.startswith("SliceStable"):
                        # stability, computed here: elements with equal keys keep their input order
                        want = sorted(vals, key=keyf)          # Python's sort is stable
                        if out != want:
                            i = next(j for j in range(len(out)) if out[j] != want[j])
                            bad = "equal keys changed order at position %d (n=%d): got %r, input order gives %r" % (i, len(vals), out[max(0, i - 2):i + 3], want[max(0, i - 2):i + 3])
            if bad:
                found = True
                ck.violation("sort-law:" + wr.split("-")[0], "sort.%s on %d elements: %s" % (wr, len(vals), bad), replay={"wrapper": wr, "values": vals})
    json_bad = 0
    for k, (mode, desc) in enumerate(jcases):
        g, e = gores.get(JBASE + k), Jego.get(k)
        if g is None or e is None or g == "baddesc":
            json_bad += 1
            continue
        gofail = g == "err"
        egofail = e.startswith("error") or e.startswith("PANIC")
        what = None
        if gofail != egofail:
            what = "Go %s, Ego %s" % ("fails" if gofail else "succeeds", "fails" if egofail else "succeeds")
        elif not gofail:
            gb = bytes.fromhex(g.split()[1]) if len(g.split()) > 1 else b""
            eb = bytes(int(x) for x in re.findall(r"[0-9]+", e.split(" ", 1)[1] if " " in e else ""))
            if gb != eb:
                what = "Go gives %r, Ego gives %r" % (gb[:120], eb[:120])
        if what:
            found = True
            name = {"M": "Marshal", "I": "MarshalIndent", "U": "Unmarshal"}[mode]
            ck.violation("json-diverges:" + name, "json.%s on %s: %s" % (name, str(desc)[:200], what), replay={"json": [mode, desc]})
    if json_bad:
        ck.violation("json-run-incomplete", "%d of %d JSON cases were not reported by the harness or the Ego program:\n%s" % (json_bad, len(jcases), eout[-400:]),
                     replay={"log": eout[-2000:]}, found_input=False)
    if table_broken:
        sort_found = any(v["signature"].startswith("sort-law") for v in ck.viol)
        if not sort_found:
            ck.violation("sort-table", table_broken, replay={"table": sort_table}, found_input=False)
    ck.cov["evaluations"] = len(calls) + rn + len(b64) + len(sorts) + len(jcases)
    ck.cov["distinct_nontrivial"] = len(nontriv)
    ck.cov["input_distribution"] = {"mirrored_functions_covered": len(funcs), "exempt": sum(len(v) for v in EXEMPT.values()), "calls": len(calls),
                                    "go_panics": sum(1 for v in gores.values() if v == "PANIC"), "roman": rn, "base64": len(b64), "sort": len(sorts), "json": len(jcases),
                                    "sort_sizes": sorted(set(len(v) for _, v in sorts)), "sort_wrapper_reaches": sort_reach_note}
    for i in list(range(len(calls)))[:4]:
        ck.sample({"call": "%s.%s(%s)" % (calls[i][0], calls[i][1], ", ".join(v for _, v in calls[i][4])), "go": gores.get(i), "ego": egores.get(i)})

    # ------------------------------------------------------------------ correspondence: conversion model vs real conversion code
    kinds = ["int", "int16", "uint16", "int32", "int64", "bool", "byte", "float32", "float64", "string", "uint32"]
    ck_kind = {"int": "KInt", "int16": "KInt16", "uint16": "KUInt16", "int32": "KInt32", "int64": "KInt64", "bool": "KBool", "byte": "KByte",
               "float32": "KFloat32", "float64": "KFloat64", "string": "KString", "uint32": "KUInt32"}
    rngs = {"int": (-2 ** 63, 2 ** 63 - 1), "int64": (-2 ** 63, 2 ** 63 - 1), "int16": (-32768, 32767), "uint16": (0, 65535), "int32": (-2 ** 31, 2 ** 31 - 1),
            "uint32": (0, 2 ** 32 - 1), "byte": (0, 255), "bool": (0, 1), "float32": (-1000, 1000), "float64": (-10 ** 9, 10 ** 9), "string": (0, 99)}
    acases = []
    for k in kinds:
        for _ in range(3 if quick else 20):
            lo, hi = rngs[k]
            acases.append((k, [rng.choice([lo, hi, rng.randint(lo, hi), 0 if lo <= 0 else lo]) for _ in range(rng.randint(0, 5))]))
    inp, outp = os.path.join(ck.work, "a.txt"), os.path.join(ck.work, "ao.txt")
    with open(inp, "w") as f:
        for k, vals in acases:
            f.write("A %s %s\n" % (k, " ".join(str(v) for v in vals)))
        for b in (-1, 0, 1, 2):
            f.write("G %d\n" % b)
    rc, log = vf.run_bin(binc, "^TestVerifC11Conv$", {"VERIF_IN": inp, "VERIF_OUT": outp})
    if rc != 0:
        ck.violation("harness-run", "conversion harness failed:\n" + log[-1500:], replay={"log": log[-3000:]}, found_input=False)
        return
    obs = [l.split() for l in open(outp)]
    aobs, gobs = [o for o in obs if o[0] == "A"], [o for o in obs if o[0] == "G"]
    for (k, vals), o in zip(acases, aobs):
        if o[1] == "ok" and o[3] != "true":
            found = True
            ck.violation("conv-roundtrip:" + k, "an Ego []%s %r does not survive makeNativeArrayArgument + convertFromNativeArray" % (k, vals), replay={"kind": k, "values": vals})
    for b, o in zip((-1, 0, 1, 2), gobs):
        if (o[1] == "err") != (b >= 0):
            found = True
            ck.violation("args-error", "convertToNative with an unconvertible argument at position %d returned %s" % (b, o[1]), replay={"bad_position": b})
    if getattr(ck, "coq_broken", None):
        if not found:
            grp, log = ck.coq_broken
            ck.violation("proof-broken", "Coq development %s no longer checks:\n%s" % (grp, log[-1200:]), replay={"broken": "coq/" + grp, "log": log[-3000:]}, found_input=False)
        return

    def vsv(k, v):
        if k == "bool":
            return "VBool %s" % ("true" if v else "false")
        if k == "string":
            return "VStr %s" % vf.vN(str(v).encode())
        if k in ("float32", "float64"):
            return "VFloat %s (%d)" % (ck_kind[k], v)
        return "VInt %s (%d)" % (ck_kind[k], v)
    pre = ["From RtConv Require Import Model.", "Open Scope Z_scope.",
           "Definition acases : list (ev * bool) := ["]
    pre.append(";\n".join("(EArray %s [%s], %s)" % (ck_kind[k], "; ".join(vsv(k, v) for v in vals), "true" if o[1] == "ok" else "false")
                          for (k, vals), o in zip(acases, aobs)))
    pre.append("].\nDefinition rcases : list (Z * str) := [")
    sample_r = sorted(set([1, 4, 9, 14, 40, 90, 400, 1994, 2024, 3888, 3999] + [rng.randint(1, 3999) for _ in range(60 if quick else 600)]))
    pre.append(";\n".join("(%d, %s)" % (n, vf.vN((R.get(n) or ["?"])[0].encode())) for n in sample_r))
    pre.append("""].
Definition abad (i : nat) (c : ev * bool) : list nat :=
  match to_native (fst c) with
  | Ok g => match from_native g with Ok v => if snd c then [] else [i] | Err => if snd c then [i] else [] end
  | Err => if snd c then [i] else []
  end.
Definition rbad (i : nat) (c : Z * str) : list nat :=
  match itor (fst c) with Some s => if str_eqb s (snd c) then (match rtoi s with Some m => if (Z.of_N m =? fst c) then [] else [i] | None => [i] end) else [i] | None => [i] end.
Fixpoint idx {A} (f : nat -> A -> list nat) (i : nat) (l : list A) : list nat :=
  match l with [] => [] | x :: r => f i x ++ idx f (S i) r end.
Definition gbad : list nat :=
  (match to_native_args true [KInt64; KInt; KFloat64] [VStr [97%N]; VInt KInt 7; VFloat KFloat64 1] with Err => [] | Ok _ => [0%nat] end) ++
  (match to_native_args true [KInt64; KInt; KFloat64] [VInt KInt64 5; VInt KInt 7; VFloat KFloat64 1] with Ok _ => [] | Err => [1%nat] end).
""")
    ok, r = vf.coq_eval(GROUP, ck.work, "cases", "\n".join(pre), {"AB": "idx abad 0 acases", "RB": "idx rbad 0 rcases", "GB": "gbad"})
    if not ok:
        ck.violation("correspondence-eval", "model evaluation failed:\n" + r[-1500:], replay={"log": r[-3000:]}, found_input=False)
        return
    ck.notes.append("t_coq_eval=%.1fs" % (time.time() - ck.t0))
    ck.cov["traces_validated_against_impl"] = len(acases) + len(sample_r) + 4
    if not found:
        for i in r["AB"]:
            ck.violation("corr-conv", "model/implementation disagree on the array conversion of []%s %r (real: %s)" % (acases[i][0], acases[i][1], " ".join(aobs[i][1:])),
                         replay={"kind": acases[i][0], "values": acases[i][1]}, found_input=False)
        for i in r["RB"]:
            ck.violation("corr-roman", "model/implementation disagree on Itor/Rtoi(%d): real %s" % (sample_r[i], R.get(sample_r[i])), replay={"n": sample_r[i]}, found_input=False)
        gmodel_fixed = not r["GB"]
        greal_fixed = all((o[1] == "err") == (b >= 0) for b, o in zip((-1, 0, 1, 2), gobs))
        if gmodel_fixed != greal_fixed:
            ck.violation("corr-args", "model/implementation disagree on argument-error propagation", replay={"real": gobs}, found_input=False)


def _go_quote(s):
    out = '"'
    for ch in s:
        if ch == '"':
            out += '\\"'
        elif ch == "\\":
            out += "\\\\"
        elif ch == "\t":
            out += "\\t"
        elif ch == "\n":
            out += "\\n"
        else:
            out += ch
    return out + '"'


def _num(v):
    if isinstance(v, float):
        if v == int(v):
            return str(int(v))
        return repr(v)
    return str(v)
