(* Common/Base.v — shared definitions: strings as lists of code points / bytes,
   decimal printing and reading, with the round-trip lemma used by several groups. *)
From Coq Require Export List NArith ZArith Lia Bool.
From Coq Require Import ZifyBool ZifyN ZifyNat.
Export ListNotations.
Open Scope N_scope.

Definition str := list N.

Definition is_digit (c : N) : bool := (48 <=? c) && (c <=? 57).

(* big-endian decimal digits; fuel = number of bits of n, enough because n/10 <= n/2 *)
Fixpoint digits_fuel (fuel : nat) (n : N) : str :=
  match fuel with
  | O => [48 + n mod 10]
  | S f => if n <? 10 then [48 + n] else digits_fuel f (n / 10) ++ [48 + n mod 10]
  end.
Definition digits (n : N) : str := digits_fuel (N.size_nat n) n.

(* value of a digit string, no validation *)
Definition dec_val (s : str) : N := fold_left (fun a c => 10 * a + (c - 48)) s 0.
Definition all_digits (s : str) : bool := forallb is_digit s.

Lemma dec_val_app a s c : fold_left (fun a c => 10 * a + (c - 48)) (s ++ [c]) a
                          = 10 * fold_left (fun a c => 10 * a + (c - 48)) s a + (c - 48).
Proof. rewrite fold_left_app. reflexivity. Qed.

Lemma digits_fuel_val : forall f n, n < 2 ^ N.of_nat f -> dec_val (digits_fuel f n) = n.
Proof.
  induction f as [|f IH]; intros n Hn.
  - assert (n = 0) by (cbn in Hn; lia). subst. reflexivity.
  - cbn [digits_fuel]. destruct (N.ltb_spec n 10) as [Hlt|Hge].
    + unfold dec_val. cbn [fold_left]. lia.
    + unfold dec_val. rewrite dec_val_app. fold (dec_val (digits_fuel f (n / 10))).
      rewrite IH.
      * pose proof (N.div_mod n 10). pose proof (N.mod_lt n 10). lia.
      * rewrite Nat2N.inj_succ, N.pow_succ_r' in Hn.
        apply N.div_lt_upper_bound; lia.
Qed.

Lemma size_nat_bound n : n < 2 ^ N.of_nat (N.size_nat n).
Proof.
  destruct n as [|p]; [cbn; lia|].
  cbn [N.size_nat]. induction p as [p IH|p IH|]; cbn [Pos.size_nat].
  - rewrite Nat2N.inj_succ, N.pow_succ_r'. lia.
  - rewrite Nat2N.inj_succ, N.pow_succ_r'. lia.
  - cbn. lia.
Qed.

Lemma digits_val n : dec_val (digits n) = n.
Proof. apply digits_fuel_val, size_nat_bound. Qed.

Lemma digits_fuel_all_digits : forall f n, all_digits (digits_fuel f n) = true.
Proof.
  induction f as [|f IH]; intros n; cbn [digits_fuel].
  - unfold all_digits, is_digit. cbn [forallb]. pose proof (N.mod_lt n 10). lia.
  - destruct (N.ltb_spec n 10).
    + unfold all_digits, is_digit. cbn [forallb]. lia.
    + unfold all_digits. rewrite forallb_app. fold (all_digits (digits_fuel f (n/10))).
      rewrite IH. unfold is_digit. cbn [forallb]. pose proof (N.mod_lt n 10). lia.
Qed.

Lemma digits_all_digits n : all_digits (digits n) = true.
Proof. apply digits_fuel_all_digits. Qed.

Lemma digits_fuel_nonempty f n : digits_fuel f n <> [].
Proof. destruct f; cbn [digits_fuel]; [discriminate|]. destruct (n <? 10); [discriminate|].
       destruct (digits_fuel f (n/10)); discriminate. Qed.

Lemma digits_nonempty n : digits n <> [].
Proof. apply digits_fuel_nonempty. Qed.

(* equality on strings *)
Fixpoint str_eqb (a b : str) : bool :=
  match a, b with
  | [], [] => true
  | x :: a', y :: b' => (x =? y) && str_eqb a' b'
  | _, _ => false
  end.
Lemma str_eqb_eq a b : str_eqb a b = true <-> a = b.
Proof.
  revert b; induction a as [|x a IH]; destruct b as [|y b]; cbn; split; try easy.
  - intros H. apply andb_true_iff in H as [H1 H2]. apply N.eqb_eq in H1. apply IH in H2. congruence.
  - intros H. inversion H; subst. rewrite N.eqb_refl. cbn. apply IH. reflexivity.
Qed.
