(* VM/Proofs.v — lemmas about the MiniEgo VM model (try/catch, defer, panic/recover). *)
From Coq Require Import ZArith NArith List Bool Lia.
Import ListNotations.
From VM Require Import Model.
Open Scope nat_scope.

(* ------------------------------------------------------------------ stack shape between two instructions *)
(* frame pointer that the Go code keeps for a stack: position just above the topmost call frame *)
Fixpoint fp_of (st : list item) : nat :=
  match st with [] => 0 | ItF _ :: _ => length st | _ :: r => fp_of r end.

(* every call frame on the stack saved the frame pointer of the stack below it *)
Fixpoint wf_stack (st : list item) : Prop :=
  match st with
  | [] => True
  | ItF fr :: r => f_fp fr = fp_of r /\ wf_stack r
  | _ :: r => wf_stack r
  end.

Definition no_try_marker (x : item) : Prop := x <> ItM L_try.

(* context restored by callFramePop from frame fr, the stack below the frame being rest *)
Definition restore (c : ctx) (fr : frame) (rest : list item) : ctx :=
  {| c_code := f_code fr; c_pc := f_pc fr; c_stack := rest; c_fp := f_fp fr; c_syms := f_syms fr;
     c_trys := if Nat.ltb (f_trydepth fr) (length (c_trys c)) then trunc (f_trydepth fr) (c_trys c) else c_trys c;
     c_defers := f_defers fr; c_running := c_running c; c_panic := c_panic c;
     c_result := c_result c; c_dsyms := c_dsyms c; c_debug := c_debug c |}.

Lemma trunc_all : forall A (l : list A), trunc (length l) l = l.
Proof. intros. unfold trunc. rewrite Nat.sub_diag. reflexivity. Qed.

Lemma frame_pop_top : forall c fr rest,
  c_stack c = ItF fr :: rest -> c_fp c = S (length rest) -> c_result c = None ->
  frame_pop c = (restore c fr rest, None).
Proof.
  intros c fr rest Hs Hfp Hr. unfold frame_pop. rewrite Hs, Hfp.
  replace (S (length rest)) with (length (ItF fr :: rest)) by reflexivity.
  rewrite trunc_all. rewrite Nat.sub_diag. cbn [firstn]. unfold restore. rewrite Hr. reflexivity.
Qed.

(* what the unwinding loop of handleCatch leaves: the context owning the stack below the topmost try marker,
   every call frame met on the way popped formally *)
Fixpoint after_frames (c : ctx) (st : list item) : ctx :=
  match st with
  | [] => set_stack c []
  | ItF fr :: r => after_frames (restore c fr r) r
  | ItM l :: r => if N.eqb l L_try then set_stack c r else after_frames c r
  | ItV _ :: r => after_frames c r
  end.

Lemma after_frames_set_stack : forall st c s, after_frames (set_stack c s) st = after_frames c st.
Proof.
  induction st as [|x r IH]; intros c s; cbn; [reflexivity|].
  destruct x as [v|l|fr]; auto. destruct (N.eqb l L_try); auto.
Qed.

Lemma after_frames_stack : forall above below c,
  Forall no_try_marker above -> c_stack (after_frames c (above ++ ItM L_try :: below)) = below.
Proof.
  induction above as [|x r IH]; intros below c Hnt; cbn.
  - reflexivity.
  - inversion Hnt as [|? ? Hx Hr]; subst. destruct x as [v|l|fr]; auto.
    destruct (N.eqb l L_try) eqn:El; auto. apply N.eqb_eq in El. subst. exfalso. apply Hx. reflexivity.
Qed.

Lemma unwind_to_try_spec : forall above below c fuel,
  c_stack c = above ++ ItM L_try :: below ->
  Forall no_try_marker above ->
  wf_stack (c_stack c) -> c_fp c = fp_of (c_stack c) -> c_result c = None ->
  length above < fuel ->
  unwind_to_try fuel c = (after_frames c (c_stack c), None).
Proof.
  induction above as [|x r IH]; intros below c fuel Hs Hnt Hwf Hfp Hres Hfuel.
  - destruct fuel; [cbn in Hfuel; lia|]. cbn in Hs. cbn [unwind_to_try]. rewrite Hs.
    cbn [after_frames]. rewrite N.eqb_refl. reflexivity.
  - destruct fuel; [cbn in Hfuel; lia|]. cbn in Hfuel.
    inversion Hnt as [|? ? Hx Hr]; subst.
    cbn [unwind_to_try]. rewrite Hs. cbn [app].
    destruct x as [v|l|fr].
    + cbn [after_frames]. rewrite Hs in Hwf, Hfp. cbn in Hwf, Hfp.
      rewrite (IH below (set_stack c (r ++ ItM L_try :: below)) fuel); auto; try lia.
      cbn [set_stack c_stack]. rewrite after_frames_set_stack. reflexivity.
    + cbn [after_frames]. destruct (N.eqb l L_try) eqn:El.
      * apply N.eqb_eq in El. subst l. exfalso. apply Hx. reflexivity.
      * rewrite Hs in Hwf, Hfp. cbn in Hwf, Hfp.
        rewrite (IH below (set_stack c (r ++ ItM L_try :: below)) fuel); auto; try lia.
        cbn [set_stack c_stack]. rewrite after_frames_set_stack. reflexivity.
    + rewrite Hs in Hwf, Hfp. cbn in Hwf, Hfp. destruct Hwf as [Hf Hwf].
      assert (Hpop : frame_pop (set_stack c (ItF fr :: r ++ ItM L_try :: below))
                     = (restore c fr (r ++ ItM L_try :: below), None)).
      { rewrite (frame_pop_top _ fr (r ++ ItM L_try :: below)); auto. }
      rewrite Hpop. cbn [after_frames].
      rewrite (IH below (restore c fr (r ++ ItM L_try :: below)) fuel); auto; try lia.
Qed.

Lemma find_live_nth : forall trys k, find_live trys = Some k -> nth k trys 0 <> 0 /\ k < length trys.
Proof.
  induction trys as [|a r IH]; intros k H; cbn in H; [discriminate|].
  destruct (Nat.eqb a 0) eqn:E.
  - destruct (find_live r) as [j|] eqn:F; cbn in H; [|discriminate]. injection H as <-.
    destruct (IH j eq_refl). cbn. split; [assumption|lia].
  - injection H as <-. cbn. apply Nat.eqb_neq in E. split; [assumption|lia].
Qed.

Lemma find_live_spent : forall r, find_live (0 :: r) <> Some 0.
Proof. intros r. cbn. destruct (find_live r); cbn; discriminate. Qed.

(* the hypotheses that hold between two instructions of a running context *)
Record between_instructions (c : ctx) : Prop := {
  bi_running : c_running c = true;
  bi_wf : wf_stack (c_stack c);
  bi_fp : c_fp c = fp_of (c_stack c);
  bi_result : c_result c = None }.

Theorem catch_once : forall c e k above below,
  between_instructions c -> catchable e = true ->
  find_live (c_trys c) = Some k ->
  c_stack c = above ++ ItM L_try :: below -> Forall no_try_marker above ->
  exists c',
    handle_catch c (Some e) = (c', None) /\
    c_pc c' = nth k (c_trys c) 0 /\ c_pc c' <> 0 /\
    c_trys c' = 0 :: skipn (S k) (c_trys c) /\
    find_live (c_trys c') <> Some 0 /\
    c_stack c' = below /\
    c_code c' = c_code (after_frames c (c_stack c)) /\
    c_fp c' = c_fp (after_frames c (c_stack c)) /\
    c_defers c' = c_defers (after_frames c (c_stack c)).
Proof.
  intros c e k above below [Hrun Hwf Hfp Hres] Hc Hk Hs Hnt.
  destruct (find_live_nth _ _ Hk) as [Hnz Hlt].
  pose proof (unwind_to_try_spec above below c (S (length (c_stack c))) Hs Hnt Hwf Hfp Hres) as Hu.
  assert (Hl : length above < S (length (c_stack c))).
  { rewrite Hs, app_length. cbn. lia. }
  specialize (Hu Hl).
  eexists. split.
  - unfold handle_catch, handle_catch_gen. destruct e; try discriminate Hc; cbn [andb]; rewrite Hrun; cbn [negb]; rewrite Hk, Hu; reflexivity.
  - cbn. rewrite Hs at 1. rewrite (after_frames_stack above below c Hnt). repeat split; auto. apply find_live_spent.
Qed.

Theorem uncaught_returns : forall c e,
  catchable e = true -> find_live (c_trys c) = None -> handle_catch c (Some e) = (c, Some e).
Proof.
  intros c e Hc Hn. unfold handle_catch, handle_catch_gen. destruct e; try discriminate Hc; cbn [andb];
  destruct (negb (c_running c)); auto; rewrite Hn; reflexivity.
Qed.

Theorem uncaught_stops : forall fuel p g c i g1 c1 e,
  c_running c = true -> nth_error (code_of p (c_code c)) (c_pc c) = Some i ->
  (forall child, exec child p g (set_pc c (S (c_pc c))) i = (g1, c1, Some e)) ->
  catchable e = true -> find_live (c_trys c1) = None ->
  run (S fuel) p g c = (g1, c1, Finished (Some e)).
Proof.
  intros fuel p g c i g1 c1 e Hrun Hi Hex Hc Hn.
  cbn [run]. rewrite Hrun. cbn [negb]. rewrite Hi. unfold step. rewrite Hex.
  rewrite (uncaught_returns c1 e Hc Hn).
  destruct e; try discriminate Hc; reflexivity.
Qed.

(* ------------------------------------------------------------------ deferred calls *)
Section Defers.
  Variable child : glob -> ctx -> glob * option err.
  Definition child_ok : Prop := forall g c, snd (child g c) = None \/ snd (child g c) = Some EStop.

  (* one deferred call started from context c (not panicking): fresh context, panic chain cut, the shared
     state handed on *)
  Definition one_call (c : ctx) (g : glob) (d : dfr) : glob :=
    set_anc (fst (child (set_anc g []) (child_ctx c d))) (g_anc g).

  (* every deferred call of the list is started, whatever the others return *)
  Lemma invoke_list_all : forall c l g,
    exists e, invoke_list child false g c l = (fold_left (one_call c) l g, c, e).
  Proof.
    intros c l. induction l as [|d r IH]; intros g; cbn [invoke_list fold_left]; [eexists; reflexivity|].
    unfold one_call at 2. destruct (child (set_anc g []) (child_ctx c d)) as [g1 e] eqn:E. cbn [fst].
    destruct (IH (set_anc g1 (g_anc g))) as [e3 H3]. rewrite H3. eexists. reflexivity.
  Qed.

  Lemma invoke_list_ok : forall c l g, child_ok ->
    invoke_list child false g c l = (fold_left (one_call c) l g, c, None).
  Proof.
    intros c l. induction l as [|d r IH]; intros g Hok; cbn [invoke_list fold_left]; [reflexivity|].
    unfold one_call at 2. destruct (child (set_anc g []) (child_ctx c d)) as [g1 e] eqn:E.
    pose proof (Hok (set_anc g []) (child_ctx c d)) as H1. rewrite E in H1. cbn in H1. cbn [fst].
    rewrite (IH _ Hok). destruct H1 as [-> | ->]; reflexivity.
  Qed.

  (* the RunDefers instruction (repaired code): the deferred calls of the frame are ALL started, in the reverse
     of their registration order, each once, whatever any of them returns, and the list is spent *)
  Theorem run_defers_rev_once : forall g c,
    exists e, run_defers_op child g c = (fold_left (one_call c) (rev (c_defers c)) g, set_defers c [], e).
  Proof.
    intros g c. unfold run_defers_op, invoke_deferred.
    destruct (c_defers c) as [|d r] eqn:E.
    - cbn. exists None. destruct c; cbn in *; subst; reflexivity.
    - destruct (invoke_list_all c (rev (d :: r)) g) as [e H]. rewrite H. eexists. reflexivity.
  Qed.

  Theorem run_defers_rev_once_ok : forall g c, child_ok ->
    run_defers_op child g c = (fold_left (one_call c) (rev (c_defers c)) g, set_defers c [], None).
  Proof.
    intros g c Hok. unfold run_defers_op, invoke_deferred.
    destruct (c_defers c) as [|d r] eqn:E.
    - cbn. destruct c; cbn in *; subst; reflexivity.
    - rewrite invoke_list_ok by exact Hok. reflexivity.
  Qed.

  (* whatever the deferred calls do (errors included) the list is spent: a second RunDefers starts nothing *)
  Lemma invoke_list_defers : forall pk l g c g1 c1 e,
    invoke_list child pk g c l = (g1, c1, e) -> c_defers c1 = c_defers c.
  Proof.
    intros pk l. induction l as [|d r IH]; intros g c g1 c1 e H; cbn [invoke_list] in H.
    - injection H as <- <- <-. reflexivity.
    - destruct (child _ _) as [g2 e2].
      destruct (invoke_list child pk _ _ r) as [[g3 c3] e3] eqn:E3. injection H as <- <- <-.
      apply IH in E3. rewrite E3. destruct pk; reflexivity.
  Qed.

  Theorem run_defers_spent : forall g c g1 c1 e,
    run_defers_op child g c = (g1, c1, e) -> c_defers c1 = [] /\ run_defers_op child g1 c1 = (g1, c1, None).
  Proof.
    intros g c g1 c1 e H. unfold run_defers_op in H.
    destruct (c_defers c) as [|d r] eqn:E.
    - injection H as <- <- <-. split; [assumption|]. unfold run_defers_op. rewrite E. reflexivity.
    - destruct (invoke_deferred child g c) as [[g2 c2] e2]. injection H as <- <- <-.
      split; [reflexivity|]. unfold run_defers_op. reflexivity.
  Qed.

  (* the code before the repair: after RunDefers the same deferred calls were still registered, so a second
     RunDefers in the same frame (reached after a caught error in a return expression) ran them again *)
  Theorem run_defers_old_twice : forall g c d, child_ok -> c_defers c = [d] ->
    exists g1 c1, run_defers_op_old child g c = (g1, c1, None) /\ c_defers c1 = [d] /\
                  run_defers_op_old child g1 c1 = (one_call c1 g1 d, c1, None).
  Proof.
    intros g c d Hok Hd. unfold run_defers_op_old, invoke_deferred. rewrite Hd. cbn [rev app].
    rewrite invoke_list_ok by exact Hok. do 2 eexists. split; [reflexivity|]. split; [exact Hd|].
    rewrite Hd. cbn [rev app]. rewrite invoke_list_ok by exact Hok. reflexivity.
  Qed.

  (* ---------------------------------------------------------------- panic unwinding *)
  (* one deferred call started while the context is panicking: the child can reach the panic state *)
  Definition one_panic_call (st : glob * ctx) (d : dfr) : glob * ctx :=
    let '(g, c) := st in
    let g1 := fst (child (set_anc g (c_panic c :: g_anc g)) (child_ctx c d)) in
    (set_anc g1 (tl (g_anc g1)), set_panic c (hd None (g_anc g1))).

  Lemma invoke_panic_list_all : forall l g c,
    exists e, invoke_list child true g c l = (fold_left one_panic_call l (g, c), e).
  Proof.
    induction l as [|d r IH]; intros g c; cbn [invoke_list fold_left]; [eexists; reflexivity|].
    unfold one_panic_call at 2. destruct (child _ _) as [g1 e] eqn:E. cbn [fst].
    destruct (IH (set_anc g1 (tl (g_anc g1))) (set_panic c (hd None (g_anc g1)))) as [e3 H3].
    destruct (fold_left one_panic_call r _) as [gf cf] eqn:F. rewrite H3. eexists. reflexivity.
  Qed.

  (* a frame whose deferred calls recovered the panic: execution resumes in the caller *)
  Theorem recover_resumes_caller : forall p fuel g c g1 c1 fr rest,
    invoke_panic_defers child g c = (g1, c1, None) -> c_defers c <> [] ->
    c_panic c1 = None ->
    trunc (c_fp c1) (c_stack c1) = ItF fr :: rest -> c_fp c1 = S (length rest) ->
    exists v, unwind_panic child p (S fuel) g c = (g1, v, None) /\
      c_code v = f_code fr /\ c_pc v = f_pc fr /\ c_fp v = f_fp fr /\ c_syms v = f_syms fr /\
      c_defers v = f_defers fr /\ c_panic v = None /\ c_running v = c_running c1 /\
      (c_stack v = rest \/ exists r, c_stack v = ItV r :: rest).
  Proof.
    intros p fuel g c g1 c1 fr rest Hinv Hne Hp Htr Hfp.
    cbn [unwind_panic]. destruct (c_defers c) as [|d0 r0] eqn:Ed; [congruence|].
    rewrite Hinv. rewrite Hp.
    assert (Hnz : Nat.eqb (c_fp (set_defers c1 [])) 0 = false).
    { cbn. rewrite Hfp. reflexivity. }
    rewrite Hnz. cbn [set_defers c_fp c_stack set_stack c_code].
    rewrite Htr.
    match goal with |- context [if ?b then _ else _] => destruct b end.
    - unfold frame_pop. cbn [set_result set_stack set_defers c_stack c_fp c_result c_trys c_code c_pc c_syms c_defers c_running c_panic c_dsyms c_debug].
      rewrite Hfp. replace (S (length rest)) with (length (ItF fr :: rest)) by reflexivity.
      rewrite trunc_all, Nat.sub_diag. cbn [firstn].
      eexists. split; [reflexivity|]. cbn. repeat split; auto. right. eexists. reflexivity.
    - unfold frame_pop. cbn [set_result set_stack set_defers c_stack c_fp c_result c_trys c_code c_pc c_syms c_defers c_running c_panic c_dsyms c_debug].
      rewrite Hfp. replace (S (length rest)) with (length (ItF fr :: rest)) by reflexivity.
      rewrite trunc_all, Nat.sub_diag. cbn [firstn].
      destruct (c_result c1); eexists; (split; [reflexivity|]); cbn; repeat split; auto.
      right. eexists. reflexivity.
  Qed.
End Defers.

(* ------------------------------------------------------------------ Return(1) (fix 030cc3b3) *)
Lemma trunc_length : forall A (l : list A) n, n <= length l -> length (trunc n l) = n.
Proof. intros A l n H. unfold trunc. rewrite skipn_length. lia. Qed.

(* inside a function nothing of the returning function stays above its call frame, whatever markers (try
   blocks, loops) and temporaries surrounded the return statement *)
Theorem ret1_stack_clean : forall fp st, 0 < fp -> fp <= length st -> length (ret1_stack fp st) = fp.
Proof.
  intros fp st H0 Hl. unfold ret1_stack.
  destruct (Nat.ltb_spec 0 fp); [|lia]. destruct (Nat.ltb_spec fp (length st)); cbn [andb].
  - apply trunc_length. lia.
  - lia.
Qed.

Theorem ret1_stack_old_leaks : exists fp st, 0 < fp /\ fp <= length st /\ length (ret1_stack_old fp st) <> fp.
Proof.
  exists 1, [ItM L_try; ItM L_try; ItF {| f_code := CUnit 0; f_pc := 0; f_fp := 0; f_syms := 0; f_defers := []; f_trydepth := 0 |}].
  vm_compute. split; [auto|]. split; [auto|]. discriminate.
Qed.
