//go:build verif

package scripting

// Overlaid into /repo/internal/server/tables/scripting by /verif/check C15 (never written into /repo):
// lets the tables-package harness call the unexported raw-SQL authorization of the @transaction
// endpoint directly.

var VerifAuthorizeAndClassifySQL = authorizeAndClassifySQL
