//go:build verif

package compiler

// Overlaid into /repo/internal/language/compiler by /verif/check C10 (and C12).
// VERIF_IN: JSON [{"id":..,"src":..}]   VERIF_OUT: JSON [{"id","compile_err","dump","out","err"}]
// Every program is compiled with the REAL compiler the way `ego run file` does it (source text +
// "\n@entrypoint main", fragment mode), dumped with operands (bytecode.VerifDump) and run on the
// REAL VM with captured output.

import (
	"encoding/json"
	"os"
	"syscall"
	"testing"

	"github.com/tucats/ego/internal/errors"
	"github.com/tucats/ego/internal/language/bytecode"
	"github.com/tucats/ego/internal/language/symbols"
	"github.com/tucats/ego/internal/language/tokenizer"
)

type verifC10Case struct {
	ID  int    `json:"id"`
	Src string `json:"src"`
}

type verifC10Result struct {
	ID         int    `json:"id"`
	CompileErr string `json:"compile_err"`
	Dump       string `json:"dump"`
	Out        string `json:"out"`
	Err        string `json:"err"`
	Stopped    bool   `json:"stopped"`
}

// verifRun runs the context; with VERIF_DEBUGSIGNAL=1 it plays the part of debugger.Run answering every
// prompt with "continue": a debugger signal returned by Run resumes execution (debugger/run.go).
func verifRun(ctx *bytecode.Context) (err error) {
	// a Go panic inside the VM is an outcome of that program (reported with the program as replay), not a
	// crash of the harness
	defer func() {
		if r := recover(); r != nil {
			err = errors.Message("GO-RUNTIME-PANIC in the VM")
		}
	}()

	err = ctx.Run()

	for n := 0; n < 100000 && errors.Equals(err, errors.ErrSignalDebugger); n++ {
		err = ctx.Resume()
	}

	return err
}

func TestVerifC10(t *testing.T) {
	raw, err := os.ReadFile(os.Getenv("VERIF_IN"))
	if err != nil {
		t.Fatal(err)
	}

	var cases []verifC10Case
	if err := json.Unmarshal(raw, &cases); err != nil {
		t.Fatal(err)
	}

	results := make([]verifC10Result, 0, len(cases))

	for _, cs := range cases {
		r := verifC10Result{ID: cs.ID}

		c := New("run").SetExtensionsEnabled(true)
		c.functionDepth = 0
		c.flags.fragment = true

		tk := tokenizer.New(cs.Src+"\n@entrypoint main", true)

		bc, err := c.Compile("main 'p.ego'", tk)
		if err != nil {
			r.CompileErr = err.Error()
			results = append(results, r)

			continue
		}

		c.Close()

		r.Dump = bytecode.VerifDump(bc)

		// Deferred calls run in child contexts that write to the process's stdout, so the whole
		// file descriptor 1 is redirected to a file for the duration of the run.
		capPath := os.Getenv("VERIF_OUT") + ".cap"
		capFile, cerr := os.Create(capPath)
		if cerr != nil {
			t.Fatal(cerr)
		}

		saved, _ := syscall.Dup(1)
		_ = syscall.Dup2(int(capFile.Fd()), 1)

		s := symbols.NewRootSymbolTable("verif")
		ctx := bytecode.NewContext(s, bc)
		if os.Getenv("VERIF_DEBUGSIGNAL") == "1" {
			ctx.SetDebug(true)
		}

		err = verifRun(ctx)

		_ = syscall.Dup2(saved, 1)
		_ = syscall.Close(saved)
		capFile.Close()

		captured, _ := os.ReadFile(capPath)
		r.Out = string(captured)

		if err != nil && !errors.Equals(err, errors.ErrStop) {
			r.Err = err.Error()
		}

		results = append(results, r)
	}

	out, _ := json.Marshal(results)
	if err := os.WriteFile(os.Getenv("VERIF_OUT"), out, 0o644); err != nil {
		t.Fatal(err)
	}
}
