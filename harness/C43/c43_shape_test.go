//go:build verif

package tables

// Overlaid into /repo/internal/server/tables by /verif/check C43.  Reads rows.go and rowsAbstract.go of the
// tree being checked (VERIF_SRC) with go/ast and reports, for every call of Authorized, the condition of the
// `if` that holds it (the guard), the conditions of all enclosing `if`s, whether the call sits in an else
// branch, and whether the guard's body ends in a return.  props/C43.py checks these against the modelled shape.

import (
	"bytes"
	"encoding/json"
	"go/ast"
	"go/parser"
	"go/printer"
	"go/token"
	"os"
	"path/filepath"
	"testing"
)

type c43Site struct {
	File        string   `json:"file"`
	Func        string   `json:"func"`
	Line        int      `json:"line"`
	Guard       string   `json:"guard"`
	Outer       []string `json:"outer"`
	InElse      bool     `json:"in_else"`
	BodyReturns bool     `json:"body_returns"`
}

func TestVerifC43Shape(t *testing.T) {
	sites := []c43Site{}
	fset := token.NewFileSet()

	text := func(n ast.Node) string {
		var b bytes.Buffer

		_ = printer.Fprint(&b, fset, n)

		return b.String()
	}

	for _, name := range []string{"rows.go", "rowsAbstract.go"} {
		f, err := parser.ParseFile(fset, filepath.Join(os.Getenv("VERIF_SRC"), name), nil, 0)
		if err != nil {
			t.Fatal(err)
		}

		for _, decl := range f.Decls {
			fn, ok := decl.(*ast.FuncDecl)
			if !ok || fn.Body == nil {
				continue
			}

			var stack []ast.Node

			ast.Inspect(fn.Body, func(n ast.Node) bool {
				if n == nil {
					stack = stack[:len(stack)-1]

					return true
				}

				stack = append(stack, n)

				call, ok := n.(*ast.CallExpr)
				if !ok {
					return true
				}

				if id, ok := call.Fun.(*ast.Ident); !ok || id.Name != "Authorized" {
					return true
				}

				site := c43Site{File: name, Func: fn.Name.Name, Line: fset.Position(call.Pos()).Line, Outer: []string{}}

				// walk outwards over the enclosing if statements
				for i := len(stack) - 2; i >= 0; i-- {
					ifs, ok := stack[i].(*ast.IfStmt)
					if !ok {
						continue
					}

					child := stack[i+1]

					switch {
					case child == ast.Node(ifs.Cond):
						if site.Guard == "" {
							site.Guard = text(ifs.Cond)

							if l := len(ifs.Body.List); l > 0 {
								_, site.BodyReturns = ifs.Body.List[l-1].(*ast.ReturnStmt)
							}
						} else {
							site.Outer = append(site.Outer, "cond-of:"+text(ifs.Cond))
						}
					case child == ast.Node(ifs.Body):
						site.Outer = append(site.Outer, text(ifs.Cond))
					default:
						site.InElse = true
						site.Outer = append(site.Outer, "else-of:"+text(ifs.Cond))
					}
				}

				sites = append(sites, site)

				return true
			})
		}
	}

	b, _ := json.Marshal(sites)
	if err := os.WriteFile(os.Getenv("VERIF_OUT"), b, 0o644); err != nil {
		t.Fatal(err)
	}
}
