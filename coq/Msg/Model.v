(* Msg/Model.v — executable model of internal/i18n: the lookup with English fallback (strings.go translate)
   over the compiled message table, and NegotiateLanguage (negotiate.go) over the parsed candidate list.
   Keys, languages and placeholder names are interned as numbers by the translator (harness/C38);
   a table entry keeps what the property talks about: the length of the text and its set of placeholders.
   Definitions only. *)
From Common Require Export Base.
Open Scope N_scope.

Definition entry := (N * list N)%type.              (* text length in bytes, sorted distinct placeholder ids *)
Definition row := (N * list (N * entry))%type.      (* key id, [(language id, entry)] *)
Definition table := list row.

Fixpoint assoc {A : Type} (k : N) (l : list (N * A)) : option A :=
  match l with
  | [] => None
  | (k', v) :: r => if k =? k' then Some v else assoc k r
  end.

(* messages[key][lang] *)
Definition lookup (t : table) (k l : N) : option entry :=
  match assoc k t with Some r => assoc l r | None => None end.

Definition en : N := 0.     (* the translator gives English the id 0 *)

(* translate(lang, key): the language's text, else the English text, else the key itself *)
Inductive tr := TLang (e : entry) | TEnglish (e : entry) | TKey.
Definition translate (t : table) (k l : N) : tr :=
  match lookup t k l with
  | Some e => TLang e
  | None => match lookup t k en with Some e => TEnglish e | None => TKey end
  end.

Definition nonempty (e : entry) : bool := 0 <? fst e.

(* the key resolves to non-empty localized text, directly or by the English fallback *)
Definition resolves (t : table) (k l : N) : bool :=
  match translate t k l with TLang e => nonempty e | TEnglish e => nonempty e | TKey => false end.

(* a translation uses the same placeholders as the English text *)
Definition same_placeholders (t : table) (k l : N) : bool :=
  match lookup t k l, lookup t k en with
  | Some a, Some b => str_eqb (snd a) (snd b)
  | _, _ => true
  end.

Definition ok_pair (t : table) (k l : N) : bool := resolves t k l && same_placeholders t k l.

Definition pair_eqb (a b : N * N) : bool := (fst a =? fst b) && (snd a =? snd b).
Definition excepted (exc : list (N * N)) (k l : N) : bool := existsb (pair_eqb (k, l)) exc.

Definition check_all (t : table) (keys langs : list N) (exc : list (N * N)) : bool :=
  forallb (fun k => forallb (fun l => excepted exc k l || ok_pair t k l) langs) keys.

Definition failing_pairs (t : table) (keys langs : list N) : list (N * N) :=
  flat_map (fun k => flat_map (fun l => if ok_pair t k l then [] else [(k, l)]) langs) keys.

(* ---------------------------------------------------------------- NegotiateLanguage *)
Definition cand := (str * Z)%type.   (* lower-cased primary subtag, quality (thousandths) *)

(* sort.SliceStable by quality, descending: c was before every element of l *)
Fixpoint insert_desc (c : cand) (l : list cand) : list cand :=
  match l with
  | [] => [c]
  | x :: r => if (snd x <=? snd c)%Z then c :: l else x :: insert_desc c r
  end.
Definition sort_desc (l : list cand) : list cand := fold_right insert_desc [] l.

Definition is_supported (supported : list str) (lang : str) : bool := existsb (str_eqb lang) supported.

(* result "" (= []) when no candidate is supported *)
Definition negotiate (supported : list str) (cands : list cand) : str :=
  match find (fun c => is_supported supported (fst c)) (sort_desc cands) with
  | Some c => fst c
  | None => []
  end.

(* ---------------------------------------------------------------- NegotiateLanguage on the raw header text *)
(* The header is a list of bytes. strings.TrimSpace / strings.ToLower are modelled on ASCII (bytes >= 128 are
   left alone); strconv.ParseFloat is a parameter parse_q (None = error): the theorems hold for every such
   function, the correspondence uses parse_q_dec below. Quality unit: 10^-6. *)
Fixpoint split_aux (sep : N) (cur : str) (s : str) : list str :=
  match s with
  | [] => [rev cur]
  | c :: r => if c =? sep then rev cur :: split_aux sep [] r else split_aux sep (c :: cur) r
  end.
Definition split (sep : N) (s : str) : list str := split_aux sep [] s.    (* strings.Split(s, sep) *)

Definition is_space (c : N) : bool := (c =? 32) || ((9 <=? c) && (c <=? 13)).
Fixpoint trim_left (s : str) : str :=
  match s with c :: r => if is_space c then trim_left r else s | [] => [] end.
Definition trim (s : str) : str := rev (trim_left (rev (trim_left s))).   (* strings.TrimSpace *)
Definition lower_c (c : N) : N := if (65 <=? c) && (c <=? 90) then c + 32 else c.
Fixpoint take_until (q : N) (s : str) : str :=
  match s with [] => [] | c :: r => if c =? q then [] else c :: take_until q r end.
Definition is_nil (s : str) : bool := match s with [] => true | _ => false end.

Definition q_one : Z := 1000000%Z.

(* one comma separated element of the header -> candidate, or nothing *)
Definition parse_tag (parse_q : str -> option Z) (raw : str) : option cand :=
  let raw := trim raw in
  if is_nil raw then None
  else match split 59 raw with                        (* ';' *)
       | [] => None
       | p0 :: params =>
           let tag := trim p0 in
           if is_nil tag || str_eqb tag [42] then None   (* "" or "*" *)
           else
             let q := fold_left (fun q p =>
                        match trim p with
                        | 113 :: 61 :: v => match parse_q v with Some x => x | None => q end   (* "q=" *)
                        | _ => q
                        end) params q_one in
             let primary := map lower_c (take_until 45 tag) in   (* up to the first '-' *)
             if is_nil primary then None else Some (primary, q)
       end.

Definition parse_header (parse_q : str -> option Z) (h : str) : list cand :=
  let h := trim h in
  if is_nil h then []
  else flat_map (fun raw => match parse_tag parse_q raw with Some c => [c] | None => [] end) (split 44 h).

Definition negotiate_header (parse_q : str -> option Z) (supported : list str) (h : str) : str :=
  negotiate supported (parse_header parse_q h).

(* strconv.ParseFloat on the plain decimal fragment digits[.digits] | .digits with at most 6 fraction digits;
   every other text is taken as rejected (the check only feeds it texts ParseFloat does reject) *)
Fixpoint take_digits (s : str) (acc : N) : N * str * nat :=
  match s with
  | c :: r => if is_digit c then let '(v, rest, n) := take_digits r (10 * acc + (c - 48)) in (v, rest, S n)
              else (acc, s, O)
  | [] => (acc, [], O)
  end.
Definition parse_q_dec (v : str) : option Z :=
  let '(ip, rest, ni) := take_digits v 0 in
  match rest with
  | [] => if (0 <? ni)%nat then Some (Z.of_N ip * q_one)%Z else None
  | 46 :: fr =>
      let '(fp, rest2, nf) := take_digits fr 0 in
      if is_nil rest2 && ((0 <? ni)%nat || (0 <? nf)%nat) && (nf <=? 6)%nat
      then Some (Z.of_N ip * q_one + Z.of_N fp * Z.of_N (10 ^ N.of_nat (6 - nf)))%Z
      else None
  | _ => None
  end.
