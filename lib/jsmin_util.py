"""Helpers for props/C33.py: JavaScript program generator, token alignment, hashing (mirrors JsMin/Model.v)."""
import re

HP = 2305843009213693951

# ----------------------------------------------------------------------------- hashing (same as Model.v)

def hash_str(h, b):
    for c in b:
        h = (h * 257 + c + 1) % HP
    return h


def hash_toks(ts):
    a = 7
    for k, v in ts:
        a = hash_str(((a * 257 + k + 1) % HP * 257 % HP + len(v)), v)
    return a


def hash_set(xs):
    a = 0
    for x in xs:
        a = (a + hash_str(11, x)) % HP
    return a


# ----------------------------------------------------------------------------- name generator index

def gen_index(short):
    """inverse of nameGen: 'a'..'z' -> 0..25, 'a1' -> 26 ...; None if not of that shape"""
    m = re.fullmatch(rb"([a-z])([1-9][0-9]*)?", short)
    if not m:
        return None
    i = m.group(1)[0] - 97
    if m.group(2) is None:
        return i
    return 26 + (int(m.group(2)) - 1) * 26 + i


def align(st, ren):
    """st: input tokens [(k, bytes)], ren: output of renameLocals. Returns (map name->short, changed positions)
    or None when the output is not a per-token image of the input."""
    m, j, changed = {}, 0, []
    COLON = (8, b":")
    for i, t in enumerate(st):
        if j >= len(ren):
            return None
        o = ren[j]
        if t == o:
            nxt = st[i + 1] if i + 1 < len(st) else None
            if t[0] == 7 and j + 2 < len(ren) + 0 and j + 2 <= len(ren) - 1 and ren[j + 1] == COLON \
                    and ren[j + 2][0] == 7 and nxt != COLON:
                if m.setdefault(t[1], ren[j + 2][1]) != ren[j + 2][1]:
                    return None
                changed.append((i, "expand"))
                j += 3
            else:
                j += 1
        elif t[0] == 7 and o[0] == 7:
            if m.setdefault(t[1], o[1]) != o[1]:
                return None
            changed.append((i, "rename"))
            j += 1
        else:
            return None
    if j != len(ren):
        return None
    return m, changed


def obs_list(m):
    """observed map sorted by generator index -> ([(name, short)], maxn) or None"""
    items = []
    for k, v in m.items():
        gi = gen_index(v)
        if gi is None:
            return None
        items.append((gi, k, v))
    items.sort()
    return [(k, v) for _, k, v in items], (items[-1][0] + 2 if items else 1)


# ----------------------------------------------------------------------------- JavaScript generator

LOCALS = ["count", "item", "value", "row", "data", "key", "total", "idx", "tmp", "acc", "size", "label",
          "result", "entry", "list", "text", "flag", "node", "left", "right", "cfg", "opt", "x", "y", "n", "s",
          "a", "b", "c", "e", "k", "v", "a1", "b2"]
KEYS = ["id", "value", "size", "key", "data", "label", "a", "b", "count", "x", "name", "kind", "total"]
GLOBALS = ["appState", "helperTotal", "row", "cfg", "VERSION", "registry", "value"]
METHODS = ["run", "apply2", "calc", "render", "mk"]          # never used as local names


class Gen:
    """One generated script: file-scope declarations + functions + console.log calls."""

    def __init__(self, rng):
        self.r = rng
        self.feat = set()

    def pick_new(self, env):
        for _ in range(50):
            nm = self.r.choice(LOCALS)
            if nm not in env["all"]:
                env["all"].add(nm)
                return nm
        nm = "q%d" % len(env["all"])
        env["all"].add(nm)
        return nm

    def num(self):
        r = self.r
        return r.choice(["0", "1", "2", "7", "10", "1.5", "0.25", "0xff", "1e3", "1_000", "3", "42", "2.5e-1", "0b101", "0o17"])

    def nexpr(self, env, d=0):
        """numeric expression over numeric locals"""
        r = self.r
        ns = env["nums"]
        if d > 2 or r.random() < 0.3 or not ns:
            return r.choice(ns) if ns and r.random() < 0.7 else self.num()
        a, b = self.nexpr(env, d + 1), self.nexpr(env, d + 1)
        k = r.randrange(16)
        if k == 0:
            self.feat.add("plusplus")
            return "%s + +%s" % (a, b)
        if k == 1:
            self.feat.add("plusplus")
            return "%s - -%s" % (a, b)
        if k == 2:
            self.feat.add("division")
            return "%s / %s / 2" % (a, b if b != "0" else "4")
        if k == 3:
            return "(%s) * (%s)" % (a, b)
        if k == 4:
            return "(%s > %s ? %s : %s)" % (a, b, a, b)
        if k == 5 and env["objs"]:
            o, keys = r.choice(env["objs"])
            self.feat.add("prop")
            return "%s.%s" % (o, r.choice(keys))
        if k == 6 and env["objs"]:
            o, keys = r.choice(env["objs"])
            self.feat.add("optchain")
            return "(%s?.%s ?? 0)" % (o, r.choice(keys + ["missing"]))
        if k == 7 and env["arrs"]:
            return "%s[0]" % r.choice(env["arrs"])
        if k == 8:
            return "%s %% 7" % a
        if k == 9:
            return "(%s ** 2)" % (ns and r.choice(ns) or "2")
        if k == 10 and env["fns"]:
            return "%s(%s)" % (r.choice(env["fns"]), a)
        if k == 11:
            self.feat.add("regex")
            return "(/%s/.test(String(%s)) ? 1 : 0)" % (r.choice(["1+", "[/]", "\\d\\/", "a|b", "^[0-9.]+$"]), a)
        if k == 12:
            return "Math.max(%s, %s)" % (a, b)
        if k == 13 and env["strs"]:
            return "%s.length" % r.choice(env["strs"])
        if k == 14:
            return "(%s, %s)" % (a, b)
        return "%s + %s" % (a, b)

    def stmt(self, env, depth=0):
        r = self.r
        k = r.randrange(24)
        ind = "  " * (depth + 1)
        if k in (0, 1):
            nm = self.pick_new(env)
            s = "%s%s %s = %s;" % (ind, r.choice(["let", "const", "var"]), nm, self.nexpr(env))
            env["nums"].append(nm)
            return s
        if k == 2:
            a, b, c = self.pick_new(env), self.pick_new(env), self.pick_new(env)
            self.feat.add("decl-list")
            s = "%slet %s, %s, %s;\n%s%s = %s; %s = %s; %s = 3;" % (ind, a, b, c, ind, a, self.nexpr(env), b, self.nexpr(env), c)
            env["nums"] += [a, b, c]
            return s
        if k == 3:
            a, b = self.pick_new(env), self.pick_new(env)
            s = "%sconst %s = %s, %s = %s;" % (ind, a, self.nexpr(env), b, self.nexpr(env))
            env["nums"] += [a, b]
            return s
        if k in (4, 5) and env["nums"]:
            nm = self.pick_new(env)
            keys = r.sample(KEYS, r.randint(1, 3))
            parts = []
            for key in keys:
                parts.append("%s: %s" % (key, self.nexpr(env)))
            sh = [n for n in env["nums"] if r.random() < 0.4][:2]
            if sh:
                self.feat.add("shorthand")
            allk = keys + [n for n in sh if n not in keys]
            parts += [n for n in sh if n not in keys]
            r.shuffle(parts)
            s = "%sconst %s = {%s};" % (ind, nm, ", ".join(parts))
            env["objs"].append((nm, allk))
            return s
        if k == 6 and env["objs"]:
            o, keys = r.choice(env["objs"])
            ks = [x for x in r.sample(keys, min(len(keys), r.randint(1, 2))) if x not in env["all"] and x in LOCALS + KEYS]
            ks = [x for x in ks if re.fullmatch(r"[a-z][a-z0-9]*", x)]
            if ks:
                self.feat.add("destructure")
                for x in ks:
                    env["all"].add(x)
                    env["nums"].append(x)
                return "%sconst {%s} = %s;" % (ind, ", ".join(ks), o)
        if k == 7 and env["objs"]:
            o, keys = r.choice(env["objs"])
            key = r.choice(keys)
            nm = self.pick_new(env)
            self.feat.add("destructure-alias")
            env["nums"].append(nm)
            return "%sconst {%s: %s} = %s;" % (ind, key, nm, o)
        if k == 8 and len(env["nums"]) >= 2:
            nm = self.pick_new(env)
            a, b = r.sample(env["nums"], 2)
            env["arrs"].append(nm)
            return "%sconst %s = [%s, %s, %s];" % (ind, nm, a, b, self.num())
        if k == 9 and env["arrs"]:
            a, b = self.pick_new(env), self.pick_new(env)
            self.feat.add("array-destructure")
            env["nums"] += [a, b]
            return "%slet [%s, %s] = %s;" % (ind, a, b, r.choice(env["arrs"]))
        if k == 10 and env["nums"]:
            nm = self.pick_new(env)
            p = self.pick_new(env)
            self.feat.add("closure")
            body = self.nexpr({**env, "nums": env["nums"] + [p]})
            env["fns"].append(nm)
            if r.random() < 0.5:
                return "%sconst %s = (%s) => %s;" % (ind, nm, p, body)
            return "%sfunction %s(%s) {\n%s  return %s;\n%s}" % (ind, nm, p, ind, body, ind)
        if k == 11 and env["nums"]:
            nm = self.pick_new(env)
            self.feat.add("template")
            a = r.choice(env["nums"])
            extra = ""
            if env["objs"]:
                o, keys = r.choice(env["objs"])
                extra = ":${%s.%s}" % (o, r.choice(keys))
            env["strs"].append(nm)
            if r.random() < 0.4:
                self.feat.add("template-nested-brace")
                extra += ":${JSON.stringify({n: 1}).length + %s}" % r.choice(env["nums"])
            return "%sconst %s = `t=${%s}%s  //x %s`;" % (ind, nm, a, extra, r.choice(["", "'q'", "$", "{}"]))
        if k == 12:
            nm = self.pick_new(env)
            env["strs"].append(nm)
            self.feat.add("string")
            return "%sconst %s = %s;" % (ind, nm, r.choice(["'its'.replace(\"t\", '')", "\"a // b\"", "'/* c */'", "'a\\'b'", "\"x\\\\\"", "'count value  row'", "\"`t`\""]))
        if k == 13 and env["strs"]:
            nm = self.pick_new(env)
            self.feat.add("regex")
            env["strs"].append(nm)
            return "%sconst %s = %s.replace(/[a-c/]+/g, '-').replace(/\\//, \"|\");" % (ind, nm, r.choice(env["strs"]))
        if k == 14 and env["nums"]:
            a = r.choice(env["nums"])
            acc = self.pick_new(env)
            i = self.pick_new(env)
            self.feat.add("loop")
            env["nums"].append(acc)
            s = "%slet %s = 0;\n%sfor (let %s = 0; %s < 3; %s++) {\n%s  %s += %s + %s;\n%s}" % (ind, acc, ind, i, i, i, ind, acc, i, a, ind)
            env["all"].discard(i)
            return s
        if k == 15 and env["arrs"]:
            acc = self.pick_new(env)
            it = self.pick_new(env)
            self.feat.add("for-of")
            env["nums"].append(acc)
            s = "%slet %s = 0;\n%sfor (const %s of %s) {\n%s  %s += %s;\n%s}" % (ind, acc, ind, it, r.choice(env["arrs"]), ind, acc, it, ind)
            return s
        if k == 16 and env["objs"]:
            acc = self.pick_new(env)
            it = self.pick_new(env)
            o, _ = r.choice(env["objs"])
            self.feat.add("for-in")
            env["strs"].append(acc)
            return "%slet %s = '';\n%sfor (var %s in %s) {\n%s  %s += %s + (%s in %s ? '+' : '-');\n%s}" % (ind, acc, ind, it, o, ind, acc, it, it, o, ind)
        if k == 17 and env["nums"] and depth < 2:
            a = r.choice(env["nums"])
            nm = self.pick_new(env)
            env["nums"].append(nm)
            self.feat.add("block")
            inner = {**env, "nums": list(env["nums"]), "objs": list(env["objs"]), "arrs": list(env["arrs"]), "strs": list(env["strs"]), "fns": list(env["fns"])}
            body = "\n".join(self.stmt(inner, depth + 1) for _ in range(r.randint(1, 3)))
            asg = "%s  %s = %s;" % (ind, nm, self.nexpr(inner))
            return "%slet %s = 0;\n%sif (%s > 1) {\n%s\n%s\n%s} else {\n%s  %s = -1;\n%s}" % (ind, nm, ind, a, body, asg, ind, ind, nm, ind)
        if k == 18 and env["nums"]:
            a = r.choice(env["nums"])
            nm = self.pick_new(env)
            env["strs"].append(nm)
            self.feat.add("switch")
            return "%slet %s = '';\n%sswitch (%s > 2 ? 'hi' : 'lo') {\n%s  case 'hi': %s = 'H'; break;\n%s  default: %s = 'L';\n%s}" % (ind, nm, ind, a, ind, nm, ind, nm, ind)
        if k == 19 and env["nums"]:
            nm = self.pick_new(env)
            e = self.pick_new(env)
            env["strs"].append(nm)
            self.feat.add("try")
            env["all"].discard(e)
            return "%slet %s = 'none';\n%stry {\n%s  null.%s;\n%s} catch (%s) {\n%s  %s = %s.name;\n%s}" % (ind, nm, ind, ind, r.choice(KEYS), ind, e, ind, nm, e, ind)
        if k == 20 and env["nums"]:
            nm = self.pick_new(env)
            a = r.choice(env["nums"])
            mth = r.choice(METHODS)
            self.feat.add("method")
            env["objs"].append((nm, ["v"]))
            return "%sconst %s = {v: %s, %s: function (%s) { return this.v + %s; }};" % (ind, nm, a, mth, "d", "d")
        if k == 21 and env["nums"]:
            a = r.choice(env["nums"])
            self.feat.add("comment")
            return "%s// uses %s; not code: let %s = 'x';\n%s/* block %s */ %s;" % (ind, a, a, ind, a, "void 0")
        if k == 22 and env["nums"]:
            nm = self.pick_new(env)
            a = r.choice(env["nums"])
            env["nums"].append(nm)
            self.feat.add("bigint-typeof")
            return "%sconst %s = typeof %s === 'number' ? Number(10n ** 2n) + %s++ : -1;" % (ind, nm, a, a) if a not in env["consts"] else \
                   "%sconst %s = typeof %s === 'number' ? Number(10n ** 2n) : -1;" % (ind, nm, a)
        if k == 23 and env["nums"]:
            nm = self.pick_new(env)
            a = r.choice(env["nums"])
            env["nums"].append(nm)
            self.feat.add("numdot")
            return "%sconst %s = (1).toFixed(1).length + 2 .toString().length + %s;" % (ind, nm, a)
        nm = self.pick_new(env)
        env["nums"].append(nm)
        return "%slet %s = %s;" % (ind, nm, self.nexpr(env))

    def function(self, name, genv):
        r = self.r
        env = {"all": set(), "nums": [], "objs": [], "arrs": [], "strs": [], "fns": list(genv["fns"]), "consts": set()}
        np = r.randint(0, 3)
        params = [self.pick_new(env) for _ in range(np)]
        env["nums"] += params
        if r.random() < 0.5 and genv["nums"]:
            env["nums"] += genv["nums"]           # file-scope numeric globals are used: do not shadow them
            env["all"] |= set(genv["nums"])       # (a shadowing closure would be printed as source text)
        body = []
        for _ in range(r.randint(2, 7)):
            before = set(env["nums"])
            s = self.stmt(env)
            if "const " in s:
                env["consts"] |= set(env["nums"]) - before
            body.append(s)
        # ++ on a const would throw: the bigint statement guards by env["consts"]; params and lets only elsewhere
        ret = [n for n in env["nums"] if n in env["all"] and n not in genv["nums"]] + [o for o, _ in env["objs"]] + env["arrs"] + env["strs"]
        obj = ", ".join(ret[:12])
        if r.random() < 0.5 and ret:
            self.feat.add("shorthand-return")
            retexpr = "{%s}" % obj
        else:
            retexpr = "[%s]" % obj
        src = "function %s(%s) {\n%s\n  return %s;\n}" % (name, ", ".join(params), "\n".join(body), retexpr)
        return src, np

    def script(self):
        r = self.r
        genv = {"nums": [], "fns": []}
        parts = []
        gl = r.sample(GLOBALS, r.randint(0, 3))
        for g in gl:
            parts.append("%s %s = %s;" % (r.choice(["var", "const", "let"]), g, self.num()))
            genv["nums"].append(g)
        calls = []
        for i in range(r.randint(1, 4)):
            nm = "fn%d" % i if r.random() < 0.7 else r.choice(["render", "update", "showRow"]) + str(i)
            src, np = self.function(nm, genv)
            parts.append(src)
            genv["fns"].append(nm) if np >= 1 else None
            args = ", ".join(self.num() for _ in range(np))
            calls.append("console.log(JSON.stringify(%s(%s)));" % (nm, args))
        if r.random() < 0.3:
            parts.append("// trailing comment with let z = 1;")
        sep = r.choice(["\n", "\n\n", "\r\n", "\n\t\n"])
        return sep.join(parts + calls) + "\n"


def gen_script(rng):
    g = Gen(rng)
    s = g.script()
    return s, sorted(g.feat)


# Scripts that re-confirm the recorded findings (signature, source).  Each differs under node today.
PROBES = [
    ("method-shorthand-name", "function f(){ let o = { foo() { return 1; } }; return o.foo(); } function g(){ let foo = 2; return foo; } console.log(f(), g());"),
    ("method-shorthand-name", "class A { size() { return 1; } } function f(){ let size = 2; return new A().size() + size; } console.log(f());"),
    ("method-shorthand-name", "function f(){ let o = {get val(){return 1;}}; return o.val; } function g(){ let val = 2; return val;} console.log(f(), g());"),
    ("destructuring-default", "function f(obj){ const {a = 5} = obj; return a; } console.log(f({a:1}), f({}));"),
    ("global-collision", "function f(fetch){ return fetch; } console.log(f(1), typeof fetch, typeof JSON);"),
    ("global-collision", "function f(p){ const {escape: c} = p; return c; } console.log(f({escape:1}), typeof escape);"),
    ("label-name", "function f(){ lbl: for (let i=0;i<2;i++){ continue lbl; } let lbl = 1; return lbl; } console.log(f());"),
]

# Regression corpus: defects repaired by the fix commit (must stay equal under node) + old pinned shapes.
CORPUS = [
    "function f(x){ let count = x+1; return `n=${count}`; } console.log(f(1));",
    "function f(){ let a, b, c; a = 1; b = 2; c = 3; return a + b + c; } console.log(f());",
    "function f(){ let a = 1, c, d = 2; c = 5; return a + c + d; } console.log(f());",
    "function f(s){ let q = 8; return q / /2/.source.length; } console.log(f());",
    "function f(){ let q = 1 .toString(); return q; } console.log(f());",
    "function f(a){ let b = 3; return a < !--b; } console.log(f(1));",
    "function f(){ let a = 1, b = 2; const g = ({a, b}) => { let c, d, e; c = a; d = b; e = {c, d}; return e; }; return g({a, b}); } console.log(JSON.stringify(f()));",
    "function f(p){ let x = 1, y = 2; if (p) { let u, v, w; u = {x, y}; return u; } else { return [{x}, {y}]; } } console.log(JSON.stringify(f(1)), JSON.stringify(f(0)));",
    "function f({a, b}, [c, d]){ let r = a + b + c + d; return {r}; } console.log(JSON.stringify(f({a:1,b:2},[3,4])));",
    "function f(o){ for (const {a, b} of o) { return a + b; } } console.log(f([{a:1,b:2}]));",
    "function f(q){ let t = q ? {q} : {q, z: 1}; let u = q && {q}; return [t, u]; } console.log(JSON.stringify(f(1)));",
    "var status = 7; function g(status2){ let v = status + status2; return {status, v}; } console.log(JSON.stringify(g(1)));",
    "function f(){ let x = 4; let y = x++ + +x; let z = x-- - -x; return [y,z]; } console.log(f());",
    "function f(k){ let o = {}; o[k] = 1; let x = 'k'; return o?.[x] ?? o?.k; } console.log(f('k'));",
    "function f(){ let v = 1; let o = { v: v, w: function(){ return v; } }; return o.w() + o.v; } console.log(f());",
    "function f(x){ var r = x in {a:1}; for (var k of [1]) { r = k; } return r; } console.log(f('a'));",
    "function f(){ let html = '<a>'; let re = /<\\/a>/g; let s = html.replace(re, ''); return s; } console.log(f());",
    "function f(n){ let r = 10n ** 2n; return r + BigInt(n); } console.log(String(f(1)));",
    "function f(){ let a = 1; switch(a){ case a: return 'y'; default: return 'n'; } } console.log(f());",
    "function f(){ let total = 2; const s = `${JSON.stringify({n: 1}) + total}`; return s; } console.log(f());",
    "function f(offset){ const list = [1, 2]; return `${list.map(function (q) { return q * 2; }).length + offset}|${`in${offset}`}`; } console.log(f(3));",
    "function f(){ let item = {value: 2}; const rows = [1].map(k => `<td>${k}</td><td>${item.value}</td>`); return rows.join(''); } console.log(f());",
]
