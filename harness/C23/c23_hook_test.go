//go:build verif

package authserver

// Overlaid only together with the instrumented codes.go (which declares VerifYield).
func init() {
	c23Instrumented = true
	VerifYield = func(label string) { c23Yield(label) }
}
