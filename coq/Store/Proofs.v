(* Store/Proofs.v — C30 lemmas: the generated where clause means the conjunction of the resolved filters
   (nil skipped, where/and by clauses written, placeholders numbered after the SET values), hence every
   operation of the handle is the corresponding operation of a keyed in-memory table. *)
From Store Require Import Model.
From Common Require Import Base.
From Coq Require Import String.
Open Scope list_scope.
Open Scope N_scope.

Fixpoint conds_of (ms : list mfilter) (nargs : nat) : list cond :=
  match ms with
  | [] => []
  | MOk ci o v :: r => (ci, o, N.of_nat (S nargs)) :: conds_of r (S nargs)
  | _ :: r => conds_of r nargs
  end.

Lemma chain_build : forall ms n b t a,
  build_where ms (S n) b = Some (t, a) -> chain t = Some (conds_of ms b).
Proof.
  induction ms as [|m ms IH]; intros n b t a H.
  - cbn in H. inversion H; subst. reflexivity.
  - destruct m as [| |ci o v]; cbn [build_where conds_of] in *.
    + eapply IH; eassumption.
    + discriminate.
    + destruct (build_where ms (S (S n)) (S b)) as [[t' a']|] eqn:E; [|discriminate].
      inversion H; subst. cbn [Nat.eqb chain]. rewrite (IH _ _ _ _ E). reflexivity.
Qed.

Lemma firstn_len_app {A} (l1 l2 : list A) : firstn (List.length l1) (l1 ++ l2) = l1.
Proof. induction l1 as [|x l1 IH]; cbn; [destruct l2; reflexivity | now rewrite IH]. Qed.

Lemma wsem_ref_empty : wsem_ref [] = Some [].
Proof. reflexivity. Qed.
Lemma wsem_ref_where : forall ci o k r cs, chain r = Some cs -> wsem_ref (TWhere :: TCond ci o k :: r) = Some ((ci, o, k) :: cs).
Proof. intros ci o k r cs H. cbn. rewrite H. reflexivity. Qed.
Lemma wsem_ref_leading_and : forall r, wsem_ref (TAnd :: r) = None.
Proof. reflexivity. Qed.

(* ---- bounds and schema facts for the keyed operations *)
Lemma find_col_from_bound : forall cols i n k, find_col_from i cols n = Some k -> (i <= k < i + List.length cols)%nat.
Proof.
  induction cols as [|c cols IH]; intros i n k H; cbn in H; [discriminate|].
  destruct (eqfold (cname c) n).
  - inversion H; subst. cbn. lia.
  - apply IH in H. cbn. lia.
Qed.
Lemma find_col_bound cols n k : find_col cols n = Some k -> (k < List.length cols)%nat.
Proof. intros H. apply find_col_from_bound in H. lia. Qed.
Lemma find_exact_from_bound : forall cols i n k, find_exact_from i cols n = Some k -> (i <= k < i + List.length cols)%nat.
Proof.
  induction cols as [|c cols IH]; intros i n k H; cbn in H; [discriminate|].
  destruct (str_eqb (cname c) n).
  - inversion H; subst. cbn. lia.
  - apply IH in H. cbn. lia.
Qed.
Lemma key_index_bound cols : List.length cols <> O -> (key_index cols < List.length cols)%nat.
Proof.
  intros Hne. unfold key_index.
  destruct (find_exact_from 0 cols (L "id")) eqn:E1; [apply find_exact_from_bound in E1; lia|].
  destruct (find_exact_from 0 cols (L "name")) eqn:E2; [apply find_exact_from_bound in E2; lia|]. lia.
Qed.
Lemma schema_nonempty cols : schema_ok cols = true -> List.length cols <> O.
Proof. unfold schema_ok. intros H. apply andb_true_iff in H as [H _]. apply negb_true_iff, Nat.eqb_neq in H. exact H. Qed.
Lemma schema_key cols k : schema_ok cols = true -> (k < List.length cols)%nat ->
  find_col cols (col_name cols k) = Some k /\ find_col cols (col_sql cols k) = Some k.
Proof.
  unfold schema_ok. intros H Hk. apply andb_true_iff in H as [_ H].
  rewrite forallb_forall in H. specialize (H k). rewrite in_seq in H. specialize (H ltac:(lia)).
  unfold key_lookup, upd_lookup in H.
  destruct (find_col cols (col_name cols k)) as [a|]; [|discriminate].
  destruct (find_col cols (col_sql cols k)) as [b|]; [|discriminate].
  apply andb_true_iff in H as [Ha Hb]. apply Nat.eqb_eq in Ha. apply Nat.eqb_eq in Hb. subst. split; reflexivity.
Qed.

Section Refinement.
  Variable wsem : list wtok -> option (list cond).
  Variable osem : list nat -> list row -> list row.
  Variable cols : list column.
  (* what is assumed of SQLite's reading of the generated where clause *)
  Hypothesis wsem_empty : wsem [] = Some [].
  Hypothesis wsem_where : forall ci o k r cs,
      chain r = Some cs -> wsem (TWhere :: TCond ci o k :: r) = Some ((ci, o, k) :: cs).
  (* ... and of its ORDER BY: ascending by val_cmp on the listed columns, ties in table order *)
  Hypothesis osem_sorts : forall ord l, osem ord l = sort_rows ord l.

  Lemma wsem_build : forall ms b t a,
    build_where ms 0 b = Some (t, a) -> wsem t = Some (conds_of ms b).
  Proof.
    induction ms as [|m ms IH]; intros b t a H.
    - cbn in H. inversion H; subst. exact wsem_empty.
    - destruct m as [| |ci o v]; cbn [build_where conds_of] in *.
      + eapply IH; eassumption.
      + discriminate.
      + destruct (build_where ms 1 (S b)) as [[t' a']|] eqn:E; [|discriminate].
        inversion H; subst. cbn [Nat.eqb]. apply wsem_where. eapply chain_build; eassumption.
  Qed.

  Lemma build_resolve : forall fs n b,
    match resolve cols fs with
    | None => build_where (List.map (new_filter cols) fs) n b = None
    | Some sfs => exists t a, build_where (List.map (new_filter cols) fs) n b = Some (t, a) /\
                   forall pre r, List.length pre = b ->
                     row_matches (conds_of (List.map (new_filter cols) fs) b) (pre ++ a) r = spec_matches sfs r
    end.
  Proof.
    induction fs as [|f fs IH]; intros n b.
    - cbn. exists [], []. split; [reflexivity|]. intros; reflexivity.
    - destruct f as [|name o v].
      + cbn [resolve List.map new_filter build_where conds_of]. apply IH.
      + cbn [resolve List.map new_filter].
        destruct (find_col cols name) as [ci|] eqn:Ef.
        * specialize (IH (S n) (S b)).
          destruct (resolve cols fs) as [l|].
          -- destruct IH as (t & a & Hb & Hm).
             cbn [build_where conds_of]. rewrite Hb.
             eexists; eexists; split; [reflexivity|].
             intros pre r Hlen.
             unfold row_matches, spec_matches. cbn [forallb].
             f_equal.
             ++ unfold cond_holds, sf_holds. rewrite Nat2N.id.
                replace (S b - 1)%nat with b by lia.
                rewrite app_nth2 by lia. rewrite Hlen, Nat.sub_diag. reflexivity.
             ++ specialize (Hm (pre ++ [v]) r). rewrite <- app_assoc in Hm. cbn [app] in Hm.
                unfold row_matches, spec_matches in Hm. apply Hm.
                rewrite app_length. cbn. lia.
          -- cbn [build_where]. rewrite IH. reflexivity.
        * cbn [build_where]. reflexivity.
  Qed.

  Notation flt := (filtered wsem osem cols id).

  Lemma filtered_select s fs : exists q,
    flt s (List.map (new_filter cols) fs) 0%nat (fun w a => SSelect w a (sord s)) =
    (s, match resolve cols fs, sdb s with
        | Some sfs, Some t => RRows (t_read sfs (sord s) t)
        | _, _ => RErr end, q).
  Proof.
    unfold filtered. pose proof (build_resolve fs 0 0) as HB.
    destruct (resolve cols fs) as [sfs|].
    - destruct HB as (t & a & Hb & Hm). rewrite Hb. unfold run_stmt.
      destruct s as [[tb|] k hk od]; cbn [sdb stk shk sord exec].
      + rewrite (wsem_build _ _ _ _ Hb), osem_sorts. eexists. unfold t_read.
        rewrite (filter_ext _ (spec_matches sfs)) by (intros r; apply (Hm [] r); reflexivity). reflexivity.
      + eexists. reflexivity.
    - rewrite HB. eexists. reflexivity.
  Qed.

  Lemma filtered_delete s fs : exists q,
    flt s (List.map (new_filter cols) fs) 0%nat (fun w a => SDelete w a) =
    (match resolve cols fs, sdb s with
     | Some sfs, Some t => (mkst (Some (fst (t_delete sfs t))) (stk s) (shk s) (sord s), RCount (N.of_nat (snd (t_delete sfs t))))
     | _, _ => (s, RErr) end, q).
  Proof.
    unfold filtered. pose proof (build_resolve fs 0 0) as HB.
    destruct (resolve cols fs) as [sfs|].
    - destruct HB as (t & a & Hb & Hm). rewrite Hb. unfold run_stmt.
      assert (HF : forall r, row_matches (conds_of (List.map (new_filter cols) fs) 0) a r = spec_matches sfs r)
        by (intros r; apply (Hm [] r); reflexivity).
      destruct s as [[tb|] k hk od]; cbn [sdb stk shk sord exec].
      + rewrite (wsem_build _ _ _ _ Hb). eexists. unfold t_delete. cbn [fst snd].
        rewrite (filter_ext _ (fun r => negb (spec_matches sfs r))) by (intros r; rewrite HF; reflexivity).
        rewrite (filter_ext (row_matches _ a) (spec_matches sfs)) by exact HF. reflexivity.
      + eexists. reflexivity.
    - rewrite HB. eexists. reflexivity.
  Qed.

  Lemma filtered_update s fs r : List.length r = List.length cols -> exists q,
    flt s (List.map (new_filter cols) fs) (List.length r) (fun w a => SUpdate w (r ++ a)) =
    (match resolve cols fs, sdb s with
     | Some sfs, Some t => match t_update (stk s) sfs r t with
                           | Some t' => (mkst (Some t') (stk s) (shk s) (sord s), ROk)
                           | None => (s, RErr) end
     | _, _ => (s, RErr) end, q).
  Proof.
    intros Hlen. unfold filtered. pose proof (build_resolve fs 0 (List.length r)) as HB.
    destruct (resolve cols fs) as [sfs|].
    - destruct HB as (t & a & Hb & Hm). rewrite Hb. unfold run_stmt.
      assert (HF : forall r0, row_matches (conds_of (List.map (new_filter cols) fs) (List.length r)) (r ++ a) r0 = spec_matches sfs r0)
        by (intros r0; apply (Hm r r0 eq_refl)).
      destruct s as [[tb|] k hk od]; cbn [sdb stk shk sord exec].
      + rewrite (wsem_build _ _ _ _ Hb). unfold ncols. rewrite <- Hlen, firstn_len_app. unfold t_update.
        match goal with |- context [List.map ?f tb] =>
          rewrite (map_ext f (fun r0 => if spec_matches sfs r0 then r else r0))
            by (intros r0; cbv beta; rewrite ?HF; reflexivity) end.
        eexists. destruct (keys_unique k _); reflexivity.
      + eexists. reflexivity.
    - rewrite HB. eexists. reflexivity.
  Qed.

  Definition hk_ok (s : st) : Prop := match shk s with Some k => (k < List.length cols)%nat | None => True end.

  Lemma step_refines : forall s o, schema_ok cols = true -> op_wf (List.length cols) o = true -> hk_ok s ->
    let '(s', x, _) := step wsem osem cols s o in (s', x) = spec_step cols s o /\ hk_ok s'.
  Proof.
    intros s o Hsch Hwf Hk.
    pose proof (schema_nonempty _ Hsch) as Hne.
    destruct o as [| |r|fs|r fs|fs|n|ns|v|r|v|]; cbn [step].
    - (* create *)
      unfold do_create, hk_ok in *. destruct s as [[tb|] k hk od]; cbn [sdb stk shk sord spec_step] in *.
      + split; [reflexivity|]. cbn. destruct hk; [assumption|apply key_index_bound; assumption].
      + split; [reflexivity|]. cbn. destruct hk; [assumption|apply key_index_bound; assumption].
    - (* createif *)
      unfold do_create, hk_ok in *. destruct s as [[tb|] k hk od]; cbn [sdb stk shk sord spec_step] in *.
      + split; [reflexivity|]. cbn. destruct hk; [assumption|apply key_index_bound; assumption].
      + split; [reflexivity|]. cbn. destruct hk; [assumption|apply key_index_bound; assumption].
    - (* insert *)
      unfold run_stmt, hk_ok in *. destruct s as [[tb|] k hk od]; cbn [sdb stk shk sord spec_step exec] in *.
      + destruct (existsb (key_eqb k r) tb); cbn; split; try reflexivity; assumption.
      + split; [reflexivity|assumption].
    - (* read *)
      destruct (filtered_select s fs) as [q Hq]. rewrite Hq. split; [|assumption].
      cbn [spec_step]. destruct (sdb s); destruct (resolve cols fs); reflexivity.
    - (* update *)
      cbn [op_wf] in Hwf. apply Nat.eqb_eq in Hwf.
      destruct (filtered_update s fs r Hwf) as [q Hq]. rewrite Hq.
      cbn [spec_step]. destruct (sdb s) as [t|]; destruct (resolve cols fs) as [sfs|]; try (split; [reflexivity|assumption]).
      destruct (t_update (stk s) sfs r t); (split; [reflexivity|]); unfold hk_ok in *; cbn; assumption.
    - (* delete *)
      destruct (filtered_delete s fs) as [q Hq]. rewrite Hq.
      cbn [spec_step]. destruct (sdb s) as [t|]; destruct (resolve cols fs) as [sfs|]; try (split; [reflexivity|assumption]).
    - (* set key *)
      split; [reflexivity|]. unfold hk_ok. cbn. destruct (find_col cols n) eqn:E; [apply find_col_bound in E; assumption|exact I].
    - (* sort *) split; [reflexivity|]. unfold hk_ok in *. cbn. assumption.
    - (* read one *)
      cbn [spec_step]. unfold hk_ok in Hk. destruct (shk s) as [k|] eqn:EK.
      + destruct (schema_key _ _ Hsch Hk) as [HK1 _].
        destruct (filtered_select s [FBy (col_name cols k) OpEq v]) as [q Hq].
        cbn [List.map] in Hq. rewrite Hq. cbn [resolve]. rewrite HK1.
        split; [|unfold hk_ok; rewrite EK; assumption].
        destruct (sdb s) as [t|]; [|reflexivity].
        destruct (t_read [SF k OpEq v] (sord s) t); reflexivity.
      + destruct (sdb s); (split; [reflexivity|unfold hk_ok; rewrite EK; exact I]).
    - (* update one *)
      cbn [op_wf] in Hwf. apply Nat.eqb_eq in Hwf.
      cbn [spec_step]. unfold hk_ok in Hk. destruct (shk s) as [k|] eqn:EK.
      + destruct (schema_key _ _ Hsch Hk) as [_ HK2].
        destruct (nth_error r k) as [v|] eqn:EN.
        * destruct (filtered_update s [FBy (col_sql cols k) OpEq v] r Hwf) as [q Hq].
          cbn [List.map] in Hq. rewrite Hq. cbn [resolve]. rewrite HK2.
          rewrite (nth_error_nth _ _ dflt EN).
          destruct (sdb s) as [t|]; [|split; [reflexivity|unfold hk_ok; rewrite EK; assumption]].
          destruct (t_update (stk s) [SF k OpEq v] r t); (split; [rewrite ?EK; reflexivity|unfold hk_ok; cbn; rewrite ?EK; assumption]).
        * apply nth_error_None in EN. lia.
      + destruct (sdb s); (split; [reflexivity|unfold hk_ok; rewrite EK; exact I]).
    - (* delete one *)
      cbn [spec_step]. unfold hk_ok in Hk. destruct (shk s) as [k|] eqn:EK.
      + destruct (schema_key _ _ Hsch Hk) as [HK1 _].
        destruct (filtered_delete s [FBy (col_name cols k) OpEq v]) as [q Hq].
        cbn [List.map] in Hq. rewrite Hq. cbn [resolve]. rewrite HK1.
        destruct (sdb s) as [t|]; [|split; [reflexivity|unfold hk_ok; rewrite EK; assumption]].
        unfold t_delete. cbn [fst snd].
        split; [|unfold hk_ok; cbn; rewrite EK; assumption].
        rewrite ?EK. destruct (List.length (filter (spec_matches [SF k OpEq v]) t)); reflexivity.
      + destruct (sdb s); (split; [reflexivity|unfold hk_ok; rewrite EK; exact I]).
    - (* reopen *) split; [reflexivity|]. unfold hk_ok. cbn. exact I.
  Qed.

  Lemma run_from_refines : forall h s, schema_ok cols = true -> history_wf cols h = true -> hk_ok s ->
    run_from (step wsem osem cols) s h = spec_from cols s h.
  Proof.
    induction h as [|o h IH]; intros s Hsch Hwf Hk; [reflexivity|].
    cbn [history_wf forallb] in Hwf. apply andb_true_iff in Hwf as [Ho Hh].
    cbn [run_from spec_from].
    pose proof (step_refines s o Hsch Ho Hk) as HS.
    destruct (step wsem osem cols s o) as [[s' x] ss]. destruct HS as [HS Hk']. rewrite <- HS.
    rewrite (IH s' Hsch Hh Hk'). reflexivity.
  Qed.

  Lemma refines_table : forall h, schema_ok cols = true -> history_wf cols h = true ->
    results (run wsem osem cols h) = results (spec_run cols h).
  Proof. intros h Hs Hwf. unfold run, spec_run. rewrite run_from_refines by (try assumption; exact I). reflexivity. Qed.

  Lemma refines_table_state : forall h, schema_ok cols = true -> history_wf cols h = true ->
    run wsem osem cols h = spec_run cols h.
  Proof. intros h Hs Hwf. unfold run, spec_run. apply run_from_refines; try assumption. exact I. Qed.
End Refinement.

(* ---- the pinned code (before 1e0c750d) does not refine the table *)
Definition u1 : str := L "11111111-1111-1111-1111-111111111111".
Definition u2 : str := L "22222222-2222-2222-2222-222222222222".
Definition rec1 : row := [VS u1; VS (L "Tom"); VI 63; VB true; VS (L "[]"); VS (L "{}")].
Definition rec2 : row := [VS u2; VS (L "Mark"); VI 62; VB false; VS (L "[]"); VS (L "{}")].

(* unknown column: Delete removes every row *)
Definition witness_badcol : list op :=
  [OCreateIf; OInsert rec1; OInsert rec2; ODelete [FBy (L "Nmae") OpEq (VS (L "Tom"))]; ORead []].
(* explicit nil in front of a real filter (as ReadAllPermissions passes it): malformed SQL, error *)
Definition witness_nilfirst : list op :=
  [OCreateIf; OInsert rec1; OInsert rec2; ORead [FNil; FBy (L "name") OpEq (VS (L "Tom"))]].

Lemma old_refuted_badcol :
  history_wf demo_cols witness_badcol = true /\
  results (run_old wsem_ref osem_ref demo_cols witness_badcol) <> results (spec_run demo_cols witness_badcol).
Proof. split; [vm_compute; reflexivity|]. vm_compute. intros H. discriminate H. Qed.

Lemma old_refuted_nilfirst :
  history_wf demo_cols witness_nilfirst = true /\
  forallb (op_valid demo_cols) witness_nilfirst = true /\
  results (run_old wsem_ref osem_ref demo_cols witness_nilfirst) <> results (spec_run demo_cols witness_nilfirst).
Proof. split; [vm_compute; reflexivity|]. split; [vm_compute; reflexivity|]. vm_compute. intros H. discriminate H. Qed.

(* before 704512eb: a record that is there is "not found" by ReadOne on the handle of a reopened database *)
Definition witness_reopen_key : list op :=
  [OCreateIf; OInsert rec1; OReopen; OCreateIf; OReadOne (VS u1)].
Lemma old_refuted_reopen_key :
  history_wf demo_cols witness_reopen_key = true /\
  results (run_nokey wsem_ref osem_ref demo_cols witness_reopen_key) <> results (spec_run demo_cols witness_reopen_key).
Proof. split; [vm_compute; reflexivity|]. vm_compute. intros H. discriminate H. Qed.
