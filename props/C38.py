"""C38 Every user-visible message has localized text (internal/i18n, internal/errors/messages.go)."""
import json
import os
import re
import vf

GROUP = "Msg"
META = {
    "group": "Msg",
    "technique": "finite-domain proof by reflection on data regenerated from the tree on every run (language files compiled with "
                 "the tree's tools/lang compileFiles in an overlay harness and compared with the built-in messages map dumped in-package, message keys extracted from the source with go/ast) closed with general Coq theorems "
                 "(fallback lookup characterisation, lifting of the boolean check, negotiation soundness/optimality for all "
                 "candidate lists) + correspondence of the model's lookup and negotiation with the real i18n functions",
    "text": "C38_all_resolve (general lifting) is instantiated on every run with the table, the constant keys referenced by the "
            "source (errors.Message constants, i18n.T/Text/L/M/E/LLang/MLang/ELang literals, ui.Log/WriteLog keys with the log. "
            "prefix rule), the table compiled on every run from the language files with the tree's own tools/lang compiler, and the "
            "shipped languages: C38_this_tree : forall k l, In k keys -> In l langs -> "
            "In (k,l) exceptions \\/ (resolves /\\ same_placeholders), closed by vm_compute (about 1400 keys x 4 languages); the "
            "exceptions computed by Coq are the reported findings (none on the current tree: the 26 keys without text found on the "
            "pinned tree were repaired, 18 English texts + 8 corrected call-site keys). C38_fallback characterises the English fallback; "
            "C38_negotiate_header: for every header byte string and whatever ParseFloat returns for q values the result is \"\" or a "
            "shipped language (model of the header parsing: split, trim, q=, primary subtag, lower case); C38_negotiate / "
            "C38_negotiate_best: same over candidate lists, and the choice has maximal quality among the supported candidates. "
            "partial: keys computed at run time (66 call sites with a non-literal key argument) are listed, not checked; "
            "strings.TrimSpace/ToLower are modelled on ASCII and strconv.ParseFloat only on plain decimals (correspondence headers are ASCII)",
    "note": "Trusted: Coq kernel; harness/C38/c38_test.go (dump of the messages map, go/ast key extraction, placeholder extraction "
            "in props/C38.py cross-checked on the real Text output); the interning of keys/languages/placeholders as numbers.",
}

PH = re.compile(r"\{\{([^|}]*)(\|[^}]*)?\}\}")


def placeholders(text):
    return sorted({m.group(1).strip() for m in PH.finditer(text)})


def H(h):
    return "" if h == "-" else bytes.fromhex(h).decode("utf8", "replace")


def parse_header(header):
    """replica of NegotiateLanguage's parsing: [(lower-cased primary subtag, quality*1000 or None if not a finite 3-decimal number)]"""
    out = []
    header = header.strip(" \t\r\n\v\f")
    if header == "":
        return out
    for raw in header.split(","):
        raw = raw.strip(" \t\r\n\v\f")
        if raw == "":
            continue
        parts = raw.split(";")
        tag = parts[0].strip(" \t\r\n\v\f")
        if tag in ("", "*"):
            continue
        q = 1000
        for p in parts[1:]:
            p = p.strip(" \t\r\n\v\f")
            if not p.startswith("q="):
                continue
            m = re.fullmatch(r"(\d{1,3})(?:\.(\d{0,3}))?|\.(\d{1,3})", p[2:])
            if m:
                whole = int(m.group(1) or 0)
                frac = (m.group(2) or m.group(3) or "")
                q = whole * 1000 + int((frac + "000")[:3])
            # anything else: the generator only emits values ParseFloat rejects (quality stays as it was)
        primary = tag.split("-")[0].lower()
        if primary == "":
            continue
        out.append((primary, q))
    return out


QOK = ["0", "1", "0.5", "0.9", "0.25", "1.0", "0.001", "0.999", ".5", "0.10", "0.7", "1.", "0.123456", "00.5", "2"]
QBAD = ["abc", "", "05x", "--1", "1..2", "0.5.1", "q", "."]      # texts strconv.ParseFloat rejects


def gen_headers(rng, n, langs):
    """Accept-Language values: RFC style, POSIX-locale style (fr_CA, es.UTF-8, ja@euro) and otherwise odd tags."""
    fixed = ["", " ", "fr-CH, fr;q=0.9, en;q=0.8, de;q=0.7, *;q=0.5", "de", "DE-at", "*", "en", "EN-us", "ja;q=0.1, es;q=0.1",
             "de;q=1, es;q=0.999, fr;q=1.0", "xx, yy;q=0.5", "es;q=abc, fr;q=0.5", ",,fr,,", "-fr, en", "fr;q=0, en;q=0",
             "es ; q=0.3 , ja ; q=0.7", "fr;level=1;q=0.2, ja;q=0.3", "zh-Hant-TW, ja-JP;q=0.9", "en;q=0.5, en;q=0.9, es;q=0.7",
             "es;q=0.5;q=0.9, fr;q=0.8", "fr;Q=0.1, es;q=0.5",
             # POSIX-locale spellings and odd tags (seeded change C38-1: the supported test and the returned tag must agree)
             "fr_CA", "es.UTF-8", "ja@euro", "de;q=0.9,es_MX;q=0.5", "en_US.UTF-8", "FR_ca", "fr_", "_fr", "fr.", "fr@", "@", ".", "_",
             "-", "fr-", "ja_JP.eucJP@x, de", "C", "POSIX", "es_MX;q=0.5, xx", "*-fr", "*;q=1, ja_JP", "e n", "\tfr_CA \t", "fr;q=0.5,es@x",
             "en.utf8;q=0.1, fr_FR;q=0.2", "Ja", "jA-jp", "es_419", "fr__CA", "en-_US", "zz, es.ISO8859-1;q=0.3"]
    pool = list(langs) + ["de", "zh", "it", "pt", "xx", "EN", "Fr", "JA", "eS", "c", "posix"]
    out = list(fixed)
    while len(out) < n:
        k = rng.randint(1, 6)
        items = []
        for _ in range(k):
            t = rng.choice(pool)
            r = rng.random()
            if r < 0.3:
                t += "-" + rng.choice(["US", "ch", "419", "Hant-TW", ""])
            elif r < 0.6:
                t += rng.choice(["_", ".", "@"]) + rng.choice(["CA", "MX", "UTF-8", "euro", "utf8", "", "JP.eucJP", "FR@x"])
            elif r < 0.65:
                t = rng.choice(["*", "", " ", "_" + t, "." + t, "@" + t, "-" + t])
            r = rng.random()
            if r < 0.55:
                t += rng.choice([";q=", "; q=", " ;q=", ";\tq="]) + rng.choice(QOK)
            elif r < 0.7:
                t += ";q=" + rng.choice(QBAD)
            elif r < 0.75:
                t += ";" + rng.choice(["level=1", "Q=0.2", "q", "q =0.5", ""])
            items.append(t)
        out.append(rng.choice([", ", ",", " , ", ",\t"]).join(items))
    return out


def run(ck):
    quick = ck.tier == "quick"
    ck.cov["rule"] = ("domain: every constant message key found in the non-test Go source (go/ast) x every language of the compiled "
                      "messages map; headers: fixed list + generated Accept-Language values (tags from shipped and foreign "
                      "languages, regions, POSIX-locale spellings with _ . @, empty subtags, *, blanks/tabs, case, q parameters incl. malformed). distinct_nontrivial = distinct (key, language) "
                      "pairs that resolve by the English fallback or carry placeholders, plus distinct headers with >= 2 candidates")
    ck.assume("a call site whose key argument is not a string literal is outside the checked domain (listed as remainder)",
              "ui.Log / ui.WriteLog literals containing a blank or no '.' are log texts, not keys (ui.FormatLogMessage's own rule)",
              "errors.Message constants starting with '_' are flow-control signals documented as not localized")
    ck.trusted("harness/C38/lang_test.go: tools/lang compileFiles run on the shipped language files (the table of C38_this_tree)",
               "harness/C38/c38_test.go: dump of the built-in messages map, go/ast extraction of keys, real Text/NegotiateLanguage calls",
               "props/C38.py: interning of keys/languages/placeholders as numbers, placeholder extraction ({{name|format}}), header parsing replica (only used to count candidates)")
    thms = ["C38_fallback", "C38_all_resolve", "C38_negotiate", "C38_negotiate_best", "C38_negotiate_header"]
    ck.coq_stage(GROUP, theorems=thms)

    ok, binp = vf.go_test_build(ck.work, "internal/i18n", {"internal/i18n/zz_verif_c38_test.go": os.path.join(vf.HARNESS, "C38", "c38_test.go")},
                                "c38.test")
    if not ok:
        ck.violation("harness-build", "harness for internal/i18n does not build:\n" + binp[-1500:], replay={"log": binp[-3000:]},
                     found_input=False)
        return
    # languages are not known before the first run: headers use the usual four plus whatever the tree ships (second pass not needed:
    # unknown languages in the pool are simply unsupported candidates)
    headers = gen_headers(ck.rng, 300 if quick else 3000, ["en", "es", "fr", "ja"])
    if ck.replay_file:
        rp = json.load(open(ck.replay_file))["replay"]
        headers = rp.get("headers", []) or headers[:3]
    inp, outp = os.path.join(ck.work, "in.txt"), os.path.join(ck.work, "out.txt")
    with open(inp, "w") as f:
        for h in headers:
            f.write("H %s\n" % (h.encode().hex() or "-"))
    rc, log = vf.run_bin(binp, "^TestVerifC38$", {"VERIF_IN": inp, "VERIF_OUT": outp, "VERIF_SRC": vf.REPO})
    if rc != 0 or not os.path.exists(outp):
        ck.violation("harness-run", "harness failed:\n" + log[-1500:], replay={"log": log[-3000:]}, found_input=False)
        return
    langs, msgs, keysites, txt, neg, dyn, perr = [], {}, {}, {}, {}, [], []
    for line in open(outp):
        f = line.split()
        if f[0] == "LANG":
            langs.append(f[1])
        elif f[0] == "MSG":
            msgs.setdefault(H(f[1]), {})[f[2]] = H(f[3])
        elif f[0] == "KEY":
            keysites.setdefault(H(f[1]), []).append("%s %s" % (f[2], f[3]))
        elif f[0] == "TXT":
            txt[(H(f[1]), f[2])] = H(f[3])
        elif f[0] == "NEG":
            neg[H(f[1])] = H(f[2])
        elif f[0] == "DYN":
            dyn.append("%s %s" % (f[1], f[2]))
        elif f[0] == "PARSEERR":
            perr.append(f[1])
    if "en" not in langs or len(msgs) < 10 or len(keysites) < 10:
        ck.violation("translator", "translator output implausible: languages %s, %d table keys, %d referenced keys" % (
            langs, len(msgs), len(keysites)), replay={"log": log[-2000:]}, found_input=False)
        return
    langs = ["en"] + [l for l in langs if l != "en"]          # English gets id 0
    keys = sorted(keysites)

    # ---- the table the CURRENT message compiler (tools/lang) produces from the language files: what every fresh
    #      `go generate` puts into messages.go, independent of a messages.go generated earlier
    ok, lbin = vf.go_test_build(ck.work, "tools/lang", {"tools/lang/zz_verif_c38_test.go": os.path.join(vf.HARNESS, "C38", "lang_test.go")},
                                "c38lang.test")
    if not ok:
        ck.violation("harness-build", "harness for tools/lang does not build:\n" + lbin[-1500:], replay={"log": lbin[-3000:]},
                     found_input=False)
        return
    coutp = os.path.join(ck.work, "compiled.txt")
    genp = os.path.join(ck.work, "messages_now.go")
    rc, clog = vf.run_bin(lbin, "^TestVerifC38Compile$", {"VERIF_OUT": coutp, "VERIF_SRC": vf.REPO, "VERIF_GEN": genp})
    if rc != 0 or not os.path.exists(coutp):
        ck.violation("compile-run", "tools/lang compileFiles failed on the shipped language files:\n" + clog[-1500:],
                     replay={"log": clog[-3000:]}, found_input=False)
        return
    cmsgs = {}
    for line in open(coutp):
        f = line.split()
        if f and f[0] == "CMSG":
            cmsgs.setdefault(H(f[1]), {})[f[2]] = H(f[3])
    builtin = msgs                      # the table compiled into this build (generated messages.go)
    # writeMessageDictionary leaves out a translation that equals the English text (the fallback yields the same text)
    msgs = {k: {l: t for l, t in v.items() if l == "en" or t != v.get("en")} for k, v in cmsgs.items()}
    differing = sorted(k for k in set(builtin) | set(msgs) if builtin.get(k) != msgs.get(k))

    def body(path):
        try:
            txt_ = open(path, encoding="utf8", errors="replace").read()
        except OSError:
            return None
        i = txt_.find("var messages =")
        return txt_[i:] if i >= 0 else None
    if body(genp) is None or body(genp) != body(os.path.join(vf.REPO, "internal/i18n/messages.go")):
        differing = differing or ["(file text differs)"]
    for k in sorted(cmsgs):
        if k != k.strip() or " " in k or "\t" in k:
            ck.violation("key-blank:" + k.strip(), "the message compiler produces the key %r (blank inside/around the key): the entry of %s "
                         "cannot be found under the key the code uses" % (k, sorted(cmsgs[k])), replay={"key": k, "langs": sorted(cmsgs[k])})
    if differing:
        ck.violation("generated-table-differs", "internal/i18n/messages.go of this tree differs from what tools/lang compiles from the language "
                     "files now, e.g. at keys %s" % [repr(k) for k in differing[:5]], replay={"keys": differing[:20]})
    for k in keys:
        en_c = cmsgs.get(k, {}).get("en")
        for l in langs:
            t = cmsgs.get(k, {}).get(l, en_c)
            if not t:
                if not any(v["signature"] == "missing:" + k for v in ck.viol):
                    ck.violation("missing:" + k, "message key %r (used at %s) does not resolve for language %r in the table compiled from the "
                                 "language files (languages with text under exactly this key: %s)" % (
                                     k, ", ".join(keysites[k][:2]), l, sorted(cmsgs.get(k, {})) or "none"),
                                 replay={"key": k, "lang": l, "sites": keysites[k][:5]})
                break
            if en_c is not None and placeholders(t) != placeholders(en_c):
                sig = "placeholders:%s:%s" % (k, l)
                if not any(v["signature"] == sig for v in ck.viol):
                    ck.violation(sig, "message %r: %s text uses placeholders %s, English uses %s" % (k, l, placeholders(t), placeholders(en_c)),
                                 replay={"key": k, "lang": l, "text": t, "english": en_c})
    ck.cov["input_distribution"] = {"languages": langs, "table_keys": len(msgs), "referenced_constant_keys": len(keys),
                                    "key_call_sites": sum(len(v) for v in keysites.values()),
                                    "dynamic_key_call_sites_not_checked": len(dyn), "unparsed_files": perr, "headers": len(headers)}
    ck.notes.append("dynamic key call sites (remainder): " + "; ".join(dyn[:12]) + (" ..." if len(dyn) > 12 else ""))

    # ---- property oracle on the real lookups
    nontriv = set()
    for k in keys:
        en_ph = placeholders(txt.get((k, "en"), ""))
        for l in langs:
            real = txt.get((k, l))
            if real is None:
                continue
            if real == "" or real == k:
                if not any(v["signature"] == "missing:" + k for v in ck.viol):
                    ck.violation("missing:" + k, "message key %r (used at %s) does not resolve for language %r (neither that language nor English has text; "
                             "languages with text: %s): Text returns %s" % (
                    k, ", ".join(keysites[k][:2]), l, sorted(builtin.get(k, {})) or "none", "the key itself" if real == k else "an empty string"),
                    replay={"key": k, "lang": l, "sites": keysites[k][:5]})
                break
            if placeholders(real) != en_ph and not any(v["signature"] == "placeholders:%s:%s" % (k, l) for v in ck.viol):
                ck.violation("placeholders:%s:%s" % (k, l), "message %r: %s text uses placeholders %s, English uses %s" % (
                    k, l, placeholders(real), en_ph), replay={"key": k, "lang": l, "text": real, "english": txt.get((k, "en"))})
            if en_ph or l not in builtin.get(k, {}):
                nontriv.add((k, l))
    supported = set(langs)
    for h in headers:
        r = neg.get(h)
        if r is None:
            continue
        if r != "" and r not in supported:
            ck.violation("negotiate-unsupported", "NegotiateLanguage(%r) = %r which is not a shipped language" % (h, r),
                         replay={"headers": [h]})
        if len(parse_header(h)) >= 2:
            nontriv.add(h)

    # ---- generated Coq: table, keys, languages of this tree; obligation closed by vm_compute; exceptions = findings
    kid = {k: i for i, k in enumerate(sorted(set(msgs) | set(keys)))}
    lid = {l: i for i, l in enumerate(langs)}
    phid = {}
    rows = []
    for k in sorted(msgs):
        ents = []
        for l in langs:
            if l in msgs[k]:
                t = msgs[k][l]
                ids = sorted(phid.setdefault(p, len(phid)) for p in placeholders(t))
                ents.append("(%d, (%d, %s))" % (lid[l], len(t.encode()), vf.vN(ids)))
        rows.append("(%d, [%s])" % (kid[k], "; ".join(ents)))
    neg_cases = [h for h in headers if h in neg and all(ord(c) < 128 for c in h)]
    gen = ["From Msg Require Import Model Proofs Properties.", "Open Scope N_scope.",
           "Definition table_now : table := [", ";\n".join(rows), "].",
           "Definition keys_now : list N := %s." % vf.vN(kid[k] for k in keys),
           "Definition langs_now : list N := %s." % vf.vN(range(len(langs))),
           "Definition exceptions : list (N * N) := Eval vm_compute in failing_pairs table_now keys_now langs_now.",
           "(* the domain: the %d constant keys referenced by the source x the %d shipped languages of this tree *)" % (len(keys), len(langs)),
           "Theorem C38_this_tree : forall k l, In k keys_now -> In l langs_now ->",
           "  In (k, l) exceptions \\/ (resolves table_now k l = true /\\ same_placeholders table_now k l = true).",
           "Proof. apply C38_all_resolve. vm_compute. reflexivity. Qed.",
           "Print Assumptions C38_this_tree.",
           "Definition supported_now : list str := [%s]." % "; ".join(vf.vrunes(l) for l in langs),
           "Definition ncases : list (str * str) := [",
           ";\n".join("(%s, %s)" % (vf.vstr(h), vf.vstr(neg[h])) for h in neg_cases),
           "].",
           "Fixpoint idx {A} (f : A -> bool) (i : nat) (l : list A) : list nat :=",
           "  match l with [] => [] | x :: r => (if f x then [] else [i]) ++ idx f (S i) r end.",
           # what the model's translate picks: 0 = the language's own text, 1 = English, 2 = the key itself
           "Definition pick (k l : N) : N := match translate table_now k l with TLang _ => 0 | TEnglish _ => 1 | TKey => 2 end."]
    okc, res = vf.coq_eval(GROUP, ck.work, "Messages", "\n".join(gen), {
        "EXC": "flat_map (fun p => [fst p; snd p]) exceptions",
        "NEG": "idx (fun c => str_eqb (negotiate_header parse_q_dec supported_now (fst c)) (snd c)) 0%nat ncases",
        "PICK": "flat_map (fun k => map (pick k) langs_now) keys_now",
    })
    ck.cov["checker_cmd"] += " ; coqc <generated Messages.v: table/keys/langs of this tree, C38_this_tree by vm_compute>"
    if not okc:
        ck.add_obligations(1, 0)
        if not ck.viol:
            ck.violation("generated-obligation", "the generated obligation C38_this_tree no longer checks:\n" + str(res)[-1500:],
                         replay={"log": str(res)[-3000:]}, found_input=False)
        return
    ck.add_obligations(1)
    ck.cov.setdefault("property_theorems", []).append("Gen.Messages.C38_this_tree")
    exc = res["EXC"]
    rk = {v: k for k, v in kid.items()}
    exc_pairs = {(rk[exc[i]], langs[exc[i + 1]]) for i in range(0, len(exc), 2)}
    ck.cov["input_distribution"]["exceptions_in_C38_this_tree"] = len(exc_pairs)
    reported = {v["signature"] for v in ck.viol}
    for k, l in sorted(exc_pairs):
        # each exception must already have been exhibited on the real lookups above; if not, report it from the model side
        if ("missing:" + k) not in reported and ("placeholders:%s:%s" % (k, l)) not in reported:
            ck.violation("model-exception:%s:%s" % (k, l), "Coq finds (%r, %s) failing resolves/same_placeholders but the real lookup looked fine" % (k, l),
                         replay={"key": k, "lang": l}, found_input=False)
    # correspondence: real Text vs what the model's translate picks
    picks = res["PICK"]
    nbad = 0
    for i, k in enumerate(keys):
        for j, l in enumerate(langs):
            p = picks[i * len(langs) + j]
            want = msgs.get(k, {}).get(l) if p == 0 else msgs.get(k, {}).get("en") if p == 1 else k
            if txt.get((k, l)) != want and nbad < 5 and not differing:
                nbad += 1
                ck.violation("corr-lookup", "model/implementation disagree on Text(%r, %r): model picks %s, real %r" % (
                    l, k, ["the language's text", "the English text", "the key"][p], txt.get((k, l))), replay={"key": k, "lang": l},
                    found_input=False)
    for i in res["NEG"]:
        h = neg_cases[i]
        if any(v["signature"] == "negotiate-unsupported" and h in v["replay"].get("headers", []) for v in ck.viol):
            continue            # already reported with this header as the failing input
        ck.violation("corr-negotiate", "model/implementation disagree on NegotiateLanguage(%r): real %r, candidates %s" % (
            h, neg[h], parse_header(h)), replay={"headers": [h]}, found_input=False)
    ck.cov["evaluations"] = len(keys) * len(langs) + len(headers)
    ck.cov["traces_validated_against_impl"] = len(keys) * len(langs) + len(neg_cases)
    ck.cov["distinct_nontrivial"] = len(nontriv)
    for k in keys[:3]:
        ck.sample({"key": k, "sites": keysites[k][:2], "languages_with_text": sorted(msgs.get(k, {}))})
    for h in headers[2:5]:
        ck.sample({"header": h, "negotiated": neg.get(h)})
