(* Opt/Model.v — executable model of tucats/ego's peephole optimizer (internal/language/bytecode/optimizer.go:
   optimize, operandEqual, tryConstantArithmetic/executeFragment, Patch; optimizations.go: the rule table as
   data) and of the instruction semantics the rules rely on (stack.go push/drop/dropToMarker, load.go,
   store.go storeByteCode + Context.checkType, math.go add/sub/mul/div/incrementByteCode, equal.go
   getComparisonTerms, flow.go atLine/branches).  Values, kinds, modes, Normalize/Coerce/binop/store come
   from Arith/Model.v (C03).  Definitions only.

   [fixes] selects the code before/after the three repairs found with this model:
     fx_lit   7840b0b1-class: a placeholder never matches the Push of a function literal
     fx_fold  constant folding only when both operands are constants or have the same kind
     fx_inc   Increment stores its sum through checkType and has a bool case *)
From Coq Require Import List ZArith NArith Bool Arith.
From Common Require Import Base.
From Arith Require Import Model.
Import ListNotations.
Open Scope nat_scope.

(* ------------------------------------------------------------------ instructions *)
Inductive operand :=
| ONil
| OV (v : value)               (* a plain Go value: int, typed ints, bool, string *)
| OC (v : value)               (* data.Immutable{v}: a literal constant *)
| OM (l : N)                   (* StackMarker *)
| OFn (id : N) (lit : bool)    (* *ByteCode; lit = function literal (closure) *)
| OL1 (a : operand)            (* []any{a} *)
| OL2 (a b : operand)          (* []any{a, b} *)
| OX (id : N).                 (* anything else, equal only to itself *)

Inductive opcode :=
| Push | Drop | DropToMarker | Load | Store | SymbolCreate | SymbolOptCreate | CreateAndStore | StoreAlways
| OAdd | OSub | OMul | ODiv | LessThan | LessThanOrEqual | GreaterThan | GreaterThanOrEqual | Equal | NotEqual
| AtLine | PushScope | PopScope | Increment | Print | SetThis | LoadThis | StoreIndex
| Branch | BranchTrue | BranchFalse
| OtherBr (n : N)              (* LocalCall, PopTest, RangeNext, Try: operand is an address *)
| Other (n : N).               (* every other opcode *)

Definition instr : Type := (opcode * operand)%type.

Definition ikind_eq_dec : forall a b : ikind, {a = b} + {a <> b}. Proof. decide equality. Defined.
Definition value_eq_dec : forall a b : value, {a = b} + {a <> b}.
Proof. decide equality; try apply Z.eq_dec; try apply ikind_eq_dec; try apply bool_dec.
       apply (list_eq_dec N.eq_dec). Defined.
Definition operand_eq_dec : forall a b : operand, {a = b} + {a <> b}.
Proof. decide equality; try apply value_eq_dec; try apply N.eq_dec; try apply bool_dec. Defined.
Definition opcode_eq_dec : forall a b : opcode, {a = b} + {a <> b}.
Proof. decide equality; apply N.eq_dec. Defined.
Definition operand_eqb (a b : operand) : bool := if operand_eq_dec a b then true else false.
Definition opcode_eqb (a b : opcode) : bool := if opcode_eq_dec a b then true else false.

Definition is_branch (o : opcode) : bool :=
  match o with Branch | BranchTrue | BranchFalse | OtherBr _ => true | _ => false end.
(* data.Int(operand) of a branch instruction *)
Definition targets (i : instr) : list nat :=
  if is_branch (fst i) then match snd i with OV (VInt _ z) => [Z.to_nat z] | _ => [] end else [].
Definition retarget (f : nat -> nat) (i : instr) : instr :=
  if is_branch (fst i)
  then match snd i with OV (VInt k z) => (fst i, OV (VInt k (Z.of_nat (f (Z.to_nat z))))) | _ => i end
  else i.

(* ------------------------------------------------------------------ rules as data *)
Inductive pop :=
| PExact (o : operand)                                   (* concrete operand, nil included *)
| PEmpty                                                 (* empty{} *)
| PHole (name : N) (must_str excl_mark : bool) (cnt : option nat).   (* placeholder{...}; cnt = OptCount register *)
Inductive ritem := RIHole (name : N) | RIExact (o : operand).
Inductive rop :=
| RExact (o : operand) | RHole (name : N) | RL1 (a : ritem) | RL2 (a b : ritem) | RFold | RRead (reg : nat).
Record rule := { r_pat : list (opcode * pop); r_rep : list (opcode * rop) }.

Record fixes := { fx_lit : bool; fx_fold : bool; fx_inc : bool }.
Definition fx_now : fixes := {| fx_lit := true; fx_fold := true; fx_inc := true |}.
Definition fx_old : fixes := {| fx_lit := false; fx_fold := false; fx_inc := false |}.

Definition env := list (N * operand).
Definition regs := list (nat * Z).
Fixpoint env_get (e : env) (n : N) : option operand :=
  match e with [] => None | (k, v) :: r => if N.eqb k n then Some v else env_get r n end.
Fixpoint reg_get (r : regs) (n : nat) : Z :=
  match r with [] => 0%Z | (k, v) :: t => if Nat.eqb k n then v else reg_get t n end.
Definition is_go_string (o : operand) : bool := match o with OV (VStr _) => true | _ => false end.
Definition is_mark (o : operand) : bool := match o with OM _ => true | _ => false end.
Definition is_literal_fn (o : operand) : bool := match o with OFn _ true => true | _ => false end.
(* OptCount: nil counts 1, otherwise data.Int(operand) (0 on error) *)
Definition count_of (o : operand) : Z :=
  match o with ONil => 1%Z | OV (VInt _ z) => z | OC (VInt _ z) => z | _ => 0%Z end.

(* the matching loop of optimize for one rule at one position *)
Fixpoint match_pat (fx : fixes) (pat : list (opcode * pop)) (win : list instr) (e : env) (rg : regs)
  : option (env * regs) :=
  match pat, win with
  | [], _ => Some (e, rg)
  | _ :: _, [] => None
  | (pc, pp) :: pr, (oc, oo) :: wr =>
      if negb (opcode_eqb pc oc) then None else
      match pp with
      | PEmpty => match oo with ONil => match_pat fx pr wr e rg | _ => None end
      | PExact x => if operand_eqb x oo then match_pat fx pr wr e rg else None
      | PHole name ms em cnt =>
          if ms && negb (is_go_string oo) then None else
          if em && is_mark oo then None else
          if fx_lit fx && opcode_eqb pc Push && is_literal_fn oo then None else
          match env_get e name with
          | Some v => if operand_eqb v oo then match_pat fx pr wr e rg else None
          | None =>
              let rg' := match cnt with
                         | Some r => (r, (reg_get rg r + count_of oo)%Z) :: rg
                         | None => rg end in
              match_pat fx pr wr ((name, oo) :: e) rg'
          end
      end
  end.

(* ---- constant folding ---- *)
Definition arith_of (o : opcode) : option op :=
  match o with OAdd => Some Add | OSub => Some Sub | OMul => Some Mul | ODiv => Some Div | _ => None end.
Definition const_of (o : operand) : option (value * bool) :=
  match o with OV v => Some (v, false) | OC v => Some (v, true) | _ => None end.
(* foldIsModeIndependent *)
Definition fold_guard (a b : operand) : bool :=
  match const_of a, const_of b with
  | Some (v1, c1), Some (v2, c2) => (c1 && c2) || kind_eqb (kind_of v1) (kind_of v2)
  | _, _ => false
  end.
Inductive fold_res := FoldTo (o : operand) | FoldAbort | FoldOOM.
(* tryConstantArithmetic (operands treated as two constants, non-strict Normalize) for string+string and
   int/int64 + - *; otherwise executeFragment = the real opcode in strict mode with the real constness *)
Definition fold_const (o : opcode) (a b : operand) : fold_res :=
  match arith_of o, const_of a, const_of b with
  | Some ao, Some (v1, c1), Some (v2, c2) =>
      let fragment := match binop Strict ao (v1, c1) (v2, c2) with
                      | Ok r => FoldTo (OV r) | Err _ => FoldAbort | OOM => FoldOOM end in
      (* written with a default case so that new value constructors of Arith (floats) take the fragment path,
         i.e. Arith's own semantics of the opcode, OOM where Arith does not model it *)
      match v1, v2 with
      | VInt _ _, VInt _ _ =>
          match normalize v1 true v2 true false with
          | Ok (VInt k x, VInt _ y) =>
              if (ikind_eqb k Int || ikind_eqb k I64) then
                match ao with
                | Add => FoldTo (OV (VInt k (wrap k (x + y))))
                | Sub => FoldTo (OV (VInt k (wrap k (x - y))))
                | Mul => FoldTo (OV (VInt k (wrap k (x * y))))
                | _ => fragment
                end
              else fragment
          | _ => fragment
          end
      | _, _ => fragment
      end
  | _, _, _ => FoldOOM
  end.

Definition uses_fold (r : rule) : bool :=
  existsb (fun x => match snd x with RFold => true | _ => false end) (r_rep r).

Definition resolve (e : env) (x : ritem) : operand :=
  match x with RIHole n => match env_get e n with Some v => v | None => ONil end | RIExact o => o end.

Inductive build_res := Built (l : list instr) | BuildAbort | BuildOOM.
Fixpoint build_rep (rep : list (opcode * rop)) (win : list instr) (patlen : nat) (e : env) (rg : regs) : build_res :=
  match rep with
  | [] => Built []
  | (oc, ro) :: rr =>
      let rest := build_rep rr win patlen e rg in
      let emit (o : operand) := match rest with Built l => Built ((oc, o) :: l) | x => x end in
      match ro with
      | RExact o => emit o
      | RHole n => emit (resolve e (RIHole n))
      | RL1 a => emit (OL1 (resolve e a))
      | RL2 a b => emit (OL2 (resolve e a) (resolve e b))
      | RRead r => emit (OV (VInt Int (reg_get rg r)))
      | RFold =>
          match win with
          | (_, a) :: (_, b) :: _ =>
              match fold_const (fst (nth (patlen - 1) win (Other 0%N, ONil))) a b with
              | FoldTo o => emit o | FoldAbort => BuildAbort | FoldOOM => BuildOOM end
          | _ => BuildOOM
          end
      end
  end.

(* Patch: destinations after the start move by the change of length *)
Definition phi (start n m : nat) (a : nat) : nat := if start <? a then a + m - n else a.

(* branchTargets[idx+offset] for offset < n: no branch of the whole code lands in the window *)
Definition window_free (code : list instr) (idx n : nat) : bool :=
  forallb (fun j => forallb (fun a => (a <? idx) || (idx + n <=? a)) (targets j)) code.

Inductive try_res := Rewritten (code : list instr) | NoMatch | Abort | OutsideModel.
Definition try_rule (fx : fixes) (r : rule) (code : list instr) (idx : nat) : try_res :=
  let n := length (r_pat r) in
  let win := firstn n (skipn idx code) in
  if Nat.eqb n 0 then NoMatch else
  if negb (window_free code idx n) then NoMatch else
  if negb (Nat.eqb (length win) n) then NoMatch else
  match match_pat fx (r_pat r) win [] [] with
  | None => NoMatch
  | Some (e, rg) =>
      if fx_fold fx && uses_fold r &&
         negb (match win with (_, a) :: (_, b) :: _ => fold_guard a b | _ => false end) then NoMatch else
      match build_rep (r_rep r) win n e rg with
      | Built rep =>
          Rewritten (map (retarget (phi idx n (length rep))) (firstn idx code ++ rep ++ skipn (idx + n) code))
      | BuildAbort => Abort
      | BuildOOM => OutsideModel
      end
  end.

Fixpoint first_rule (fx : fixes) (rules : list rule) (code : list instr) (idx : nat) : try_res :=
  match rules with
  | [] => NoMatch
  | r :: rs => match try_rule fx r code idx with NoMatch => first_rule fx rs code idx | x => x end
  end.

Definition max_pat (rules : list rule) : nat := fold_right (fun r a => Nat.max (length (r_pat r)) a) 0 rules.

(* the scan loop; k bounds the number of iterations; None = a fold left the modelled value domain *)
Fixpoint opt_loop (k : nat) (fx : fixes) (rules : list rule) (code : list instr) (idx : nat) : option (list instr) :=
  match k with
  | O => Some code
  | S k' =>
      if length code <=? idx then Some code else
      match first_rule fx rules code idx with
      | Rewritten code' => opt_loop k' fx rules code' (idx + 2 - max_pat rules)
      | NoMatch => opt_loop k' fx rules code (S idx)
      | Abort => Some code
      | OutsideModel => None
      end
  end.
Definition optimize (fx : fixes) (rules : list rule) (code : list instr) : option (list instr) :=
  opt_loop (length code * (2 + max_pat rules) + 8) fx rules code 0.

(* ------------------------------------------------------------------ instruction semantics *)
Inductive item := IV (v : value) (c : bool) | IM (l : N) | IFn (id : N) (captured : bool).
Inductive slot := SVal (v : value) | SFn (id : N) (captured : bool)
              | SUndef.      (* symbols.UndefinedValue: declared by SymbolCreate, not yet assigned *)
Record st := { stk : list item; vars : list (str * slot); line : Z; out : list value }.
Inductive rerr := RUnderflow | RVoid | RUnknown | ROperand | RArith (e : err) | RVarType (e : err) | RExists | ROOM.
Definition fail : Type := (rerr * Z * list value)%type.      (* class, line, output so far *)

Definition set_stk (s : st) (k : list item) := {| stk := k; vars := vars s; line := line s; out := out s |}.
Definition set_vars (s : st) (v : list (str * slot)) := {| stk := stk s; vars := v; line := line s; out := out s |}.
Definition err_at (s : st) (e : rerr) : fail := (e, line s, out s).

Fixpoint var_get (vs : list (str * slot)) (n : str) : option slot :=
  match vs with [] => None | (k, v) :: r => if str_eqb k n then Some v else var_get r n end.
Fixpoint var_set (vs : list (str * slot)) (n : str) (v : slot) : option (list (str * slot)) :=
  match vs with
  | [] => None
  | (k, w) :: r => if str_eqb k n then Some ((k, v) :: r)
                   else match var_set r n v with Some r' => Some ((k, w) :: r') | None => None end
  end.

Definition underscore : str := [95%N].

(* block scopes inside the flat table: PushScope puts a mark entry (a name no identifier can have) in front;
   names are resolved innermost first (var_get / var_set take the first entry), a declaration only looks at the
   entries in front of the nearest mark, PopScope removes the entries up to and including it *)
Definition scope_mark : str := [0%N].
Fixpoint var_local (vs : list (str * slot)) (n : str) : option slot :=
  match vs with
  | [] => None
  | (k, v) :: r => if str_eqb k scope_mark then None else if str_eqb k n then Some v else var_local r n
  end.
Fixpoint pop_scope (vs : list (str * slot)) : option (list (str * slot)) :=
  match vs with [] => None | (k, _) :: r => if str_eqb k scope_mark then Some r else pop_scope r end.

(* Context.checkType + set, for a value popped from the stack *)
Definition do_store (m : mode) (s : st) (n : str) (x : value * bool) : st + fail :=
  let chk := match var_get (vars s) n with
             | Some (SVal ev) => store m ev x
             | _ => Ok (fst x)
             end in
  match chk with
  | Ok v => match var_set (vars s) n (SVal v) with
            | Some vs => inl (set_vars s vs)
            | None => inr (err_at s RUnknown) end
  | Err e => inr (err_at s (RVarType e))
  | OOM => inr (err_at s ROOM)
  end.

(* incrementByteCode's Normalize step and type switch.  After the repair (bool case, Add's switch) it is
   written with Arith.arith; the switch before the repair is kept locally (independent of Arith's cfg
   records): no bool case *)
Definition incr_switch_old (v1 v2 : value) : res value :=
  match v1 with VBool _ => Err EInvalidType | _ => arith Add v1 v2 end.
Definition increment_sum (fx : fixes) (m : mode) (v : value) (step : value * bool) : res value :=
  let '(inc, ic) := step in
  let strict := is_strict m in
  bind (if negb strict || ic then normalize v false inc ic strict
        else if kind_eqb (kind_of v) (kind_of inc) then Ok (v, inc) else Err ETypeMismatch)
       (fun p => if fx_inc fx then arith Add (fst p) (snd p) else incr_switch_old (fst p) (snd p)).

Definition cmp_of (o : opcode) : option N :=
  match o with LessThan => Some 0%N | LessThanOrEqual => Some 1%N | GreaterThan => Some 2%N
             | GreaterThanOrEqual => Some 3%N | Equal => Some 4%N | NotEqual => Some 5%N | _ => None end.
(* comparison of two fetched terms (getComparisonTerms + the opcode body) on integers, and == != on bools.
   Same kind: compared as they are.  Different kinds: when one term is a constant, or outside strict mode, the
   term of the lower kind is converted to the higher kind (data.Coerce = wrap) and the two are compared;
   two typed terms of different kinds are a type mismatch in strict mode.  Anything else is outside the model. *)
Definition cmp_z (c : N) (a b : Z) : bool :=
  match c with 0%N => Z.ltb a b | 1%N => Z.leb a b | 2%N => Z.ltb b a | 3%N => Z.leb b a
             | 4%N => Z.eqb a b | _ => negb (Z.eqb a b) end.
Definition compare_terms (m : mode) (c : N) (x y : value * bool) : res value :=
  match fst x, fst y with
  | VInt k a, VInt k' b =>
      if ikind_eqb k k' then Ok (VBool (cmp_z c a b))
      else if snd x || snd y || negb (is_strict m) then
        let kk := if (irank k <? irank k')%Z then k' else k in
        Ok (VBool (cmp_z c (wrap kk a) (wrap kk b)))
      else Err ETypeMismatch
  | VBool a, VBool b => match c with 4%N => Ok (VBool (Bool.eqb a b)) | 5%N => Ok (VBool (negb (Bool.eqb a b))) | _ => OOM end
  | _, _ => OOM
  end.

Fixpoint pop_n (k : nat) (l : list item) : option (list item) :=
  match k with O => Some l | S k' => match l with [] => None | _ :: r => pop_n k' r end end.
(* dropToMarkerByteCode (frame pointer 0) *)
Fixpoint drop_to (target : option N) (l : list item) : list item :=
  match l with
  | [] => []
  | IM x :: r => match target with None => r | Some t => if N.eqb x t then r else drop_to target r end
  | _ :: r => drop_to target r
  end.

Inductive xres := XCont (s : st) (j : option nat) | XFail (f : fail).

Definition exec (fx : fixes) (m : mode) (i : instr) (s : st) : xres :=
  let oom := XFail (err_at s ROOM) in
  match i with
  | (Push, OV v) => XCont (set_stk s (IV v false :: stk s)) None
  | (Push, OC v) => XCont (set_stk s (IV v true :: stk s)) None
  | (Push, OM l) => XCont (set_stk s (IM l :: stk s)) None
  | (Push, OFn id lit) => XCont (set_stk s (IFn id lit :: stk s)) None       (* a literal captures the scope *)
  | (Drop, o) =>
      match (match o with ONil => Some 1 | OV (VInt _ z) => Some (Z.to_nat z) | _ => None end) with
      | None => XFail (err_at s ROperand)
      | Some k => match pop_n k (stk s) with
                  | Some r => XCont (set_stk s r) None | None => XFail (err_at s RUnderflow) end
      end
  | (DropToMarker, ONil) => XCont (set_stk s (drop_to None (stk s))) None
  | (DropToMarker, OM l) => XCont (set_stk s (drop_to (Some l) (stk s))) None
  | (Load, OV (VStr n)) =>
      (* the blank identifier holds no value: the compiler never emits a read of it *)
      match (if str_eqb n underscore then None else var_get (vars s) n) with
      | Some (SVal v) => XCont (set_stk s (IV v false :: stk s)) None
      | Some (SFn id c) => XCont (set_stk s (IFn id c :: stk s)) None
      | Some SUndef => oom
      | None => XFail (err_at s RUnknown)
      end
  | (SymbolCreate, OV (VStr n)) =>
      (* symbolCreateByteCode: c.create(name) fails when the (single, flat) scope already has the name *)
      match var_local (vars s) n with
      | Some _ => XFail (err_at s RExists)
      | None => XCont (set_vars s ((n, SUndef) :: vars s)) None
      end
  | (PushScope, _) => XCont (set_vars s ((scope_mark, SUndef) :: vars s)) None
  | (PopScope, ONil) =>
      match pop_scope (vars s) with
      | Some vs => XCont (set_vars s vs) None
      | None => oom                               (* leaving the function's own scope: outside the model *)
      end
  | (Store, OV (VStr n)) =>
      match stk s with
      | [] => XFail (err_at s RUnderflow)
      | IM _ :: r => XFail (err_at (set_stk s r) RVoid)
      | IFn _ _ :: _ => oom
      | IV v c :: r =>
          if str_eqb n underscore then XCont (set_stk s r) None else
          match do_store m (set_stk s r) n (v, c) with inl s' => XCont s' None | inr f => XFail f end
      end
  | (CreateAndStore, OV (VStr n)) =>
      match stk s with
      | [] => XFail (err_at s RUnderflow)
      | IM _ :: r => XFail (err_at (set_stk s r) RVoid)
      | x :: r =>
          match var_get (vars s) n with
          | Some _ => XFail (err_at (set_stk s r) RExists)
          | None => XCont (set_vars (set_stk s r)
                             ((n, match x with IV v _ => SVal v | IFn id c => SFn id c | IM _ => SVal (VBool false) end) :: vars s)) None
          end
      end
  | (CreateAndStore, OL2 (OV (VStr n)) vo) =>
      match (match vo with OV v | OC v => Some (SVal v) | OFn id _ => Some (SFn id false) | _ => None end) with
      | None => oom
      | Some sl => match var_get (vars s) n with
                   | Some _ => XFail (err_at s RExists)
                   | None => XCont (set_vars s ((n, sl) :: vars s)) None end
      end
  | (Increment, OL2 (OV (VStr n)) ko) =>
      match (if str_eqb n underscore then None else var_get (vars s) n) with
      | None => XFail (err_at s RUnknown)
      | Some sl =>
          match const_of ko, sl with
          | Some step, SVal v =>
              match increment_sum fx m v step with
              | Ok r =>
                  if fx_inc fx
                  then match do_store m s n (r, false) with inl s' => XCont s' None | inr f => XFail f end
                  else match var_set (vars s) n (SVal r) with
                       | Some vs => XCont (set_vars s vs) None | None => XFail (err_at s RUnknown) end
              | Err e => XFail (err_at s (RArith e))
              | OOM => oom
              end
          | _, _ => oom          (* a step that is not a value, a function-valued variable *)
          end
      end
  | (AtLine, OV (VInt _ z)) => XCont {| stk := stk s; vars := vars s; line := z; out := out s |} None
  | (Print, _) =>
      match stk s with
      | IV v _ :: r => XCont {| stk := r; vars := vars s; line := line s; out := v :: out s |} None
      | _ => oom end
  | (Branch, OV (VInt _ z)) => XCont s (Some (Z.to_nat z))
  | (BranchTrue, OV (VInt _ z)) =>
      match stk s with
      | IV (VBool b) _ :: r => XCont (set_stk s r) (if b then Some (Z.to_nat z) else None)
      | _ => oom end
  | (BranchFalse, OV (VInt _ z)) =>
      match stk s with
      | IV (VBool b) _ :: r => XCont (set_stk s r) (if b then None else Some (Z.to_nat z))
      | _ => oom end
  | (oc, oo) =>
      match arith_of oc, cmp_of oc with
      | Some ao, _ =>
          match stk s with
          | IV v2 c2 :: IV v1 c1 :: r =>
              match binop m ao (v1, c1) (v2, c2) with
              | Ok v => XCont (set_stk s (IV v false :: r)) None
              | Err e => XFail (err_at (set_stk s r) (RArith e))
              | OOM => oom end
          | _ :: _ :: _ => oom                 (* markers (void results) and function values: outside the model *)
          | _ => XFail (err_at s RUnderflow)
          end
      | None, Some c =>
          (* getComparisonTerms: the second term comes from the operand []any{v} or from the stack *)
          let terms : option (item * list item) + unit :=
            match oo with
            | OL1 (OV v) => inl (Some (IV v false, stk s))
            | OL1 (OC v) => inl (Some (IV v true, stk s))
            | OL1 (OM l) => inl (Some (IM l, stk s))
            | OL1 (OFn id l) => inl (Some (IFn id l, stk s))
            | OL1 _ => inr tt
            | _ => match stk s with x :: r => inl (Some (x, r)) | [] => inl None end
            end in
          match terms with
          | inr _ => oom
          | inl None => XFail (err_at s RUnderflow)
          | inl (Some (t2, r)) =>
              match r with
              | [] => XFail (err_at s RUnderflow)
              | t1 :: r' =>
                  match t1, t2 with
                  | IV v1 c1, IV v2 c2 =>
                      match compare_terms m c (v1, c1) (v2, c2) with
                      | Ok v => XCont (set_stk s (IV v false :: r')) None
                      | Err e => XFail (err_at (set_stk s r') (RArith e))
                      | OOM => oom end
                  | IFn _ _, _ | _, IFn _ _ => oom
                  | _, _ => XFail (err_at (set_stk s r') RVoid)
                  end
              end
          end
      | None, None => oom
      end
  end.

(* ------------------------------------------------------------------ the rule table of optimizations.go *)
Definition nm (s : str) : operand := OV (VStr s).
Definition L_let : N := 2%N.
Definition h (n : N) : pop := PHole n false false None.
Definition cmp_rule (o : opcode) : rule :=
  {| r_pat := [(Push, h 1); (o, PEmpty)]; r_rep := [(o, RL1 (RIHole 1))] |}.
Definition fold_rule (o : opcode) : rule :=
  {| r_pat := [(Push, h 1); (Push, h 2); (o, PExact ONil)]; r_rep := [(Push, RFold)] |}.

Definition r_let_nop : rule := {| r_pat := [(Push, PExact (OM L_let)); (DropToMarker, PExact (OM L_let))]; r_rep := [] |}.
Definition r_push_drop : rule := {| r_pat := [(Push, h 0); (Drop, PExact (OV (VInt Int 1)))]; r_rep := [] |}.
Definition r_store_null : rule := {| r_pat := [(Store, PExact (nm underscore))]; r_rep := [(Drop, RExact ONil)] |}.
Definition r_create_null : rule := {| r_pat := [(SymbolOptCreate, PExact (nm underscore))]; r_rep := [] |}.
Definition r_increment : rule :=
  {| r_pat := [(Load, h 1); (Push, h 2); (OAdd, PExact ONil); (Store, h 1)];
     r_rep := [(Increment, RL2 (RIHole 1) (RIHole 2))] |}.
Definition r_atline : rule := {| r_pat := [(AtLine, h 1); (AtLine, h 2)]; r_rep := [(AtLine, RHole 2)] |}.
Definition r_loadthis : rule := {| r_pat := [(Load, h 1); (SetThis, PEmpty)]; r_rep := [(LoadThis, RHole 1)] |}.
Definition r_collapse_cas : rule :=
  {| r_pat := [(Push, PHole 1 false true None); (CreateAndStore, PHole 2 true false None)];
     r_rep := [(CreateAndStore, RL2 (RIHole 2) (RIHole 1))] |}.
Definition r_marker_const : rule :=
  {| r_pat := [(Push, PExact (OM L_let)); (Push, h 1); (CreateAndStore, h 2); (DropToMarker, PExact (OM L_let))];
     r_rep := [(Push, RHole 1); (CreateAndStore, RHole 2)] |}.
Definition r_popscope : rule :=
  {| r_pat := [(PopScope, PHole 1 false false (Some 1)); (PopScope, PHole 2 false false (Some 1))];
     r_rep := [(PopScope, RRead 1)] |}.
Definition r_create_store : rule :=
  {| r_pat := [(SymbolCreate, h 1); (Store, h 1)]; r_rep := [(CreateAndStore, RHole 1)] |}.
Definition r_storeindex : rule := {| r_pat := [(Push, h 1); (StoreIndex, PEmpty)]; r_rep := [(StoreIndex, RHole 1)] |}.
Definition r_storealways : rule :=
  {| r_pat := [(Push, h 1); (StoreAlways, PHole 2 true false None)];
     r_rep := [(StoreAlways, RL2 (RIHole 2) (RIHole 1))] |}.

(* rules proved sound over the instruction semantics above *)
Definition proved_rules : list rule :=
  [r_let_nop; r_increment;
   cmp_rule LessThan; cmp_rule LessThanOrEqual; cmp_rule GreaterThan; cmp_rule GreaterThanOrEqual;
   cmp_rule Equal; cmp_rule NotEqual; r_collapse_cas].
(* rules whose opcodes or operand shapes (symbol-table scopes, receivers, containers, arbitrary operands of
   AtLine / Push, the mode-independence of folded arithmetic) are outside the proved set: the table entry is
   pinned here, the behaviour is observed on the real VM only *)
Definition observed_rules : list rule :=
  [r_push_drop; r_store_null; r_create_null; r_atline; r_loadthis; r_marker_const; r_popscope; r_create_store;
   r_storeindex; r_storealways; fold_rule OAdd; fold_rule OSub; fold_rule OMul; fold_rule ODiv].

Definition pop_eq_dec : forall a b : pop, {a = b} + {a <> b}.
Proof. decide equality; try apply operand_eq_dec; try apply N.eq_dec; try apply bool_dec.
       decide equality. apply Nat.eq_dec. Defined.
Definition ritem_eq_dec : forall a b : ritem, {a = b} + {a <> b}.
Proof. decide equality; try apply operand_eq_dec; try apply N.eq_dec. Defined.
Definition rop_eq_dec : forall a b : rop, {a = b} + {a <> b}.
Proof. decide equality; try apply operand_eq_dec; try apply N.eq_dec; try apply ritem_eq_dec; try apply Nat.eq_dec. Defined.
Definition rule_eq_dec : forall a b : rule, {a = b} + {a <> b}.
Proof.
  decide equality.
  - apply list_eq_dec. decide equality; [apply rop_eq_dec | apply opcode_eq_dec].
  - apply list_eq_dec. decide equality; [apply pop_eq_dec | apply opcode_eq_dec].
Defined.
Definition rule_eqb (a b : rule) : bool := if rule_eq_dec a b then true else false.
Definition table_covered (dumped : list rule) : bool :=
  forallb (fun r => existsb (rule_eqb r) (proved_rules ++ observed_rules)) dumped.

(* observable result of a whole program *)
Definition init_st : st := {| stk := []; vars := []; line := 0; out := [] |}.
