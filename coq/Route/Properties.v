(* Route/Properties.v — property theorems of C32 only; proofs live in Proofs.v. *)
From Coq Require Import Permutation.
From Common Require Import Base.
From Route Require Import Model Proofs Enum.
Open Scope N_scope.

(* The full statement of the property: FindRoute's answer never depends on the iteration order. *)
Definition C32_statement : Prop :=
  forall T T' method path, Permutation T T' -> find_route T' method path = find_route T method path.

(* It does not hold for FindRoute as coded: two candidates without variables ("/" and "/x" for the
   path "/x"): the first one visited wins. *)
Theorem C32_refuted : ~ C32_statement.
Proof.
  intros H. destruct refuted as (T & T' & m & p & P & N). apply N, H, P.
Qed.

(* Whenever the deciding stage of the cascade has exactly one qualifying candidate (decidable: det),
   every iteration order of the same table gives the same answer for that request ... *)
Theorem C32_perm_invariant_at :
  forall T T' m ps, det (cands T m ps) ps = true -> Permutation T T' ->
    find_parts T' m ps = find_parts T m ps.
Proof. exact perm_invariant_at. Qed.

(* ... hence for an unambiguous table FindRoute is a function of method and path only. *)
Theorem C32_perm_invariant :
  forall T, unambiguous T -> forall T' method path, Permutation T T' ->
    find_route T' method path = find_route T method path.
Proof. exact perm_invariant. Qed.

(* No hidden state: on one router, with registrations and lookups interleaved in any way, every lookup
   answers find_route on the routes registered so far ... *)
Theorem C32_history_table :
  forall h m p, run [] (h ++ [Look m p]) = run [] h ++ [find_route (regs h) m p].
Proof. exact history_table. Qed.

(* ... so two histories that have registered the same routes (in any order, with any earlier
   lookups, also of the same path) get the same answer for a request the table decides (det). *)
Theorem C32_stateless :
  forall h h' m p, Permutation (regs h) (regs h') ->
    det (cands (regs h) (upper m) (split (norm_path p))) (split (norm_path p)) = true ->
    exists o, run [] (h ++ [Look m p]) = run [] h ++ [o] /\ run [] (h' ++ [Look m p]) = run [] h' ++ [o].
Proof. exact stateless. Qed.

(* The empty path (request line "GET http://host HTTP/1.1") is the root path since the repair;
   before it every route of the method was a candidate and the answer depended on the order. *)
Theorem C32_empty_path_is_root : forall T m, find_route T m [] = find_route T m [SLASH].
Proof. exact empty_is_root. Qed.

Theorem C32_old_refuted :
  exists T T' m, Permutation T T' /\ find_route_old T' m [] <> find_route_old T m [].
Proof. exact old_refuted. Qed.

(* A verified finite enumeration of request classes (Enum.v): every segment of a request path is
   abstracted to itself when it is empty or one of the literal segments occurring at that position in
   some endpoint, else to FRESH; methods to themselves when some route names them, else FRESHM;
   prefixes that at most one route per method class can still match are not extended; beyond the
   saturation depth nsat T nothing changes any more.  certificate_f T is a boolean computed from the
   table alone; when it is true EVERY request (any method string, any path string) is decided at a
   stage with exactly one qualifying candidate ... *)
Theorem C32_certificate_sound :
  forall T, certificate_f T = true ->
    forall m p, det (cands T (upper m) (split (norm_path p))) (split (norm_path p)) = true.
Proof. exact certificate_f_sound. Qed.

(* ... hence FindRoute on that table is a function of method and path only, for all requests. *)
Theorem C32_certificate_deterministic :
  forall T, certificate_f T = true ->
    forall T' method path, Permutation T T' -> find_route T' method path = find_route T method path.
Proof. exact certificate_f_deterministic. Qed.

(* Fewer variables are preferred: unless a candidate is spelled exactly like the path, the chosen
   route has no more "{{" variables than any other candidate (any order, ambiguous or not). *)
Theorem C32_fewest_vars :
  forall cs m ps r c, choose cs m ps = Found r -> In c cs -> existsb (exact ps) cs = false ->
    nvars r <= nvars c.
Proof. exact fewest_vars. Qed.

(* non-vacuity: /tables/@sql (no variable) beats /tables/{{name}}; det holds, two candidates *)
Definition s_sql : str := [47;116;47;64;115;113;108].                    (* "/t/@sql" *)
Definition s_var : str := [47;116;47;123;123;110;125;125].              (* "/t/{{n}}" *)
Definition s_var2 : str := [47;123;123;97;125;125;47;123;123;110;125;125]. (* "/{{a}}/{{n}}" *)
Example C32_nonvacuous :
  let T := [mkRoute s_var2 sGET; mkRoute s_var sGET; mkRoute s_sql ANY] in
  let ps := split (norm_path s_sql) in
  length (cands T sGET ps) = 3%nat /\ det (cands T sGET ps) ps = true /\
  find_route T sGET s_sql = Found (mkRoute s_sql ANY) /\
  find_route (rev T) sGET s_sql = Found (mkRoute s_sql ANY) /\
  (* two variable routes only: the one with fewer variables *)
  find_route [mkRoute s_var2 sGET; mkRoute s_var sGET] sGET s_sql = Found (mkRoute s_var sGET) /\
  existsb (exact ps) (cands T sGET ps) = false /\
  find_route [mkRoute s_var sGET; mkRoute s_sql ANY] sGET [] = NotFound /\
  (* history: the same path looked up before and after the more specific route is registered *)
  run [] [Reg (mkRoute s_var sGET); Look sGET s_sql; Reg (mkRoute s_sql ANY); Look sGET s_sql]
    = [Found (mkRoute s_var sGET); Found (mkRoute s_sql ANY)].
Proof. vm_compute. repeat split; reflexivity. Qed.

(* non-vacuity: a table with overlapping routes (literal vs variable, glob) that passes, and the
   tie table of C32_refuted that does not *)
Example C32_certificate_nonvacuous :
  certificate_f [mkRoute s_var2 sGET; mkRoute s_var sGET; mkRoute s_sql ANY;
                 mkRoute [47;97;47;123;123;103;46;46;46;125;125] sGET] = true /\
  certificate_f T_tie = false.
Proof. vm_compute. split; reflexivity. Qed.

