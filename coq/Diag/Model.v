(* Diag/Model.v — diagnostics modes on top of the MiniEgo VM model (coq/VM).
   * tracing (run.go: `if c.Tracing() { traceInstruction(c, i) }`, trace.go) and statement profiling
     (flow.go atLineByteCode: counters and timers in c.bc's profile slots, profile.go) only read the context
     and write to a side channel (log / profile table): an observer of type ctx -> instr -> list ev;
   * the debugger (flow.go atLineByteCode returns ErrSignalDebugger for every line when c.debugging;
     debugger.go runFrom: Resume() after the prompt answered with `continue`). *)
From Coq Require Import ZArith NArith List Bool.
Import ListNotations.
From VM Require Import Model.
Open Scope nat_scope.

Section Observer.
  Variable ev : Type.
  Variable obs : ctx -> instr -> list ev.      (* sees the context before the instruction, can not change it *)

  (* RunFromAddress with an observer hooked into the dispatch loop; deferred calls run in child contexts whose
     own side output is not part of the program's behaviour either *)
  Fixpoint run_with (fuel : nat) (p : program) (g : glob) (c : ctx) (log : list ev)
    : glob * ctx * outcome * list ev :=
    match fuel with
    | O => (g, c, OutOfFuel, log)
    | S f =>
        if negb (c_running c) then (g, c, Finished None, log) else
        match nth_error (code_of p (c_code c)) (c_pc c) with
        | None => (g, c, Finished None, log)
        | Some i =>
            let log' := log ++ obs c i in
            let child := fun g' c' => match run f p g' c' with
                                       | (g'', _, Finished e) => (g'', e)
                                       | (g'', _, OutOfFuel) => (g'', Some EOther) end in
            match step child p g c i with
            | ((g1, c1, _), false) => run_with f p g1 c1 log'
            | ((g1, c1, e), true) => (g1, c1, Finished e, log')
            end
        end
    end.

  Definition project (r : glob * ctx * outcome * list ev) : glob * ctx * outcome := fst r.
End Observer.

(* trace.go: one record per dispatched instruction; profile: one count per AtLine *)
Inductive dev := TraceInstr (pc : nat) (depth : nat) | ProfileLine (line : Z).
Definition trace_obs (c : ctx) (i : instr) : list dev := [TraceInstr (c_pc c) (length (c_stack c))].
Definition profile_obs (c : ctx) (i : instr) : list dev :=
  match i with IAtLine n => if Z.ltb 0 n then [ProfileLine n] else [] | _ => [] end.

(* debugger.go runFrom with every prompt answered `continue`: resume after each debugger signal *)
Definition set_debug (c : ctx) (b : bool) : ctx :=
  {| c_code := c_code c; c_pc := c_pc c; c_stack := c_stack c; c_fp := c_fp c; c_syms := c_syms c;
     c_trys := c_trys c; c_defers := c_defers c; c_running := c_running c; c_panic := c_panic c;
     c_result := c_result c; c_dsyms := c_dsyms c; c_debug := b |}.

Fixpoint debug_loop (stops fuel : nat) (p : program) (g : glob) (c : ctx) : glob * ctx * outcome :=
  match stops with
  | O => (g, c, OutOfFuel)
  | S n =>
      match run fuel p g c with
      | (g1, c1, Finished (Some ESignalDebugger)) => debug_loop n fuel p g1 (set_running c1 true)
      | r => r
      end
  end.

Definition run_program_debug (stops fuel : nat) (p : program) : list Z :=
  let '(g, _, o) := debug_loop stops fuel p init_glob (init_ctx true) in outcome_class o :: out_ints g.

(* the same loop over the code before fix 6274accc (handle_catch_old) — one dispatch step only, enough for
   the refutation witness *)
Definition step_old (child : glob -> ctx -> glob * option err) (p : program) (g : glob) (c : ctx) (i : instr)
  : glob * ctx * option err :=
  let '(g1, c1, e) := exec child p g (set_pc c (S (c_pc c))) i in
  let '(c2, e2) := handle_catch_old c1 e in (g1, c2, e2).

(* debugger.go runFrom fused with RunFromAddress under ONE fuel: every dispatched instruction costs one unit in
   both; when the instruction was a line marker and the loop returned the debugger signal, the debugger (prompt
   answered `continue`) calls Resume(): running := true, execution goes on at the current pc. *)
Definition is_atline (i : instr) : bool := match i with IAtLine _ => true | _ => false end.

Fixpoint run_debug_continue (fuel : nat) (p : program) (g : glob) (c : ctx) : glob * ctx * outcome :=
  match fuel with
  | O => (g, c, OutOfFuel)
  | S f =>
      if negb (c_running c) then (g, c, Finished None) else
      match nth_error (code_of p (c_code c)) (c_pc c) with
      | None => (g, c, Finished None)
      | Some i =>
          let child := fun g' c' => match run f p g' c' with
                                     | (g'', _, Finished e) => (g'', e)
                                     | (g'', _, OutOfFuel) => (g'', Some EOther) end in
          match step child p g c i with
          | ((g1, c1, _), false) => run_debug_continue f p g1 c1
          | ((g1, c1, Some ESignalDebugger), true) =>
              if is_atline i then run_debug_continue f p g1 (set_running c1 true)
              else (g1, c1, Finished (Some ESignalDebugger))
          | ((g1, c1, e), true) => (g1, c1, Finished e)
          end
      end
  end.

Definition run_program_debug_continue (fuel : nat) (p : program) : list Z :=
  let '(g, _, o) := run_debug_continue fuel p init_glob (init_ctx true) in outcome_class o :: out_ints g.
