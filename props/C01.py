"""C01 Go-compatible programs print what Go prints."""
import os
import sys
import json
import vf

sys.path.insert(0, os.path.join(vf.VERIF, "lib"))
import gosub_wide as gw  # noqa: E402

GROUP = "GoSub"
XQ = ("Arith", "Opt")
THEOREMS = ["C01_core_compile_correct_partial", "C01_refuted_const_subexpression", "C01_stmt_compile_correct_partial", "C01_stmt_full"]
META = {
    "group": "GoSub",
    "technique": "Coq proof of compile correctness (Go reference semantics vs the Ego compiler's emission run on the VM instruction "
                 "model of C02/C03) for typed integer expressions + three-way correspondence (go_eval vs the real Go toolchain, the VM "
                 "model vs the real ego binary in every type mode) + Ego-vs-Go differential on generated programs over the documented subset",
    "text": "Theorem C01_core_compile_correct_partial: for every integer kind, type mode, environment and Go-typed expression over "
            "+ - * / with literals and variables (excluding an operator applied to two literals and literals above MaxInt64) the "
            "compiled code pushes exactly Go's value with Go's type, or fails with division by zero exactly when Go panics. "
            "Theorem C01_stmt_compile_correct_partial: for programs of x := e, x = e, x += -= *= /= e, x++ / x--, fmt.Println(e), "
            "sequencing and if/else on a comparison nested to any depth, the bytecode compile_stmt emits (let markers, "
            "Load/arith/SymbolCreate/Store/DropToMarker, native print, BranchFalse/Branch with absolute addresses), run by the VM "
            "model from its first instruction, ends with exactly Go's final environment and printed "
            "values and an empty stack, or stops with division by zero after Go's output exactly when Go panics (every kind, every "
            "mode). C01_refuted_const_subexpression shows an excluded cell is a real divergence. go_eval / go_exec are compared with the "
            "real Go toolchain, the VM model with the real ego binary in three modes, and compile_stmt (if/else included) instruction "
            "for instruction with the real compiler's dumped bytecode (line markers and the fetch of fmt.Println canonicalised) on "
            "every run; the three-clause for loop is modelled (go_exec_l, compile_l with the per-iteration scope copy through PushScope/PopScope) "
            "and tied the same three ways, not proved; the wider documented subset is compared Ego-vs-Go on generated programs. "
            "partial: the loop's simulation proof, break/continue, calls, strings/bools, block-scoped "
            "declarations and everything beyond are observed by the differential only",
    "note": "Trusted: Coq kernel; the instruction semantics of Opt/Model.v and Arith/Model.v (tied by C02/C03); GoSub.compile as a "
            "hand transliteration of the expression compiler; lib/gosub_wide.py (program generator, batch runner, comparison); the Go "
            "toolchain as the reference.",
}
KINDS = [("int8", "I8", -128, 127), ("int16", "I16", -32768, 32767), ("int32", "I32", -2 ** 31, 2 ** 31 - 1),
         ("int64", "I64", -2 ** 63, 2 ** 63 - 1), ("int", "Int", -2 ** 63, 2 ** 63 - 1), ("uint8", "Byte", 0, 255),
         ("uint16", "U16", 0, 65535), ("uint32", "U32", 0, 2 ** 32 - 1), ("uint64", "U64", 0, 2 ** 64 - 1)]
VARS = ["a", "b", "c"]
OPS = [("+", "BAdd"), ("-", "BSub"), ("*", "BMul"), ("/", "BDiv")]


def gen_expr(rng, lo, hi, depth, need_var=True, topop=None):
    """(go text, coq term, is literal).  Literals are non-negative (no unary minus), in the kind's range and <= MaxInt64;
    never an operator on two literals; never a literal zero divisor (a Go compile error)."""
    if depth == 0 or (not need_var and rng.random() < 0.3):
        if need_var or rng.random() < 0.55:
            v = rng.choice(VARS)
            return v, "(EVar %s)" % vf.vrunes(v), False
        top = min(hi, 2 ** 63 - 1)
        z = rng.choice([1, 2, 3, 7, top, top - 1, top // 2, rng.randint(1, min(top, 1000))])
        if lo < 0 and rng.random() < 0.4:
            z = -z        # printed as gofmt prints it: `a - -4` (binary minus, space, unary minus)
        return str(z), "(EConst (%d))" % z, True
    op, cop = topop or rng.choice(OPS)
    l = gen_expr(rng, lo, hi, depth - 1, need_var=False)
    r = gen_expr(rng, lo, hi, depth - 1, need_var=l[2])
    if l[2] and r[2]:
        r = gen_expr(rng, lo, hi, 0, need_var=True)
    return "(%s %s %s)" % (l[0], op, r[0]), "(EBin %s %s %s)" % (cop, l[1], r[1]), False


def gen_core(rng, idx, kind=None, topop=None):
    gk, ck, lo, hi = kind or rng.choice(KINDS)
    top = min(hi, 2 ** 63 - 1)        # an initializer above MaxInt64 is a recorded finding (uint64-literal-above-maxint64)
    vals = [rng.choice([lo, lo + 1, top, top - 1, 0, 1, 2, 3, 7, rng.randint(lo, top)]) for _ in VARS]
    go, coq, _ = gen_expr(rng, lo, hi, rng.randint(1, 3) if topop is None else rng.randint(1, 2), topop=topop)
    decl = "\n".join("\tvar %s %s = %s" % (v, gk, ("%d" % z if z >= 0 else "-%d" % -z)) for v, z in zip(VARS, vals))
    # every variable is used; the minimum of a signed kind is written as an expression Go and Ego both accept
    decl = decl.replace("= -%d" % -lo, "= -%d - 1" % (-lo - 1)) if lo < 0 else decl
    text = "func prog@() {\n%s\n\t_ = a\n\t_ = b\n\t_ = c\n\tfmt.Println(%s)\n}\n" % (decl, go)
    p = gw.from_template(text, idx)
    p["core"] = {"kind": gk, "ck": ck, "vals": vals, "go": go, "coq": coq,
                 "env": "[" + "; ".join("(%s, (%d))" % (vf.vrunes(v), z) for v, z in zip(VARS, vals)) + "]"}
    return p


ADJ_CORPUS = """func prog@() {
	var x int8 = 100
	var s int8 = 7
	t := true
	u := false
	fmt.Println(x - -4, x - -s, x + -s, x * -s, x / -s)
	fmt.Println(x < -s, x == -s, -x <= -s, x != -s, -x - -s)
	fmt.Println(t && !u, !t || !u, t == !u, !t != !u)
	p := &x
	fmt.Println(s * *p, s / *p, s - *p)
	x = -x
	s = - -s
	fmt.Println(x, s)
	step := 3
	total := 10
	for i := 3; i > 0; i-- {
		total = total - -step
	}
	total--
	fmt.Println(total, total - -1)
}
"""
SIGNED = [k for k in KINDS if k[2] < 0]


def gen_adjacent(rng, idx):
    """operator adjacency as gofmt prints it: a binary operator followed by a unary minus / not / dereference"""
    gk, _, lo, hi = rng.choice(SIGNED)
    top = min(hi, 1000)
    x, s = rng.randint(1, top), rng.randint(1, min(top, 9))
    lines = ["\tvar x %s = %d" % (gk, x), "\tvar s %s = %d" % (gk, s), "\tp := &s", "\tt := %s" % rng.choice(["true", "false"]),
             "\tu := %s" % rng.choice(["true", "false"])]
    ar, cmp_ = ["+", "-", "*", "/"], ["<", "<=", "==", "!=", ">", ">="]
    ops = ["-x", "-s", "-%d" % rng.randint(1, min(top, 100)), "*p", "-*p", "- -s"]
    exprs = []
    for _ in range(rng.randint(3, 6)):
        r = rng.random()
        if r < 0.55:
            exprs.append("%s %s %s" % (rng.choice(["x", "s", "-x"]), rng.choice(ar), rng.choice(ops)))
        elif r < 0.8:
            exprs.append("%s %s %s" % (rng.choice(["x", "s", "-x"]), rng.choice(cmp_), rng.choice(ops)))
        else:
            exprs.append("%s %s %s" % (rng.choice(["t", "!t"]), rng.choice(["&&", "||", "==", "!="]), rng.choice(["!u", "u"])))
    exprs += ["s - -*p", "t == !u"]          # every declared variable is used (Go rejects unused ones)
    lines.append("\tfmt.Println(%s)" % ", ".join(exprs))
    lines.append("\tx = x - -s\n\tx--\n\tx = -x\n\tfmt.Println(x, x - -1)")
    return gw.from_template("func prog@() {\n%s\n}\n" % "\n".join(lines), idx)


SC_CORPUS = """type Inner@ struct {
	X int
}
type Mid@ struct {
	In Inner@
	N  int
}
type Outer@ struct {
	M Mid@
	K int
}
type Top@ struct {
	O Outer@
}

func byval@(o Outer@) int {
	o.M.In.X = 55
	o.M.N = 56
	return o.M.In.X + o.M.N
}

func prog@() {
	a := Outer@{M: Mid@{In: Inner@{X: 1}, N: 2}, K: 3}
	b := a
	b.M.In.X = 99
	b.M.N = 98
	b.K = 97
	fmt.Println(a.M.In.X, a.M.N, a.K, b.M.In.X, b.M.N, b.K)
	var c Outer@
	c = a
	c.M.In.X = 77
	fmt.Println(a.M.In.X, c.M.In.X)
	fmt.Println(byval@(a), a.M.In.X, a.M.N)
	t := Top@{O: a}
	u := t
	u.O.M.In.X = 44
	fmt.Println(t.O.M.In.X, u.O.M.In.X, a.M.In.X)
	m := a.M
	m.In.X = 33
	fmt.Println(a.M.In.X, m.In.X)
	t.O = b
	t.O.M.In.X = 22
	fmt.Println(b.M.In.X, t.O.M.In.X)
}
"""


def gen_structcopy(rng, idx):
    """struct values nested 3-5 levels deep, copied by :=, =, argument passing, field store and sub-struct extraction;
    the innermost field is written through the copy and read through the original (Go: value semantics at every depth)"""
    depth = rng.randint(3, 5)
    names = ["L%d@" % i for i in range(depth)]                # L0 innermost
    decl = ["type %s struct {\n\tX int\n\tY int\n}" % names[0]]
    for i in range(1, depth):
        decl.append("type %s struct {\n\tF %s\n\tN int\n}" % (names[i], names[i - 1]))
    top = names[-1]
    path = ".".join(["F"] * (depth - 1))                       # from a top value to the innermost struct

    def lit(i, x):
        return "%s{X: %d, Y: %d}" % (names[0], x, x + 1) if i == 0 else "%s{F: %s, N: %d}" % (names[i], lit(i - 1, x), i)
    decl.append("func mut@(v %s) int {\n\tv.%s.X = 500\n\tv.N = 501\n\treturn v.%s.X + v.N\n}" % (top, path, path))
    body = ["\ta := %s" % lit(depth - 1, rng.randint(1, 9))]
    n = 0
    for _ in range(rng.randint(3, 6)):
        n += 1
        v, k = "c%d" % n, rng.randint(0, 4)
        val = rng.randint(10, 99)
        if k == 0:
            body += ["\t%s := a" % v, "\t%s.%s.X = %d" % (v, path, val), "\tfmt.Println(a.%s.X, %s.%s.X)" % (path, v, path)]
        elif k == 1:
            body += ["\tvar %s %s" % (v, top), "\t%s = a" % v, "\t%s.%s.Y = %d" % (v, path, val),
                     "\tfmt.Println(a.%s.Y, %s.%s.Y)" % (path, v, path)]
        elif k == 2:
            body += ["\tfmt.Println(mut@(a), a.%s.X, a.N)" % path]
        elif k == 3 and depth >= 3:
            sub = ".".join(["F"] * rng.randint(1, depth - 2))   # a middle struct: still holds nested structs
            rest = ".".join(["F"] * (depth - 1 - len(sub.split("."))))
            body += ["\t%s := a.%s" % (v, sub), "\t%s.%s.X = %d" % (v, rest, val) if rest else "\t%s.X = %d" % (v, val),
                     "\tfmt.Println(a.%s.X, %s.%sX)" % (path, v, (rest + ".") if rest else "")]
        else:
            body += ["\t%s := a" % v, "\ta.%s.X = %d" % (path, val), "\tfmt.Println(a.%s.X, %s.%s.X)" % (path, v, path),
                     "\ta.F = %s.F" % v, "\ta.%s.Y = %d" % (path, val + 1), "\tfmt.Println(a.%s.Y, %s.%s.Y)" % (path, v, path)]
    p = gw.from_template("\n".join(decl) + "\nfunc prog@() {\n" + "\n".join(body) + "\n}\n", idx)
    p["features"] = ["struct-value-copy"]
    return p


# ---------------------------------------------------------------- core statements (GoSub/Stmt.v)
BOPS = {"+": "BAdd", "-": "BSub", "*": "BMul", "/": "BDiv"}
CMPS = {"<": "CLt", "<=": "CLe", ">": "CGt", ">=": "CGe", "==": "CEq", "!=": "CNe"}


def gen_se(rng, names, hi, depth, lit_ok=True):
    """expression over the given variables: (go text, coq term, is literal); never an operator on two literals"""
    if depth == 0 or rng.random() < 0.3:
        if not lit_ok or rng.random() < 0.6:
            v = rng.choice(names)
            return v, "(EVar %s)" % vf.vrunes(v), False
        top = min(hi, 2 ** 31 - 1)      # a literal above MaxInt32 is an int64 constant in Ego (recorded finding class): not generated
        z = rng.choice([1, 2, 3, 7, top, rng.randint(1, min(top, 100))])
        return str(z), "(EConst %d)" % z, True
    op = rng.choice(list(BOPS))
    l = gen_se(rng, names, hi, depth - 1)
    r = gen_se(rng, names, hi, depth - 1, lit_ok=not l[2])
    return "(%s %s %s)" % (l[0], op, r[0]), "(EBin %s %s %s)" % (BOPS[op], l[1], r[1]), False


def gen_stmts(rng, names, hi, n, fresh, indent, allow_decl):
    """(go lines, coq stmt term, names after).  Guarded as in Stmt.guarded_in: no literal on the right of := / =, no := in branches"""
    lines, terms = [], []
    for _ in range(n):
        k = rng.randint(0, 6 if allow_decl else 5)
        x = rng.choice(names)
        if k == 0:
            e = gen_se(rng, names, hi, 2, lit_ok=False)
            lines.append("%s%s = %s" % (indent, x, e[0]))
            terms.append("(SAssign %s %s)" % (vf.vrunes(x), e[1]))
        elif k == 1:
            op = rng.choice(list(BOPS))
            e = gen_se(rng, names, hi, 1)
            lines.append("%s%s %s= %s" % (indent, x, op, e[0]))
            terms.append("(SOpAssign %s %s %s)" % (BOPS[op], vf.vrunes(x), e[1]))
        elif k == 2:
            inc = rng.random() < 0.5
            lines.append("%s%s%s" % (indent, x, "++" if inc else "--"))
            terms.append("(SIncDec %s %s)" % ("true" if inc else "false", vf.vrunes(x)))
        elif k in (3, 4):
            e = gen_se(rng, names, hi, 2)
            lines.append("%sfmt.Println(%s)" % (indent, e[0]))
            terms.append("(SPrint %s)" % e[1])
        elif k == 5 and len(indent) < 3:
            c = rng.choice(list(CMPS))
            e1 = gen_se(rng, names, hi, 1)
            e2 = gen_se(rng, names, hi, 1, lit_ok=not e1[2])
            la, ta, _ = gen_stmts(rng, names, hi, rng.randint(1, 2), fresh, indent + "\t", False)
            lb, tb, _ = gen_stmts(rng, names, hi, rng.randint(1, 2), fresh, indent + "\t", False)
            lines += ["%sif %s %s %s {" % (indent, e1[0], c, e2[0])] + la + ["%s} else {" % indent] + lb + ["%s}" % indent]
            terms.append("(SIf %s %s %s %s %s)" % (CMPS[c], e1[1], e2[1], ta, tb))
        elif k == 6 and fresh:
            nx = fresh.pop(0)
            e = gen_se(rng, names, hi, 2, lit_ok=False)
            if e[0] in names:            # `x := a` alone: make it an operation so the value is a fresh one
                e = ("(%s + %s)" % (e[0], names[0]), "(EBin BAdd %s (EVar %s))" % (e[1], vf.vrunes(names[0])), False)
            lines.append("%s%s := %s" % (indent, nx, e[0]))
            terms.append("(SDecl %s %s)" % (vf.vrunes(nx), e[1]))
            names = names + [nx]
        else:
            lines.append("%sfmt.Println(%s)" % (indent, x))
            terms.append("(SPrint (EVar %s))" % vf.vrunes(x))
    t = terms[-1]
    for u in reversed(terms[:-1]):
        t = "(SSeq %s %s)" % (u, t)
    return lines, t, names


def gen_stmt_prog(rng, idx, kind=None):
    gk, ck, lo, hi = kind or rng.choice(KINDS)
    top = min(hi, 2 ** 63 - 1)
    vals = [rng.choice([lo + 1, top, top - 1, 0, 1, 2, 3, 7, rng.randint(max(lo, -1000), min(top, 1000))]) for _ in VARS]
    lines, term, names = gen_stmts(rng, list(VARS), hi, rng.randint(3, 7), ["x", "y"], "\t", True)
    tail = ["\tfmt.Println(%s)" % n for n in names]
    for n in names:
        term = "(SSeq %s (SPrint (EVar %s)))" % (term, vf.vrunes(n))
    decl = ["\tvar %s %s = %s" % (v, gk, z) for v, z in zip(VARS, vals)]
    text = "func prog@() {\n%s\n}\n" % "\n".join(decl + lines + tail)
    p = gw.from_template(text, idx)
    p["stmt"] = {"kind": gk, "ck": ck, "coq": term,
                 "env": "[" + "; ".join("(%s, (%d))" % (vf.vrunes(v), z) for v, z in zip(VARS, vals)) + "]"}
    return p


def gen_loop_prog(rng, idx, kind=None):
    """core statements, then `for i := <var>; i < <var> + N; i++ { body }` (or the downward form), then core statements; at most
    3 iterations, no wrap-around of the loop variable in any kind"""
    gk, ck, lo, hi = kind or rng.choice(KINDS)
    vals = [rng.randint(3, 9), rng.randint(3, 9), rng.choice([0, 1, 2, 7, min(hi, 2 ** 31 - 1)])]
    names = list(VARS)
    l1, t1, _ = gen_stmts(rng, names, hi, rng.randint(1, 2), [], "\t", False)
    start = rng.choice(["a", "b"])
    n = rng.randint(1, 3)
    up = rng.random() < 0.5
    lb, tb, _ = gen_stmts(rng, ["c"], hi, rng.randint(1, 2), [], "\t\t", False)      # the body assigns only c
    op = rng.choice(list(BOPS))
    lb.append("\t\tc %s= i" % op)
    tb = "(SSeq %s (SOpAssign %s %s (EVar %s)))" % (tb, BOPS[op], vf.vrunes("c"), vf.vrunes("i"))
    if rng.random() < 0.5:
        lb.append("\t\tfmt.Println(i)")
        tb = "(SSeq %s (SPrint (EVar %s)))" % (tb, vf.vrunes("i"))
    cmpop = rng.choice(["<", "!="] if up else [">", "!="])      # <= / >= can loop forever when the bound is the kind's limit
    head = "\tfor i := %s; i %s (%s %s %d); i%s {" % (start, cmpop, start, "+" if up else "-", n, "++" if up else "--")
    tfor = "(LFor %s (EVar %s) %s (EVar %s) (EBin %s (EVar %s) (EConst %d)) %s %s)" % (
        vf.vrunes("i"), vf.vrunes(start), CMPS[cmpop], vf.vrunes("i"), "BAdd" if up else "BSub", vf.vrunes(start), n,
        "true" if up else "false", tb)
    l2, t2, _ = gen_stmts(rng, names, hi, rng.randint(1, 2), [], "\t", False)
    tail = ["\tfmt.Println(%s)" % v for v in names]
    for v in names:
        t2 = "(SSeq %s (SPrint (EVar %s)))" % (t2, vf.vrunes(v))
    decl = ["\tvar %s %s = %s" % (v, gk, z) for v, z in zip(VARS, vals)]
    text = "func prog@() {\n%s\n}\n" % "\n".join(decl + l1 + [head] + lb + ["\t}"] + l2 + tail)
    q = gw.from_template(text, idx)
    q["stmt"] = {"kind": gk, "ck": ck, "coq": "(LSeq (LBase %s) (LSeq %s (LBase %s)))" % (t1, tfor, t2),
                 "env": "[" + "; ".join("(%s, (%d))" % (vf.vrunes(v), z) for v, z in zip(VARS, vals)) + "]"}
    return q


DUMP_OPS = {"Add": "OAdd", "Sub": "OSub", "Mul": "OMul", "Div": "ODiv", "LT": "LessThan", "LTEQ": "LessThanOrEqual",
            "GT": "GreaterThan", "GTEQ": "GreaterThanOrEqual", "Equal": "Equal", "NotEqual": "NotEqual", "Push": "Push",
            "Load": "Load", "Store": "Store", "SymbolCreate": "SymbolCreate", "DropToMarker": "DropToMarker",
            "Branch": "Branch", "BranchFalse": "BranchFalse", "BranchTrue": "BranchTrue",
            "PushScope": "PushScope", "PopScope": "PopScope"}


def canonical_main(dump):
    """real bytecode of func main -> Coq list instr for the statements after `var c K = ...`: line markers dropped, the
    fetch of fmt.Println (Load fmt; SetThis; Member Println) dropped and Call 1 -> Print, branch operands renumbered;
    None when an instruction outside the modelled set occurs"""
    units, cur = {}, None
    for line in dump.splitlines():
        if line.startswith("U "):
            cur = line.split(" ", 4)[4]
            units[cur] = []
        elif line.startswith("I "):
            _, op, operand = line.split(" ", 2)
            units[cur].append((op, operand))
    ins = units.get('"main"')
    if ins is None:
        return None
    start = next((i for i, x in enumerate(ins) if x == ("Store", 's:"c"')), None)
    end = max((i for i, x in enumerate(ins) if x[0] == "RunDefers"), default=None)
    if start is None or end is None:
        return None
    keep, newidx = [], {}
    for i in range(start + 1, end):
        op, operand = ins[i]
        newidx[i] = len(keep)
        if op == "AtLine" or (op, operand) in (("Load", 's:"fmt"'), ("SetThis", "nil"), ("Member", 's:"Println"')):
            continue
        keep.append((i, op, operand))
    newidx[end] = len(keep)
    out = []
    for i, op, operand in keep:
        if op == "Call" and operand == "l[i:1,b:true]":
            out.append("(Print, ONil)")
            continue
        if op not in DUMP_OPS:
            return None
        if op.startswith("Branch"):
            t = int(operand[2:])
            if t not in newidx:
                return None
            o = "OV (VInt Int %d)" % newidx[t]
        elif operand == "nil":
            o = "ONil"
        elif operand.startswith("i:") and op == "PushScope":
            o = "OV (VInt Int %s)" % operand[2:]
        elif operand.startswith("s:"):
            o = "OV (VStr %s)" % vf.vrunes(json.loads(operand[2:]))
        elif operand.startswith("c(i:"):
            o = "OC (VInt Int (%s))" % operand[4:-1]
        elif operand.startswith('m:"let"'):
            o = "OM 2%N"
        elif operand.startswith('m:"call"'):
            o = "OM 3%N"
        else:
            return None
        out.append("(%s, %s)" % (DUMP_OPS[op], o))
    return "[" + "; ".join(out) + "]"


def outcome(out, abort):
    """('ok', z) | ('panic',) | ('other', text)"""
    if abort:
        return ("panic",) if not out.strip() else ("other", out)
    try:
        return ("ok", int(out.strip()))
    except ValueError:
        return ("other", out)


def run(ck):
    quick = ck.tier == "quick"
    ck.cov["rule"] = ("core: every integer kind x every operator at the top (36 programs) + random ones; three variables with boundary/random values, an expression tree of depth 1-3 "
                      "over + - * / (division by a variable that may be zero) printed once; wide: lib/gosub_wide.py clean feature "
                      "set + struct-value-copy programs (structs nested 3-5 levels copied by := / = / argument / field store / sub-struct, innermost field written through the copy and read through the original) + operator-adjacency programs (binary operator followed by unary minus / not / dereference, spaced as gofmt prints them; all three modes). distinct_nontrivial = distinct core expressions whose Go run printed a value or panicked + wide programs "
                      "that printed at least one line")
    ck.assume("Go evaluates operands left to right and converts an untyped literal to the operand's kind (Go spec); the reference "
              "semantics go_eval is validated against the real toolchain on every run",
              "the VM instruction model is the one of C02 (single frame, flat symbol table)")
    ck.trusted("lib/gosub_wide.py (generator, batch runner), props/C01.py comparison", "the Go toolchain (go1.26) as reference")
    coq_ok = ck.coq_stage(GROUP, theorems=THEOREMS, extra_q=XQ)
    okb, ego = vf.build_ego()
    if not okb:
        ck.violation("ego-build", "the ego binary does not build:\n" + ego[-1500:], replay={"log": ego[-3000:]}, found_input=False)
        return
    ncore = 12 if quick else 400
    nwide = 16 if quick else 200
    if getattr(ck, "coq_broken", None):
        ncore, nwide = ncore * 3, nwide * 3
    # every kind x every operator at the top of an expression, then random ones
    core = [gen_core(ck.rng, "k%d" % (4 * i + j), kind=KINDS[i], topop=OPS[j]) for i in range(len(KINDS)) for j in range(len(OPS))]
    core += [gen_core(ck.rng, "c%d" % i) for i in range(ncore)]
    # regression corpus first: the refuted cell (confirmed as a known finding) is NOT in the clean stream
    wide = [gw.gen_program(ck.rng, "w%d" % i) for i in range(nwide)]
    nadj = 6 if quick else 60
    adj = [gw.from_template(ADJ_CORPUS, "adj0")] + [gen_adjacent(ck.rng, "adj%d" % (i + 1)) for i in range(nadj)]
    for p in adj:
        p["features"] = ["operator-adjacency"]
    nsc = 4 if quick else 40
    sc0 = gw.from_template(SC_CORPUS, "sc0")
    sc0["features"] = ["struct-value-copy"]
    wide = adj + [sc0] + [gen_structcopy(ck.rng, "sc%d" % (i + 1)) for i in range(nsc)] + wide
    cc = gw.from_template("func prog@() {\n\tvar x int8 = 127\n\ty := x + (1 + 2)\n\tfmt.Println(y)\n}\n", "kcc")
    if ck.replay_file:
        rp = json.load(open(ck.replay_file))["replay"]
        if rp.get("go_funcs"):
            core, wide = [], [{"id": rp["id"], "go_funcs": rp["go_funcs"], "features": rp.get("features", [])}]
    nst = 10 if quick else 120
    stm = [gen_stmt_prog(ck.rng, "s%d" % i, kind=KINDS[i % len(KINDS)]) for i in range(nst)] if not ck.replay_file else []
    nlp = 6 if quick else 60
    lps = [gen_loop_prog(ck.rng, "l%d" % i, kind=KINDS[(i * 2 + 1) % len(KINDS)]) for i in range(nlp)] if not ck.replay_file else []
    for q in stm + lps:
        q["features"] = ["core-statements"]
    wide = stm + lps + wide
    SKIP_KNOWN = {"cli:unhandled-panic-trace-on-stdout", "map-two-value-missing-key-yields-nil"}   # outside the property text
    known = [(e, p) for e, p in gw.known_as_progs() if e["signature"] not in SKIP_KNOWN] if not ck.replay_file else []
    progs = core + wide + [cc] + [p for _, p in known]
    work = os.path.join(ck.work, "diff")
    try:
        res = gw.run_batch(progs, work, ego=ego, jobs=8)
    except RuntimeError as e:
        ck.violation("go-batch", "the generated Go batch does not build (generator defect):\n" + str(e)[-1500:],
                     replay={"log": str(e)[-3000:]}, found_input=False)
        return
    by = {r["id"]: r for r in res}
    gobin = os.path.join(work, "batch.bin")
    modes = {"dynamic": by}
    for mode in ("strict", "relaxed"):
        r2 = gw.run_batch(core + [p for p in wide if p.get("features") in (["operator-adjacency"], ["core-statements"])],
                          os.path.join(ck.work, "diff-" + mode), ego=ego, ego_args=("--types", mode), jobs=8, go_bin=gobin)
        modes[mode] = {r["id"]: r for r in r2}

    nontriv = set()
    # ---- property oracle: Ego vs Go, directly
    for p in core + wide:
        for mode, tab in modes.items():
            r = tab.get(p["id"])
            if r is None:
                continue
            if r["go_out"].strip() or r["go_abort"]:
                nontriv.add(p["id"])
            if not r["agree"]:
                kind = "core" if "core" in p else "wide:" + "+".join(sorted(p.get("features", []))[:3])
                ck.violation("go-divergence:%s:%s" % (mode, kind),
                             "Ego (--types %s) and Go disagree\nGo : abort=%s %r\nEgo: abort=%s %r %s\nprogram:\n%s" % (
                                 mode, r["go_abort"], r["go_out"][-200:], r["ego_abort"], r["ego_out"][-200:], r.get("ego_err", ""),
                                 gw.ego_source(p)),
                             replay={"id": p["id"], "go_funcs": p["go_funcs"], "features": p.get("features", []), "mode": mode})
    # the known finding: re-confirmed on the real binaries
    r = by.get("kcc")
    if r is not None and not r["agree"]:
        ck.violation("const-subexpression-typed-int", "x + (1 + 2) on int8 127: Go %r, Ego %r" % (r["go_out"], r["ego_out"]),
                     replay={"id": "kcc", "go_funcs": cc["go_funcs"]})
    for e, p in known:
        r = by.get(p["id"])
        if e.get("ego_args"):
            r = gw.run_batch([p], os.path.join(ck.work, "diff-k"), ego=ego, ego_args=e["ego_args"], jobs=1, go_bin=gobin)[0]
        if r is not None and not r["agree"]:
            ck.violation(e["signature"], e["what"], replay={"id": p["id"], "go_funcs": p["go_funcs"]})
    ck.cov["evaluations"] = len(core) * 3 + len(wide)
    ck.cov["distinct_nontrivial"] = len(nontriv)
    ck.cov["input_distribution"] = {"core_programs": len(core), "wide_programs": len(wide),
                                    "go_aborts": sum(1 for r in res if r["go_abort"]),
                                    "kinds": sorted({p["core"]["kind"] for p in core})}
    for p in core[:2] + wide[:1]:
        ck.sample({"id": p["id"], "source": gw.ego_source(p)[:400], "go": by[p["id"]]["go_out"][:80]})

    # ---- correspondence: go_eval vs real Go; VM model vs real Ego (all three modes)
    if coq_ok and core:
        enc = lambda o: {"ok": "GOk (%d)", "panic": "GPanic", "other": "GStuck"}[o[0]] % (o[1:2] if o[0] == "ok" else ())
        lines = ["From Coq Require Import List ZArith NArith Bool.", "From Arith Require Import Model.",
                 "From Opt Require Import Model.", "From GoSub Require Import Model.", "Import ListNotations.", "Open Scope Z_scope.",
                 "Definition same (a b : gores) : bool := match a, b with GOk x, GOk y => x =? y | GPanic, GPanic => true | GStuck, GStuck => true | _, _ => false end.",
                 "Definition cases : list (ikind * env * expr * gores * gores * gores * gores) := ["]
        rows = []
        for p in core:
            c = p["core"]
            g = outcome(by[p["id"]]["go_out"], by[p["id"]]["go_abort"])
            e = [outcome(modes[m][p["id"]]["ego_out"], modes[m][p["id"]]["ego_abort"]) for m in ("dynamic", "strict", "relaxed")]
            rows.append("(%s, %s, %s, %s, %s, %s, %s)" % (c["ck"], c["env"], c["coq"], enc(g), enc(e[0]), enc(e[1]), enc(e[2])))
        lines.append(";\n".join(rows) + "].")
        lines.append("Fixpoint idx (f : ikind * env * expr * gores * gores * gores * gores -> bool) (i : Z) (l : list _) : list Z :=\n"
                     "  match l with [] => [] | x :: r => (if f x then [i] else []) ++ idx f (i + 1) r end.")
        okc, out = vf.coq_eval(GROUP, ck.work, "cases", "\n".join(lines), {
            "go": "idx (fun '(k, en, e, g, d, s, r) => negb (same (go_eval k en e) g)) 0 cases",
            "dyn": "idx (fun '(k, en, e, g, d, s, r) => negb (same (vm_result Dynamic k en e) d)) 0 cases",
            "str": "idx (fun '(k, en, e, g, d, s, r) => negb (same (vm_result Strict k en e) s)) 0 cases",
            "rel": "idx (fun '(k, en, e, g, d, s, r) => negb (same (vm_result Relaxed k en e) r)) 0 cases",
            "guard": "idx (fun '(k, en, e, g, d, s, r) => negb (well_typed k en e && env_ok k en)) 0 cases"}, extra_q=XQ)
        if not okc:
            ck.violation("correspondence-eval", "model evaluation failed:\n" + str(out)[-1500:], replay={"log": str(out)[-3000:]},
                         found_input=False)
        else:
            ck.cov["traces_validated_against_impl"] = len(core) * 4
            ck.cov["input_distribution"]["outside_guard"] = len(out["guard"])
            already = any(v["signature"].startswith("go-divergence") for v in ck.viol)
            for key, what in (("go", "go_eval vs the real Go toolchain"), ("dyn", "VM model vs ego --types dynamic"),
                              ("str", "VM model vs ego --types strict"), ("rel", "VM model vs ego --types relaxed")):
                for i in out[key][:3]:
                    if already:
                        break
                    p = core[i]
                    ck.violation("corr-" + key, "%s disagree on %s kind %s vars %s" % (what, p["core"]["go"], p["core"]["kind"], p["core"]["vals"]),
                                 replay={"id": p["id"], "go_funcs": p["go_funcs"]}, found_input=False)
    # ---- core statements: go_exec vs real Go, VM model vs real Ego (3 modes), compile_stmt vs the real compiler's bytecode
    allst = stm + lps
    if coq_ok and allst:
        okh, hbin = vf.go_test_build(ck.work, "internal/language/compiler", {
            "internal/language/compiler/zz_verif_c10_test.go": os.path.join(vf.HARNESS, "C10", "c10_test.go"),
            "internal/language/bytecode/zz_verif_dump.go": os.path.join(vf.HARNESS, "C10", "dump.go")}, "c01dump.test")
        dumps = {}
        if okh:
            inp, outp = os.path.join(ck.work, "din.json"), os.path.join(ck.work, "dout.json")
            json.dump([{"id": i, "src": gw.ego_source(q)} for i, q in enumerate(allst)], open(inp, "w"))
            rc, log = vf.run_bin(hbin, "^TestVerifC10$", {"VERIF_IN": inp, "VERIF_OUT": outp})
            if rc == 0 and os.path.exists(outp):
                for r in json.load(open(outp)):
                    dumps[r["id"]] = r.get("dump", "")
        if not dumps:
            ck.violation("dump-harness", "the bytecode dump harness (harness/C10) does not build or run:\n" + str(hbin)[-1200:],
                         replay={"log": str(hbin)[-3000:]}, found_input=False)
        else:
            def obs(r):
                try:
                    return "[" + "; ".join("(%d)" % int(x) for x in r["ego_out" if "ego" in r.get("_side", "") else "go_out"].split()) + "]"
                except ValueError:
                    return None

            def enc(text, abort):
                try:
                    return "[" + "; ".join(["(%d)" % int(x) for x in text.split()] + (["1"] if abort else ["0", "0"])) + "]"
                except ValueError:
                    return "[99]"
            rows = []
            for i, q in enumerate(allst):
                c = q["stmt"]
                code = canonical_main(dumps.get(i, ""))
                g = by[q["id"]]
                e = [modes[mm][q["id"]] for mm in ("dynamic", "strict", "relaxed")]
                isbase = i < len(stm)
                rows.append("(%s, %s, %s, %s, %s, %s, %s, %s, %s)" % (
                    c["ck"], c["env"], ("(LBase %s)" % c["coq"]) if isbase else c["coq"], ("Some %s" % c["coq"]) if isbase else "None",
                    ("Some %s" % code) if code else "None", enc(g["go_out"], g["go_abort"]),
                    enc(e[0]["ego_out"], e[0]["ego_abort"]), enc(e[1]["ego_out"], e[1]["ego_abort"]), enc(e[2]["ego_out"], e[2]["ego_abort"])))
            pre = "\n".join([
                "From Coq Require Import List ZArith NArith Bool.", "From Common Require Import Base.", "From Arith Require Import Model.",
                "From Opt Require Import Model.", "From GoSub Require Import Model Stmt Loop.", "Import ListNotations.", "Open Scope Z_scope.",
                "Definition row : Type := (ikind * env * lstmt * option stmt * option (list instr) * list Z * list Z * list Z * list Z)%type.",
                "Fixpoint zl_eqb (a b : list Z) : bool := match a, b with [], [] => true | x :: r, y :: t => (x =? y) && zl_eqb r t | _, _ => false end.",
                "Fixpoint il_eqb (a b : list instr) : bool := match a, b with [], [] => true | x :: r, y :: t => opcode_eqb (fst x) (fst y) && operand_eqb (snd x) (snd y) && il_eqb r t | _, _ => false end.",
                "Definition cases : list row := [", ";\n".join(rows) + "].",
                "Fixpoint idx (f : row -> bool) (i : Z) (l : list row) : list Z := match l with [] => [] | x :: r => (if f x then [i] else []) ++ idx f (i + 1) r end."])
            okc, out = vf.coq_eval(GROUP, ck.work, "stcases", pre, {
                "go": "idx (fun '(k, en, p, q, c, g, d, s, r) => negb (zl_eqb (go_result_l k 300 en p) g)) 0 cases",
                "dyn": "idx (fun '(k, en, p, q, c, g, d, s, r) => negb (zl_eqb (vm_exec_l Dynamic k 300 en p) d)) 0 cases",
                "str": "idx (fun '(k, en, p, q, c, g, d, s, r) => negb (zl_eqb (vm_exec_l Strict k 300 en p) s)) 0 cases",
                "rel": "idx (fun '(k, en, p, q, c, g, d, s, r) => negb (zl_eqb (vm_exec_l Relaxed k 300 en p) r)) 0 cases",
                "code": "idx (fun '(k, en, p, q, c, g, d, s, r) => match c with Some rc => negb (il_eqb (compile_l 0 p) rc) | None => false end) 0 cases",
                "nocode": "idx (fun '(k, en, p, q, c, g, d, s, r) => match c with Some _ => false | None => true end) 0 cases",
                "guard": "idx (fun '(k, en, p, q, c, g, d, s, r) => match q with Some b => negb (guarded k en b) | None => false end) 0 cases"}, extra_q=XQ)
            if not okc:
                ck.violation("correspondence-eval", "statement model evaluation failed:\n" + str(out)[-1500:], replay={"log": str(out)[-3000:]},
                             found_input=False)
            else:
                ck.cov["stmt_programs"] = len(stm)
                ck.cov["loop_programs"] = len(lps)
                ck.cov["stmt_bytecode_compared"] = len(allst) - len(out["nocode"])
                if len(out["nocode"]) * 5 > len(allst):
                    ck.violation("stmt-code-uncompared", "%d of %d statement programs compile to instructions outside the modelled set" % (
                        len(out["nocode"]), len(allst)), replay={"ids": out["nocode"]}, found_input=False)
                ck.cov["input_distribution"]["stmt_outside_guard"] = len(out["guard"])
                already = any(v["signature"].startswith("go-divergence") for v in ck.viol)
                for key, what in (("go", "go_exec vs the real Go toolchain"), ("dyn", "VM model (compile_stmt) vs ego --types dynamic"),
                                  ("str", "VM model (compile_stmt) vs ego --types strict"), ("rel", "VM model (compile_stmt) vs ego --types relaxed"),
                                  ("code", "compile_stmt vs the real compiler's bytecode (canonicalised)"),
                                  ("guard", "generated statement program outside the theorem's guard")):
                    for i in out[key][:2]:
                        if already and key != "code":
                            break
                        q = allst[i]
                        ck.violation("stmt-" + key, "%s disagree on\n%s" % (what, gw.ego_source(q)),
                                     replay={"id": q["id"], "go_funcs": q["go_funcs"], "features": q["features"]}, found_input=False)
    elif getattr(ck, "coq_broken", None) and not ck.viol:
        grp, log = ck.coq_broken
        ck.violation("proof-broken", "Coq development %s no longer checks:\n%s" % (grp, log[-1200:]),
                     replay={"broken": "coq/" + grp, "log": log[-3000:]}, found_input=False)
