//go:build verif

package router

// Overlaid into /repo/internal/router by /verif/check C32 and C20 (never written into /repo).
// Read-only view of the unexported route table for the dumper in package commands.

import (
	"net/http"
	"sort"
)

type VerifRoute struct {
	Endpoint, Method  string
	MustAuth, CanAuth bool
	Lightweight       bool
	Perms             []string
	NilPerms          bool
	Validations       []string
}

func (m *Router) VerifRoutes() []VerifRoute {
	m.mutex.Lock()
	defer m.mutex.Unlock()

	out := []VerifRoute{}
	for sel, r := range m.routes {
		out = append(out, VerifRoute{Endpoint: sel.endpoint, Method: sel.method, MustAuth: r.mustAuthenticate,
			CanAuth: r.canAuthenticate, Lightweight: r.lightweight, Perms: append([]string{}, r.requiredPermissions...),
			NilPerms: r.requiredPermissions == nil, Validations: append([]string{}, r.validations...)})
		if sel.endpoint != r.endpoint || sel.method != r.method {
			panic("verif: selector and route disagree: " + sel.endpoint + " / " + r.endpoint)
		}
	}

	sort.Slice(out, func(i, j int) bool {
		if out[i].Endpoint != out[j].Endpoint {
			return out[i].Endpoint < out[j].Endpoint
		}

		return out[i].Method < out[j].Method
	})

	return out
}

// VerifID identifies a route returned by FindRoute.
func (r *Route) VerifID() [2]string {
	if r == nil {
		return [2]string{"", ""}
	}

	return [2]string{r.endpoint, r.method}
}

// VerifWrapHandlers replaces every route's handler by a recorder (the real handlers are not run: only
// the gate in front of them is exercised).
func (m *Router) VerifWrapHandlers(rec func(endpoint, method string)) {
	m.mutex.Lock()
	defer m.mutex.Unlock()

	for _, r := range m.routes {
		ep, me := r.endpoint, r.method
		r.handler = func(*Session, http.ResponseWriter, *http.Request) int {
			rec(ep, me)

			return http.StatusOK
		}
	}
}
