"""C19 REST JSON responses carry exactly the handler's data
(internal/util/strings/json.go JSONMinify, internal/util/json.go WriteJSON, internal/util/compress.go)."""
import json
import os
import re
import vf

GROUP = "Json"
META = {
    "group": "Json",
    "technique": "Coq proof over a Gallina transliteration of JSONMinify (character automaton with state inQuotes/escape) that "
                 "removing whitespace from any whitespace layout of any well-formed JSON value yields exactly its compact text; "
                 "vm_compute correspondence with the real JSONMinify / json.MarshalIndent / json.Marshal; oracle on the real "
                 "WriteJSON through an httptest recorder with and without gzip, and concurrently from 16 goroutines into a slow "
                 "chunked ResponseWriter; go/ast enumeration of JSONMinify call sites",
    "text": "Theorem C19_minify_canonical: for every well-formed JSON value v (strings spelled as arbitrary sequences of plain "
            "characters, two-character escapes and \\uXXXX escapes; arbitrary nesting) and every layout l that puts any run of "
            "unicode.IsSpace characters at any token boundary, minify (render l v) = compact v, i.e. structure and every string "
            "item are untouched; C19_response_exact: what a client decodes from WriteJSON's payload, gzip-compressed or not "
            "(gunzip(gzip b) = b assumed), is compact v; C19_scanner_resynchronised and C19_minify_idempotent; C19_old_refuted "
            "keeps the witness {\"a\":\"x\\\\\\\\\", \"b\":\"c d\"} of the scanner before the repair. The model is compared "
            "with the real JSONMinify on every run (arbitrary and JSON-shaped text), the real MarshalIndent text is read back "
            "into (layout, value) and re-rendered by the model, and the real WriteJSON body is compared with json.Marshal of "
            "the value. Concurrent use (16 goroutines writing large distinct gzip responses through the real WriteJSON "
            "into a slow ResponseWriter, each body compared with its own value; race detector in the thorough tier) is observed, "
            "not proved: the model is sequential. full",
    "note": "Trusted: Coq kernel; hand-written model of JSONMinify and unicode.IsSpace tied to the code by the correspondence run; "
            "the Python JSON reader that proposes (layout, value) for a real text (its proposal is re-checked by Coq: wf, fits, "
            "render = real indented text, compact = real json.Marshal text); compress/gzip as a section hypothesis; the four "
            "handlers that call JSONMinify directly (router/admin.go LogHandler and AuthenticateHandler, admin/users/list.go, "
            "admin/validation.go) and rest/exchange.go are enumerated by go/ast, not driven: they pass encoder output to the "
            "same JSONMinify.",
}

WS = [9, 10, 11, 12, 13, 32, 0x85, 0xA0, 0x1680] + list(range(0x2000, 0x200B)) + [0x2028, 0x2029, 0x202F, 0x205F, 0x3000]
WSSET = set(WS)
KNOWN_SITES = {("internal/util/json.go", "WriteJSON"), ("internal/router/admin.go", "LogHandler"),
               ("internal/router/admin.go", "AuthenticateHandler"), ("internal/runtime/rest/exchange.go", "Exchange"),
               ("internal/server/admin/users/list.go", "ListUsersHandler"),
               ("internal/server/admin/validation.go", "GetValidationsHandler")}

STR_ALPHA = ["\\", "\\", "\\", '"', '"', " ", " ", "\t", "\n", "\r", "\x0b", "\x0c", "\x00", "\x1f", "\x7f", "/", "<", ">", "&",
             "a", "b", "c d", "x", "u", "n", "0041", ":", ",", "{", "}", "[", "]", "\u00a0", "\u0085", "\u1680", "\u2003",
             "\u2028", "\u2029", "\u202f", "\u3000", "\u00e9", "\u4e2d", "\U0001d11e", "\ufffd", "\u200b"]


def gen_string(rng):
    r = rng.random()
    if r < 0.1:
        return ""
    n = rng.randint(1, 4) if r < 0.6 else rng.randint(4, 14)
    s = "".join(rng.choice(STR_ALPHA) for _ in range(n))
    if rng.random() < 0.25:
        s += "\\" * rng.randint(1, 3)          # the historic trigger: string ending in backslashes
    return s


def gen_value(rng, depth):
    r = rng.random()
    if depth <= 0 or r < 0.35:
        k = rng.random()
        if k < 0.55:
            return gen_string(rng)
        if k < 0.7:
            return rng.choice([0, 1, -1, 7, 30, 2 ** 53 + 1, -10 ** 20, rng.randint(-10 ** 6, 10 ** 6)])
        if k < 0.8:
            return rng.choice([1.5, -0.25, 1e21, 1e-7, 3.0, rng.random() * 1000])
        return rng.choice([None, True, False])
    if r < 0.65:
        return [gen_value(rng, depth - 1) for _ in range(rng.randint(0, 4))]
    return {gen_string(rng): gen_value(rng, depth - 1) for _ in range(rng.randint(0, 4))}


def raw_text(rng, v, wide):
    """a JSON spelling of v with random escape spellings and (if wide) random whitespace at token boundaries"""
    def ws():
        if not wide or rng.random() < 0.5:
            return ""
        return "".join(chr(rng.choice(WS if wide == 2 else [32, 9, 10, 13])) for _ in range(rng.randint(1, 3)))

    def st(s):
        out = ['"']
        for ch in s:
            o = ord(ch)
            k = rng.random()
            if ch == '"':
                out.append('\\"' if k < 0.8 else "\\u0022")
            elif ch == "\\":
                out.append("\\\\" if k < 0.85 else "\\u005c")
            elif o < 32:
                short = {8: "\\b", 9: "\\t", 10: "\\n", 12: "\\f", 13: "\\r"}
                out.append(short[o] if o in short and k < 0.7 else "\\u%04x" % o)
            elif ch == "/" and k < 0.5:
                out.append("\\/")
            elif o < 0x10000 and k < 0.1:
                out.append(("\\u%04x" if k < 0.05 else "\\u%04X") % o)
            else:
                out.append(ch)
        out.append('"')
        return "".join(out)

    def go(v):
        if v is None:
            return "null"
        if v is True:
            return "true"
        if v is False:
            return "false"
        if isinstance(v, (int, float)):
            t = json.dumps(v)
            if isinstance(v, float) and rng.random() < 0.3:
                t = t.replace("e", "E")
            return t
        if isinstance(v, str):
            return st(v)
        if isinstance(v, list):
            return "[" + ws() + ("," + ws()).join(go(x) + ws() for x in v) + "]"
        return "{" + ws() + ("," + ws()).join(st(k) + ws() + ":" + ws() + go(x) + ws() for k, x in v.items()) + "}"
    return ws() + go(v) + ws()


# ---------------------------------------------------------------- reading a JSON text back (proposal re-checked by Coq)
def lex_json(text):
    """-> (layout: list of str, tokens: list of ('P',c) | ('L',lit) | ('S',items)); raises ValueError"""
    i, n, layout, toks = 0, len(text), [], []
    while True:
        j = i
        while j < n and ord(text[j]) in WSSET:
            j += 1
        layout.append(text[i:j])
        i = j
        if i >= n:
            break
        c = text[i]
        if c in "[]{}:,":
            toks.append(("P", c))
            i += 1
        elif c == '"':
            i += 1
            items = []
            while True:
                if i >= n:
                    raise ValueError("unterminated string")
                c = text[i]
                if c == '"':
                    i += 1
                    break
                if c == "\\":
                    if i + 1 >= n:
                        raise ValueError("dangling backslash")
                    e = text[i + 1]
                    if e == "u" and i + 6 <= n:
                        items.append(("U", text[i + 2:i + 6]))
                        i += 6
                    else:
                        items.append(("E", e))
                        i += 2
                else:
                    items.append(("C", c))
                    i += 1
            toks.append(("S", items))
        else:
            j = i
            while j < n and text[j] not in '[]{}:,"' and ord(text[j]) not in WSSET:
                j += 1
            toks.append(("L", text[i:j]))
            i = j
    return layout, toks


def tok_text(t):
    if t[0] in "PL":
        return t[1]
    return '"' + "".join(c if k == "C" else ("\\" + c if k == "E" else "\\u" + c) for k, c in t[1]) + '"'


def coq_items(items):
    out = []
    for k, c in items:
        if k == "C":
            out.append("Plain %d" % ord(c))
        elif k == "E":
            out.append("Esc %d" % ord(c))
        else:
            out.append("U4 %d %d %d %d" % tuple(ord(x) for x in c))
    return "[" + ";".join(out) + "]"


def coq_value(toks):
    """recursive descent over the token list -> Coq term of type jv; raises ValueError"""
    pos = [0]

    def peek():
        return toks[pos[0]] if pos[0] < len(toks) else None

    def take():
        t = peek()
        if t is None:
            raise ValueError("unexpected end")
        pos[0] += 1
        return t

    def val():
        t = take()
        if t[0] == "S":
            return "JStr " + coq_items(t[1])
        if t[0] == "L":
            if t[1] == "null":
                return "JNull"
            if t[1] in ("true", "false"):
                return "JBool " + t[1]
            return "JNum " + vf.vrunes(t[1])
        if t == ("P", "["):
            xs = []
            if peek() == ("P", "]"):
                take()
                return "JArr []"
            while True:
                xs.append("(" + val() + ")")
                t = take()
                if t == ("P", "]"):
                    return "JArr [" + ";".join(xs) + "]"
                if t != ("P", ","):
                    raise ValueError("array")
        if t == ("P", "{"):
            xs = []
            if peek() == ("P", "}"):
                take()
                return "JObj []"
            while True:
                k = take()
                if k[0] != "S" or take() != ("P", ":"):
                    raise ValueError("member")
                xs.append("(%s, %s)" % (coq_items(k[1]), val()))
                t = take()
                if t == ("P", "}"):
                    return "JObj [" + ";".join(xs) + "]"
                if t != ("P", ","):
                    raise ValueError("object")
        raise ValueError("value")
    v = val()
    if pos[0] != len(toks):
        raise ValueError("trailing tokens")
    return v


def coq_layout(layout):
    return "[" + ";".join("[" + ";".join(str(ord(c)) for c in w) + "]" for w in layout) + "]"


def lit_loads(b):
    """decode JSON keeping number literals as text (so 1.50 and 1.5 differ)"""
    return json.loads(b, parse_float=lambda s: ("num", s), parse_int=lambda s: ("num", s),
                      parse_constant=lambda s: ("num", s))


def hx(b):
    return b.hex() or "-"


def unhx(s):
    return b"" if s == "-" else bytes.fromhex(s)


CORPUS_W = ['{"a": "x\\\\", "b": "c d"}', '["\\\\", " ", "a b"]', '"\\\\"', '{"k\\\\": " ", "k2 ": ["\\\\\\\\", "\\\\\\"", " x y "]}',
            '[]', '{}', '[[], {}, [{}], ""]', '{"": ""}', '["\\"", "\\\\\\"", "\\\\\\\\\\"", "a\\\\"]', '"\\u2028 \\u00a0\\t"',
            '{"a b": {"c d": [1, 2.5e3, -0, null, true, false, "e f"]}}', '"<a href=\\"x y\\">&</a>"',
            '["\u00a0\u2003\u3000 ", "\\n \\r \\t", "tab\\there"]', '"\U0001d11e \\ud834\\udd1e"']
CORPUS_M = ['{"a": "x\\\\", "b": "c d"}', '', ' ', '"', '\\', '\\"', '"\\', '" \\" "', '\\ ', '\\ "a b"', '"a\\\\" "b c"',
            '"a\\\\\\" b" c d', 'a b\tc\nd', '\u00a0\u2028x\u3000', '{ "name": "John \\"baby face\\" Doe" }', '"\\\\\\\\" " "',
            '\\\\" "', '"\\ " " "', '\\\\ \\ "', "' a '", '"\n"', '"a" "b"\\ "c d"']


def gen_m(rng, n):
    alpha = ['"', '"', "\\", "\\", " ", " ", "\t", "\n", "a", "b", "{", "}", ":", ",", "\u00a0", "\u2028", "\u00e9",
             "\U0001d11e", "\u0085", "1", "\r", "\u200b", "\ufeff", "\u3000", "\u180e"]
    out = list(CORPUS_M)
    while len(out) < n:
        out.append("".join(rng.choice(alpha) for _ in range(rng.randint(1, 24))))
    return out


def drive(ck, binp, wcases, mcases, lcases, tag):
    """run the real code; returns (W results, M results, L results, sites) or None"""
    inp = os.path.join(ck.work, "in-%s.txt" % tag)
    outp = os.path.join(ck.work, "out-%s.txt" % tag)
    with open(inp, "w") as f:
        for gz, thr, mode, text in wcases:
            f.write("W %d %d %s %s\n" % (gz, thr, mode, hx(text.encode())))
        for t in mcases:
            f.write("M %s\n" % hx(t.encode()))
        for t, _ in lcases:
            f.write("M %s\n" % hx(t.encode()))
        f.write("S %s\n" % vf.REPO)
    rc, log = vf.run_bin(binp, "^TestVerifC19$", {"VERIF_IN": inp, "VERIF_OUT": outp,
                                                  "HOME": os.path.join(ck.work, "home")})
    if rc != 0:
        ck.violation("harness-run", "harness failed:\n" + log[-1500:], replay={"log": log[-3000:]}, found_input=False)
        return None
    W, M, sites = {}, {}, []
    for line in open(outp):
        f = line.split()
        i = int(f[0])
        if f[1] == "W":
            W[i] = f[2:]
        elif f[1] == "M":
            M[i] = unhx(f[2]).decode("utf8")
        elif f[1] == "S" and f[2] != "end":
            sites.append((f[2], f[3], f[4] == "1"))
    nw, nm = len(wcases), len(mcases)
    return ([W.get(i) for i in range(nw)], [M.get(nw + i) for i in range(nm)],
            [M.get(nw + nm + i) for i in range(len(lcases))], sites)


def gen_conc_values(seed, n):
    """n large, distinct, compressible JSON values (each well above the 4096-byte gzip threshold)"""
    import random
    rng = random.Random("C19-conc-%s" % seed)
    vals = []
    for k in range(n):
        rows = []
        for i in range(rng.randint(60, 110)):
            rows.append({"id": i, "owner": "value-%d of run %s" % (k, seed), "text": "a reasonably long and very repetitive column value",
                         "tricky": gen_string(rng)})
        vals.append({"rows": rows, "count": len(rows), "tail\\": gen_string(rng) + "\\"})
    return vals


def drive_conc(ck, binp, clients, vals, tag, race_log=None):
    """the real WriteJSON from <clients> goroutines at once; returns (n, n_gzip, bad indices) or None"""
    inp = os.path.join(ck.work, "in-%s.txt" % tag)
    outp = os.path.join(ck.work, "out-%s.txt" % tag)
    with open(inp, "w") as f:
        f.write("C %d %s\n" % (clients, hx(json.dumps(vals, ensure_ascii=False).encode())))
    rc, log = vf.run_bin(binp, "^TestVerifC19$", {"VERIF_IN": inp, "VERIF_OUT": outp, "HOME": os.path.join(ck.work, "home")})
    if race_log is not None:
        race_log.append(log)
    if rc != 0:
        return None
    for line in open(outp):
        f = line.split()
        if len(f) >= 5 and f[1] == "C" and f[2] != "err":
            return int(f[2]), int(f[3]), ([] if f[4] == "-" else [int(x) for x in f[4].split(",")])
    return None


def oracle(ck, wcases, mres_l, lcases, wres, nontriv):
    """the property evaluated on the real outputs"""
    for i, (gz, thr, mode, text) in enumerate(wcases):
        r = wres[i]
        rp = {"w": [[gz, thr, mode, text]]}
        if r is None or r[0] == "err":
            if mode == "J":
                ck.violation("write-json-error", "WriteJSON harness could not process %r: %s" % (text, r), replay=rp)
            continue                       # R: text rejected by the encoder (not valid JSON) -> nothing sent
        status, enc, wire, dec, want, ind, length = r
        wire, dec, want, ind = unhx(wire), unhx(dec), unhx(want), unhx(ind)
        if dec != want:
            ck.violation("body-differs", "WriteJSON sent %r for a value whose json.Marshal text is %r (gzip=%s)" % (
                dec.decode("utf8", "replace")[:300], want.decode("utf8", "replace")[:300], enc), replay=rp)
            continue
        try:
            same = lit_loads(dec) == lit_loads(text)
        except ValueError:
            same = False
        if not same:
            ck.violation("decodes-differently", "body %r does not decode to the value sent %r" % (dec[:300], text[:300]), replay=rp)
            continue
        may = gz == 1 and thr > 0 and len(want) >= thr
        if (enc == "gzip" and not may) or int(length) != len(wire) or status != "200":
            ck.violation("compress-decision", "gzip=%s status=%s counted=%s wire=%d for accepts=%d threshold=%d size=%d" % (
                enc, status, length, len(wire), gz, thr, len(want)), replay=rp)
            continue
        if (b"\\" in want or any(ord(c) in WSSET for c in want.decode("utf8"))) and len(ind) > len(want):
            nontriv.add((text, gz, thr))
    for (t, want), got in zip(lcases, mres_l):
        if got != want:
            ck.violation("layout-not-removed", "JSONMinify(%r) = %r, want %r" % (t[:300], (got or "")[:300], want[:300]),
                         replay={"l": [[t, want]]})
        elif "\\" in want and t != want:
            nontriv.add(t)


def run(ck):
    quick = ck.tier == "quick"
    ck.cov["rule"] = ("values: random JSON trees (depth <= 4) whose strings/keys are drawn from an alphabet of backslashes, quotes, "
                      "ASCII and Unicode whitespace, control characters, HTML characters, BMP and astral characters, 25% ending in "
                      "1-3 backslashes; sent through the real WriteJSON as decoded values (J) or as json.RawMessage with random "
                      "escape spellings (R), with/without Accept-Encoding gzip and thresholds 0/1/64/4096; JSON-shaped texts with "
                      "random unicode.IsSpace runs at token boundaries and arbitrary non-JSON strings through the real JSONMinify. "
                      "distinct_nontrivial = distinct inputs whose compact text contains a backslash or non-space whitespace inside "
                      "a string and whose layout was actually non-empty")
    ck.assume("compress/gzip: gunzip (gzip b) = b (section hypothesis of C19_response_exact)",
              "the text handed to JSONMinify is valid UTF-8 (json.MarshalIndent guarantees it); the model works on the runes Go's range yields",
              "encoding/json: MarshalIndent(v) is a whitespace layout of Marshal(v) - re-checked on every generated value by reading the real text back")
    ck.trusted("harness/C19/c19_test.go (in-package overlay of internal/util), props/C19.py generators, JSON reader and comparison",
               "correspondence evaluated by vm_compute in a generated cases file")
    ck.coq_stage(GROUP, theorems=["C19_minify_canonical", "C19_response_exact", "C19_scanner_resynchronised",
                                  "C19_minify_idempotent", "C19_old_refuted"])
    broken = getattr(ck, "coq_broken", None)
    import time
    t1 = time.time()

    ok, binp = vf.go_test_build(ck.work, "internal/util", {"internal/util/zz_verif_c19_test.go":
                                os.path.join(vf.HARNESS, "C19", "c19_test.go")}, "c19.test")
    if not ok:
        ck.violation("harness-build", "harness for internal/util does not build:\n" + binp[-1500:],
                     replay={"log": binp[-3000:]}, found_input=False)
        return

    def gen_cases(rng, nw, nm, nl):
        wc = [(rng.choice([0, 1]), rng.choice([0, 1, 4096]), "J", t) for t in CORPUS_W]
        wc += [(1, 1, "R", t) for t in CORPUS_W]
        while len(wc) < nw:
            v = gen_value(rng, rng.randint(0, 4))
            gz, thr = rng.choice([0, 1, 1]), rng.choice([0, 1, 64, 4096])
            if rng.random() < 0.5:
                wc.append((gz, thr, "J", json.dumps(v, ensure_ascii=rng.random() < 0.3)))
            else:
                wc.append((gz, thr, "R", raw_text(rng, v, rng.choice([0, 1]))))
        # some medium-size values (compressible at thresholds 1/64) and
        for _ in range(8):
            mid = [gen_value(rng, 2) for _ in range(rng.randint(15, 40))]
            wc.append((1, rng.choice([1, 64]), rng.choice("JR"), json.dumps(mid, ensure_ascii=rng.random() < 0.5)))
        # one large value so that the default 4096 threshold compresses
        big = [gen_value(rng, 2) for _ in range(150)]
        wc.append((1, 4096, "J", json.dumps(big, ensure_ascii=False)))
        lc = []
        for t in CORPUS_W:
            lc.append((t, "".join(tok_text(x) for x in lex_json(t)[1])))
        while len(lc) < nl:
            v = gen_value(rng, rng.randint(0, 3))
            t = raw_text(rng, v, 2)
            lc.append((t, "".join(tok_text(x) for x in lex_json(t)[1])))
        return wc, gen_m(rng, nm), lc

    wcases, mcases, lcases = gen_cases(ck.rng, 220 if quick else 1500, 500 if quick else 4000, 250 if quick else 2000)
    if ck.replay_file:
        rp = json.load(open(ck.replay_file))["replay"] or {}
        wcases = [tuple(x) for x in rp.get("w", [])]
        mcases = list(rp.get("m", []))
        lcases = [tuple(x) for x in rp.get("l", [])]
    t2 = time.time()
    res = drive(ck, binp, wcases, mcases, lcases, "main")
    t3 = time.time()
    ck.cov["stage_seconds"] = {"coq_build_and_assumptions": round(t1 - ck.t0, 1), "go_harness_build": round(t2 - t1, 1),
                               "harness_run": round(t3 - t2, 1)}
    if res is None:
        return
    wres, mres, lres, sites = res
    nontriv = set()
    oracle(ck, wcases, lres, lcases, wres, nontriv)

    # ---- concurrency (observed, not modelled): many goroutines write large distinct values through the real
    # WriteJSON with gzip accepted into a slow chunked ResponseWriter; every decoded body must be its own value
    conc, conc_info = None, {}
    if ck.replay_file:
        conc = (json.load(open(ck.replay_file))["replay"] or {}).get("conc")
    else:
        conc = {"seed": ck.rng.randint(0, 10 ** 9), "clients": 16, "n": 16 * (12 if quick else 40)}
    if conc:
        vals = gen_conc_values(conc["seed"], conc["n"])
        t5 = time.time()
        r = None
        for attempt in range(3 if ck.replay_file else 1):
            r = drive_conc(ck, binp, conc["clients"], vals, "conc%d" % attempt)
            if r is None or r[2]:
                break
        ck.cov["stage_seconds"]["concurrent_run"] = round(time.time() - t5, 1)
        if r is None:
            ck.violation("harness-run", "concurrent WriteJSON run failed", replay={"conc": conc}, found_input=False)
        else:
            conc_info = {"concurrent_values": r[0], "concurrent_sent_gzip": r[1], "concurrent_clients": conc["clients"]}
            if r[2]:
                ck.violation("concurrent-body-differs", "%d of %d responses written concurrently by %d goroutines (gzip accepted, bodies of "
                             "%d-%d bytes, slow ResponseWriter) did not decode to their own value, e.g. value %d" % (
                                 len(r[2]), r[0], conc["clients"], min(len(json.dumps(v)) for v in vals), max(len(json.dumps(v)) for v in vals),
                                 r[2][0]), replay={"conc": conc})
            elif r[1] < r[0] // 2:
                ck.notes.append("concurrent run: only %d of %d responses were gzip-compressed" % (r[1], r[0]))
        if not quick and not ck.replay_file and not any(v["signature"] == "concurrent-body-differs" for v in ck.viol):
            okr, binr = vf.go_test_build(ck.work, "internal/util", {"internal/util/zz_verif_c19_test.go":
                                         os.path.join(vf.HARNESS, "C19", "c19_test.go")}, "c19race.test", race=True)
            if okr:
                logs = []
                rr = drive_conc(ck, binr, conc["clients"], vals[:160], "race", race_log=logs)
                ck.cov["race_detector_run"] = "ok" if rr is not None and not rr[2] else "failed"
                if rr is None and "DATA RACE" in (logs[0] if logs else ""):
                    ck.violation("concurrent-data-race", "the race detector reports a data race while WriteJSON serves concurrent gzip responses:\n" +
                                 logs[0][logs[0].find("DATA RACE") - 20:][:1200], replay={"conc": conc})
                elif rr is None:
                    ck.violation("harness-run", "race-enabled concurrent run failed:\n" + (logs[0] if logs else "")[-1200:],
                                 replay={"conc": conc}, found_input=False)
                elif rr[2]:
                    ck.violation("concurrent-body-differs", "race build: %d of %d concurrent responses did not decode to their own value" % (
                        len(rr[2]), rr[0]), replay={"conc": conc})
            else:
                ck.notes.append("race-enabled harness did not build: " + binr[-300:])

    # ---- call sites of JSONMinify: every caller must hand it encoder output
    ck.cov["call_sites"] = ["%s:%s%s" % (f, fn, "" if ind else " (no MarshalIndent in the function)") for f, fn, ind in sites]
    if not ck.replay_file:
        if not any(f == "internal/util/json.go" and fn == "WriteJSON" for f, fn, _ in sites):
            ck.violation("writejson-bypasses-minify", "WriteJSON no longer calls JSONMinify: the modelled path is not the code's path",
                         replay={"sites": sites}, found_input=False)
        for f, fn, ind in sites:
            if not ind and (f, fn) not in KNOWN_SITES:
                ck.violation("call-site:%s:%s" % (f, fn), "new caller of JSONMinify (%s %s) whose argument is not json.MarshalIndent "
                             "output: the theorem's domain (layouts of well-formed JSON) is not known to cover it" % (f, fn),
                             replay={"sites": sites}, found_input=False)

    ck.cov["evaluations"] = len(wcases) + len(mcases) + len(lcases) + conc_info.get("concurrent_values", 0)
    ck.cov["input_distribution"] = {
        "writejson_values": len(wcases), "as_rawmessage": sum(1 for w in wcases if w[2] == "R"),
        "accept_gzip": sum(1 for w in wcases if w[0] == 1),
        "sent_gzip": sum(1 for r in wres if r and r[0] != "err" and r[1] == "gzip"),
        "rejected_by_encoder": sum(1 for r in wres if r and r[0] == "err"),
        "with_backslash": sum(1 for w in wcases if "\\" in w[3]),
        "arbitrary_strings": len(mcases), "json_with_unicode_layout": len(lcases),
        "max_body_bytes": max([len(unhx(r[4])) for r in wres if r and r[0] != "err"] or [0])}
    ck.cov["input_distribution"].update(conc_info)
    for i in range(min(3, len(wcases))):
        r = wres[i]
        if r and r[0] != "err":
            ck.sample({"value_text": wcases[i][3], "accept_gzip": wcases[i][0], "threshold": wcases[i][1], "encoding": r[1],
                       "body": unhx(r[3]).decode("utf8", "replace")})
    for i in range(min(2, len(mcases))):
        ck.sample({"text": mcases[i], "JSONMinify": mres[i]})

    found = any(v["found_input"] for v in ck.viol)

    # ---- correspondence: model (vm_compute) vs implementation
    if not broken and not found:
        allm = [(t, g) for t, g in zip(mcases, mres)] + [(t, g) for (t, _), g in zip(lcases, lres)]
        allm = [(t, g) for t, g in allm if g is not None]
        ml = ["(%s, %s)" % (vf.vrunes(t), vf.vrunes(g)) for t, g in allm]
        wl, widx = [], []
        for i, (gz, thr, mode, text) in enumerate(wcases):
            r = wres[i]
            if r is None or r[0] == "err":
                continue
            ind, mar = unhx(r[5]).decode("utf8"), unhx(r[4]).decode("utf8")
            if len(ind) > 6000:
                continue          # the large compression case is covered by the oracle only
            try:
                lay, toks = lex_json(ind)
                term = coq_value(toks)
            except ValueError as e:
                ck.violation("indent-not-json", "json.MarshalIndent text could not be read back as JSON (%s): %r" % (e, ind[:300]),
                             replay={"w": [list(wcases[i])]}, found_input=False)
                continue
            wl.append("(%s, %s, %s, %s)" % (coq_layout(lay), term, vf.vrunes(ind), vf.vrunes(mar)))
            widx.append(i)
        TAIL = """].
Definition mbad (i : nat) (c : str * str) : list nat := if str_eqb (minify (fst c)) (snd c) then [] else [i].
Definition wbad (i : nat) (c : layout * jv * str * str) : list nat :=
  let '(l, v, ind, mar) := c in
  if negb (wf v) then [(8 * i + 1)%nat] else if negb (fits_b l v) then [(8 * i + 2)%nat]
  else if negb (str_eqb (render l v) ind) then [(8 * i + 3)%nat]
  else if negb (str_eqb (compact v) mar) then [(8 * i + 4)%nat]
  else if negb (str_eqb (minify ind) mar) then [(8 * i + 5)%nat] else [].
Fixpoint idx {A} (f : nat -> A -> list nat) (i : nat) (l : list A) : list nat :=
  match l with [] => [] | x :: r => f i x ++ idx f (S i) r end.
Definition MB := Eval vm_compute in idx mbad 0 mcases.
Definition WB := Eval vm_compute in idx wbad 0 wcases.
Eval vm_compute in MB.
Eval vm_compute in WB.
"""
        K = 4

        def shard(j):
            ma, mz = j * len(ml) // K, (j + 1) * len(ml) // K
            wa, wz = j * len(wl) // K, (j + 1) * len(wl) // K
            text = "\n".join(["From Common Require Import Base.", "From Json Require Import Model.", "Open Scope N_scope.",
                              "Definition mcases : list (str * str) := [", ";\n".join(ml[ma:mz]),
                              "].\nDefinition wcases : list (layout * jv * str * str) := [", ";\n".join(wl[wa:wz]), TAIL])
            rc, out = vf.coq_run(GROUP, os.path.join(ck.work, "shard%d" % j), "cases%d" % j, text, timeout=600)
            ls = re.findall(r"=\s*(\[[^\]]*\]|nil)\s*(?:%\w+)?\s*:\s*list nat", out, re.S)
            if rc != 0 or len(ls) != 2:
                return out
            m_, w_ = [[int(x) for x in re.findall(r"\d+", l)] for l in ls]
            return [ma + x for x in m_], [8 * (wa + x // 8) + x % 8 for x in w_]
        t4 = time.time()
        from concurrent.futures import ThreadPoolExecutor
        with ThreadPoolExecutor(max_workers=K) as ex:
            shards = list(ex.map(shard, range(K)))
        ck.cov["stage_seconds"]["model_evaluation"] = round(time.time() - t4, 1)
        fails = [x for x in shards if isinstance(x, str)]
        rc, out = (1, fails[0]) if fails else (0, "")
        lists = [None, None]
        if rc != 0 or len(lists) != 2:
            ck.violation("correspondence-eval", "model evaluation failed:\n" + out[-1500:], replay={"log": out[-3000:]},
                         found_input=False)
        else:
            mb = [x for sh in shards for x in sh[0]]
            wb = [x for sh in shards for x in sh[1]]
            ck.cov["traces_validated_against_impl"] = len(allm) + len(widx)
            what = {1: "value read back from the real text is not well-formed for the model", 2: "layout does not fit",
                    3: "render(layout, value) differs from the real MarshalIndent text", 4: "compact(value) differs from the real json.Marshal text",
                    5: "model minify of the real indented text differs from json.Marshal text"}
            for i in mb[:5]:
                t, g = allm[i]
                ck.violation("corr-minify", "model minify and real JSONMinify disagree on %r: real %r" % (t[:300], g[:300]),
                             replay={"m": [t]}, found_input=False)
            for code in wb[:5]:
                i, k = widx[code // 8], code % 8
                ck.violation("corr-render-%d" % k, "%s; value text %r" % (what.get(k, "?"), wcases[i][3][:300]),
                             replay={"w": [list(wcases[i])]}, found_input=False)
    elif broken and not found and not ck.replay_file:
        # proofs no longer check: search harder for a failing input on the real code (oracle only, 10x)
        w2, m2, l2 = gen_cases(ck.rng, len(wcases) * 10, 10, len(lcases) * 10)
        res2 = drive(ck, binp, w2, m2, l2, "search")
        if res2 is not None:
            oracle(ck, w2, res2[2], l2, res2[0], nontriv)
            ck.cov["evaluations"] += len(w2) + len(l2)
        if not any(v["found_input"] for v in ck.viol):
            grp, log = broken
            ck.violation("proof-broken", "Coq development %s no longer checks (theorem C19_minify_canonical / C19_response_exact):\n%s" % (
                grp, log[-1200:]), replay={"broken": "coq/%s" % grp, "log": log[-3000:]}, found_input=False)
    ck.cov["distinct_nontrivial"] = len(nontriv)
