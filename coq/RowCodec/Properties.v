(* RowCodec/Properties.v — property theorems of C18 only; proofs live in Proofs.v. *)
From RowCodec Require Import Model Proofs.
Open Scope Z_scope.

(* The full statement: every value the column's documented type can hold comes back. *)
Definition C18_statement : Prop := forall t v, of_type t v -> roundtrip true t v = Ok v.

(* What holds (repaired time binding): integers up to 2^53 in magnitude, both booleans, every string (any code
   points, quotes, NUL, empty), every instant with nanosecond precision come back as the same value. *)
Theorem C18_roundtrip_partial : forall t v, representable t v -> roundtrip true t v = Ok v.
Proof. exact roundtrip_ok. Qed.

(* The repaired decoding (fix 4112ced4, UseNumber): the full statement for the four modelled column types — EVERY value
   the column's documented type can hold (the whole int64 range, both booleans, every string, every instant to the
   nanosecond) is read back as itself. *)
Definition C18_statement_exact : Prop := forall t v, of_type t v -> roundtrip_n true true t v = Ok v.
Theorem C18_roundtrip_full : C18_statement_exact.
Proof. exact roundtrip_n_ok. Qed.

(* ... and over any history of create / drop / write / read / schema-cache loss on one table name. *)
Theorem C18_current_schema_full :
  forall h t v, actual (trun true h) = Some t -> of_type t v ->
    snd (tstep true (fst (tstep true (trun true h) (TWrite v))) TRead) = Some (Ok v).
Proof. exact write_read_current_full. Qed.

(* All modelled column types, date and time-of-day columns included: a date comes back as the same day (as midnight
   UTC), a time of day hh:mm:ss.fraction as the same time (on January 1 of year 0), every value of the other four
   types as itself. *)
Theorem C18_roundtrip_columns : forall c v, of_col_type c v -> roundtrip_col c v = Ok v.
Proof. exact roundtrip_col_ok. Qed.

(* float64 columns.  Premises (Go's strconv, the client's encoder, SQLite): a formatted float parses back to itself
   (shortest-spelling round trip), and a REAL cell returns the bound value for every storable value (every finite
   value except negative zero, whose sign SQLite's REAL does not keep through this path).  Then every storable float
   written through the row endpoint is read back as the same float. *)
Theorem C18_float_roundtrip :
  forall (F : Type) (client_format server_format : F -> list N) (parse_float : list N -> option F)
         (sqlite_real : F -> F) (storable : F -> Prop),
    (forall f, parse_float (client_format f) = Some f) ->
    (forall f, parse_float (server_format f) = Some f) ->
    (forall f, storable f -> sqlite_real f = f) ->
    forall f, storable f -> float_roundtrip F client_format server_format parse_float sqlite_real f = Some f.
Proof. exact float_roundtrip_ok. Qed.

(* The OLD decoding (roundtrip = every JSON number through float64). *)
(* The statement fails for int columns: JSON numbers pass through float64.  2^53+1 comes back as 2^53 and the
   largest int64 comes back as the smallest. *)
Theorem C18_int_refuted : exists v v', of_type TInt v /\ roundtrip true TInt v = Ok v' /\ v' <> v.
Proof.
  exists (VInt 9007199254740993), (VInt 9007199254740992).
  destruct int_refuted as (H1 & H2 & _). split; [exact H1|split; [exact H2|discriminate]].
Qed.
Theorem C18_int_max_refuted :
  of_type TInt (VInt 9223372036854775807) /\ roundtrip true TInt (VInt 9223372036854775807) = Ok (VInt (-9223372036854775808)).
Proof. destruct int_refuted as (_ & _ & H3 & H4). split; assumption. Qed.

(* The code before the repair (bindTimeValue formatted with RFC3339) dropped the fractional second. *)
Theorem C18_old_refuted : exists v v', of_type TTs v /\ roundtrip false TTs v = Ok v' /\ v' <> v.
Proof.
  exists (VTs 1709296245 123456789), (VTs 1709296245 0). destruct ts_old_refuted as [H1 H2].
  split; [exact H1|split; [exact H2|discriminate]].
Qed.

(* A table name over time.  After ANY history of create / drop / write / read / loss of schema-cache entries on one
   table name, a representable value of the CURRENT table's column type written now is read back as itself: the
   schema cache never makes the read (or the write) side coerce with the column type of an earlier table of that name. *)
Theorem C18_current_schema :
  forall h t v, actual (trun true h) = Some t -> representable t v ->
    snd (tstep true (fst (tstep true (trun true h) (TWrite v))) TRead) = Some (Ok v).
Proof. exact write_read_current. Qed.

(* If create / drop evicted only the write handlers' cache entry, the read side would keep the old table's type. *)
Theorem C18_stale_schema_refuted :
  exists h t v, actual (trun false h) = Some t /\ representable t v /\
    snd (tstep false (fst (tstep false (trun false h) (TWrite v))) TRead) <> Some (Ok v).
Proof. exists stale_history, TStr, (VStr [48; 48; 55]%N). exact stale_refuted. Qed.

(* non-vacuity *)
Example C18_ex_repr :
  representable TInt (VInt (-9007199254740992)) /\ representable TStr (VStr [39; 34; 0; 9731; 119070]%N) /\
  representable TTs (VTs (-62135596800) 999999999) /\ representable TBool (VBool false).
Proof. cbn. unfold two53. repeat split; lia. Qed.
Example C18_ex_f64 : map f64 [9007199254740993; 9007199254740995; -9007199254740993; 9223372036854775807; 18014398509481987]
                     = [9007199254740992; 9007199254740996; -9007199254740992; 9223372036854775808; 18014398509481988].
Proof. vm_compute. reflexivity. Qed.
Example C18_ex_chain :
  chain_reads true tinit None [TCreate TInt; TWrite (VInt 7); TRead; TDrop; TCreate TStr; TWrite (VStr [48; 48; 55]%N); TRead] = [1; 1]
  /\ chain_reads false tinit None [TCreate TInt; TWrite (VInt 7); TRead; TDrop; TCreate TStr; TWrite (VStr [48; 48; 55]%N); TRead] = [1; 0].
Proof. vm_compute. split; reflexivity. Qed.
Example C18_ex_full :
  of_type TInt (VInt 9223372036854775807) /\ roundtrip_n true true TInt (VInt 9223372036854775807) = Ok (VInt 9223372036854775807)
  /\ roundtrip_n false true TInt (VInt 9223372036854775807) = Ok (VInt (-9223372036854775808))
  /\ roundtrip_n true true TInt (VInt (-9223372036854775808)) = Ok (VInt (-9223372036854775808)).
Proof. cbn [of_type]. unfold two63. repeat split; try lia; vm_compute; reflexivity. Qed.
Example C18_ex_columns :
  of_col_type ColTime (CVTod 45045 500000000) /\ roundtrip_col ColTime (CVTod 45045 500000000) = Ok (CVTod 45045 500000000) /\
  of_col_type ColDate (CVDate (-719162)) /\ roundtrip_col ColDate (CVDate 19783) = Ok (CVDate 19783) /\
  instant_of (CVTod 45045 0) = Ok (VTs (-62167174155) 0).
Proof. cbn [of_col_type]. repeat split; try lia; vm_compute; reflexivity. Qed.
(* the premises of C18_float_roundtrip are satisfiable: halves k/2 written "k/2" in decimal, -0 modelled as (0, true) *)
Example C18_ex_float :
  let F := (Z * bool)%type in
  let fmt := fun f : F => [Z.to_N (fst f + 1000); if snd f then 1%N else 0%N] in
  let prs := fun t : list N => match t with [a; b] => Some (Z.of_N a - 1000, N.eqb b 1) | _ => None end in
  let real := fun f : F => (fst f, if fst f =? 0 then false else snd f) in
  float_roundtrip F fmt fmt prs real (3, false) = Some (3, false) /\ float_roundtrip F fmt fmt prs real (0, true) = Some (0, false).
Proof. vm_compute. split; reflexivity. Qed.
