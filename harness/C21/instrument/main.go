// Command instrument writes a copy of internal/router/auth.go with the two yield points of the C21 harness.
//
//	go run main.go <auth.go> <out.go>
//
// The yield points are placed by syntactic shape (go/ast), not by line text, inside the method Authenticate:
//
//	A. before the statement that calls the full token validation: a call  X.TokenUnwrap(…)  or  X.Unwrap(…)  where X
//	   is the import name of …/internal/server/auth or …/internal/language/tokens;
//	B. before the statement that fills the token cache: a call  C.Add(C.TokenCache, …)  where C is the import name of
//	   …/internal/caches.
//
// Formatting, comments, added lines, renamed locals, a different value being cached do not matter.  It fails (exit 1,
// message on stderr) only when one of the two shapes is not found exactly once in Authenticate.
package main

import (
	"fmt"
	"go/ast"
	"go/parser"
	"go/token"
	"os"
	"sort"
	"strconv"
	"strings"
)

func fail(format string, args ...any) {
	fmt.Fprintf(os.Stderr, "instrument: "+format+"\n", args...)
	os.Exit(1)
}

func main() {
	if len(os.Args) != 3 {
		fail("usage: instrument <auth.go> <out.go>")
	}

	src, err := os.ReadFile(os.Args[1])
	if err != nil {
		fail("%v", err)
	}

	fset := token.NewFileSet()

	file, err := parser.ParseFile(fset, os.Args[1], src, parser.ParseComments)
	if err != nil {
		fail("%v", err)
	}

	// import names
	names := map[string]string{} // local name -> import path
	for _, im := range file.Imports {
		path, _ := strconv.Unquote(im.Path.Value)
		name := path[strings.LastIndex(path, "/")+1:]

		if im.Name != nil {
			name = im.Name.Name
		}

		names[name] = path
	}

	isPkg := func(e ast.Expr, suffixes ...string) bool {
		id, ok := e.(*ast.Ident)
		if !ok {
			return false
		}

		for _, s := range suffixes {
			if strings.HasSuffix(names[id.Name], s) {
				return true
			}
		}

		return false
	}

	var fn *ast.FuncDecl

	for _, d := range file.Decls {
		if f, ok := d.(*ast.FuncDecl); ok && f.Name.Name == "Authenticate" && f.Recv != nil && f.Body != nil {
			fn = f
		}
	}

	if fn == nil {
		fail("method Authenticate not found in %s", os.Args[1])
	}

	// walk with a stack; for a matching call, the yield point goes before the nearest enclosing statement that is an
	// element of a statement list
	var (
		stack    []ast.Node
		unwrapAt []token.Pos
		fillAt   []token.Pos
	)

	listed := func() token.Pos {
		for i := len(stack) - 1; i > 0; i-- {
			st, ok := stack[i].(ast.Stmt)
			if !ok {
				continue
			}

			switch stack[i-1].(type) {
			case *ast.BlockStmt, *ast.CaseClause, *ast.CommClause:
				return st.Pos()
			}
		}

		return token.NoPos
	}

	ast.Inspect(fn.Body, func(n ast.Node) bool {
		if n == nil {
			stack = stack[:len(stack)-1]

			return true
		}

		stack = append(stack, n)

		call, ok := n.(*ast.CallExpr)
		if !ok {
			return true
		}

		sel, ok := call.Fun.(*ast.SelectorExpr)
		if !ok {
			return true
		}

		switch {
		case (sel.Sel.Name == "TokenUnwrap" || sel.Sel.Name == "Unwrap") &&
			isPkg(sel.X, "/internal/server/auth", "/internal/language/tokens"):
			if p := listed(); p != token.NoPos {
				unwrapAt = append(unwrapAt, p)
			}
		case sel.Sel.Name == "Add" && isPkg(sel.X, "/internal/caches") && len(call.Args) >= 2:
			if a, ok := call.Args[0].(*ast.SelectorExpr); ok && a.Sel.Name == "TokenCache" && isPkg(a.X, "/internal/caches") {
				if p := listed(); p != token.NoPos {
					fillAt = append(fillAt, p)
				}
			}
		}

		return true
	})

	if len(unwrapAt) != 1 || len(fillAt) != 1 {
		fail("in Authenticate: %d call(s) of the full token validation (auth.TokenUnwrap / tokens.Unwrap), "+
			"%d token-cache fill(s) (caches.Add(caches.TokenCache, …)); need exactly one of each", len(unwrapAt), len(fillAt))
	}

	type ins struct {
		off  int
		text string
	}

	list := []ins{
		{fset.Position(unwrapAt[0]).Offset, "if VerifC21BeforeUnwrap != nil {\nVerifC21BeforeUnwrap(\"\")\n}\n\n"},
		{fset.Position(fillAt[0]).Offset, "if VerifC21BeforeStore != nil {\nVerifC21BeforeStore(\"\")\n}\n\n"},
	}

	sort.Slice(list, func(i, j int) bool { return list[i].off > list[j].off })

	out := string(src)
	for _, i := range list {
		out = out[:i.off] + i.text + out[i.off:]
	}

	out += "\n// yield points of the C21 harness (verif overlay only)\nvar VerifC21BeforeUnwrap, VerifC21BeforeStore func(token string)\n"

	if _, err := parser.ParseFile(token.NewFileSet(), os.Args[2], out, 0); err != nil {
		fail("instrumented file does not parse: %v", err)
	}

	if err := os.WriteFile(os.Args[2], []byte(out), 0o644); err != nil {
		fail("%v", err)
	}
}
