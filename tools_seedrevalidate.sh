#!/bin/sh
# usage: tools_seedrevalidate.sh <seed id> — re-run the property's check on the stored seeded change; one result line
id=$1; prop=${id%%-*}; d=/verif/seeded/$id
mkdir -p /tmp/reval
out=$(/verif/tools_mutcheck.sh $d/patch.diff $prop 2>&1)
echo "$out" > /tmp/reval/$id.log
st=$(echo "$out" | grep -E "OK tier|FAILED tier|PATCH DOES" | tail -1 | awk '{print $2}')
nv=$(echo "$out" | grep -c "^VIOLATION")
nf=$(echo "$out" | grep "^VIOLATION" | grep -vc "no-failing-input-found")
echo "$id ${st:-NOSTATUS} violations=$nv with_input=$nf"
