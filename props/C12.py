"""C12 Diagnostics modes do not change behaviour (bytecode/profile.go trace.go run.go flow.go atLineByteCode,
internal/language/debugger, internal/commands/run.go --profile --trace --debug)."""
import glob as _glob
import json
import os
import re
import subprocess

import vf
import vm_util as U
from props import C10 as C10mod

GROUP = "Diag"
THEOREMS = ["C12_observer_transparent", "C12_trace_transparent", "C12_profile_transparent",
            "C12_debug_signal_not_caught", "C12_debug_continue_partial", "C12_debug_old_refuted",
            "C12_debug_continue_whole_run", "C12_debug_continue_observables"]
META = {
    "group": "Diag",
    "technique": "Coq proofs over the MiniEgo VM model with an observer hooked into the dispatch loop and a debugger "
                 "resume loop + differential runs of the real binary (--trace, --profile, --debug with scripted continue) "
                 "+ correspondence of the model's debug loop with the real VM + scan of Context writes",
    "text": "C12_observer_transparent (any observer that only reads the context and appends to its own channel leaves "
            "shared state, context and outcome of every run equal to the plain run; instances C12_trace_transparent, "
            "C12_profile_transparent) is proved for all programs and fuels. Debugger: the line signal used to be caught by "
            "an active try/catch (C12_debug_old_refuted, confirmed on the binary: a try body was abandoned under --debug "
            "with only `continue`); repaired by 6274accc; a second defect found by the differential run (an unrecovered panic made `ego run --debug` exit 0 without the error line) repaired by 63d30ac1; over the repaired model C12_debug_signal_not_caught (the catch "
            "layer passes the signal for every context), C12_debug_continue_partial (a stop at a line returns with "
            "exactly the state the plain run continues from) and the WHOLE-RUN equality C12_debug_continue_whole_run (for "
            "every program, shared state, context and fuel the debugger-with-continue loop ends with the shared state, the "
            "context up to the flag and the outcome of the plain run; C12_debug_continue_observables for the printed "
            "markers + outcome class) are proved -- by induction over the dispatched instructions, the line marker being a "
            "stuttering step and every other instruction of the model commuting with the flag (incl. nested deferred-call "
            "runs, catch and panic unwinding); the model's debug loops and the real VM/binary under --debug are compared "
            "with the plain run on corpus + generated programs. A scan lists every Context field written by "
            "profile.go/trace.go and every Context method the debugger calls and checks it against the set assumed by "
            "the model. partial: breakpoints, step commands, goroutines/locks (observed by the differential runs with a "
            "hang detector), timing and the profile report itself are not modelled",
    "note": "Trusted: Coq kernel; coq/VM model tied by the C10 correspondence; harness/C10; lib/vm_util.py; the real ego "
            "binary's flags as found in internal/commands (run --trace/--profile/--debug).",
}

# Context fields profile.go / trace.go may write, and Context methods the debugger may call (side channel or
# debugger-owned stepping state; none of them is read by an instruction of the modelled set)
FIELD_WHITELIST = {"profileSlot", "profileStart"}
METHOD_WHITELIST = {"ClearOutput", "FormatFrames", "GetLine", "GetModuleName", "GetOutput", "GetSource", "GetSymbols",
                    "GetTokenizer", "IsRunning", "Resume", "SetBreakOnReturn", "SetPC", "SetSingleStep", "SetStepOver",
                    "SingleStep", "GetFrame", "GetName", "GetPC", "GetBytecode", "StepOver", "SetDebug", "Tracing",
                    # breaks.go / commands.go evaluate break conditions and `print` expressions in a fresh Context
                    # of their own (ctx := bytecode.NewContext(...); ctx.Run(); ctx.Pop())
                    "Run", "Pop"}

DEBUG_CORPUS = [
    ("unhandled-panic-under-debugger", """@extensions true
func f0() int {
    panic(12)
    return 13
}
func main() {
    print 11
    f0()
    print 14
}
"""),
    ("try-under-debugger", """@extensions true
func main() {
    print 1
    try {
        print 2
        print 3
    } catch {
        print 4
    }
    print 5
}
"""),
    ("try-in-called-function-under-debugger", """@extensions true
func f0() int {
    defer func() {
        print 10
    }()
    try {
        print 11
        z1 := 0
        print 1 / z1
        print 12
    } catch {
        print 13
    }
    return 14
}
func main() {
    try {
        r1 := f0()
        print r1
    } catch {
        print 15
    }
    print 16
}
"""),
]


def goroutine_programs(rng):
    """programs that launch goroutines and synchronise with a channel / a WaitGroup (fixed + seeded sizes)"""
    progs = []
    for k, n in enumerate([40, rng.randint(3, 30)]):
        progs.append(("go-channel-%d" % n, """@extensions true
import "fmt"

func worker(id int, out chan) {
    out <- id * 2
}

func main() {
    out := make(chan, 64)
    n := %d
    for i := 0; i < n; i = i + 1 {
        go worker(i, out)
    }
    sum := 0
    for i := 0; i < n; i = i + 1 {
        v := <-out
        sum = sum + v
    }
    fmt.Println(sum)
    fmt.Println(%d)
}
""" % (n, 900 + k)))
    for k, n in enumerate([6, rng.randint(2, 12)]):
        progs.append(("go-waitgroup-try-%d" % n, """@extensions true
import "fmt"
import "sync"

func thread(id int, wg *sync.WaitGroup, out chan) {
    defer wg.Done()
    try {
        z := 0
        x := id / z
        out <- x
    } catch {
        out <- id
    }
}

func main() {
    var wg sync.WaitGroup
    out := make(chan, 16)
    count := %d
    for i := 1; i <= count; i = i + 1 {
        wg.Add(1)
        go thread(i, &wg, out)
    }
    wg.Wait()
    total := 0
    for i := 1; i <= count; i = i + 1 {
        v := <-out
        total = total + v
    }
    fmt.Println(total)
    fmt.Println(%d)
}
""" % (n, 800 + k)))
    for k, n in enumerate([3, rng.randint(1, 9)]):
        progs.append(("go-producer-close-range-%d" % n, """@extensions true
import "fmt"

func producer(c chan, n int) {
    for i := 0; i < n; i = i + 1 {
        c <- i * i
    }
    close(c)
}

func main() {
    c := make(chan, 4)
    go producer(c, %d)
    sum := 0
    for v := range c {
        sum = sum + v
    }
    fmt.Println(sum)
    d := make(chan, 2)
    d <- 5
    close(d)
    try {
        close(d)
        fmt.Println(1)
    } catch {
        fmt.Println(2)
    }
    w := <-d
    fmt.Println(w)
    fmt.Println(%d)
}
""" % (n, 700 + k)))
    return progs


RUN_TIMEOUT = 30      # seconds per run; a diagnostics mode that exceeds it twice (second try: 2x) while the plain
                      # run of the same program terminates is reported as diagnostics-mode-hangs


def scan_writes():
    base = os.path.join(vf.REPO, "internal/language")
    fields, methods = {}, {}
    for fn in ("bytecode/profile.go", "bytecode/trace.go"):
        src = open(os.path.join(base, fn)).read()
        src = re.sub(r"//[^\n]*", "", src)
        for m in re.finditer(r"\b(?:c|ctx)\.([a-z][A-Za-z0-9]*)(?:\.[A-Za-z0-9_.]+)?\s*(?:=[^=]|\+=|-=|\+\+|--)", src):
            fields.setdefault(m.group(1), set()).add(fn)
    for path in sorted(_glob.glob(os.path.join(base, "debugger", "*.go"))):
        if path.endswith("_test.go"):
            continue
        src = re.sub(r"//[^\n]*", "", open(path).read())
        for m in re.finditer(r"\b(?:c|ctx)\.([A-Z][A-Za-z0-9]*)\(", src):
            methods.setdefault(m.group(1), set()).add(os.path.basename(path))
    return fields, methods


def ego_run(ego, env, args, path, stdin=None, timeout=RUN_TIMEOUT):
    """-> observation, or None when the run did not terminate within the timeout"""
    try:
        p = subprocess.run([ego, "run"] + args + [path], env=env, input=stdin, capture_output=True, text=True, timeout=timeout)
    except subprocess.TimeoutExpired:
        return None
    return C10mod.observe(p.stdout, "error" if p.returncode != 0 else "")


def run(ck):
    quick = ck.tier == "quick"
    ck.cov["rule"] = ("programs = debugger corpus + C10 corpus + generated try/defer/panic/loop/call programs (C10 generator) + "
                      "goroutine programs (go statements with channel / sync.WaitGroup synchronisation, try/catch and defer inside the goroutines), "
                      "each run plainly and with --trace, --profile, --debug (stdin: `continue` lines); observable = printed "
                      "integer markers + exit status class. distinct_nontrivial = distinct programs printing >= 3 markers "
                      "whose plain run agrees with all three modes")
    ck.assume("a diagnostics mode that does not end within %d s and again within %d s, while the plain run of the same "
              "program ends, hangs" % (RUN_TIMEOUT, 2 * RUN_TIMEOUT),
              "trace and profile write only to the log / profile table (checked by the scan of Context writes)",
              "the debugger is driven with `continue` only: no breakpoints, no stepping commands")
    ck.trusted("real ego binary flags --trace --profile --debug (internal/commands)",
               "harness/C10 with VERIF_DEBUGSIGNAL=1: SetDebug(true) + Resume on every debugger signal (debugger.go runFrom)",
               "lib/vm_util.py, props/C12.py comparison")
    okv, logv = vf.coq_build("VM")
    if not okv:
        ck.coq_broken = ("VM", logv)
    else:
        ck.coq_stage(GROUP, theorems=THEOREMS, extra_q=("VM",))

    # ---------------------------------------------------------------- translator: who writes the Context
    fields, methods = scan_writes()
    badf = sorted(set(fields) - FIELD_WHITELIST)
    badm = sorted(set(methods) - METHOD_WHITELIST)
    ck.add_obligations(2, 2 - (1 if badf else 0) - (1 if badm else 0))
    ck.cov["context_writes"] = {"profile_trace_fields": {k: sorted(v) for k, v in fields.items()},
                                "debugger_methods": {k: sorted(v) for k, v in methods.items()}}
    if badf:
        ck.violation("observer-writes-context", "profile.go/trace.go write Context fields outside the side channel: %s" % badf,
                     replay={"fields": {k: sorted(fields[k]) for k in badf}}, found_input=False)
    if badm:
        ck.violation("debugger-calls-context", "the debugger calls Context methods not assumed by the model: %s" % badm,
                     replay={"methods": {k: sorted(methods[k]) for k in badm}}, found_input=False)

    # ---------------------------------------------------------------- programs
    names, srcs = [], []
    if ck.replay_file:
        rp = json.load(open(ck.replay_file))["replay"]
        names.append("replay")
        srcs.append(rp["src"])
    else:
        for n, s in DEBUG_CORPUS:
            names.append(n)
            srcs.append(s)
        for n, s, _, sig in C10mod.CORPUS:
            if sig is None:
                names.append(n)
                srcs.append(s)
        for i in range(8 if quick else 300):
            names.append("gen%d" % i)
            srcs.append(U.render(U.gen_program(ck.rng)))

    # ---------------------------------------------------------------- real binary: plain vs each mode
    okb, ego = vf.build_ego()
    if not okb:
        ck.violation("ego-build", "ego binary does not build:\n" + ego[-1500:], replay={"log": ego[-3000:]}, found_input=False)
        return
    env = vf.ego_env(ck.work)
    warm = os.path.join(ck.work, "warm.ego")
    open(warm, "w").write("@extensions true\nfunc main() {\n    print 1\n}\n")
    vf.sh([ego, "run", warm], env=env, timeout=120)
    nontriv, dist = set(), {"trace": 0, "profile": 0, "debug": 0}
    plain_all = []
    nharness = len(srcs)                       # goroutine programs go to the binary only (outside the VM model)
    gnames = []
    if not ck.replay_file:
        for n, sx in goroutine_programs(ck.rng):
            names.append(n)
            srcs.append(sx)
            gnames.append(n)
    hangs = 0
    for i, src in enumerate(srcs):
        pth = os.path.join(ck.work, "q%d.ego" % i)
        open(pth, "w").write(src)
        plain = ego_run(ego, env, [], pth)
        if plain is None:
            plain = ego_run(ego, env, [], pth, timeout=4 * RUN_TIMEOUT)
        if plain is None:
            plain_all.append([3])
            ck.notes.append("plain run of %s does not terminate within %d s: not compared" % (names[i], 4 * RUN_TIMEOUT))
            continue
        plain_all.append(plain)
        agree = True
        for mode, args, stdin in (("trace", ["--trace"], None), ("profile", ["--profile"], None),
                                  ("debug", ["--debug"], "continue\n" * 400)):
            got = ego_run(ego, env, args, pth, stdin)
            dist[mode] += 1
            if got is None:
                # hard timeout: confirm (the sandbox may be loaded) with twice the time, the plain run again first
                again_plain = ego_run(ego, env, [], pth)
                got = ego_run(ego, env, args, pth, stdin, timeout=2 * RUN_TIMEOUT)
                if got is None and again_plain is not None:
                    hangs += 1
                    agree = False
                    ck.violation("diagnostics-mode-hangs",
                                 "program %s: `ego run %s` does not terminate (%d s, then %d s) while the plain run ends with %s" % (
                                     names[i], args[0], RUN_TIMEOUT, 2 * RUN_TIMEOUT, plain),
                                 replay={"src": src, "mode": mode, "plain": plain, "timeout_s": [RUN_TIMEOUT, 2 * RUN_TIMEOUT]})
                    continue
                if got is None:
                    ck.notes.append("%s %s: timeouts of both the mode and the repeated plain run (loaded machine): skipped" % (names[i], mode))
                    continue
            if got != plain:
                agree = False
                ck.violation("mode-%s" % mode, "program %s: `ego run %s` gives %s, the plain run %s" % (names[i], args[0], got, plain),
                             replay={"src": src, "mode": mode, "plain": plain, "with_mode": got})
        if agree and len(plain) >= 4:
            nontriv.add(src)
    srcs_all = srcs
    srcs = srcs[:nharness]
    ck.cov["evaluations"] = 4 * len(srcs_all)
    ck.cov["distinct_nontrivial"] = len(nontriv)
    ck.cov["input_distribution"] = {"programs": len(srcs_all), "goroutine_programs": gnames, "mode_hangs": hangs,
                                    "runs_per_mode": dist,
                                    "with_try": sum(1 for s in srcs if "try" in s),
                                    "plain_outcomes": {str(c): sum(1 for o in plain_all if o[0] == c) for c in (0, 1, 2)}}
    for i in range(min(3, len(srcs))):
        ck.sample({"program": names[i], "plain": plain_all[i]})

    # ---------------------------------------------------------------- real VM with the debug flag, and the model's debug loop
    ok, binp = C10mod.build_harness(ck)
    if not ok:
        ck.violation("harness-build", "harness does not build:\n" + binp[-1500:], replay={"log": binp[-3000:]}, found_input=False)
        return
    res_p, log = C10mod.run_harness(ck, binp, srcs, "p")
    res_d, log2 = C10mod.run_harness(ck, binp, srcs, "d", {"VERIF_DEBUGSIGNAL": "1"})
    if res_p is None or res_d is None:
        ck.violation("harness-run", "harness failed:\n" + ((log or "") + (log2 or ""))[-1500:], replay={}, found_input=False)
        return
    terms, idx = [], []
    for i, (a, b) in enumerate(zip(res_p, res_d)):
        if a["compile_err"]:
            continue
        oa, ob = C10mod.observe(a["out"], a["err"]), C10mod.observe(b["out"], b["err"])
        if oa != ob and not any(v["signature"] == "mode-debug" for v in ck.viol):
            ck.violation("vm-debug-flag", "program %s: real VM with the debug flag and resume-on-signal gives %s, plain %s" % (
                names[i], ob, oa), replay={"src": srcs[i], "plain": oa, "debug": ob})
        try:
            t, _, _ = U.dump_to_coq(a["dump"])
            terms.append(t)
            idx.append((i, oa))
        except U.Unsupported:
            pass
    if getattr(ck, "coq_broken", None) or not terms:
        return
    pre = ("From Coq Require Import ZArith NArith List.\nImport ListNotations.\nFrom VM Require Import Model.\n"
           "From Diag Require Import Model.\n"
           + "\n".join("Definition p%d : program := %s." % (k, t) for k, t in enumerate(terms)))
    ex = {}
    for k in range(len(terms)):
        ex["d%d" % k] = "run_program_debug 3000 30000 p%d" % k
        ex["c%d" % k] = "run_program_debug_continue 30000 p%d" % k
        ex["t%d" % k] = ("let '(g, _, o, l) := run_with dev trace_obs 30000 p%d init_glob (init_ctx false) [] in "
                         "outcome_class o :: out_ints g" % k)
    okc, out = vf.coq_eval(GROUP, ck.work, "dcases", pre, ex, timeout=900, extra_q=("VM",))
    if not okc:
        ck.violation("correspondence-eval", "model evaluation failed:\n" + out[-1500:], replay={"log": out[-3000:]}, found_input=False)
        return
    ck.cov["traces_validated_against_impl"] = len(terms)
    for k, (i, oa) in enumerate(idx):
        for lab, key in (("debug loop", "d%d" % k), ("fused debug/continue run", "c%d" % k), ("traced run", "t%d" % k)):
            if out[key] != oa:
                ck.violation("corr-diag", "model %s and the real plain run disagree on %s: model %s real %s" % (
                    lab, names[i], out[key], oa), replay={"src": srcs[i], "model": out[key], "real": oa}, found_input=False)
