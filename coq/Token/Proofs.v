(* Token/Proofs.v — invariant of the token/revocation/cache state machine and exactness of every decision. *)
From Coq Require Import ZifyBool ZifyN.
From Token Require Import Model.
Open Scope Z_scope.

Ltac splits := repeat match goal with |- _ /\ _ => split end.

(* ---------- association lists *)
Section AssocFacts.
  Context {K V : Type} (eqb : K -> K -> bool).
  Hypothesis eqb_eq : forall a b, eqb a b = true -> a = b.

  Lemma lookup_In k (m : list (K * V)) v : lookup eqb k m = Some v -> In (k, v) m.
  Proof.
    induction m as [|[k' v'] m IH]; cbn; [discriminate|].
    destruct (eqb k' k) eqn:E; intros H.
    - inversion H; subst. apply eqb_eq in E. subst. now left.
    - right. now apply IH.
  Qed.
  Lemma In_remove k (m : list (K * V)) k' v : In (k', v) (remove eqb k m) -> eqb k' k = false /\ In (k', v) m.
  Proof.
    induction m as [|[k2 v2] m IH]; cbn; [tauto|].
    destruct (eqb k2 k) eqn:E; cbn; intros H.
    - apply IH in H. tauto.
    - destruct H as [H|H]; [inversion H; subst; tauto|]. apply IH in H. tauto.
  Qed.
  Lemma In_insert k v (m : list (K * V)) k' v' :
    In (k', v') (insert eqb k v m) -> (k' = k /\ v' = v) \/ (eqb k' k = false /\ In (k', v') m).
  Proof.
    unfold insert. cbn. intros [H|H]; [inversion H; subst; tauto|]. right. now apply In_remove.
  Qed.
End AssocFacts.

Lemma zeqb_eq a b : (a =? b) = true -> a = b.
Proof. apply Z.eqb_eq. Qed.
Lemma peqb_eq a b : peqb a b = true -> a = b.
Proof. destruct a, b. unfold peqb. cbn. intros H. apply andb_true_iff in H as [H1 H2].
       apply Z.eqb_eq in H1, H2. congruence. Qed.

Lemma memz_In x l : memz x l = true <-> In x l.
Proof.
  unfold memz. rewrite existsb_exists. split.
  - intros [y [Hy E]]. apply Z.eqb_eq in E. now subst.
  - intros H. exists x. split; [assumption|apply Z.eqb_refl].
Qed.
Lemma memz_filter x id l : (x =? id) = false -> memz x (filter (fun y => negb (y =? id)) l) = memz x l.
Proof.
  intros Hne. apply eq_true_iff_eq. rewrite !memz_In, filter_In. split; [tauto|].
  intros H. split; [assumption|]. now rewrite Hne.
Qed.

(* ---------- invariant *)
Definition core (s : st) := (now s, key s, next s, issued s, store s).

Definition good (s : st) (n : Z) (t : tok) : Prop :=
  find_tok n (issued s) = Some t /\ tkey t = key s /\ tuser t <> 0.

Record Inv (s : st) : Prop := mkInv {
  inv_bl : forall id a, In (id, a) (bl s) -> a = memz id (store s);
  inv_tc : forall n sp t, In ((n, sp), t) (tc s) -> good s n t;
  inv_pend : forall r n sp t, In (r, AwaitStore n sp t) (pend s) -> good s n t;
  inv_fresh : forall t, In t (issued s) -> tid t < next s;
  inv_uniq : forall t t', In t (issued s) -> In t' (issued s) -> tid t = tid t' -> t = t'
}.

Lemma core_fields s s' : core s' = core s ->
  now s' = now s /\ key s' = key s /\ next s' = next s /\ issued s' = issued s /\ store s' = store s.
Proof. unfold core. intros H. inversion H. tauto. Qed.

Lemma good_core s s' n t : core s' = core s -> good s n t -> good s' n t.
Proof. intros H G. apply core_fields in H as (_ & Hk & _ & Hi & _). unfold good in *. now rewrite Hk, Hi. Qed.
Lemma valid_core s s' w : core s' = core s -> valid s' w = valid s w.
Proof. intros H. apply core_fields in H as (Hn & Hk & _ & Hi & Hs). unfold valid. now rewrite Hn, Hk, Hi, Hs. Qed.
Lemma named_core s s' w : core s' = core s -> named s' w = named s w.
Proof. intros H. apply core_fields in H as (_ & _ & _ & Hi & _). unfold named. now rewrite Hi. Qed.

(* a state with the same core whose cache entries and pending stores are old ones or justified ones *)
Lemma Inv_sub s s' :
  Inv s -> core s' = core s ->
  (forall id a, In (id, a) (bl s') -> In (id, a) (bl s) \/ a = memz id (store s)) ->
  (forall n sp t, In ((n, sp), t) (tc s') -> In ((n, sp), t) (tc s) \/ good s n t) ->
  (forall r n sp t, In (r, AwaitStore n sp t) (pend s') -> In (r, AwaitStore n sp t) (pend s) \/ good s n t) ->
  Inv s'.
Proof.
  intros I C Hb Ht Hp. pose proof (core_fields _ _ C) as (Hn & Hk & Hx & Hi & Hs).
  constructor.
  - intros id a H. rewrite Hs. destruct (Hb _ _ H) as [H'|H']; [now apply (inv_bl _ I)|assumption].
  - intros n sp t H. apply (good_core s); [assumption|]. destruct (Ht _ _ _ H) as [H'|H']; [now apply (inv_tc _ I _ sp)|assumption].
  - intros r n sp t H. apply (good_core s); [assumption|].
    destruct (Hp _ _ _ _ H) as [H'|H']; [now apply (inv_pend _ I r _ sp)|assumption].
  - rewrite Hi, Hx. apply (inv_fresh _ I).
  - rewrite Hi. apply (inv_uniq _ I).
Qed.

Lemma find_tok_In n l t : find_tok n l = Some t -> In t l /\ tid t = n.
Proof. unfold find_tok. intros H. apply find_some in H as [H1 H2]. apply Z.eqb_eq in H2. tauto. Qed.

Lemma find_tok_complete s n t : Inv s -> In t (issued s) -> tid t = n -> find_tok n (issued s) = Some t.
Proof.
  intros I Hin Hid. destruct (find_tok n (issued s)) as [t'|] eqn:E.
  - apply find_tok_In in E as [E1 E2]. f_equal. apply (inv_uniq _ I); congruence.
  - unfold find_tok in E. pose proof (find_none _ _ E _ Hin) as H. cbn in H. lia.
Qed.

(* ---------- the atomic pieces *)
Lemma isbl_spec s id s' b :
  Inv s -> is_blacklisted s id = (s', b) ->
  b = memz id (store s) /\ core s' = core s /\ tc s' = tc s /\ pend s' = pend s /\ Inv s'.
Proof.
  intros I. unfold is_blacklisted. destruct (lookup Z.eqb id (bl s)) as [a|] eqn:E; intros H; inversion H; subst.
  - apply (lookup_In Z.eqb zeqb_eq) in E. apply (inv_bl _ I) in E. splits; try reflexivity; assumption.
  - splits; try reflexivity.
    apply (Inv_sub s); try reflexivity; try assumption; cbn.
    + intros id' a Hin. apply In_insert in Hin as [[-> ->]|[_ Hin]]; tauto.
    + tauto.
    + tauto.
Qed.

Lemma valid_of_dec s n sp t :
  dec s (Genuine n sp) = Some t ->
  valid s (Genuine n sp) = negb (expired s t) && negb (memz (tid t) (store s)).
Proof.
  unfold dec, valid, expired. destruct (find_tok n (issued s)) as [t'|]; [|discriminate].
  destruct (tkey t' =? key s) eqn:E; [|discriminate]. intros H. inversion H; subst. reflexivity.
Qed.
Lemma valid_no_dec s w : dec s w = None -> valid s w = false.
Proof.
  destruct w as [n sp|z]; [|reflexivity]. unfold dec, valid.
  destruct (find_tok n (issued s)) as [t'|]; [|reflexivity]. destruct (tkey t' =? key s); [discriminate|reflexivity].
Qed.

Lemma unwrap_spec s w s' ot :
  Inv s -> unwrap s w = (s', ot) ->
  core s' = core s /\ tc s' = tc s /\ pend s' = pend s /\ Inv s' /\
  match ot with
  | Some t => dec s w = Some t /\ valid s w = true
  | None => valid s w = false
  end.
Proof.
  intros I. unfold unwrap. destruct (dec s w) as [t|] eqn:D.
  - destruct (expired s t) eqn:X.
    + intros H; inversion H; subst. splits; try reflexivity; try assumption.
      destruct w as [n sp|z]; [|reflexivity]. rewrite (valid_of_dec _ _ _ _ D), X. reflexivity.
    + destruct (is_blacklisted s (tid t)) as [s1 b] eqn:B. intros H; inversion H; subst.
      destruct (isbl_spec _ _ _ _ I B) as (Hb & C & T & P & I').
      splits; try reflexivity; try assumption.
      destruct w as [n sp|z]; [|discriminate]. pose proof (valid_of_dec _ _ _ _ D) as V. rewrite X, <- Hb in V.
      destruct b; cbn in V; [assumption|tauto].
  - intros H; inversion H; subst. splits; try reflexivity; try assumption. now apply valid_no_dec.
Qed.

Lemma good_valid_named s n sp t :
  good s n t -> named s (Genuine n sp) = true /\
                valid s (Genuine n sp) = negb (expired s t) && negb (memz (tid t) (store s)).
Proof.
  intros (F & Kk & U). unfold named, valid, expired. rewrite F. split; [lia|]. rewrite Kk, Z.eqb_refl. reflexivity.
Qed.

Lemma lookup_spec s w s' hit :
  Inv s -> r_lookup true s w = (s', hit) ->
  core s' = core s /\ pend s' = pend s /\ Inv s' /\ (hit = true -> valid s w = true /\ named s w = true).
Proof.
  intros I. destruct w as [n sp|z]; cbn [r_lookup].
  2:{ intros H; inversion H; subst. splits; try reflexivity; try assumption; discriminate. }
  destruct (lookup peqb (n, sp) (tc s)) as [t|] eqn:L.
  2:{ intros H; inversion H; subst. splits; try reflexivity; try assumption; discriminate. }
  pose proof (lookup_In peqb peqb_eq _ _ _ L) as Hin. pose proof (inv_tc _ I _ _ _ Hin) as G.
  destruct (good_valid_named s n sp t G) as [Nm Vl].
  destruct (expired s t) eqn:X.
  - intros H; inversion H; subst. splits; try reflexivity; try discriminate.
    apply (Inv_sub s); try reflexivity; try assumption; cbn; try tauto.
    intros n' sp' t' H'. apply In_remove in H'. tauto.
  - destruct (is_blacklisted s (tid t)) as [s1 b] eqn:B.
    destruct (isbl_spec _ _ _ _ I B) as (Hb & C & T & P & I').
    destruct b; intros H; inversion H; subst.
    + splits; try reflexivity; try discriminate; try assumption.
      apply (Inv_sub s1); try reflexivity; try assumption; cbn; try tauto.
      intros n' sp' t' H'. apply In_remove in H'. tauto.
    + splits; try assumption. intros _. split; [rewrite Vl, <- Hb; reflexivity|exact Nm].
Qed.

Lemma r_unwrap_spec s w s' res :
  Inv s -> r_unwrap s w = (s', res) ->
  core s' = core s /\ tc s' = tc s /\ pend s' = pend s /\ Inv s' /\
  match res with
  | Some (n, sp, t) => w = Genuine n sp /\ good s n t /\ valid s w = true /\ named s w = true
  | None => valid s w && named s w = false
  end.
Proof.
  intros I. unfold r_unwrap. destruct (unwrap s w) as [s1 ot] eqn:U.
  destruct (unwrap_spec _ _ _ _ I U) as (C & T & P & I' & R).
  destruct ot as [t|].
  - destruct R as [D V]. destruct w as [n sp|z]; [|discriminate].
    assert (F : find_tok n (issued s) = Some t /\ tkey t = key s).
    { unfold dec in D. destruct (find_tok n (issued s)) as [t'|]; [|discriminate].
      destruct (tkey t' =? key s) eqn:E; [|discriminate]. inversion D; subst. split; [reflexivity|lia]. }
    destruct F as [F Kk].
    destruct (tuser t =? 0) eqn:Z0; intros H; inversion H; subst; splits; try reflexivity; try assumption.
    + unfold named. rewrite F, Z0. cbn. apply andb_false_r.
    + unfold good. splits; try assumption. lia.
    + unfold named. rewrite F, Z0. reflexivity.
  - intros H. assert (s' = s1 /\ res = None) as [-> ->] by (destruct w; inversion H; tauto).
    splits; try reflexivity; try assumption. now rewrite R.
Qed.

Lemma router_full_spec s w s' b :
  Inv s -> router_full true s w = (s', b) ->
  core s' = core s /\ pend s' = pend s /\ Inv s' /\ b = valid s w && named s w.
Proof.
  intros I. unfold router_full. destruct (r_lookup true s w) as [s1 hit] eqn:L.
  destruct (lookup_spec _ _ _ _ I L) as (C1 & P1 & I1 & H1).
  destruct hit.
  - intros H; inversion H; subst. destruct (H1 eq_refl) as [V N]. rewrite V, N. tauto.
  - destruct (r_unwrap s1 w) as [s2 res] eqn:U.
    destruct (r_unwrap_spec _ _ _ _ I1 U) as (C2 & T2 & P2 & I2 & R).
    rewrite (valid_core s s1), (named_core s s1) in R by assumption.
    destruct res as [[[n sp] t]|]; intros H; inversion H; subst.
    + destruct R as (-> & G & V & N). rewrite V, N. splits; [change (core s2 = core s); congruence | cbn; congruence | | reflexivity].
      apply (Inv_sub s2); try reflexivity; try assumption; cbn; try tauto.
      intros n' sp' t' H'. apply In_insert in H' as [[E ->]|[_ H']]; [|tauto].
      inversion E; subst. right. apply (good_core s1); assumption.
    + splits; try congruence; try assumption.
Qed.

(* ---------- every step keeps the invariant *)
Lemma good_issue s n t user ttl :
  Inv s -> good s n t ->
  good (mkSt (now s) (key s) (next s + 1) (mkTok (next s) user (now s + ttl) (key s) :: issued s)
             (store s) (bl s) (tc s) (pend s)) n t.
Proof.
  intros I (F & Kk & U). unfold good. cbn [issued key]. split; [|tauto].
  unfold find_tok. cbn [find tid]. apply find_tok_In in F as F'. destruct F' as [Hin Hid].
  pose proof (inv_fresh _ I _ Hin). destruct (next s =? n) eqn:E; [lia|exact F].
Qed.

Lemma step_inv s o : Inv s -> Inv (fst (step true s o)).
Proof.
  intros I. destruct o; cbn [step].
  - (* Issue *) cbn [fst]. constructor; cbn [bl tc pend issued store next In].
    + apply (inv_bl _ I).
    + intros n sp t H. apply good_issue; [assumption|]. now apply (inv_tc _ I _ sp).
    + intros r n sp t H. apply good_issue; [assumption|]. now apply (inv_pend _ I r _ sp).
    + intros t [<-|H]; cbn; [lia|]. pose proof (inv_fresh _ I _ H). lia.
    + intros t t' [<-|H] [<-|H']; cbn [tid]; intros E; try reflexivity.
      * pose proof (inv_fresh _ I _ H'). lia.
      * pose proof (inv_fresh _ I _ H). lia.
      * now apply (inv_uniq _ I).
  - (* Revoke *) destruct (memz id (store s)); cbn [fst]; [assumption|].
    constructor; cbn [bl tc pend issued store next In]; try tauto.
    + intros r n sp t H. apply (inv_pend _ I r _ sp) in H. exact H.
    + apply (inv_fresh _ I).
    + apply (inv_uniq _ I).
  - (* Unrevoke *) destruct (memz id (store s)); cbn [fst]; [|assumption].
    constructor; cbn [bl tc pend issued store next In].
    + intros id' a H. apply In_remove in H as [Hne H]. rewrite memz_filter by assumption. now apply (inv_bl _ I).
    + intros n sp t H. apply (inv_tc _ I _ sp) in H. exact H.
    + intros r n sp t H. apply (inv_pend _ I r _ sp) in H. exact H.
    + apply (inv_fresh _ I).
    + apply (inv_uniq _ I).
  - (* Flush *) cbn [fst]. constructor; cbn [bl tc pend issued store next In]; try tauto.
    + intros n sp t H. apply (inv_tc _ I _ sp) in H. exact H.
    + intros r n sp t H. apply (inv_pend _ I r _ sp) in H. exact H.
    + apply (inv_fresh _ I).
    + apply (inv_uniq _ I).
  - (* PurgeTc *) cbn [fst]. apply (Inv_sub s); try reflexivity; try assumption; cbn; tauto.
  - (* PurgeBl *) cbn [fst]. apply (Inv_sub s); try reflexivity; try assumption; cbn; tauto.
  - (* EvictTc *) cbn [fst]. apply (Inv_sub s); try reflexivity; try assumption; cbn; try tauto.
    intros n' sp' t' H'. apply In_remove in H'. tauto.
  - (* EvictBl *) cbn [fst]. apply (Inv_sub s); try reflexivity; try assumption; cbn; try tauto.
    intros id' a H'. apply In_remove in H'. tauto.
  - (* Advance *) cbn [fst]. constructor; cbn [bl tc pend issued store next In].
    + apply (inv_bl _ I).
    + intros n sp t H. apply (inv_tc _ I _ sp) in H. exact H.
    + intros r n sp t H. apply (inv_pend _ I r _ sp) in H. exact H.
    + apply (inv_fresh _ I).
    + apply (inv_uniq _ I).
  - (* Restart *) cbn [fst]. constructor; cbn [bl tc pend issued store next In]; try tauto.
    + apply (inv_fresh _ I).
    + apply (inv_uniq _ I).
  - (* VRouter *) destruct (router_full true s w) as [s' b] eqn:R. cbn [fst].
    now destruct (router_full_spec _ _ _ _ I R) as (_ & _ & I' & _).
  - (* VValidate *) destruct (unwrap s w) as [s' ot] eqn:U. cbn [fst].
    now destruct (unwrap_spec _ _ _ _ I U) as (_ & _ & _ & I' & _).
  - (* VExtract *) destruct (unwrap s w) as [s' ot] eqn:U. cbn [fst].
    now destruct (unwrap_spec _ _ _ _ I U) as (_ & _ & _ & I' & _).
  - (* RLookup *) destruct (r_lookup true s w) as [s' hit] eqn:L.
    destruct (lookup_spec _ _ _ _ I L) as (C & P & I' & _).
    destruct hit; cbn [fst]; [assumption|].
    apply (Inv_sub s'); try reflexivity; try assumption; cbn; try tauto.
    intros r' n sp t H. apply In_insert in H as [[_ E]|[_ H]]; [discriminate|tauto].
  - (* RUnwrap *) destruct (lookup Z.eqb r (pend s)) as [[w|n sp t]|] eqn:L; cbn [fst]; try assumption.
    destruct (r_unwrap s w) as [s' res] eqn:U.
    destruct (r_unwrap_spec _ _ _ _ I U) as (C & T & P & I' & R).
    destruct res as [[[n sp] t]|]; cbn [fst].
    + destruct R as (_ & G & _). apply (Inv_sub s'); try reflexivity; try assumption; cbn; try tauto.
      intros r' n' sp' t' H. apply In_insert in H as [[_ E]|[_ H]]; [|tauto].
      inversion E; subst. right. now apply (good_core s).
    + apply (Inv_sub s'); try reflexivity; try assumption; cbn; try tauto.
      intros r' n' sp' t' H. apply In_remove in H. tauto.
  - (* RStore *) destruct (lookup Z.eqb r (pend s)) as [[w|n sp t]|] eqn:L; cbn [fst]; try assumption.
    apply (lookup_In Z.eqb zeqb_eq) in L. pose proof (inv_pend _ I _ _ _ _ L) as G.
    apply (Inv_sub s); try reflexivity; try assumption; cbn; try tauto.
    + intros n' sp' t' H. apply In_insert in H as [[E ->]|[_ H]]; [|tauto]. inversion E; subst. tauto.
    + intros r' n' sp' t' H. apply In_remove in H. tauto.
Qed.

Lemma init_inv k : Inv (init k).
Proof. constructor; cbn; tauto. Qed.

Lemma run_inv k h : Inv (run true k h).
Proof.
  unfold run. generalize (init_inv k). generalize (init k). induction h as [|o h IH]; intros s I; cbn; [assumption|].
  apply IH. now apply step_inv.
Qed.

(* ---------- every decision is the specification's *)
Lemma step_decision s o s' w b :
  Inv s -> step true s o = (s', Some (w, b)) -> b = expected s o w.
Proof.
  intros I. unfold expected. destruct o; cbn [step router_op]; try discriminate.
  - destruct (memz id (store s)); discriminate.
  - destruct (memz id (store s)); discriminate.
  - destruct (router_full true s w0) as [s1 b1] eqn:R. intros H; inversion H; subst.
    now destruct (router_full_spec _ _ _ _ I R) as (_ & _ & _ & ->).
  - destruct (unwrap s w0) as [s1 ot] eqn:U. intros H; inversion H; subst.
    destruct (unwrap_spec _ _ _ _ I U) as (_ & _ & _ & _ & R). rewrite andb_true_r.
    destruct ot; [destruct R as [_ ->]|rewrite R]; reflexivity.
  - destruct (unwrap s w0) as [s1 ot] eqn:U. intros H; inversion H; subst.
    destruct (unwrap_spec _ _ _ _ I U) as (C & _ & _ & _ & R). rewrite andb_true_r.
    destruct ot as [t|]; [|now rewrite R]. destruct R as [D ->].
    (* the second expiry test of cipher.Extract never fires *)
    destruct w as [n sp|z]; [|discriminate]. pose proof (valid_of_dec _ _ _ _ D) as V.
    unfold unwrap in U. rewrite D in U. destruct (expired s t) eqn:X.
    + inversion U.
    + apply core_fields in C as (Hn & _). unfold expired in *. rewrite Hn, X. reflexivity.
  - destruct (r_lookup true s w0) as [s1 hit] eqn:L. destruct (lookup_spec _ _ _ _ I L) as (_ & _ & _ & H1).
    destruct hit; [|discriminate]. intros H; inversion H; subst. destruct (H1 eq_refl) as [-> ->]. reflexivity.
  - destruct (lookup Z.eqb r (pend s)) as [[w0|n sp t]|] eqn:L; try discriminate.
    destruct (r_unwrap s w0) as [s1 res] eqn:U. destruct (r_unwrap_spec _ _ _ _ I U) as (_ & _ & _ & _ & R).
    destruct res as [[[n sp] t]|]; intros H; inversion H; subst.
    + destruct R as (_ & _ & -> & ->). reflexivity.
    + now rewrite R.
  - destruct (lookup Z.eqb r (pend s)) as [[w0|n sp t]|]; discriminate.
Qed.

(* ---------- the computable specification is the four-line one *)
Lemma valid_iff s w : Inv s -> valid s w = true <-> Valid s w.
Proof.
  intros I. unfold Valid, issued_here. split.
  - destruct w as [n sp|z]; cbn [valid]; [|discriminate].
    destruct (find_tok n (issued s)) as [t|] eqn:F; [|discriminate]. intros H.
    apply find_tok_In in F as [Hin Hid]. exists t. split; [exists n, sp; tauto|].
    apply andb_true_iff in H as [H H3]. apply andb_true_iff in H as [H1 H2].
    split; [lia|]. split; [lia|]. rewrite <- memz_In. destruct (memz (tid t) (store s)); [discriminate|congruence].
  - intros (t & (n & sp & -> & Hin & Hid) & Hk & He & Hr). cbn [valid].
    rewrite (find_tok_complete s n t I Hin Hid). rewrite <- memz_In in Hr.
    destruct (memz (tid t) (store s)); [tauto|]. rewrite Hk, Z.eqb_refl. cbn. lia.
Qed.

Lemma named_iff s w : Inv s -> named s w = true <-> Named s w.
Proof.
  intros I. unfold Named, issued_here. split.
  - intros H t (n & sp & -> & Hin & Hid). cbn [named] in H. rewrite (find_tok_complete s n t I Hin Hid) in H. lia.
  - intros H. destruct w as [n sp|z]; cbn [named]; [|reflexivity].
    destruct (find_tok n (issued s)) as [t|] eqn:F; [|reflexivity].
    apply find_tok_In in F as [Hin Hid]. assert (tuser t <> 0) by (apply H; exists n, sp; tauto). lia.
Qed.

Lemma expected_iff s o w :
  Inv s -> expected s o w = true <-> Valid s w /\ (router_op o = true -> Named s w).
Proof.
  intros I. unfold expected. rewrite andb_true_iff, (valid_iff s w I). destruct (router_op o).
  - rewrite (named_iff s w I). tauto.
  - split; [intros [H _]; split; [assumption|discriminate]|tauto].
Qed.

Lemma decisions_exact k h o s' w b :
  step true (run true k h) o = (s', Some (w, b)) ->
  (b = true <-> Valid (run true k h) w /\ (router_op o = true -> Named (run true k h) w)).
Proof.
  intros H. pose proof (run_inv k h) as I. rewrite (step_decision _ _ _ _ _ I H). now apply expected_iff.
Qed.

(* the three validators always take a decision about the string they are given *)
Lemma validator_decides s w o :
  (o = VRouter w \/ o = VValidate w \/ o = VExtract w) -> exists b, snd (step true s o) = Some (w, b).
Proof.
  intros [ -> | [ -> | -> ] ]; cbn [step].
  - destruct (router_full true s w) as [s' b]. now exists b.
  - destruct (unwrap s w) as [s' ot]. eexists. reflexivity.
  - destruct (unwrap s w) as [s' ot]. eexists. reflexivity.
Qed.

Lemma accept_iff k h w o :
  (o = VRouter w \/ o = VValidate w \/ o = VExtract w) ->
  (snd (step true (run true k h) o) = Some (w, true)
   <-> Valid (run true k h) w /\ (router_op o = true -> Named (run true k h) w)).
Proof.
  intros Ho. destruct (validator_decides (run true k h) w o Ho) as [b Hb].
  destruct (step true (run true k h) o) as [s' x] eqn:S. cbn [snd] in *. subst x.
  rewrite <- (decisions_exact k h o s' w b S). split; [intros H; now inversion H|now intros ->].
Qed.

(* ---------- the code before the repair: a revocation that lands between TokenUnwrap and the cache fill *)
Definition race_history : list op :=
  [Issue 1 1000; RLookup 0 (Genuine 0 0); RUnwrap 0; Revoke 0; RStore 0].

Lemma old_refuted :
  let s := run false 7 race_history in
  snd (step false s (VRouter (Genuine 0 0))) = Some (Genuine 0 0, true) /\ ~ Valid s (Genuine 0 0).
Proof.
  cbn zeta. split; [vm_compute; reflexivity|].
  intros (t & (n & sp & E & Hin & Hid) & _ & _ & Hr). apply Hr. vm_compute in Hin.
  destruct Hin as [<-|[]]. vm_compute. now left.
Qed.

Lemma race_fixed :
  let s := run true 7 race_history in
  snd (step true s (VRouter (Genuine 0 0))) = Some (Genuine 0 0, false).
Proof. vm_compute. reflexivity. Qed.

(* ---------- byte level: which strings are Genuine *)
Lemma hexval_lower c c' v : hexval c = Some v -> hexval c' = Some v -> lower c = lower c'.
Proof.
  unfold hexval, lower. intros H H'.
  destruct ((48 <=? c) && (c <=? 57))%N eqn:A; [|destruct ((97 <=? c) && (c <=? 102))%N eqn:B;
    [|destruct ((65 <=? c) && (c <=? 70))%N eqn:C; [|discriminate]]];
  (destruct ((48 <=? c') && (c' <=? 57))%N eqn:A'; [|destruct ((97 <=? c') && (c' <=? 102))%N eqn:B';
    [|destruct ((65 <=? c') && (c' <=? 70))%N eqn:C'; [|discriminate]]]);
  inversion H; inversion H'; subst; destruct ((65 <=? c) && (c <=? 90))%N eqn:L1; destruct ((65 <=? c') && (c' <=? 90))%N eqn:L2; lia.
Qed.
Lemma hexval_lt c v : hexval c = Some v -> (v < 16)%N.
Proof.
  unfold hexval. intros H.
  destruct ((48 <=? c) && (c <=? 57))%N eqn:A; [|destruct ((97 <=? c) && (c <=? 102))%N eqn:B;
    [|destruct ((65 <=? c) && (c <=? 70))%N eqn:C; [|discriminate]]]; inversion H; subst; lia.
Qed.

Lemma hexdecode_same_lower : forall (n : nat) s s' l,
  (length s <= n)%nat -> hexdecode s = Some l -> hexdecode s' = Some l -> map lower s = map lower s'.
Proof.
  induction n as [|n IH]; intros s s' l Hn.
  - destruct s; [|cbn in Hn; lia]. cbn. intros H; inversion H; subst.
    destruct s' as [|a [|b r]]; cbn; try discriminate; [reflexivity|].
    destruct (hexval a), (hexval b), (hexdecode r); discriminate.
  - destruct s as [|a [|b r]]; cbn [hexdecode].
    + intros H; inversion H; subst. destruct s' as [|a [|b r]]; cbn; try discriminate; [reflexivity|].
      destruct (hexval a), (hexval b), (hexdecode r); discriminate.
    + discriminate.
    + destruct (hexval a) as [x|] eqn:Ha; [|discriminate]. destruct (hexval b) as [y|] eqn:Hb; [|discriminate].
      destruct (hexdecode r) as [l0|] eqn:Hr; [|discriminate]. intros H; injection H as <-.
      destruct s' as [|a' [|b' r']]; cbn [hexdecode]; try discriminate.
      destruct (hexval a') as [x'|] eqn:Ha'; [|discriminate]. destruct (hexval b') as [y'|] eqn:Hb'; [|discriminate].
      destruct (hexdecode r') as [l1|] eqn:Hr'; [|discriminate]. intros H'; injection H' as E1 E2; subst l1.
      pose proof (hexval_lt _ _ Ha). pose proof (hexval_lt _ _ Hb).
      pose proof (hexval_lt _ _ Ha'). pose proof (hexval_lt _ _ Hb').
      change ((16 * x' + y' = 16 * x + y)%N) in E1. assert (x' = x /\ y' = y) as [-> ->] by lia.
      cbn [map]. rewrite (hexval_lower _ _ _ Ha Ha'), (hexval_lower _ _ _ Hb Hb').
      do 2 f_equal. apply (IH r r' l0); [cbn in Hn; lia|assumption|assumption].
Qed.

Lemma hexval_digit v : (v < 16)%N -> hexval (hexdigit v) = Some v.
Proof. unfold hexval, hexdigit. intros H. destruct (N.ltb_spec v 10).
       - replace ((48 <=? 48 + v) && (48 + v <=? 57))%N with true by lia. f_equal. lia.
       - replace ((48 <=? 87 + v) && (87 + v <=? 57))%N with false by lia.
         replace ((97 <=? 87 + v) && (87 + v <=? 102))%N with true by lia. f_equal. lia. Qed.

Lemma hexdecode_encode l : Forall (fun b => (b < 256)%N) l -> hexdecode (hexencode l) = Some l.
Proof.
  induction 1 as [|b l Hb _ IH]; [reflexivity|]. cbn [hexencode flat_map app]. fold (hexencode l). cbn [hexdecode].
  rewrite !hexval_digit, IH.
  - f_equal. f_equal. pose proof (N.div_mod b 16). lia.
  - apply N.mod_lt. lia.
  - apply N.div_lt_upper_bound; lia.
Qed.

Section Wire.
  (* util.Decrypt under the current key followed by json.Unmarshal: Some n = the payload is token number n *)
  Variable decrypt : list N -> option Z.
  (* the ciphertext bytes tokens.New produced for token number n *)
  Variable ciphertext_of : Z -> list N.
  (* idealised AEAD (INT-CTXT, as in C27): only a ciphertext the server produced decrypts, and to its own token *)
  Hypothesis decrypt_only_produced : forall c n, decrypt c = Some n -> c = ciphertext_of n.
  Hypothesis ciphertext_bytes : forall n, Forall (fun b => (b < 256)%N) (ciphertext_of n).

  (* how a presented string enters the state machine *)
  Definition classify (spelling : list N -> Z) (s : list N) : wire :=
    match hexdecode s with
    | None => Altered 0
    | Some c => match decrypt c with Some n => Genuine n (spelling s) | None => Altered 1 end
    end.

  (* A string that is not classified Altered is, up to the case of its hex letters, exactly the string issued
     for the token it is classified as.  So every other alteration of a token string (any byte changed,
     inserted or removed) is Altered, and Altered strings are never accepted (accept_iff). *)
  Lemma genuine_only_respelling spelling s n sp :
    classify spelling s = Genuine n sp -> map lower s = map lower (hexencode (ciphertext_of n)).
  Proof.
    unfold classify. destruct (hexdecode s) as [c|] eqn:H; [|discriminate].
    destruct (decrypt c) as [m|] eqn:D; [|discriminate]. intros E; inversion E; subst.
    apply decrypt_only_produced in D. subst c.
    apply (hexdecode_same_lower (length s) s _ (ciphertext_of n)); [lia|assumption|].
    apply hexdecode_encode, ciphertext_bytes.
  Qed.
End Wire.

Lemma altered_rejected k h z o :
  (o = VRouter (Altered z) \/ o = VValidate (Altered z) \/ o = VExtract (Altered z)) ->
  snd (step true (run true k h) o) = Some (Altered z, false).
Proof.
  intros Ho. destruct (validator_decides (run true k h) _ o Ho) as [b Hb]. destruct b; [|assumption].
  apply (accept_iff k h _ o Ho) in Hb as [(t & (n & sp & E & _) & _) _]. discriminate.
Qed.
