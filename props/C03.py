"""C03 Arithmetic follows the documented typing rules (bytecode/math.go, data/coerce.go, compiler x++ emission)."""
import json
import os
import vf
import arith_util as au

GROUP = "Arith"
META = {
    "group": "Arith",
    "technique": "Coq proof that a Gallina transliteration of Normalize/Coerce/CoerceLossless and the add/sub/mul/div/mod/"
                 "negate/increment opcodes equals the documented rule table for every integer kind, constness, mode and "
                 "in-range value + vm_compute correspondence with the real opcode functions on every cell + statement forms "
                 "through the real ego binary",
    "text": "Theorems C03_binop_matches_doc (add/sub/mul/div/mod on any two integer operands of the 10 integer kinds, any "
            "constness, strict/relaxed/dynamic, all in-range values: constant adapts - losslessly in strict -, promotion or "
            "rejection, wrap-around, division by zero), C03_forms_match_doc / C03_incr_forms_agree / C03_form_keeps_kind "
            "(x++, x--, x += k, x -= k, x = x + k, x = x - k, unoptimized or fused into Increment, agree in value and type "
            "in every mode), C03_increment_is_add_store (the fused Increment instruction equals Load/Push/Add/Store for all values, steps and modes), C03_negate_total and C03_lossless_is_range_check (the float64 round trip of CoerceLossless is "
            "exactly the range check) are proved for all inputs over the model; six C03_old_refuted_* witnesses record the "
            "five defects repaired in tucats/ego. The model is compared with the real opcode functions on every "
            "(mode, op, kind, const) cell with boundary values on every run, the documented table is also evaluated "
            "directly on the real outputs, and the statement forms run through the real binary at several -o levels. "
            "partial: float32/float64/complex operands are only observed (negation and the increment forms on the real "
            "code), not modelled; ego.runtime.precision.error=true is not covered",
    "note": "Trusted: Coq kernel; hand-written model (coq/Arith/Model.v) and rule table (coq/Arith/Spec.v, written from "
            "docs/LANGUAGE.md#typeConversion); overlay harness harness/C03/c03_test.go; lib/arith_util.py (generators, "
            "Python statement of the table, comparison).",
}
FORMS = ["x++", "x--", "x += K", "x -= K", "x = x + K", "x = x - K"]


def gen_lines(ck, quick):
    rng = ck.rng
    L = []
    n = [0]

    def add(kind, *f):
        n[0] += 1
        L.append("%s %d %s" % (kind, n[0], " ".join(f)))

    # corpus: witnesses of the repaired defects and hand-picked corner cells
    add("N", "int8:0:5")
    add("N", "int8:1:-128")
    add("I", "relaxed", "int8:0:5", "int:1:1")
    add("I", "strict", "int32:0:5", "int:1:1")
    add("I", "strict", "int32:0:5", "int:0:1")
    add("B", "dynamic", "add", "int32:0:5", "int:0:1")
    add("B", "strict", "add", "int32:0:5", "int:0:1")
    add("B", "relaxed", "div", "int8:0:-128", "int8:0:-1")
    add("B", "strict", "add", "int64:0:5", "uint64:1:18446744073709551615")
    add("B", "strict", "add", "int:1:9007199254740993", "int64:0:1")
    add("B", "strict", "add", "uint64:0:1", "int64:1:-9223372036854775808")
    add("B", "strict", "mul", "int64:1:9223372036854775807", "uint64:0:2")
    add("A", "strict", "int16", "int:1:4")
    add("R", "strict", "int16", "int:1:70000")
    add("R", "strict", "uint64", "int:1:-1")
    npair = 2 if quick else 12
    bnd = {k: au.boundary(k, rng, 2) for k in au.IK}
    for mode in au.MODES:
        for op in au.OPS:
            for k1 in au.IK:
                for k2 in au.IK:
                    for c1 in (0, 1):
                        for c2 in (0, 1):
                            for _ in range(npair):
                                a = rng.choice(bnd[k1])
                                b = rng.choice(bnd[k2])
                                if op in ("div", "mod") and b == 0 and rng.random() < 0.7:
                                    b = rng.choice([x for x in bnd[k2] if x != 0])
                                add("B", mode, op, au.hv((k1, c1, a)), au.hv((k2, c2, b)))
    # bool / string operands mixed with everything (model only, no documented table for these)
    others = [("bool", True), ("bool", False), ("string", ""), ("string", "ab"), ("string", "7")]
    for mode in au.MODES:
        for op in au.OPS:
            for (ko, po) in others:
                for k in au.IK + ["bool", "string"]:
                    if k in au.BITS:
                        v = (k, rng.randint(0, 1), rng.choice(bnd[k]))
                    elif k == "bool":
                        v = (k, rng.randint(0, 1), rng.random() < 0.5)
                    else:
                        v = (k, rng.randint(0, 1), rng.choice(["", "x", "12"]))
                    o = (ko, rng.randint(0, 1), po)
                    if rng.random() < 0.5:
                        add("B", mode, op, au.hv(o), au.hv(v))
                    else:
                        add("B", mode, op, au.hv(v), au.hv(o))
    for k in au.IK:
        for c in (0, 1):
            for v in bnd[k]:
                add("N", au.hv((k, c, v)))
    for o in others:
        add("N", au.hv((o[0], 0, o[1])))
    for f in ("float32:0:1.5", "float64:0:-2.25", "float64:1:1e300", "float32:0:0"):
        add("N", f)
    for mode in au.MODES:
        for k in au.IK:
            for ks in au.IK:
                for cs in (0, 1):
                    for _ in range(1 if quick else 4):
                        add("I", mode, au.hv((k, 0, rng.choice(bnd[k]))), au.hv((ks, cs, rng.choice(bnd[ks]))))
            for o in others:
                add("I", mode, au.hv((k, 0, rng.choice(bnd[k]))), au.hv((o[0], rng.randint(0, 1), o[1])))
                add("I", mode, au.hv((o[0], 0, o[1])), au.hv((k, rng.randint(0, 1), rng.choice(bnd[k]))))
    return L


def case_of(line):
    """line -> dict(coq=model-vs-observed expr builder, want=documented result or None, sig=cell signature)"""
    f = line.split()
    t = f[0]
    c = {"line": line, "id": f[1], "t": t, "want": None, "model": None}
    if t == "B":
        mode, op, v1, v2 = f[2], f[3], au.parse_hv(f[4]), au.parse_hv(f[5])
        c["sig"] = "binop:%s:%s:%s%s:%s%s" % (mode, op, v1[0], "c" if v1[1] else "v", v2[0], "c" if v2[1] else "v")
        if au.modelled(v1) and au.modelled(v2):
            c["model"] = "binop %s %s %s %s" % (au.COQM[mode], au.COQOP[op], au.coq_vc(v1), au.coq_vc(v2))
        if v1[0] in au.BITS and v2[0] in au.BITS:
            c["want"] = au.doc_binop(mode, op, v1, v2)
    elif t == "N":
        v = au.parse_hv(f[2])
        c["sig"] = "negate:%s%s" % (v[0], "c" if v[1] else "v")
        c["pair"] = True
        if au.modelled(v):
            c["model"] = "negate %s" % au.coq_vc(v)
        if v[0] in au.BITS:
            c["want"] = ("ok", (v[0], v[1], au.wrap(v[0], -v[2])))
            c["want_const"] = v[1]
        elif v[0] in ("float32", "float64"):
            c["float_neg"] = v
    elif t == "I":
        mode, v, s = f[2], au.parse_hv(f[3]), au.parse_hv(f[4])
        c["sig"] = "increment:%s:%s:%s%s" % (mode, v[0], s[0], "c" if s[1] else "v")
        if au.modelled(v) and au.modelled(s):
            c["model"] = "increment cfg_now %s %s %s" % (au.COQM[mode], au.coq_val(v), au.coq_vc(s))
        if v[0] in au.BITS and s[0] in au.BITS and s[1]:
            c["want"] = au.doc_binop(mode, "add", (v[0], 0, v[2]), s)     # x = x + <constant>
    elif t in ("A", "R"):
        mode, kind, v = f[2], f[3], au.parse_hv(f[4])
        c["sig"] = "%s:%s:%s:%s%s" % ("argument" if t == "A" else "return", mode, kind, v[0], "c" if v[1] else "v")
        if au.modelled(v):
            c["model"] = "%s %s %s %s" % ("argument" if t == "A" else "retval", au.COQM[mode], au.coq_kind(kind), au.coq_vc(v))
        if v[0] in au.BITS and kind in au.BITS and mode != "dynamic":
            c["want"] = au.doc_assign(mode, kind, v)
        elif v[0] in au.BITS and kind in au.BITS:
            c["want"] = ("ok", (kind, 0, au.wrap(kind, v[2])))
    return c


def gen_program(rng, quick):
    """One Ego program exercising every statement form on every numeric kind; returns (text, expectations)."""
    out = ["package main", 'import "fmt"', "func main() {"]
    exp = {}
    n = 0
    for k in au.IK:
        starts = {0, 1, au.kmin(k), min(au.kmax(k), (1 << 63) - 1)}
        if not quick:
            starts |= {au.kmin(k) + 1, min(au.kmax(k), (1 << 63) - 1) - 1, rng.randint(au.kmin(k), min(au.kmax(k), (1 << 63) - 1))}
        for v in sorted(starts):
            for form in FORMS:
                for step in ((1,) if "K" not in form else (1, 7)):
                    n += 1
                    x = "x%d" % n
                    out.append("    var %s %s = %d" % (x, k, v))
                    out.append("    " + form.replace("x", x).replace("K", str(step)))
                    out.append('    fmt.Printf("%d %%T %%v\\n", %s, %s)' % (n, x, x))
                    s = step if ("+" in form) else -step
                    exp[n] = (k, str(au.wrap(k, v + s)), "%s on %s %d" % (form.replace("K", str(step)), k, v))
            n += 1
            out.append("    var x%d %s = %d" % (n, k, v))
            out.append("    y%d := -x%d" % (n, n))
            out.append('    fmt.Printf("%d %%T %%v\\n", y%d, y%d)' % (n, n, n))
            exp[n] = (k, str(au.wrap(k, -v)), "-x on %s %d" % (k, v))
    for k in ("float32", "float64"):
        for form in FORMS:
            n += 1
            x = "x%d" % n
            out.append("    var %s %s = 1.5" % (x, k))
            out.append("    " + form.replace("x", x).replace("K", "1"))
            out.append('    fmt.Printf("%d %%T %%v\\n", %s, %s)' % (n, x, x))
            exp[n] = (k, "2.5" if "+" in form else "0.5", "%s on %s 1.5" % (form, k))
        n += 1
        out.append("    var x%d %s = 1.5" % (n, k))
        out.append("    y%d := -x%d" % (n, n))
        out.append('    fmt.Printf("%d %%T %%v\\n", y%d, y%d)' % (n, n, n))
        exp[n] = (k, "-1.5", "-x on %s 1.5" % k)
    out.append("    locals()")
    out.append("}")
    # the same forms on `:=`-declared locals of a function body: with -o 3 (ego.compiler.registers) these live in
    # register slots and go through the LoadRegister/StoreRegister emission of x++ / x-- and its own store check
    fn = ["func locals() {"]
    for k in au.IK + ["float32", "float64"]:
        starts = [1.5] if k not in au.BITS else sorted({1, au.kmin(k), min(au.kmax(k), (1 << 63) - 1)})
        for v in starts:
            for form in FORMS:
                n += 1
                x = "r%d" % n
                fn.append("    %s := %s(%s)" % (x, k, v))
                fn.append("    " + form.replace("x", x).replace("K", "1"))
                fn.append('    fmt.Printf("%d %%T %%v\\n", %s, %s)' % (n, x, x))
                if k in au.BITS:
                    exp[n] = (k, str(au.wrap(k, v + (1 if "+" in form else -1))), "local %s on %s %d" % (form.replace("K", "1"), k, v))
                else:
                    exp[n] = (k, "2.5" if "+" in form else "0.5", "local %s on %s 1.5" % (form.replace("K", "1"), k))
            if k in au.BITS:
                n += 1
                fn.append("    r%d := %s(%d)" % (n, k, v))
                fn.append("    q%d := -r%d" % (n, n))
                fn.append('    fmt.Printf("%d %%T %%v\\n", q%d, q%d)' % (n, n, n))
                exp[n] = (k, str(au.wrap(k, -v)), "local -x on %s %d" % (k, v))
    fn.append("}")
    i = out.index("func main() {")
    out[i:i] = fn
    return "\n".join(out) + "\n", exp


def run_program(ck, ego, text, exp, mode, opt, tag):
    p = os.path.join(ck.work, "forms_%s.ego" % tag)
    with open(p, "w") as f:
        f.write(text)
    rc, out = 1, "Error: could not start ego"
    for attempt in range(3):
        try:
            rc, out = vf.sh([ego, "run", "--types", mode, "-o", str(opt), p], cwd=ck.work, env=vf.ego_env(ck.work), timeout=300)
            break
        except OSError:                     # binary being replaced by a concurrent build of the same tree
            import time
            time.sleep(2)
            vf.build_ego()
    got = {}
    for line in out.splitlines():
        f = line.split()
        if len(f) == 3 and f[0].isdigit():
            got[int(f[0])] = (f[1], f[2])
    bad = []
    for i, (k, v, what) in exp.items():
        if got.get(i) != (k, v):
            bad.append((i, what, got.get(i)))
    return bad, out


def run(ck):
    quick = ck.tier == "quick"
    ck.cov["rule"] = ("every (mode, opcode, kind1, const1, kind2, const2) cell of add/sub/mul/div/mod over the 10 integer kinds "
                      "with operand values drawn from {min, min+1, -2, -1, 0, 1, 2, 7, max-1, max, random}; bool/string operands "
                      "mixed with every kind; negate on every kind x const x value; Increment on every (mode, kind, step kind, "
                      "const) cell; statement forms x++ x-- x+=k x-=k x=x+k x=x-k and -x through the ego binary for every "
                      "numeric kind, both on `var` variables of main and on `:=` locals of a function body (register slots at -o 3), in 3 modes x -o 0,2,3 (thorough 0..3). distinct_nontrivial = distinct harness cases whose two "
                      "operands differ in kind or constness, or whose result wrapped, or that ended in an error")
    ck.assume("ego.runtime.precision.error has its default value false (the precisionError() branches of data/coerce.go are not modelled)",
              "float32/float64/complex operands are outside the model (observed on the real code only)",
              "string->integer coercion (egostrings.Atoi) and string subtraction (strings.ReplaceAll) are outside the model (OOM)")
    ck.trusted("harness/C03/c03_test.go (in-package overlay), lib/arith_util.py (generators, Python rule table, comparison)",
               "correspondence evaluated by vm_compute in generated case files")
    thms = ["C03_binop_matches_doc", "C03_forms_match_doc", "C03_incr_forms_agree", "C03_form_keeps_kind",
            "C03_increment_is_add_store", "C03_negate_total", "C03_full", "C03_lossless_is_range_check", "C03_old_refuted_negate_int8",
            "C03_old_refuted_postinc_dynamic", "C03_old_refuted_postinc_strict", "C03_old_refuted_increment_int8",
            "C03_old_refuted_increment_strict", "C03_old_refuted_const_narrow_kinds"]
    ck.coq_stage(GROUP, theorems=thms)

    ok, binp = au.build_harness(ck)
    if not ok:
        ck.violation("harness-build", "harness for internal/language/bytecode does not build:\n" + binp[-1500:],
                     replay={"log": binp[-3000:]}, found_input=False)
        return
    replay = None
    if ck.replay_file:
        replay = json.load(open(ck.replay_file))["replay"] or {}
    lines = gen_lines(ck, quick) if replay is None else list(replay.get("lines", []))
    cases = [case_of(l) for l in lines]
    obs, log = au.run_harness(ck, binp, lines) if lines else ({}, "")
    if obs is None:
        ck.violation("harness-run", "harness failed:\n" + log[-1500:], replay={"log": log[-3000:]}, found_input=False)
        return

    # ---- property oracle on the implementation: the documented table, evaluated in Python on the real outputs
    found = set()
    nontriv = set()
    dist = {}
    for c in cases:
        o = obs.get(c["id"])
        dist[c["t"]] = dist.get(c["t"], 0) + 1
        if o is None or o[0] in ("panic", "badinput"):
            ck.violation(c["sig"] + ":" + (o[0] if o else "missing"), "real opcode %s on `%s`" % (o[0] if o else "gave no output", c["line"]),
                         replay={"lines": [c["line"]]})
            found.add(c["id"])
            continue
        if o[0] == "err" or (c["t"] == "B" and c["line"].split()[4].rsplit(":", 1)[0] != c["line"].split()[5].rsplit(":", 1)[0]):
            nontriv.add(c["line"].split(None, 2)[2])
        w = c["want"]
        if w is not None and not au.same(o, w):
            ck.violation(c["sig"], "documented rule gives %s but the real code gave %s for `%s`" % (w, o, c["line"]),
                         replay={"lines": [c["line"]], "documented": w, "observed": o})
            found.add(c["id"])
        elif w is not None and c.get("pair") and o[0] == "ok" and o[1][1] != c["want_const"]:
            ck.violation(c["sig"], "negation changed constness for `%s`: %s" % (c["line"], o), replay={"lines": [c["line"]]})
            found.add(c["id"])
        if c.get("float_neg") is not None:
            v = c["float_neg"]
            okf = o[0] == "ok" and o[1][0] == v[0] and float(o[1][2]) == -float(v[2])
            if not okf:
                ck.violation(c["sig"], "unary minus on %s gave %s" % (v, o), replay={"lines": [c["line"]]})
                found.add(c["id"])
    ck.cov["evaluations"] = len(cases)
    ck.cov["input_distribution"] = {"harness_cases_by_kind(B=binop,N=negate,I=increment,A=argument,R=return)": dist}
    for c in cases[15:19]:
        ck.sample({"case": c["line"], "observed": obs.get(c["id"]), "documented": c["want"]})

    # ---- statement forms through the real binary
    if replay is None or "program" in replay:
        okb, ego = vf.build_ego()
        if not okb:
            ck.violation("ego-build", "ego does not build:\n" + ego[-1500:], replay={"log": ego[-3000:]}, found_input=False)
        else:
            text, exp = gen_program(ck.rng, quick)
            runs = [(m, o) for m in au.MODES for o in ((0, 2, 3) if quick else (0, 1, 2, 3))]
            if replay is not None:
                runs = [(replay["mode"], replay["opt"])]
                text = replay["program"]
                exp = {int(k): tuple(v) for k, v in replay["expect"].items()}
            nst = 0
            for (m, o) in runs:
                bad, out = run_program(ck, ego, text, exp, m, o, "%s_%s" % (m, o))
                nst += len(exp)
                for (i, what, got) in bad[:(1 if "Error:" in out else 3)]:     # after an abort only the first missing line is the culprit
                    ck.violation("form:%s:%s" % (m, what.split(" on ")[0] + ":" + what.split(" on ")[1].split()[0]),
                                 "`%s` under --types %s -o %d printed %s, documented %s %s\n%s" % (
                                     what, m, o, got, exp[i][0], exp[i][1], out[-300:]),
                                 replay={"program": text, "mode": m, "opt": o, "expect": exp, "statement": what})
                    found.add("prog")
            ck.cov["evaluations"] += nst
            ck.cov["input_distribution"]["statement_form_executions"] = nst
            ck.cov["input_distribution"]["ego_runs(mode x -o)"] = len(runs)
            nontriv |= {"form:%s" % v[2] for v in exp.values()}
            ck.sample({"statement": exp[1][2], "expected": exp[1][:2], "runs": runs})
    ck.cov["distinct_nontrivial"] = len(nontriv)

    # ---- correspondence: model (vm_compute) vs implementation
    if not getattr(ck, "coq_broken", None):
        mc = [c for c in cases if c["model"] is not None and obs.get(c["id"]) and obs[c["id"]][0] in ("ok", "err")
              and (obs[c["id"]][0] == "err" or au.modelled(obs[c["id"]][1]))]
        exprs = []
        for c in mc:
            o = obs[c["id"]]
            if c.get("pair"):
                exprs.append("cmp_res2 (%s) %s" % (c["model"], au.coq_obs(o, True)))
            else:
                exprs.append("cmp_res (%s) %s" % (c["model"], au.coq_obs(o)))
        okc, bad, oom = au.coq_compare(ck, "cases", exprs)
        if not okc:
            ck.violation("correspondence-eval", "model evaluation failed:\n" + str(bad)[-1500:], replay={"log": str(bad)[-3000:]},
                         found_input=False)
        else:
            ck.cov["traces_validated_against_impl"] = len(mc) - len(oom)
            ck.cov["input_distribution"]["outside_model_fragment"] = len(oom) + (len(cases) - len(mc))
            for i in bad[:5]:
                if mc[i]["id"] in found:
                    continue
                ck.violation("corr:" + mc[i]["sig"], "model and implementation disagree on `%s`: real %s" % (mc[i]["line"], obs[mc[i]["id"]]),
                             replay={"lines": [mc[i]["line"]]}, found_input=False)
    elif not ck.viol:
        grp, log = ck.coq_broken
        ck.violation("proof-broken", "Coq development %s no longer checks (C03 theorems); no failing input found by the "
                     "oracle on %d cases:\n%s" % (grp, len(cases), log[-1200:]),
                     replay={"broken": "coq/%s" % grp, "log": log[-3000:]}, found_input=False)
