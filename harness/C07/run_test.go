//go:build verif

package commands

// Overlaid into /repo/internal/commands by /verif/check C07 (observed remainder of the property).
//
// VERIF_IN : lines "<id> <mode> <hex source>"     mode = test | run | repl | admin
// VERIF_OUT: lines "S <id>" (flushed before the case starts) and
//            "R <id> <class> <hex detail>"        class = ok | error | gopanic | timeout
//
//   test  : the way `ego test file` compiles and runs a file (test mode, interactive compiler)
//   run   : the way `ego run file` does it (source + "\n@entrypoint main")
//   repl  : the interactive console's path: runSession.tokenizeCompleteStatement + compileAndRun
//   admin : the server run endpoint's path: compiler.CompileString("dashboard", src, true) run sandboxed
//
// Every case runs in its own goroutine under recover(); a Go panic that reaches that recover escaped
// the interpreter's own error handling and is reported as "gopanic" with the panic value and the first
// frames of the stack.  A case that does not finish within VERIF_CASE_MS is reported as "timeout" and
// the process stops (exit 0) so that the driver restarts after it (a goroutine cannot be killed).
// A fatal runtime error (stack overflow, concurrent map write) or an os.Exit from the program kills the
// process; the driver sees the unmatched "S <id>" line and the process's stderr.

import (
	"bufio"
	"encoding/hex"
	"fmt"
	"os"
	"runtime/debug"
	"strconv"
	"strings"
	"testing"
	"time"

	"github.com/tucats/ego/internal/builtins"
	"github.com/tucats/ego/internal/cli/settings"
	"github.com/tucats/ego/internal/defs"
	"github.com/tucats/ego/internal/errors"
	"github.com/tucats/ego/internal/language/bytecode"
	"github.com/tucats/ego/internal/language/compiler"
	"github.com/tucats/ego/internal/language/symbols"
	"github.com/tucats/ego/internal/language/tokenizer"
)

var verifC07TestTable *symbols.SymbolTable

func verifC07Frames() string {
	lines := strings.Split(string(debug.Stack()), "\n")
	keep := []string{}

	for _, l := range lines {
		l = strings.TrimSpace(l)
		if strings.HasPrefix(l, "github.com/tucats/ego/") && !strings.Contains(l, "verifC07") {
			if k := strings.LastIndex(l, "("); k > 0 {
				l = l[:k]
			}

			keep = append(keep, strings.TrimPrefix(l, "github.com/tucats/ego/internal/"))
			if len(keep) >= 4 {
				break
			}
		}
	}

	return strings.Join(keep, " < ")
}

func verifC07Class(err error) string {
	if err == nil || errors.Equals(err, errors.ErrStop) {
		return "ok"
	}

	return "error"
}

func verifC07One(mode, src string) (class, detail string) {
	defer func() {
		if r := recover(); r != nil {
			class = "gopanic"
			detail = fmt.Sprintf("%v @ %s", r, verifC07Frames())
		}
	}()

	switch mode {
	case "test":
		if verifC07TestTable == nil {
			verifC07TestTable = symbols.NewSymbolTable("Unit Tests").Shared(true)
			verifC07TestTable.SetAlways(defs.ModeVariable, "test")
			verifC07TestTable.SetAlways(defs.TypeCheckingVariable, defs.NoTypeEnforcement)
			compiler.AddStandard(verifC07TestTable)
			_ = compiler.New("auto").SetTestMode(true).AutoImport(true, verifC07TestTable)
		}

		symbols.RootSymbolTable.SetAlways("_testcount", 0)
		symbols.RootSymbolTable.SetAlways("_testfailcount", 0)

		t := tokenizer.New(src, true)
		comp := compiler.New("verif.ego").SetTestMode(true)

		for _, packageName := range compiler.GetAutoImportedPackages() {
			comp.DefineGlobalSymbol(packageName)
		}

		comp.SetInteractive(true)

		b, err := comp.Compile("verif.ego", t)
		if err != nil {
			return "error", "compile"
		}

		ctx := bytecode.NewContext(symbols.NewChildSymbolTable("case", verifC07TestTable), b)
		ctx.EnableConsoleOutput(false)
		ctx.Sandboxed(true)

		return verifC07Class(ctx.Run()), "run"

	case "run":
		symbolTable := symbols.NewSymbolTable("file verif.ego").Shared(true)
		symbolTable.SetAlways(defs.ModeVariable, "run")
		symbolTable.SetAlways(defs.TypeCheckingVariable, defs.NoTypeEnforcement)
		builtins.AddBuiltins(symbolTable.Root())

		comp := compiler.New("run").SetRoot(&symbols.RootSymbolTable).SetExtensionsEnabled(true)
		_ = comp.AutoImport(true, symbolTable)
		comp.Fragment(true)

		tk := tokenizer.New(src+"\n@entrypoint main", true)

		bc, err := comp.Compile("main 'verif.ego'", tk)
		if err != nil {
			return "error", "compile"
		}

		ctx := bytecode.NewContext(symbolTable, bc)
		ctx.EnableConsoleOutput(false)
		ctx.Sandboxed(true)
		err = ctx.Run()
		_, _ = comp.Close()

		return verifC07Class(err), "run"

	case "repl":
		sandbox := true
		s := &runSession{text: src, interactive: true, wasCommandLine: true, extensions: true, sandbox: &sandbox}
		s.symbolTable = symbols.NewSymbolTable("console").Shared(true)
		s.symbolTable.SetAlways(defs.ModeVariable, "interactive")
		s.symbolTable.SetAlways(defs.TypeCheckingVariable, defs.NoTypeEnforcement)
		builtins.AddBuiltins(s.symbolTable.Root())

		s.comp = compiler.New("run").SetExitEnabled(false).SetRoot(&symbols.RootSymbolTable).SetInteractive(true)
		_ = s.comp.AutoImport(true, s.symbolTable)
		s.lineNumber = 1

		if s.handleHelpCommand() {
			return "ok", "help"
		}

		t := s.tokenizeCompleteStatement()
		_, _, err := s.compileAndRun(t)

		return verifC07Class(err), "repl"

	case "admin":
		root := symbols.NewRootSymbolTable("dashboard")
		consoleTable := symbols.NewChildSymbolTable("console", root)
		compiler.AddStandard(root)

		comp := compiler.New("dashboard").SetExtensionsEnabled(true).SetRoot(consoleTable)
		_ = comp.AutoImport(true, consoleTable)

		bc, err := compiler.CompileString("dashboard", src, true)
		if err != nil {
			return "error", "compile"
		}

		bc.Emit(bytecode.Stop)

		ctx := bytecode.NewContext(symbols.NewChildSymbolTable("editor", consoleTable), bc).Sandboxed(true).EnableConsoleOutput(false)

		return verifC07Class(ctx.Run()), "run"
	}

	return "error", "mode"
}

func TestVerifC07Run(t *testing.T) {
	in, err := os.Open(os.Getenv("VERIF_IN"))
	if err != nil {
		t.Fatal(err)
	}
	defer in.Close()

	out, err := os.OpenFile(os.Getenv("VERIF_OUT"), os.O_CREATE|os.O_WRONLY|os.O_APPEND, 0o644)
	if err != nil {
		t.Fatal(err)
	}
	defer out.Close()

	limit := 3000
	if v, err := strconv.Atoi(os.Getenv("VERIF_CASE_MS")); err == nil && v > 0 {
		limit = v
	}

	skip := -1
	if v, err := strconv.Atoi(os.Getenv("VERIF_SKIP_TO")); err == nil {
		skip = v
	}

	// stop by ourselves (normal exit) when the driver's time budget is used up
	deadline := time.Now().Add(24 * time.Hour)
	if v, err := strconv.Atoi(os.Getenv("VERIF_BUDGET_S")); err == nil && v > 0 {
		deadline = time.Now().Add(time.Duration(v) * time.Second)
	}

	settings.SetDefault(defs.ExtensionsEnabledSetting, defs.True)
	settings.SetDefault(defs.SandboxPathSetting, os.Getenv("VERIF_SANDBOX"))
	settings.SetDefault(defs.RuntimeDeepScopeSetting, "true")
	settings.SetDefault(defs.OptimizerSetting, "0")
	symbols.RootSymbolTable.SetAlways(defs.ExtensionsVariable, true)

	// the interpreter writes diagnostics to the real stdout/stderr; keep them out of the way
	if devnull, err := os.OpenFile(os.DevNull, os.O_WRONLY, 0); err == nil {
		os.Stdout = devnull
	}

	sc := bufio.NewScanner(in)
	sc.Buffer(make([]byte, 1<<24), 1<<24)

	for sc.Scan() {
		f := strings.Fields(sc.Text())
		if len(f) < 2 {
			continue
		}

		id, _ := strconv.Atoi(f[0])
		if id < skip {
			continue
		}

		if time.Now().After(deadline) {
			break
		}

		src := []byte{}
		if len(f) > 2 {
			src, _ = hex.DecodeString(f[2])
		}

		fmt.Fprintf(out, "S %d\n", id)

		type res struct{ class, detail string }

		ch := make(chan res, 1)

		go func() {
			c, d := verifC07One(f[1], string(src))
			ch <- res{c, d}
		}()

		select {
		case r := <-ch:
			fmt.Fprintf(out, "R %d %s %s\n", id, r.class, hex.EncodeToString([]byte(r.detail)))
		case <-time.After(time.Duration(limit) * time.Millisecond):
			fmt.Fprintf(out, "R %d timeout -\n", id)
			out.Close()
			os.Exit(0)
		}
	}
}
