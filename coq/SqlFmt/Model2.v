(* SqlFmt/Model2.v — second expression type for C16: the comparison-tier forms IS [NOT] NULL / ISNULL / NOTNULL,
   x IS [NOT] y, [NOT] LIKE/GLOB/REGEXP/MATCH/ILIKE (without ESCAPE), [NOT] BETWEEN lo AND hi, [NOT] IN (list),
   function calls f(args) with at least one argument, and tuples (a, b), on top of the fragment of Model.v.
   They are mapped onto the generic tier parser by (1) `fuse`, a token pass that turns the multi-word operators into
   single operator tokens exactly where expr.go looks ahead for them (IS NOT; NOT BETWEEN/IN/LIKE; the AND that
   belongs to a BETWEEN at the same parenthesis depth; a call's "(" after a name), (2) the extended tier table tbl2
   (a BETWEEN bound is parsed one tier above AND: at the bit-operator tier, as parseBitOrExpr does; lists are
   left-nested comma trees inside parentheses), and (3) `dec`/`enc` between generic trees and sexpr2.
   Definitions only. *)
From Common Require Import Base.
From Coq Require Import Ascii String.
From SqlFmt Require Import PrecClimb Model.
Open Scope N_scope.

Inductive sexpr2 :=
| X2Atom (a : satom)
| X2Un (s : sym) (x : sexpr2)
| X2Bin (s : sym) (x y : sexpr2)          (* also x IS [NOT] y, and "," inside parentheses *)
| X2Paren (x : sexpr2)                    (* also tuples: X2Paren (X2Bin "," ...) *)
| X2IsNull (x : sexpr2) (neg : bool)
| X2Like (op : sym) (x pat : sexpr2) (neg : bool)
| X2Between (x lo hi : sexpr2) (neg : bool)
| X2In (x items : sexpr2) (neg : bool)    (* items: one expression or a left-nested "," tree *)
| X2Call (f : str) (args : sexpr2).       (* args likewise *)

Definition S_IS := L "IS".
Definition S_ISNOT := L "IS NOT".
Definition S_BETWEEN := L "BETWEEN".
Definition S_NOTBETWEEN := L "NOT BETWEEN".
Definition S_BAND := L "BETWEEN-AND".
Definition S_IN := L "IN".
Definition S_NOTIN := L "NOT IN".
Definition S_CALL := L "CALL".
Definition S_COMMA := L ",".
Definition like_ops : list str := [L "LIKE"; L "GLOB"; L "REGEXP"; L "MATCH"; L "ILIKE"].
Definition S_NOT_ (op : str) : str := L "NOT " ++ op.

(* the tiers of expr.go with the comparison tier completed, a tier for the AND of BETWEEN between the comparison and
   the bit-operator tier, "," as the loosest operator (inside parentheses) and the call "(" as the tightest *)
Definition tbl2 : list (level sym) :=
  [ LBin [S_COMMA]; LBin [L "OR"]; LBin [L "AND"]; LPre [L "NOT"];
    LBin ([L "<="; L ">="; L "<>"; L "!="; L "=="; L "="; L "<"; L ">";
           S_IS; S_ISNOT; S_BETWEEN; S_NOTBETWEEN; S_IN; S_NOTIN] ++ like_ops ++ List.map S_NOT_ like_ops);
    LBin [S_BAND];
    LBin [L "<<"; L ">>"; L "&"; L "|"];
    LBin [L "+"; L "-"];
    LBin [L "*"; L "/"; L "%"];
    LBin [L "||"; L "->>"; L "->"];
    LPre [L "-"; L "+"; L "~"];
    LBin [S_CALL] ].

Definition is_null_atom (g : sexpr) : bool := match g with EAtom ANull => true | _ => false end.
Definition like_of (s : sym) : option (str * bool) :=
  if existsb (str_eqb s) like_ops then Some (s, false)
  else match find (fun op => str_eqb s (S_NOT_ op)) like_ops with Some op => Some (op, true) | None => None end.

Fixpoint enc (e : sexpr2) : sexpr :=
  match e with
  | X2Atom a => EAtom a
  | X2Un s x => EUn s (enc x)
  | X2Bin s x y => EBin s (enc x) (enc y)
  | X2Paren x => EParen (enc x)
  | X2IsNull x neg => EBin (if neg then S_ISNOT else S_IS) (enc x) (EAtom ANull)
  | X2Like op x p neg => EBin (if neg then S_NOT_ op else op) (enc x) (enc p)
  | X2Between x lo hi neg => EBin (if neg then S_NOTBETWEEN else S_BETWEEN) (enc x) (EBin S_BAND (enc lo) (enc hi))
  | X2In x items neg => EBin (if neg then S_NOTIN else S_IN) (enc x) (EParen (enc items))
  | X2Call f args => EBin S_CALL (EAtom (ACol f)) (EParen (enc args))
  end.

Definition opt3 {A B C D} (f : A -> B -> C -> D) (a : option A) (b : option B) (c : option C) : option D :=
  match a, b, c with Some x, Some y, Some z => Some (f x y z) | _, _, _ => None end.
Definition opt2 {A B D} (f : A -> B -> D) (a : option A) (b : option B) : option D :=
  match a, b with Some x, Some y => Some (f x y) | _, _ => None end.

Fixpoint dec (g : sexpr) : option sexpr2 :=
  match g with
  | EAtom a => Some (X2Atom a)
  | EUn s x => option_map (X2Un s) (dec x)
  | EParen x => option_map X2Paren (dec x)
  | EBin s x y =>
      if str_eqb s S_BAND then None
      else if str_eqb s S_BETWEEN || str_eqb s S_NOTBETWEEN then
        match y with
        | EBin b lo hi =>
            if str_eqb b S_BAND then
              opt3 (fun a l h => X2Between a l h (str_eqb s S_NOTBETWEEN)) (dec x) (dec lo) (dec hi)
            else None
        | _ => None
        end
      else if (str_eqb s S_IS || str_eqb s S_ISNOT) && is_null_atom y then
        option_map (fun a => X2IsNull a (str_eqb s S_ISNOT)) (dec x)
      else if str_eqb s S_IN || str_eqb s S_NOTIN then
        match y with
        | EParen items => opt2 (fun a i => X2In a i (str_eqb s S_NOTIN)) (dec x) (dec items)
        | _ => None
        end
      else if str_eqb s S_CALL then
        match x, y with
        | EAtom (ACol f), EParen args => option_map (X2Call f) (dec args)
        | _, _ => None
        end
      else match like_of s with
           | Some (op, neg) => opt2 (fun a p => X2Like op a p neg) (dec x) (dec y)
           | None => opt2 (X2Bin s) (dec x) (dec y)
           end
  end.

(* parser and printer on fused token lists *)
Definition parse2f (ts : list stok) : option sexpr2 :=
  match sparse tbl2 ts with Some g => dec g | None => None end.
Definition print2f (kws : list str) (e : sexpr2) : list stok := sprint kws (enc e).

(* ------------------------------------------------------------------ the token pass *)
Definition op_words : list str :=
  [L "and"; L "or"; L "not"; L "is"; L "in"; L "between"; L "isnull"; L "notnull"; L "like"; L "glob"; L "regexp";
   L "match"; L "ilike"; L "null"; L "true"; L "false"; L "case"; L "cast"; L "exists"].
Definition is_word (t : stok) (ws : list str) : bool := existsb (fun w => tis t w) ws.
Definition like_words : list str := [L "like"; L "glob"; L "regexp"; L "match"; L "ilike"].
Definition upcase (s : str) : str := List.map upper s.
Definition op (s : str) : stok := (7, s, false).

(* pend: per parenthesis depth, how many BETWEENs still wait for their AND *)
Fixpoint fuse (fuel : nat) (pend : list nat) (ts : list stok) : list stok :=
  match fuel with
  | O => ts
  | S f =>
    match ts with
    | [] => []
    | t :: r =>
      if is_lp t then t :: fuse f (0%nat :: pend) r
      else if is_rp t then t :: fuse f (tl pend) r
      else if tis t (L "is") then
        match r with
        | t2 :: r2 => if tis t2 (L "not") then op S_ISNOT :: fuse f pend r2 else op S_IS :: fuse f pend r
        | [] => [op S_IS]
        end
      else if tis t (L "isnull") then op S_IS :: (1, L "NULL", false) :: fuse f pend r
      else if tis t (L "notnull") then op S_ISNOT :: (1, L "NULL", false) :: fuse f pend r
      else if tis t (L "not") then
        match r with
        | t2 :: r2 =>
            if tis t2 (L "between") then
              op S_NOTBETWEEN :: fuse f (S (hd 0%nat pend) :: tl pend) r2
            else if tis t2 (L "in") then op S_NOTIN :: fuse f pend r2
            else if is_word t2 like_words then op (S_NOT_ (upcase (tt t2))) :: fuse f pend r2
            else t :: fuse f pend r
        | [] => [t]
        end
      else if tis t (L "between") then op S_BETWEEN :: fuse f (S (hd 0%nat pend) :: tl pend) r
      else if tis t (L "in") then op S_IN :: fuse f pend r
      else if is_word t like_words then op (upcase (tt t)) :: fuse f pend r
      else if tis t (L "and") then
        match hd 0%nat pend with
        | S k => op S_BAND :: fuse f (k :: tl pend) r
        | O => t :: fuse f pend r
        end
      else if (tk t =? 1) && negb (is_word t op_words) then
        match r with
        | t2 :: _ => if is_lp t2 then t :: op S_CALL :: fuse f pend r else t :: fuse f pend r
        | [] => [t]
        end
      else t :: fuse f pend r
    end
  end.
Definition fuse_all (ts : list stok) : list stok := fuse (S (List.length ts)) [0%nat] ts.

(* what the printer's operator tokens are in the real token vocabulary *)
Definition kwtok (s : str) : stok := (1, s, false).
Definition unfuse1 (t : stok) : list stok :=
  if (tk t =? 7) then
    if str_eqb (tt t) S_IS then [kwtok (L "IS")]
    else if str_eqb (tt t) S_ISNOT then [kwtok (L "IS"); kwtok (L "NOT")]
    else if str_eqb (tt t) S_BETWEEN then [kwtok (L "BETWEEN")]
    else if str_eqb (tt t) S_NOTBETWEEN then [kwtok (L "NOT"); kwtok (L "BETWEEN")]
    else if str_eqb (tt t) S_BAND then [kwtok (L "AND")]
    else if str_eqb (tt t) S_IN then [kwtok (L "IN")]
    else if str_eqb (tt t) S_NOTIN then [kwtok (L "NOT"); kwtok (L "IN")]
    else if str_eqb (tt t) S_CALL then []
    else if str_eqb (tt t) S_COMMA then [(6, S_COMMA, false)]
    else match like_of (tt t) with
         | Some (w, true) => [kwtok (L "NOT"); kwtok w]
         | Some (w, false) => [kwtok w]
         | None => [t]
         end
  else [t].
Definition unfuse (ts : list stok) : list stok := flat_map unfuse1 ts.

(* the real lexer gives "," as punctuation; in the fused vocabulary it is an operator *)
Definition comma_op (ts : list stok) : list stok :=
  List.map (fun t => if (tk t =? 6) && str_eqb (tt t) S_COMMA then op S_COMMA else t) ts.

Definition parse2 (ts : list stok) : option sexpr2 := parse2f (comma_op (fuse_all ts)).
Definition print2 (kws : list str) (e : sexpr2) : list stok := unfuse (print2f kws e).

Fixpoint sexpr2_eqb (a b : sexpr2) : bool :=
  match a, b with
  | X2Atom x, X2Atom y => satom_eqb x y
  | X2Un s x, X2Un s' x' => str_eqb s s' && sexpr2_eqb x x'
  | X2Bin s x y, X2Bin s' x' y' => str_eqb s s' && sexpr2_eqb x x' && sexpr2_eqb y y'
  | X2Paren x, X2Paren x' => sexpr2_eqb x x'
  | X2IsNull x n, X2IsNull x' n' => sexpr2_eqb x x' && Bool.eqb n n'
  | X2Like o x p n, X2Like o' x' p' n' => str_eqb o o' && sexpr2_eqb x x' && sexpr2_eqb p p' && Bool.eqb n n'
  | X2Between x l h n, X2Between x' l' h' n' => sexpr2_eqb x x' && sexpr2_eqb l l' && sexpr2_eqb h h' && Bool.eqb n n'
  | X2In x i n, X2In x' i' n' => sexpr2_eqb x x' && sexpr2_eqb i i' && Bool.eqb n n'
  | X2Call f a, X2Call f' a' => str_eqb f f' && sexpr2_eqb a a'
  | _, _ => false
  end.
