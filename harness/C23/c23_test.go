//go:build verif

package authserver

// Overlaid into /repo/internal/server/oauth/authserver by /verif/check C23.
//
// Reads VERIF_IN (JSON list of cases), forces the given interleaving of N token requests presenting
// the same authorization code / refresh token against the real consumeCode / consumeRefreshToken /
// TokenHandler (yield hook between cache lookup and cache delete, see harness/C23/instrument), and
// writes what each request observed to VERIF_OUT (JSON).
//
//	schedule items:  "R<t>"  start request t and run it up to the yield point (or to completion)
//	                 "D<t>"  resume request t from the yield point to completion (skip if not parked)
//	                 "E"     the environment removes the entry (caches.Delete by the harness)

import (
	"crypto/sha256"
	"encoding/base64"
	"encoding/hex"
	"encoding/json"
	"fmt"
	"net/http"
	"net/http/httptest"
	"net/url"
	"os"
	"path/filepath"
	"strconv"
	"strings"
	"sync"
	"testing"
	"time"

	"github.com/tucats/ego/internal/caches"
	"github.com/tucats/ego/internal/errors"
	"github.com/tucats/ego/internal/router"
	"golang.org/x/crypto/bcrypt"
)

type c23Req struct {
	Client   string `json:"client"`
	Secret   string `json:"secret"`
	Redirect string `json:"redirect"`
	Verifier string `json:"verifier"`
}

type c23Pending struct {
	Client    string `json:"client"`
	Redirect  string `json:"redirect"`
	Challenge string `json:"challenge"`
	Method    string `json:"method"`
}

type c23Case struct {
	ID      int        `json:"id"`
	Kind    string     `json:"kind"` // code-fn refresh-fn code-http refresh-http pkce stress-code stress-refresh
	Sched   []string   `json:"sched"`
	Reqs    []c23Req   `json:"reqs"`
	Pending c23Pending `json:"pending"`
	Present bool       `json:"present"`
	Rounds  int        `json:"rounds"`
	Racers  int        `json:"racers"`
	Budget  int        `json:"budget_ms"`
}

type c23Res struct {
	ID        int      `json:"id"`
	Yielded   []bool   `json:"yielded"`
	Status    []int    `json:"status"` // http status, or 200/400 for the -fn kinds
	Remaining bool     `json:"remaining"`
	Sha       []string `json:"sha"`
	B64       []string `json:"b64"`
	Pkce      []int    `json:"pkce"`
	MaxSucc   int      `json:"maxsucc"`
	Rounds    int      `json:"rounds"`
	NoWinner  int      `json:"nowinner"` // stress rounds in which nobody redeemed a present entry
	NewTokens []bool   `json:"newtokens"` // a 200 response carried an access token (and refresh token where applicable)
	Err       string   `json:"err"`
}

type c23Event struct {
	t      int
	yield  bool
	status int
	tokens bool
}

var (
	c23Instrumented bool
	c23DeleteGaps   bool
	c23Armed        bool
	c23Current      int
	c23Evt          chan c23Event
	c23Release      []chan struct{}
)

func c23Yield(label string) {
	if !c23Armed {
		return
	}

	t := c23Current
	c23Evt <- c23Event{t: t, yield: true}
	<-c23Release[t]
}

// one request; returns status and whether a token response body was produced
func c23Do(kind, key string, rq c23Req) (int, bool) {
	switch kind {
	case "code-fn", "stress-code":
		if _, ok := consumeCode(key); ok {
			return 200, true
		}

		return 400, false
	case "refresh-fn", "stress-refresh":
		if _, ok := consumeRefreshToken(key); ok {
			return 200, true
		}

		return 400, false
	}

	form := url.Values{}
	form.Set("client_id", rq.Client)

	if rq.Secret != "" {
		form.Set("client_secret", rq.Secret)
	}

	if kind == "code-http" {
		form.Set("grant_type", "authorization_code")
		form.Set("code", key)
		form.Set("redirect_uri", rq.Redirect)

		if rq.Verifier != "" {
			form.Set("code_verifier", rq.Verifier)
		}
	} else {
		form.Set("grant_type", "refresh_token")
		form.Set("refresh_token", key)
	}

	req := httptest.NewRequest(http.MethodPost, "/oauth2/token", strings.NewReader(form.Encode()))
	req.Header.Set("Content-Type", "application/x-www-form-urlencoded")

	w := httptest.NewRecorder()
	st := TokenHandler(&router.Session{ID: 7}, w, req)

	var body map[string]any

	_ = json.Unmarshal(w.Body.Bytes(), &body)
	at, _ := body["access_token"].(string)

	if st != w.Code && w.Code != 0 {
		st = -w.Code // the function result and the written status must agree
	}

	return st, at != ""
}

func c23Run(c c23Case) c23Res {
	n := len(c.Reqs)
	res := c23Res{ID: c.ID, Yielded: make([]bool, n), Status: make([]int, n), NewTokens: make([]bool, n)}
	cache := caches.OAuthCodeCache
	key, _ := generateCode()

	if strings.HasPrefix(c.Kind, "refresh") || c.Kind == "stress-refresh" {
		cache = caches.OAuthRefreshCache
	}

	store := func() {
		if cache == caches.OAuthCodeCache {
			storeCode(key, PendingAuthorization{ClientID: c.Pending.Client, RedirectURI: c.Pending.Redirect,
				Scopes: []string{"openid"}, Username: "alice", CodeChallenge: c.Pending.Challenge,
				CodeChallengeMethod: c.Pending.Method, IssuedAt: time.Now()})
		} else {
			caches.Add(cache, key, RefreshTokenData{ClientID: c.Pending.Client, Username: "alice",
				Scopes: []string{"openid"}, IssuedAt: time.Now()})
		}
	}

	if strings.HasPrefix(c.Kind, "stress") {
		// no forced schedule: c.Racers goroutines released together, repeated until c.Rounds or the time
		// budget; reports the largest number of successes for one entry
		racers := c.Racers
		if racers < 2 {
			racers = 2
		}

		deadline := time.Now().Add(time.Duration(c.Budget) * time.Millisecond)

		for round := 0; round < c.Rounds && time.Now().Before(deadline); round++ {
			key, _ = generateCode()
			store()

			var (
				ready, done sync.WaitGroup
				mu          sync.Mutex
				succ        int
				start       = make(chan struct{})
			)

			for t := 0; t < racers; t++ {
				ready.Add(1)
				done.Add(1)

				go func() {
					defer done.Done()

					ready.Done()
					<-start

					if st, _ := c23Do(c.Kind, key, c23Req{}); st == 200 {
						mu.Lock()
						succ++
						mu.Unlock()
					}
				}()
			}

			ready.Wait()
			close(start)
			done.Wait()

			res.Rounds++

			if succ > res.MaxSucc {
				res.MaxSucc = succ
			}

			if succ == 0 {
				res.NoWinner++
			}

			if succ > 1 {
				break
			}
		}

		return res
	}

	if c.Present {
		store()
	}

	c23Evt = make(chan c23Event)
	c23Release = make([]chan struct{}, n)

	for t := range c23Release {
		c23Release[t] = make(chan struct{})
	}

	started := make([]bool, n)
	parked := make([]bool, n)
	c23Armed = true

	wait := func() {
		e := <-c23Evt
		if e.yield {
			parked[e.t] = true
			res.Yielded[e.t] = true
		} else {
			parked[e.t] = false
			res.Status[e.t] = e.status
			res.NewTokens[e.t] = e.tokens
		}
	}

	resume := func(t int) {
		c23Current = t
		c23Release[t] <- struct{}{}
		wait()
	}

	for _, s := range c.Sched {
		switch {
		case s == "E":
			c23Armed = false // the environment's own delete is not a request thread

			caches.Delete(cache, key)

			c23Armed = true
		case s[0] == 'R':
			t, _ := strconv.Atoi(s[1:])
			if t < 0 || t >= n || started[t] {
				res.Err = "bad schedule item " + s

				continue
			}

			started[t] = true
			c23Current = t

			go func() {
				st, tok := c23Do(c.Kind, key, c.Reqs[t])
				c23Evt <- c23Event{t: t, status: st, tokens: tok}
			}()

			wait()
		case s[0] == 'D':
			t, _ := strconv.Atoi(s[1:])
			if t >= 0 && t < n && parked[t] {
				resume(t)
			}
		}
	}

	for again := true; again; {
		again = false

		for t := 0; t < n; t++ {
			if parked[t] {
				resume(t)

				again = true
			}
		}
	}

	c23Armed = false
	_, res.Remaining = caches.Find(cache, key)
	caches.Delete(cache, key)

	return res
}

func TestVerifC23(t *testing.T) {
	raw, err := os.ReadFile(os.Getenv("VERIF_IN"))
	if err != nil {
		t.Fatal(err)
	}

	var cases []c23Case
	if err := json.Unmarshal(raw, &cases); err != nil {
		t.Fatal(err)
	}

	dir := t.TempDir()
	if err := loadOrGenerateKey(filepath.Join(dir, "as.pem")); err != nil {
		t.Fatalf("key setup: %v", err)
	}

	asGlobalConfig = asConfig{Issuer: "https://ego.test", TokenExpiration: time.Hour}
	hash, _ := bcrypt.GenerateFromPassword([]byte("s3cret"), bcrypt.MinCost)
	both := []string{"authorization_code", "refresh_token"}
	clients = []OAuthClient{
		{ClientID: "pub", RedirectURIs: []string{"https://a.example/cb"}, GrantTypes: both, Scopes: []string{"openid"}},
		{ClientID: "pub2", RedirectURIs: []string{"https://b.example/cb"}, GrantTypes: both, Scopes: []string{"openid"}},
		{ClientID: "conf", ClientSecretHash: string(hash), RedirectURIs: []string{"https://c.example/cb"}, GrantTypes: both, Scopes: []string{"openid"}},
		{ClientID: "nogrant", RedirectURIs: []string{"https://d.example/cb"}, GrantTypes: []string{"client_credentials"}, Scopes: []string{"openid"}},
	}

	out := struct {
		Instrumented bool     `json:"instrumented"`
		DeleteGaps   bool     `json:"delete_gaps"`
		Results      []c23Res `json:"results"`
	}{Instrumented: c23Instrumented, DeleteGaps: c23DeleteGaps}

	for _, c := range cases {
		if c.Kind == "pkce" {
			r := c23Res{ID: c.ID}

			for _, rq := range c.Reqs {
				h := sha256.Sum256([]byte(rq.Verifier))
				r.Sha = append(r.Sha, hex.EncodeToString(h[:]))
				r.B64 = append(r.B64, base64.RawURLEncoding.EncodeToString(h[:]))

				err := verifyPKCE(PendingAuthorization{CodeChallenge: c.Pending.Challenge, CodeChallengeMethod: c.Pending.Method}, rq.Verifier)

				switch {
				case err == nil:
					r.Pkce = append(r.Pkce, 0)
				case errors.Equals(err, errors.ErrOAuthPKCEMethod):
					r.Pkce = append(r.Pkce, 1)
				case errors.Equals(err, errors.ErrOAuthPKCEFailed):
					r.Pkce = append(r.Pkce, 2)
				default:
					r.Pkce = append(r.Pkce, 9)
					r.Err = fmt.Sprint(err)
				}
			}

			out.Results = append(out.Results, r)

			continue
		}

		out.Results = append(out.Results, c23Run(c))
	}

	b, _ := json.Marshal(out)
	if err := os.WriteFile(os.Getenv("VERIF_OUT"), b, 0o644); err != nil {
		t.Fatal(err)
	}
}
