"""C35 langlint formatting never changes the message table (tools/langlint/lint.go, tools/lang/compile.go)."""
import json
import os

import vf

GROUP = "Lint"
META = {
    "group": "Lint",
    "technique": "Coq proof over Gallina models of langlint's parse/render/Format and of the localization compiler's "
                 "compileFile (code-point strings, Go's TrimSpace/IsSpace, stable sort) + vm_compute correspondence with "
                 "the real Format and the real compileFile (two overlay harnesses) + the property evaluated on the real outputs",
    "text": "Theorems C35_table_preserved (whenever Format succeeds the compiler accepts both the original and the "
            "formatted file and builds the same key-to-message table - every key has the same winning definition), "
            "C35_idempotent (formatting the formatted file succeeds and returns it unchanged) and C35_dup_reported "
            "(langlint reports a key as duplicate exactly when the compiler defines it more than once, so every duplicate "
            "whose winner could matter is reported) are proved for all files over the models of the repaired code; "
            "C35_old_refuted keeps the pre-repair behaviour (raw-key sort flips the winner of 'a =1'/'a=2' without a "
            "warning; an indented '[x=]' line is an entry for langlint but a section for the compiler). Both models are "
            "compared with the real functions on generated files on every run and table equality, idempotence and "
            "duplicate reporting are also checked directly on the real outputs. full",
    "note": "Trusted: Coq kernel; files are valid UTF-8 (strings modelled as code-point lists; Go's byte order = code point "
            "order there); hand-written models of strings.TrimSpace/TrimRight/Split/Index and sort.SliceStable (insertion "
            "sort: the stable order is unique) tied to the code by the correspondence run; the two in-package harnesses and "
            "the Python comparison. Not modelled: the unmatched-brace warning, the compiler's long-message report and digest.",
}

KEYS = ["a", "a ", " a", "b", "b ", "a.b", "k1", "k2", "\ta", "a ", "é", "z", "A", "", " ", "x y", "[k", "#k", " #k", "a\r"]
VALS = ["1", "2", "x=y", "{{n}}", "{", "'{'", " v ", "", "[v]", "#v", "v ", "long text", "=", "日本"]
HEADERS = ["[s]", "[t]", "[ s ]", "[]", "[a.b]", "[a]", " [s]", "\t[t]", "[s] ", " [x=]", "[x=]", " [s]=1", "[s]x", "[bad", "[", " [",
           "[é]", "[s]]", "[[s]"]
COMMENTS = ["# c", "#", "#k=v", "##", " # c", " #k=v", "#[s]"]
BLANKS = ["", " ", "\t", " ", "\r"]
MALFORMED = ["noequals", "=v", " =v", "]", "a", " = "]
CORPUS = [
    "[s]\na =1\na=2\n",                        # raw-key sort flips the compiler's winner (pinned tree)
    "[s]\nb=1\n [x=]\nc=2\n",                  # indented header: entry for langlint, section for the compiler
    "[s]\n a=1\na=2\n",
    "[s]\na=2\na =1\n",
    "a=1\n# c\n[s]\nb=2\n\n\n[t]\nb=3\nb=4\n",
    "[foo]\na=one\nb=two\na=three\n",
    "# top\ntop=value\n\n# section comment\n[msg]\nb=two\na=one\n",
    "[b]\r\nz=one\r\na=two\r\n",
    "",
    "\n",
    "a=1",
    "[s] \na=1\n",
    " [s]\nb=1\na=2\n",
    "[a]\nb.c=1\n[a.b]\nc=2\n",
    "[s]\nk =1\nk=2\nk =3\n",
    "[s]\n=v\n",
    "[s]\n =v\n  =w\n",
    "x=1\n[\n",
    # more than 12 entries in one section with a redefinition: an unstable sort (sort.Slice) flips the winner
    "[s]\n" + "".join("k%02d=first %d\n" % (i, i) for i in range(12, 0, -1)) + "k04=second\n",
    "[s]\n" + "".join("k%02d=v%d\n" % (i, i) for i in range(20, 0, -1)) + "k20=again\nk01 =again\n",
    "[s]\nk07=early\n" + "".join("k%02d=v%d\n" % (i, i) for i in range(1, 16)) + "k07=late\n",
]


def gen_file(rng, malformed):
    n = rng.randint(0, 12)
    lines = []
    for _ in range(n):
        r = rng.random()
        if r < 0.12:
            lines.append(rng.choice(BLANKS))
        elif r < 0.22:
            lines.append(rng.choice(COMMENTS))
        elif r < 0.40:
            lines.append(rng.choice(HEADERS[:12] if not malformed else HEADERS))
        elif malformed and r < 0.46:
            lines.append(rng.choice(MALFORMED))
        else:
            lines.append(rng.choice(KEYS[:14] if not malformed else KEYS) + "=" + rng.choice(VALS))
    nl = rng.choice(["\n", "\n", "\n", "\r\n", "\r\r\n"])
    txt = nl.join(lines)
    if rng.random() < 0.8:
        txt += nl
    if malformed and rng.random() < 0.3:
        alpha = "ab =[]#.\r\n\t {}' é"
        pos = rng.randint(0, len(txt))
        txt = txt[:pos] + "".join(rng.choice(alpha) for _ in range(rng.randint(1, 4))) + txt[pos:]
    return txt


def gen_big(rng):
    """One or two sections of 13-40 entry lines with redefinitions: sort.Slice (pdqsort above 12 elements) is not stable,
    sort.SliceStable is. Layouts: descending / ascending / shuffled / organ-pipe keys, duplicates at the end or anywhere."""
    lines = []
    for s in range(1 if rng.random() < 0.8 else 2):
        lines.append("[%s]" % rng.choice(["s", "t"]))
        n = rng.randint(12, 26)
        keys = ["k%02d" % i for i in range(n)]
        layout = rng.choice(["desc", "desc", "asc", "shuffle", "pipe"])
        if layout == "desc":
            keys.reverse()
        elif layout == "shuffle":
            rng.shuffle(keys)
        elif layout == "pipe":
            keys = keys[::2] + keys[1::2][::-1]
        ents = [(k, "1") for k in keys]                       # short values: the Coq cases file stays small
        for d in range(rng.randint(1, 4)):
            k = rng.choice(keys)
            k2 = rng.choice([k, k, k + " ", " " + k])
            e = (k2, "%d" % (d + 2))
            if rng.random() < 0.5:
                ents.append(e)
            else:
                ents.insert(rng.randint(0, len(ents)), e)
        lines += ["%s=%s" % e for e in ents]
    return "\n".join(lines) + "\n"


def enc(s):
    b = s.encode("utf8")
    return b.hex() or "-"


def dec(h):
    return "" if h == "-" else bytes.fromhex(h).decode("utf8", "replace")


def run(ck):
    quick = ck.tier == "quick"
    ck.cov["rule"] = ("message files of 0-12 lines drawn from pools of keys (incl. keys differing only in surrounding "
                      "ASCII/Unicode spaces, empty, with '.', '#', '['), values (with '=', braces, brackets, spaces), section "
                      "headers (plain, indented, trailing space, '=' inside, unterminated), comments, blank lines, LF / CRLF / "
                      "CRCRLF line ends, with or without final newline; a malformed stream adds lines without '=', empty keys "
                      "and random character insertions; plus files with sections of 13-40 entries (descending / ascending / shuffled / organ-pipe key order) holding 1-4 redefinitions, some with spaced keys (stability of the sort above Go's 12-element insertion-sort threshold). distinct_nontrivial = distinct files that Format accepts, that contain "
                      "at least two entries and that Format changes")
    ck.assume("message files are valid UTF-8 (the models work on code points)",
              "sort.SliceStable is a stable sort (modelled by stable insertion sort)")
    ck.trusted("harness/C35/c35_lint_test.go and harness/C35/c35_lang_test.go (in-package overlays)",
               "props/C35.py generators and comparison; correspondence evaluated by vm_compute in a generated cases file")
    ck.coq_stage(GROUP, theorems=["C35_table_preserved", "C35_idempotent", "C35_holds", "C35_dup_reported",
                                   "C35_old_refuted", "C35_old_refuted_indented_header"])

    ok1, lintbin = vf.go_test_build(ck.work, "tools/langlint", {"tools/langlint/zz_verif_c35_test.go":
                                    os.path.join(vf.HARNESS, "C35", "c35_lint_test.go")}, "c35lint.test")
    if not ok1:
        ck.violation("harness-build", "harness for tools/langlint does not build:\n" + lintbin[-1500:],
                     replay={"log": lintbin[-3000:]}, found_input=False)
        return
    ok2, langbin = vf.go_test_build(os.path.join(ck.work, "lang"), "tools/lang", {"tools/lang/zz_verif_c35_test.go":
                                    os.path.join(vf.HARNESS, "C35", "c35_lang_test.go")}, "c35lang.test")
    if not ok2:
        ck.violation("harness-build", "harness for tools/lang does not build:\n" + langbin[-1500:],
                     replay={"log": langbin[-3000:]}, found_input=False)
        return

    files = list(CORPUS)
    nvalid, nmal = (500, 200) if quick else (6000, 2500)
    for _ in range(nvalid):
        files.append(gen_file(ck.rng, False))
    for _ in range(nmal):
        files.append(gen_file(ck.rng, True))
    for _ in range(40 if quick else 500):
        files.append(gen_big(ck.rng))
    if ck.replay_file:
        rp = json.load(open(ck.replay_file))["replay"]
        if "file_hex" in rp:
            files = [bytes.fromhex(rp["file_hex"]).decode("utf8")]
    files = list(dict.fromkeys(files))

    # ---- real Format
    fin, fout = os.path.join(ck.work, "f.in"), os.path.join(ck.work, "f.out")
    with open(fin, "w") as f:
        for i, t in enumerate(files):
            f.write("F %d %s\n" % (i, enc(t)))
    rc, log = vf.run_bin(lintbin, "^TestVerifC35Lint$", {"VERIF_IN": fin, "VERIF_OUT": fout})
    if rc != 0:
        ck.violation("harness-run", "langlint harness failed:\n" + log[-1500:], replay={"log": log[-3000:]}, found_input=False)
        return
    F = {}
    for line in open(fout):
        p = line.split()
        F[int(p[1])] = None if p[2] == "err" else (dec(p[3]), int(p[4]), p[5])
    # ---- real compileFile on originals and on formatted files
    cin, cout = os.path.join(ck.work, "c.in"), os.path.join(ck.work, "c.out")
    with open(cin, "w") as f:
        for i, t in enumerate(files):
            f.write("C %d %s\n" % (2 * i, enc(t)))
            if F.get(i):
                f.write("C %d %s\n" % (2 * i + 1, enc(F[i][0])))
    rc, log = vf.run_bin(langbin, "^TestVerifC35Lang$", {"VERIF_IN": cin, "VERIF_OUT": cout})
    if rc != 0:
        ck.violation("harness-run", "lang harness failed:\n" + log[-1500:], replay={"log": log[-3000:]}, found_input=False)
        return
    C = {}
    for line in open(cout):
        p = line.split()
        if p[2] == "panic":
            C[int(p[1])] = None
        else:
            C[int(p[1])] = ({dec(e.split(":")[0]): dec(e.split(":")[1]) for e in p[4:]}, int(p[3]))

    # ---- the property on the real outputs
    nontriv = set()
    for i, t in enumerate(files):
        if F[i] is None:
            continue
        g, dups, again = F[i]
        rep = {"file_hex": t.encode().hex(), "file": t, "formatted": g}
        cf, cg = C.get(2 * i), C.get(2 * i + 1)
        if (cf is None) != (cg is None) or (cf is not None and cf[0] != cg[0]):
            diff = "compiler panics on one of them" if (cf is None or cg is None) else str(
                sorted(k for k in set(cf[0]) | set(cg[0]) if cf[0].get(k) != cg[0].get(k))[:5])
            ck.violation("table-changed", "Format changed the compiled message table of %r -> %r (keys %s; %d duplicate "
                         "warning(s))" % (t, g, diff, dups), replay=dict(rep, table_before=cf and cf[0], table_after=cg and cg[0]))
        if again != "1":
            ck.violation("not-idempotent", "Format(Format(f)) %s for f = %r" % (
                "fails" if again == "e" else "differs from Format(f)", t), replay=rep)
        if cf is not None and (cf[1] > 0) != (dups > 0):
            ck.violation("dup-not-reported", "compiler redefines %d key(s) of %r but langlint reports %d duplicate key(s)" % (
                cf[1], t, dups), replay=rep)
        if g != t and t.count("=") >= 2:
            nontriv.add(t)
    ck.cov["evaluations"] = len(files) * 3
    ck.cov["distinct_nontrivial"] = len(nontriv)
    ck.cov["input_distribution"] = {"files": len(files), "corpus": len(CORPUS), "format_ok": sum(1 for i in F if F[i]),
                                    "format_error": sum(1 for i in F if F[i] is None),
                                    "with_duplicate_warning": sum(1 for i in F if F[i] and F[i][1] > 0),
                                    "crlf": sum(1 for t in files if "\r\n" in t),
                                    "compiler_panics_on_original": sum(1 for i in range(len(files)) if C.get(2 * i) is None),
                                    "indented_header_lines": sum(1 for t in files if "\n [" in t or "\n\t[" in t),
                                    "sections_over_12_entries_with_redefinition": sum(1 for i, t in enumerate(files)
                                                                                      if t.count("=") > 13 and F.get(i) and F[i][1] > 0)}
    for i in range(min(3, len(files))):
        ck.sample({"file": files[i], "formatted": F[i] and F[i][0], "dup_warnings": F[i] and F[i][1],
                   "table": C.get(2 * i) and C[2 * i][0]})

    # ---- correspondence: models vs real
    found = any(v["found_input"] for v in ck.viol)
    if getattr(ck, "coq_broken", None):
        if not found:
            grp, log = ck.coq_broken
            ck.violation("proof-broken", "Coq development %s no longer checks (C35 theorems); the property held on all %d "
                         "generated files on the real code:\n%s" % (grp, len(files), log[-1200:]),
                         replay={"broken": "coq/" + grp, "log": log[-3000:]}, found_input=False)
        return
    chunks = [files[k:k + 400] for k in range(0, len(files), 400)]
    base = 0
    bad = {"FB": [], "CB": [], "DB": []}
    for ci, chunk in enumerate(chunks):
        lines = ["From Common Require Import Base.", "From Lint Require Import Model.", "Open Scope N_scope.",
                 "Definition cases : list (str * option str * nat * option (list (str * str))) := ["]
        cs = []
        for j, t in enumerate(chunk):
            i = base + j
            fo = "None" if F[i] is None else "Some %s" % vf.vrunes(F[i][0])
            nd = 0 if F[i] is None else F[i][1]
            cf = C.get(2 * i)
            co = "None" if cf is None else "Some [%s]" % "; ".join(
                "(%s, %s)" % (vf.vrunes(k), vf.vrunes(m)) for k, m in sorted(cf[0].items()))
            cs.append("(%s, %s, %d%%nat, %s)" % (vf.vrunes(t), fo, nd, co))
        lines.append(";\n".join(cs))
        lines.append("""].
Fixpoint idx {A} (f : nat -> A -> list nat) (i : nat) (l : list A) : list nat :=
  match l with [] => [] | x :: r => f i x ++ idx f (S i) r end.
Definition fb (i : nat) (c : str * option str * nat * option (list (str * str))) : list nat :=
  match c with (f, fo, _, _) => if opt_str_eqb (Format f) fo then [] else [i] end.
Definition cb (i : nat) (c : str * option str * nat * option (list (str * str))) : list nat :=
  match c with (f, _, _, co) => if compile_matches f co then [] else [i] end.
Definition db (i : nat) (c : str * option str * nat * option (list (str * str))) : list nat :=
  match c with (f, fo, nd, _) => match fo with Some _ => if Nat.eqb (dup_count_gen true f) nd then [] else [i] | None => [] end end.
""")
        okc, res = vf.coq_eval(GROUP, ck.work, "c35cases%d" % ci, "\n".join(lines),
                               {"FB": "idx fb 0 cases", "CB": "idx cb 0 cases", "DB": "idx db 0 cases"})
        if not okc:
            ck.violation("correspondence-eval", "model evaluation failed:\n" + str(res)[-1500:], replay={"log": str(res)[-3000:]},
                         found_input=False)
            return
        for k in bad:
            bad[k] += [base + x for x in res[k]]
        base += len(chunk)
    ck.cov["traces_validated_against_impl"] = 2 * len(files)
    if found:
        return
    for i in bad["FB"][:1]:
        ck.violation("corr-format", "model and real Format disagree on %r: real %r" % (files[i], F[i] and F[i][0]),
                     replay={"file_hex": files[i].encode().hex(), "file": files[i]}, found_input=False)
    for i in bad["CB"][:1]:
        ck.violation("corr-compile", "model and real compileFile disagree on %r: real %r" % (files[i], C.get(2 * i) and C[2 * i][0]),
                     replay={"file_hex": files[i].encode().hex(), "file": files[i]}, found_input=False)
    for i in bad["DB"][:1]:
        ck.violation("corr-dups", "model and real langlint disagree on the number of duplicate keys of %r: real %d" % (
            files[i], F[i][1]), replay={"file_hex": files[i].encode().hex(), "file": files[i]}, found_input=False)
