//go:build verif

package admin

// Overlaid into /repo/internal/server/admin by /verif/check C44.
// VERIF_IN: one setting name per line (hex).  For every name the setting is given a unique canary
// value, then both configuration handlers are called; VERIF_OUT gets
//   D <const name> <hex setting name>          the secret-bearing setting names as defined in defs
//   A <hex name> elided|shown|absent            GET /admin/config   (all settings)
//   O <hex name> elided|shown|absent            POST /admin/config  (named settings)
//   L <hex name>                                raw response body contained the canary of that name

import (
	"bufio"
	"bytes"
	"encoding/hex"
	"encoding/json"
	"fmt"
	"net/http/httptest"
	"os"
	"strings"
	"testing"

	"github.com/tucats/ego/internal/cli/settings"
	"github.com/tucats/ego/internal/defs"
	"github.com/tucats/ego/internal/router"
)

func TestVerifC44(t *testing.T) {
	in, err := os.ReadFile(os.Getenv("VERIF_IN"))
	if err != nil {
		t.Fatal(err)
	}

	out, err := os.Create(os.Getenv("VERIF_OUT"))
	if err != nil {
		t.Fatal(err)
	}
	defer out.Close()

	w := bufio.NewWriter(out)
	defer w.Flush()

	for k, v := range map[string]string{
		"ServerTokenKeySetting":    defs.ServerTokenKeySetting,
		"LogonTokenSetting":        defs.LogonTokenSetting,
		"LogonRefreshTokenSetting": defs.LogonRefreshTokenSetting,
		"LogonUserdataKeySetting":  defs.LogonUserdataKeySetting,
		"DefaultCredentialSetting": defs.DefaultCredentialSetting,
		"OAuthClientSecretSetting": defs.OAuthClientSecretSetting,
	} {
		fmt.Fprintf(w, "D %s %s\n", k, hex.EncodeToString([]byte(v)))
	}

	names := []string{}
	canary := map[string]string{}

	for i, line := range strings.Split(string(in), "\n") {
		if line == "" {
			continue
		}

		b, _ := hex.DecodeString(line)
		name := string(b)
		names = append(names, name)
		canary[name] = fmt.Sprintf("CANARY%05dYRANAC", i)
		settings.SetDefault(name, canary[name])
	}

	classify := func(tag string, body []byte) {
		var resp defs.ConfigResponse
		if err := json.Unmarshal(body, &resp); err != nil {
			t.Fatalf("bad response: %v: %s", err, string(body))
		}

		for _, name := range names {
			item, found := resp.Items[name]

			switch {
			case !found:
				fmt.Fprintf(w, "%s %s absent\n", tag, hex.EncodeToString([]byte(name)))
			case item.Value == defs.ElidedPassword:
				fmt.Fprintf(w, "%s %s elided\n", tag, hex.EncodeToString([]byte(name)))
			default:
				fmt.Fprintf(w, "%s %s shown\n", tag, hex.EncodeToString([]byte(name)))
			}

			if bytes.Contains(body, []byte(canary[name])) {
				fmt.Fprintf(w, "L%s %s\n", tag, hex.EncodeToString([]byte(name)))
			}
		}
	}

	session := &router.Session{ID: 1}

	rec := httptest.NewRecorder()
	GetAllConfigHandler(session, rec, httptest.NewRequest("GET", "/admin/config", nil))
	classify("A", rec.Body.Bytes())

	payload, _ := json.Marshal(names)
	rec = httptest.NewRecorder()
	GetConfigHandler(session, rec, httptest.NewRequest("POST", "/admin/config", bytes.NewReader(payload)))
	classify("O", rec.Body.Bytes())
}
