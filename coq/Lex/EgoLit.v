(* Lex/EgoLit.v — what Ego does with the text of a literal token delivered by text/scanner:
   tokenizer.classifyTokenBySpelling (lexer.go), compiler.convertRadixToDecimal, pushIntConstant,
   compileRuneExpression (expr_atom.go), tokenizer.unQuote, with the fragments of
   strconv.ParseInt / ParseUint / underscoreOK / Unquote / UnquoteChar they rely on.
   Text = list of valid non-zero code points (a code point >= 128 stands for its UTF-8 bytes, which
   utf8.DecodeRune turns back into that code point); values = bytes.
   `…_old` = the code before the repair commit (kept for the refutation witnesses).
   Definitions only. *)
From Lex Require Export GoLit.
Open Scope N_scope.

(* ------------------------------------------------------------------ strconv.ParseUint / ParseInt *)
(* digit value as computed in ParseUint: '0'..'9', letters (either case) 10.. ; lower(c) in 'a'..'z' iff c is an ASCII letter *)
Definition sc_digit (c : N) : option N :=
  if (48 <=? c) && (c <=? 57) then Some (c - 48)
  else if (97 <=? c) && (c <=? 122) then Some (c - 87)
  else if (65 <=? c) && (c <=? 90) then Some (c - 55)
  else None.

Definition max_u64 : N := 18446744073709551615.

(* the digit loop; None = syntax or range error.  cutoff = maxUint64/base + 1; maxv = 1<<bitSize - 1 *)
Fixpoint pu_loop (base : N) (base0 : bool) (maxv n : N) (s : str) : option N :=
  match s with
  | [] => Some n
  | c :: r =>
      if (c =? c_us) && base0 then pu_loop base base0 maxv n r
      else match sc_digit c with
           | None => None
           | Some d =>
               if base <=? d then None
               else if (max_u64 / base + 1) <=? n then None
               else let n1 := n * base + d in
                    if maxv <? n1 then None          (* n1 < n (wrapped) || n1 > maxVal *)
                    else pu_loop base base0 maxv n1 r
           end
  end.

Definition is_hex_letter (c : N) : bool := ((97 <=? c) && (c <=? 102)) || ((65 <=? c) && (c <=? 70)).

Inductive saw := SBeg | SDig | SUs | SOth.
Fixpoint uok_loop (hex : bool) (sw : saw) (s : str) : bool :=
  match s with
  | [] => match sw with SUs => false | _ => true end
  | c :: r =>
      if is_digit c || (hex && is_hex_letter c) then uok_loop hex SDig r
      else if c =? c_us then match sw with SDig => uok_loop hex SUs r | _ => false end
      else match sw with SUs => false | _ => uok_loop hex SOth r end
  end.

Definition is_sign (c : N) : bool := (c =? 43) || (c =? 45).

(* strconv.underscoreOK *)
Definition underscore_ok (s0 : str) : bool :=
  let s := match s0 with c :: r => if is_sign c then r else s0 | [] => s0 end in
  match s with
  | z :: p :: r =>
      if (z =? c_0) && (lower_is p 98 || lower_is p 111 || lower_is p 120)
      then uok_loop (lower_is p 120) SDig r
      else uok_loop false SBeg s
  | _ => uok_loop false SBeg s
  end.

Definition has_us (s : str) : bool := existsb (fun c => c =? c_us) s.

(* strconv.ParseUint(s, base, bitSize) for base in {0, 2, 8, 10, 16}; maxv = 2^bitSize - 1 *)
Definition parse_uint (s : str) (base maxv : N) : option N :=
  match s with
  | [] => None
  | c0 :: t =>
      let base0 := base =? 0 in
      let '(b, body) :=
        if base0 then
          if c0 =? c_0 then
            match t with
            | p :: (_ :: _) as t2 =>
                if lower_is p 98 then (2, t2) else if lower_is p 111 then (8, t2)
                else if lower_is p 120 then (16, t2) else (8, t)
            | _ => (8, t)
            end
          else (10, s)
        else (base, s) in
      match pu_loop b base0 maxv 0 body with
      | None => None
      | Some n => if base0 && has_us body && negb (underscore_ok s) then None else Some n
      end
  end.

(* strconv.ParseInt on unsigned text (a leading sign is outside the modelled fragment: the
   scanner never delivers one); Some v iff err == nil *)
Definition parse_int (s : str) (base bits : N) : option N :=
  match parse_uint s base (2 ^ bits - 1) with
  | None => None
  | Some un => if 2 ^ (bits - 1) <=? un then None else Some un
  end.

(* ------------------------------------------------------------------ strconv.UnquoteChar / Unquote *)
(* value, multibyte, rest *)
Definition unquote_char (quote : N) (s : str) : option (N * bool * str) :=
  match s with
  | [] => None
  | c :: r =>
      if (c =? quote) && ((quote =? c_sq) || (quote =? c_dq)) then None
      else if 128 <=? c then Some (c, true, r)                  (* utf8.DecodeRuneInString *)
      else if negb (c =? c_bs) then Some (c, false, r)
      else match r with
           | [] => None
           | e :: r2 =>
               if e =? 97 then Some (7, false, r2) else if e =? 98 then Some (8, false, r2)
               else if e =? 102 then Some (12, false, r2) else if e =? 110 then Some (10, false, r2)
               else if e =? 114 then Some (13, false, r2) else if e =? 116 then Some (9, false, r2)
               else if e =? 118 then Some (11, false, r2)
               else if (e =? 120) || (e =? 117) || (e =? 85) then
                 let n := if e =? 120 then 2%nat else if e =? 117 then 4%nat else 8%nat in
                 if (length r2 <? n)%nat then None
                 else match hex_n n 0 r2 with               (* v = v<<4 | unhex(s[j]) *)
                      | None => None
                      | Some (v, r3) =>
                          if e =? 120 then Some (v, false, r3)
                          else if valid_cp v then Some (v, true, r3) else None   (* utf8.ValidRune *)
                      end
               else if (48 <=? e) && (e <=? 55) then
                 if (length r2 <? 2)%nat then None
                 else match oct_n 2 (e - 48) r2 with        (* v = v<<3 | (s[j]-'0') *)
                      | None => None
                      | Some (v, r3) => if 255 <? v then None else Some (v, false, r3)
                      end
               else if e =? c_bs then Some (c_bs, false, r2)
               else if (e =? c_sq) || (e =? c_dq) then
                 if negb (e =? quote) then None else Some (e, false, r2)
               else None
           end
  end.

Fixpoint index_of (q : N) (s : str) : option nat :=
  match s with
  | [] => None
  | c :: r => if c =? q then Some O else match index_of q r with Some i => Some (S i) | None => None end
  end.
Definition contains (q : N) (s : str) : bool := existsb (fun c => c =? q) s.
Definition encode_all (s : str) : bytes := flat_map utf8_encode s.

(* the escape-processing loop of strconv.unquote for quote = ''''; returns buf and the rest at loop exit *)
Fixpoint uq_loop (fuel : nat) (inp : str) (buf : bytes) : option (bytes * str) :=
  match fuel with
  | O => None
  | S f =>
      match inp with
      | [] => Some (buf, [])
      | c :: _ =>
          if c =? c_dq then Some (buf, inp)
          else match unquote_char c_dq inp with
               | None => None
               | Some (r, mb, rem) =>
                   if c =? c_nl then None
                   else uq_loop f rem (buf ++ (if (r <? 128) || negb mb then [r] else utf8_encode r))
               end
      end
  end.

(* strconv.Unquote on a text that starts with '''' *)
Definition unquote_dq (s : str) : option bytes :=
  match s with
  | q :: rest =>
      if (length s <? 2)%nat then None
      else match index_of q rest with
           | None => None
           | Some e =>
               let contents := firstn e rest in
               let after := skipn (S e) rest in
               if negb (contains c_bs contents) && negb (contains c_nl contents)
               then match after with [] => Some (encode_all contents) | _ => None end   (* utf8.ValidString: text is code points *)
               else match uq_loop (length s) rest [] with
                    | Some (buf, q2 :: rem) =>
                        if q2 =? q then match rem with [] => Some buf | _ => None end else None
                    | _ => None
                    end
           end
  | [] => None
  end.

(* ------------------------------------------------------------------ Ego *)
Inductive eres :=
  | EInt (wide : bool) (z : N)     (* integer constant; wide = pushed as int64 rather than int *)
  | ENotInt                        (* a float, or left as text *)
  | ERunes (l : list N)            (* one rune, or (extension) an array of runes *)
  | EStr (b : bytes)
  | EOOM.                          (* text outside the modelled fragment *)

Definition nth_c (i : nat) (s : str) : N := nth i s 0.

(* convertRadixToDecimal after the repair: (is Integer token, spelling) *)
Definition convert (cls : bool) (s : str) : bool * str :=
  if (length s <? 2)%nat || negb (is_digit (nth_c 0 s)) then (cls, s)
  else
    let p := nth_c 1 s in
    let is_radix := (nth_c 0 s =? c_0) &&
                    (lower_is p 98 || lower_is p 111 || lower_is p 120 || (p =? c_us) || is_digit p) in
    if negb is_radix && negb (has_us s) then (cls, s)
    else match parse_int s 0 64 with
         | Some v => (true, digits v)
         | None => (cls, s)
         end.

(* convertRadixToDecimal before the repair *)
Definition convert_old (cls : bool) (s : str) : option (bool * str) :=
  let p := nth_c 1 s in
  let z := (nth_c 0 s =? c_0) && (2 <=? length s)%nat in
  let '(radix, offset) :=
    if z && lower_is p 98 then (2, 2%nat) else if z && lower_is p 111 then (8, 2%nat)
    else if z && lower_is p 120 then (16, 2%nat)
    else if z && is_digit p then (8, 1%nat) else (0, 0%nat) in
  if radix =? 0 then Some (cls, s)
  else let body := skipn offset s in
       if match body with c :: _ => is_sign c | [] => false end then None
       else match parse_int body radix 32 with
            | Some v => Some (true, digits v)
            | None => Some (cls, s)
            end.

(* pushIntConstant *)
Definition push_int (txt : str) : eres :=
  match parse_int txt 10 32 with
  | Some i => EInt false i
  | None => match parse_int txt 10 64 with Some i => EInt true i | None => ENotInt end
  end.

(* number-like text: classification steps 8-10, conversion, emission *)
Definition ego_num (s : str) : eres :=
  let cls := match parse_int s 10 64 with Some _ => true | None => false end in
  let '(cls', txt) := convert cls s in
  if cls' then push_int txt else ENotInt.

Definition ego_num_old (s : str) : eres :=
  let cls := match parse_int s 10 64 with Some _ => true | None => false end in
  match convert_old cls s with
  | None => EOOM
  | Some (cls', txt) => if cls' then push_int txt else ENotInt
  end.

(* compileRuneExpression on a text with s[0] = s[len-1] = ''' and len > 1 *)
Definition ego_rune (s : str) : eres :=
  let inner := removelast (tl s) in
  match unquote_char c_sq inner with
  | Some (r, _, []) => ERunes [r]
  | _ => ERunes inner
  end.
Definition ego_rune_old (s : str) : eres := ERunes (removelast (tl s)).

(* classification steps 6 and 7 *)
Definition ego_dq (s : str) : eres :=
  match unquote_dq s with Some b => EStr b | None => EStr (encode_all s) end.
Definition ego_raw (s : str) : eres :=
  EStr (encode_all (filter (fun c => negb (c =? c_cr)) (removelast (tl s)))).
Definition ego_raw_old (s : str) : eres := EStr (encode_all (removelast (tl s))).


Definition ego_dispatch (num rune raw : str -> eres) (s : str) : eres :=
  match s with
  | [] => EOOM
  | c :: r =>
      if is_digit c then num s
      else if c =? 46 then match r with d :: _ => if is_digit d then num s else EOOM | [] => EOOM end
      else if c =? c_sq then
        if (2 <=? length s)%nat && (last s 0 =? c_sq) then rune s else EOOM
      else if c =? c_dq then if last s 0 =? c_dq then ego_dq s else EOOM
      else if c =? c_bq then
        match r with [] => EStr [] | _ => if last s 0 =? c_bq then raw s else EOOM end
      else EOOM
  end.

Definition ego_lit : str -> eres := ego_dispatch ego_num ego_rune ego_raw.
Definition ego_lit_old : str -> eres := ego_dispatch ego_num_old ego_rune_old ego_raw_old.
