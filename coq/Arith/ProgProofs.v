(* Arith/ProgProofs.v — lemmas for C04_compare_partial and C04_program_partial *)
From Coq Require Import List ZArith Bool Lia.
From Common Require Import Base.
From Arith Require Import Model Spec Proofs Prog.
Import ListNotations.
Open Scope Z_scope.

(* ---------- comparisons ---------- *)
Lemma compare_strict_relaxed o x y r :
  compare_op Strict o x y = Ok r -> compare_op Relaxed o x y = Ok r.
Proof.
  unfold compare_op. cbn [is_strict]. intros H. apply bind_ok in H. destruct H as (p & H1 & H2).
  rewrite H1. cbn [bind]. destruct (kind_eqb (kind_of (fst p)) (kind_of (snd p))) eqn:E; [|discriminate].
  unfold normalize. rewrite E. cbn [bind fst snd]. exact H2.
Qed.

Lemma condition_strict_relaxed v b : condition Strict v = Ok b -> condition Relaxed v = Ok b.
Proof. unfold condition. cbn [is_strict]. destruct v; try discriminate. intros H. exact H. Qed.

(* ---------- values stay wrapped to their kind ---------- *)
Definition wfv (v : value) : Prop := match v with VInt k z => in_range k z | _ => True end.
Definition wf_item (x : value * bool) : Prop := wfv (fst x).
Definition wf_instr (i : instr) : Prop :=
  match i with IPush v _ | ICmpK _ v _ | IIncr _ v _ => wfv v | _ => True end.
Definition wf_state (s : state) : Prop := Forall wf_item (stack s) /\ Forall wfv (vars s).

Lemma in_range_01 t (b : bool) : in_range t (if b then 1 else 0).
Proof. unfold in_range, kmin, kmax. destruct t, b; cbn; lia. Qed.

Lemma coerce_wfv v k c : coerce v k = Ok c -> wfv c.
Proof.
  destruct k as [|t| |], v as [k' z|b|s|z]; cbn [coerce]; intros H;
    try (injection H as <-; cbn [wfv]; try exact I; try apply wrap_in_range; try apply in_range_01);
    try discriminate.
  - destruct s; [injection H as <-; cbn [wfv]; unfold in_range, kmin, kmax; destruct t; cbn; lia|discriminate].
  - destruct (in_rangeb t z) eqn:E; [|discriminate]. injection H as <-. cbn [wfv]. apply in_rangeb_spec. exact E.
Qed.
Lemma lossless_wfv v k c : coerce_lossless v k = Ok c -> wfv c.
Proof. intros H. apply lossless_ok in H. eapply coerce_wfv; eassumption. Qed.

Lemma coerce_same_wfv v : wfv v -> coerce v (kind_of v) = Ok v.
Proof. destruct v as [k z|b|s|z]; cbn [wfv kind_of coerce]; intros H; try reflexivity.
  rewrite wrap_id by exact H. reflexivity. Qed.

Lemma normalize_wfv v1 c1 v2 c2 st p :
  wfv v1 -> wfv v2 -> normalize v1 c1 v2 c2 st = Ok p -> wfv (fst p) /\ wfv (snd p).
Proof.
  intros W1 W2. unfold normalize. destruct (kind_eqb _ _).
  - intros H; injection H as <-; split; assumption.
  - destruct (xorb c1 c2 && is_numeric v1 && is_numeric v2).
    + destruct c1; intros H; apply bind_ok in H; destruct H as (a & H1 & H2); injection H2 as <-; cbn [fst snd];
        (split; [try assumption|try assumption]);
        destruct st; try (eapply lossless_wfv; eassumption); try (eapply coerce_wfv; eassumption).
    + destruct (rank _ <? rank _); intros H; apply bind_ok in H; destruct H as (a & H1 & H2); injection H2 as <-;
        cbn [fst snd]; split; try assumption; eapply coerce_wfv; eassumption.
Qed.

Lemma arith_wfv o v1 v2 r : arith o v1 v2 = Ok r -> wfv r.
Proof.
  destruct v1 as [k a|a|a|a], v2 as [k' b|b|b|b]; cbn [arith]; try discriminate.
  - destruct o; try (destruct (b =? 0); [discriminate|]); intros H; injection H as <-; apply wrap_in_range.
  - destruct o; try discriminate; intros H; injection H as <-; exact I.
  - destruct o; try discriminate; intros H; injection H as <-; exact I.
  - unfold flt_arith. destruct o; try discriminate; try (intros H; injection H as <-; exact I).
    destruct (b =? 0); [discriminate|]. destruct (Z.rem a b =? 0); [|discriminate]. intros H; injection H as <-; exact I.
Qed.

Lemma binop_wfv m o x y r : wf_item x -> wf_item y -> binop m o x y = Ok r -> wfv r.
Proof.
  destruct x as [v1 c1], y as [v2 c2]. unfold wf_item. cbn [fst]. intros W1 W2. unfold binop.
  destruct (_ && _ && _); [discriminate|]. intros H. apply bind_ok in H. destruct H as (p & H1 & H2).
  eapply arith_wfv; eassumption.
Qed.

Lemma cmp_same_wfv o v1 v2 r : cmp_same o v1 v2 = Ok r -> wfv r.
Proof.
  destruct v1, v2; cbn [cmp_same]; try discriminate; try (intros H; injection H as <-; exact I).
  destruct o; try discriminate; intros H; injection H as <-; exact I.
Qed.
Lemma compare_wfv m o x y r : compare_op m o x y = Ok r -> wfv r.
Proof.
  unfold compare_op. intros H. apply bind_ok in H. destruct H as (p & H1 & H2). destruct (is_strict m).
  - destruct (kind_eqb _ _); [|discriminate]. eapply cmp_same_wfv; eassumption.
  - apply bind_ok in H2. destruct H2 as (q & H2 & H3). eapply cmp_same_wfv; eassumption.
Qed.

Lemma negate_wfv x r : negate x = Ok r -> wf_item r.
Proof.
  destruct x as [[k z|b|s|z] c]; unfold negate, negate_gen, wf_item; rewrite ?andb_false_r;
    intros H; injection H as <-; cbn [fst wfv]; try exact I. apply wrap_in_range.
Qed.

Lemma store_wfv m ex x r : wf_item x -> store m ex x = Ok r -> wfv r.
Proof.
  destruct x as [v c]. unfold wf_item. cbn [fst]. intros W. unfold store.
  destruct m; try (intros H; injection H as <-; exact W);
    (destruct (kind_eqb _ _); [intros H; injection H as <-; exact W|]).
  - destruct (negb c); [discriminate|]. destruct (_ && _); [apply lossless_wfv|discriminate].
  - apply coerce_wfv.
Qed.

Lemma increment_wfv m old step r : wfv old -> wf_item step -> increment cfg_now m old step = Ok r -> wfv r.
Proof.
  intros W1 W2. rewrite increment_is_add_store by reflexivity. intros H. apply bind_ok in H.
  destruct H as (a & H1 & H2). apply binop_wfv in H1; [|exact W1|exact W2].
  eapply store_wfv; [|exact H2]. exact H1.
Qed.

Lemma argument_wfv m t x r : wf_item x -> argument m t x = Ok r -> wfv r.
Proof.
  destruct x as [v c]. unfold wf_item, argument, argument_gen. cbn [fst]. intros W.
  destruct (is_strict m); (destruct (kind_eqb _ _); [intros H; injection H as <-; exact W|]).
  - destruct (_ && _ && _); [apply lossless_wfv|discriminate].
  - apply coerce_wfv.
Qed.
Lemma retval_wfv m t x r : wf_item x -> retval m t x = Ok r -> wfv r.
Proof.
  destruct x as [v c]. unfold wf_item, retval, retval_gen. cbn [fst]. intros W.
  destruct (is_strict m); [|apply coerce_wfv].
  destruct (negb c).
  - destruct (kind_eqb _ _); [intros H; injection H as <-; exact W|discriminate].
  - destruct (_ && _); [apply lossless_wfv|apply coerce_wfv].
Qed.
Lemma retval_strict_relaxed_wfv t x r :
  wf_item x -> retval Strict t x = Ok r -> retval Relaxed t x = Ok r.
Proof.
  destruct x as [v c]. unfold wf_item. cbn [fst]. intros W. unfold retval, retval_gen. cbn [is_strict].
  destruct (negb c).
  - destruct (kind_eqb (kind_of v) t) eqn:E; [|discriminate].
    apply kind_eqb_eq in E. subst t. intros H. rewrite coerce_same_wfv by exact W. exact H.
  - destruct (is_numeric v && kind_numeric t); [apply lossless_ok|auto].
Qed.

Lemma set_nth_wf x v l l' : Forall wfv l -> wfv v -> set_nth x v l = Some l' -> Forall wfv l'.
Proof.
  revert l l'. induction x as [|x IH]; intros l l' Hl Hv; destruct l as [|a r]; cbn [set_nth]; try discriminate.
  - intros H; injection H as <-. inversion Hl; subst. constructor; assumption.
  - destruct (set_nth x v r) eqn:E; [|discriminate]. intros H; injection H as <-.
    inversion Hl; subst. constructor; [assumption|]. eapply IH; eassumption.
Qed.
Lemma nth_error_wf l x v : Forall wfv l -> nth_error l x = Some v -> wfv v.
Proof. intros H E. rewrite Forall_forall in H. apply H. eapply nth_error_In; eassumption. Qed.

(* ---------- one instruction: strict accepted => relaxed does the same, and the state stays wrapped ---------- *)
Lemma wf_with_stack s st : Forall wf_item st -> Forall wfv (vars s) -> wf_state (with_stack s st).
Proof. intros H1 H2. split; assumption. Qed.

Ltac inv_forall :=
  repeat match goal with
         | H : Forall _ (_ :: _) |- _ => inversion H; clear H; subst
         end.

Lemma exec_sim i s s1 :
  wf_instr i -> wf_state s -> exec Strict i s = Ok s1 -> exec Relaxed i s = Ok s1 /\ wf_state s1.
Proof.
  intros Wi [Wst Wv]. unfold exec. destruct i; cbn [wf_instr] in Wi.
  - (* IPush *) intros H; injection H as <-. split; [reflexivity|]. apply wf_with_stack; [constructor; assumption|assumption].
  - (* ILoad *) destruct (nth_error (vars s) x) eqn:E; [|discriminate]. intros H; injection H as <-.
    split; [reflexivity|]. apply wf_with_stack; [constructor; [eapply nth_error_wf; eassumption|assumption]|assumption].
  - (* IBin *) destruct (stack s) as [|y [|x st]]; try discriminate. inv_forall.
    intros H. apply bind_ok in H. destruct H as (r & Hb & Hk). injection Hk as <-.
    assert (Wr : wfv r) by (eapply binop_wfv; [| |exact Hb]; assumption).
    apply binop_strict_relaxed in Hb. rewrite Hb. split; [reflexivity|].
    apply wf_with_stack; [constructor; [exact Wr|assumption]|assumption].
  - (* ICmp *) destruct (stack s) as [|y [|x st]]; try discriminate. inv_forall.
    intros H. apply bind_ok in H. destruct H as (r & Hb & Hk). injection Hk as <-.
    pose proof (compare_wfv _ _ _ _ _ Hb) as Wr.
    apply compare_strict_relaxed in Hb. rewrite Hb. split; [reflexivity|].
    apply wf_with_stack; [constructor; [exact Wr|assumption]|assumption].
  - (* ICmpK *) destruct (stack s) as [|x st]; try discriminate. inv_forall.
    intros H. apply bind_ok in H. destruct H as (r & Hb & Hk). injection Hk as <-.
    pose proof (compare_wfv _ _ _ _ _ Hb) as Wr.
    apply compare_strict_relaxed in Hb. rewrite Hb. split; [reflexivity|].
    apply wf_with_stack; [constructor; [exact Wr|assumption]|assumption].
  - (* INeg *) destruct (stack s) as [|x st]; try discriminate. inv_forall.
    intros H. apply bind_ok in H. destruct H as (r & Hb & Hk). injection Hk as <-.
    pose proof (negate_wfv _ _ Hb) as Wr. rewrite Hb. split; [reflexivity|].
    apply wf_with_stack; [constructor; [exact Wr|assumption]|assumption].
  - (* IStore *) destruct (stack s) as [|v st]; try discriminate. inv_forall.
    destruct (nth_error (vars s) x) as [old|] eqn:E; [|discriminate].
    intros H. apply bind_ok in H. destruct H as (r & Hb & Hk).
    destruct (set_nth x r (vars s)) as [vs|] eqn:E2; [|discriminate]. injection Hk as <-.
    assert (Wr' : wfv r) by (eapply store_wfv; eassumption).
    apply store_strict_relaxed in Hb. rewrite Hb. cbn [bind]. rewrite E2. split; [reflexivity|].
    split; [assumption|]. eapply set_nth_wf; eassumption.
  - (* IIncr *) destruct (nth_error (vars s) x) as [old|] eqn:E; [|destruct (stack s); discriminate].
    assert (Hs : forall A (a b : A), match stack s with [] => a | _ :: _ => a end = a) by (intros; destruct (stack s); reflexivity).
    intros H.
    assert (H' : bind (increment cfg_now Strict old (v, c))
                      (fun r => match set_nth x r (vars s) with
                                | Some vs => Ok {| stack := stack s; vars := vs; out := out s; skip := skip s |}
                                | None => Err EOther end) = Ok s1) by (destruct (stack s); exact H).
    clear H. apply bind_ok in H'. destruct H' as (r & Hb & Hk).
    destruct (set_nth x r (vars s)) as [vs|] eqn:E2; [|discriminate]. injection Hk as <-.
    assert (Wr : wfv r) by (eapply increment_wfv; [eapply nth_error_wf; eassumption| |exact Hb]; exact Wi).
    apply increment_strict_relaxed in Hb.
    assert (G : bind (increment cfg_now Relaxed old (v, c))
                     (fun r => match set_nth x r (vars s) with
                               | Some vs => Ok {| stack := stack s; vars := vs; out := out s; skip := skip s |}
                               | None => Err EOther end)
                = Ok {| stack := stack s; vars := vs; out := out s; skip := skip s |}).
    { rewrite Hb. cbn [bind]. rewrite E2. reflexivity. }
    split; [destruct (stack s); exact G|]. split; [assumption|]. eapply set_nth_wf; eassumption.
  - (* IArg *) destruct (stack s) as [|x st]; try discriminate. inv_forall.
    intros H. apply bind_ok in H. destruct H as (r & Hb & Hk). injection Hk as <-.
    assert (Wr : wfv r) by (eapply argument_wfv; eassumption).
    apply argument_strict_relaxed in Hb. rewrite Hb. split; [reflexivity|].
    apply wf_with_stack; [constructor; [exact Wr|assumption]|assumption].
  - (* IRet *) destruct (stack s) as [|x st]; try discriminate. inv_forall.
    intros H. apply bind_ok in H. destruct H as (r & Hb & Hk). injection Hk as <-.
    assert (Wr : wfv r) by (eapply retval_wfv; eassumption).
    apply retval_strict_relaxed_wfv in Hb; [|assumption]. rewrite Hb. split; [reflexivity|].
    apply wf_with_stack; [constructor; [exact Wr|assumption]|assumption].
  - (* IPrint *) destruct (stack s) as [|[v c] st]; try discriminate. inv_forall.
    intros H; injection H as <-. split; [reflexivity|]. split; assumption.
  - (* IBranchFalse *) destruct (stack s) as [|[v c] st]; try discriminate. inv_forall.
    intros H. apply bind_ok in H. destruct H as (b & Hb & Hk). injection Hk as <-.
    apply condition_strict_relaxed in Hb. rewrite Hb. split; [reflexivity|]. split; assumption.
  - (* IBranchTrue *) destruct (stack s) as [|[v c] st]; try discriminate. inv_forall.
    intros H. apply bind_ok in H. destruct H as (b & Hb & Hk). injection Hk as <-.
    apply condition_strict_relaxed in Hb. rewrite Hb. split; [reflexivity|]. split; assumption.
  - (* IJump *) intros H; injection H as <-. split; [reflexivity|]. split; assumption.
Qed.

Lemma step_sim i s s1 :
  wf_instr i -> wf_state s -> step Strict i s = Ok s1 -> step Relaxed i s = Ok s1 /\ wf_state s1.
Proof.
  intros Wi Ws. unfold step. destruct (skip s).
  - apply exec_sim; assumption.
  - intros H; injection H as <-. split; [reflexivity|]. destruct Ws; split; assumption.
Qed.

Lemma run_sim p : forall s s1,
  Forall wf_instr p -> wf_state s -> run Strict p s = Ok s1 -> run Relaxed p s = Ok s1.
Proof.
  induction p as [|i r IH]; intros s s1 Wp Ws; cbn [run].
  - auto.
  - inversion Wp as [|i' r' Wi Wr]; subst. intros H. apply bind_ok in H. destruct H as (s2 & Hs & Hr).
    destruct (step_sim i s s2 Wi Ws Hs) as [H3 W2].
    rewrite H3. cbn [bind]. apply IH; assumption.
Qed.

Lemma program_strict_relaxed p s o :
  Forall wf_instr p -> wf_state s ->
  observe (run Strict p s) = Ok o -> observe (run Relaxed p s) = Ok o.
Proof.
  intros Wp Ws. destruct (run Strict p s) as [s1| |] eqn:E; cbn [observe]; try discriminate.
  rewrite (run_sim _ _ _ Wp Ws E). auto.
Qed.
