(* SqlFmt/LexProofs.v — the text the printer writes lexes to the token list the token printer gives:
   lex (render true kws e) = LOk (sprint kws e) for every tree with eokb e = true. *)
From Common Require Import Base.
From Coq Require Import Ascii String.
From SqlFmt Require Import PrecClimb PrecClimbProofs Model Proofs.
Open Scope N_scope.

(* what may follow a complete operand in the printed text: the end, a blank, or ")" *)
Definition follow_ok (rest : str) : Prop :=
  match rest with [] => True | c :: _ => c = 32 \/ c = 41 end.

Lemma lex_space f r : lex_f (S f) (32 :: r) = lex_f f r.
Proof. reflexivity. Qed.
Lemma lex_lp f r : lex_f (S f) (40 :: r) = cons_tok tlp (lex_f f r).
Proof. reflexivity. Qed.
Lemma lex_rp f r : lex_f (S f) (41 :: r) = cons_tok trp (lex_f f r).
Proof. reflexivity. Qed.

(* binary operators are written with a blank after them *)
Lemma lex_binop s : In s all_bin -> forall f r,
  lex_f (S f) (s ++ 32 :: r) = cons_tok (tok_bin s) (lex_f f (32 :: r)).
Proof.
  intros H. vm_compute in H.
  repeat (destruct H as [<-|H]; [intros f r; reflexivity|]). contradiction.
Qed.

(* NOT is written with a blank after it *)
Lemma lex_not f r : lex_f (S f) (L "NOT" ++ 32 :: r) = cons_tok (tok_pre (L "NOT")) (lex_f f (32 :: r)).
Proof. reflexivity. Qed.

(* the symbolic prefix operators are written flush against what follows *)
Lemma lex_plus f c r : lex_f (S f) (L "+" ++ c :: r) = cons_tok (tok_pre (L "+")) (lex_f f (c :: r)).
Proof. reflexivity. Qed.
Lemma lex_tilde f c r : lex_f (S f) (L "~" ++ c :: r) = cons_tok (tok_pre (L "~")) (lex_f f (c :: r)).
Proof. reflexivity. Qed.
Lemma lex_minus f c r : (c =? 45) = false -> (c =? 62) = false ->
  lex_f (S f) (L "-" ++ c :: r) = cons_tok (tok_pre (L "-")) (lex_f f (c :: r)).
Proof. intros H1 H2. rewrite N.eqb_sym in H2. cbn -[N.eqb]. rewrite ?H1, ?H2. cbn -[N.eqb]. rewrite ?H1, ?H2. reflexivity. Qed.

Lemma follow_hd rest q : follow_ok rest -> q <> 32 -> q <> 41 -> (hdN rest =? q) = false \/ rest = [].
Proof.
  destruct rest as [|c r]; [right; reflexivity|]. cbn. intros [->| ->] H1 H2; left; apply N.eqb_neq; congruence.
Qed.

Lemma lex_kwatom w : In w [L "NULL"; L "TRUE"; L "FALSE"] -> forall f rest, follow_ok rest ->
  lex_f (S f) (w ++ rest) = cons_tok (1, w, false) (lex_f f rest).
Proof.
  intros H. vm_compute in H.
  repeat (destruct H as [<-|H]; [intros f [|c r] Hf; [reflexivity|destruct Hf as [->| ->]; reflexivity]|]).
  contradiction.
Qed.

Lemma lex_quoted_ident s f rest : follow_ok rest ->
  lex_f (S f) (quote 34 s ++ rest) = cons_tok (1, s, true) (lex_f f rest).
Proof.
  intros Hf. unfold quote. cbn [app]. rewrite <- app_assoc. cbn [app]. cbn -[scan_q].
  rewrite (scan_q_dbl 34 s [] rest) by (apply follow_hd; [exact Hf|discriminate|discriminate]).
  reflexivity.
Qed.

Lemma lex_string s f rest : follow_ok rest ->
  lex_f (S f) (quote 39 s ++ rest) = cons_tok (3, s, false) (lex_f f rest).
Proof.
  intros Hf. unfold quote. cbn [app]. rewrite <- app_assoc. cbn [app]. cbn -[scan_q].
  rewrite (scan_q_dbl 39 s [] rest) by (apply follow_hd; [exact Hf|discriminate|discriminate]).
  reflexivity.
Qed.

(* span stops exactly at the end of a run followed by something outside the class *)
Lemma span_run (p : N -> bool) s rest :
  forallb p s = true -> match rest with [] => True | c :: _ => p c = false end ->
  span p (s ++ rest) = (s, rest).
Proof.
  induction s as [|c s IH]; cbn [forallb app]; intros Hs Hr.
  - destruct rest as [|c r]; [reflexivity|]. cbn [span]. rewrite Hr. reflexivity.
  - apply andb_true_iff in Hs as [Hc Hs]. cbn [span]. rewrite Hc. rewrite IH by assumption. reflexivity.
Qed.

Lemma id_start_facts c : is_id_start c = true ->
  ((c =? 32) || (c =? 9) || (c =? 13) || (c =? 10)) = false /\ (c =? 45) = false /\ (c =? 47) = false /\
  (128 <=? c) = false /\ is_id_cont c = true.
Proof.
  unfold is_id_start, is_id_cont, is_letter, is_digit. intros H. repeat split; lia.
Qed.

Lemma bare_cont c : is_id_cont_bare c = true -> is_id_cont c = true.
Proof. unfold is_id_cont_bare, is_id_cont. intros H. lia. Qed.

Lemma lex_bare s f rest : is_bare s = true -> follow_ok rest ->
  lex_f (S f) (s ++ rest) = cons_tok (1, s, false) (lex_f f rest).
Proof.
  destruct s as [|c s]; [discriminate|]. cbn [is_bare]. intros Hb Hf.
  apply andb_true_iff in Hb as [Hc Hs].
  destruct (id_start_facts c Hc) as (Hws & H45 & H47 & H128 & Hcont).
  assert (Hspan : span is_id_cont ((c :: s) ++ rest) = (c :: s, rest)).
  { apply span_run.
    - cbn [forallb]. rewrite Hcont. cbn [andb]. apply forallb_forall. intros x Hx.
      apply bare_cont. rewrite forallb_forall in Hs. auto.
    - destruct rest as [|x r]; [exact I|]. destruct Hf as [->| ->]; reflexivity. }
  assert (H39 : (hdN rest =? 39) = false).
  { destruct rest as [|x r]; [reflexivity|]. destruct Hf as [->| ->]; reflexivity. }
  cbn [app] in *. cbn [lex_f]. rewrite Hws, H45, H47, H128, Hc. cbn [andb orb].
  rewrite Hspan. rewrite H39. cbn [andb]. reflexivity.
Qed.

Lemma follow_hd_vals rest : follow_ok rest -> hdN rest = 0 \/ hdN rest = 32 \/ hdN rest = 41.
Proof. destruct rest as [|c r]; cbn; [auto|]. intros [->| ->]; auto. Qed.

Lemma scan_number_digits s rest : s <> [] -> forallb is_digit s = true -> follow_ok rest ->
  scan_number (s ++ rest) = (s, rest).
Proof.
  intros Hne Hd Hf. destruct s as [|c s]; [congruence|]. clear Hne.
  cbn [forallb] in Hd. apply andb_true_iff in Hd as [Hc Hs].
  pose proof (follow_hd_vals rest Hf) as Hv.
  assert (H2 : ((hdN (s ++ rest) =? 120) || (hdN (s ++ rest) =? 88)) = false).
  { destruct s as [|c2 s]; cbn [app hdN].
    - destruct Hv as [->|[->| ->]]; reflexivity.
    - cbn [forallb] in Hs. apply andb_true_iff in Hs as [Hc2 _]. unfold is_digit in Hc2. lia. }
  assert (Hspan : span is_digit ((c :: s) ++ rest) = (c :: s, rest)).
  { apply span_run.
    - cbn [forallb]. rewrite Hc, Hs. reflexivity.
    - destruct rest as [|x r]; [exact I|]. destruct Hf as [->| ->]; reflexivity. }
  unfold scan_number. cbn [app tl hdN] in *. rewrite H2. rewrite andb_false_r.
  rewrite Hspan.
  assert (H46 : (hdN rest =? 46) = false) by (destruct Hv as [->|[->| ->]]; reflexivity).
  assert (He : ((hdN rest =? 101) || (hdN rest =? 69)) = false) by (destruct Hv as [->|[->| ->]]; reflexivity).
  rewrite H46. cbn [andb]. rewrite He. reflexivity.
Qed.

Lemma digit_facts c : is_digit c = true ->
  ((c =? 32) || (c =? 9) || (c =? 13) || (c =? 10)) = false /\ (c =? 45) = false /\ (c =? 47) = false /\
  (128 <=? c) = false /\ is_id_start c = false /\ ((c =? 34) || (c =? 96)) = false /\ (c =? 91) = false /\
  (c =? 39) = false.
Proof. unfold is_digit, is_id_start, is_letter. intros H. repeat split; lia. Qed.

Lemma lex_digits s f rest : s <> [] -> forallb is_digit s = true -> follow_ok rest ->
  lex_f (S f) (s ++ rest) = cons_tok (2, s, false) (lex_f f rest).
Proof.
  intros Hne Hd Hf. pose proof (scan_number_digits s rest Hne Hd Hf) as Hsc.
  destruct s as [|c s]; [congruence|].
  assert (Hc : is_digit c = true) by (cbn [forallb] in Hd; apply andb_true_iff in Hd; tauto).
  destruct (digit_facts c Hc) as (Hws & H45 & H47 & H128 & Hid & Hq & H91 & H39).
  cbn [app] in *. cbn [lex_f]. rewrite Hws, H45, H47, H128, Hid, Hq, H91, H39, Hc. cbn [andb orb].
  rewrite Hsc.
  assert (Hlt : Nat.ltb (List.length rest) (List.length (c :: s ++ rest)) = true).
  { apply Nat.ltb_lt. cbn [List.length]. rewrite app_length. lia. }
  rewrite Hlt. reflexivity.
Qed.

Lemma lex_atom kws a f rest : atom_text_ok a = true -> follow_ok rest ->
  lex_f (S f) (render_atom kws a ++ rest) = cons_tok (tok_atom kws a) (lex_f f rest).
Proof.
  intros Ha Hf. destruct a as [s|s|s| |[|]]; cbn [render_atom tok_atom].
  - cbn [atom_text_ok] in Ha. apply lex_digits; [destruct s; [discriminate|discriminate]|destruct s; [discriminate|exact Ha]|exact Hf].
  - apply lex_string. exact Hf.
  - destruct (needs_quote kws s) eqn:Q.
    + apply lex_quoted_ident. exact Hf.
    + apply lex_bare; [|exact Hf]. unfold needs_quote in Q. apply orb_false_iff in Q as [Q _].
      apply negb_false_iff in Q. exact Q.
  - apply (lex_kwatom (L "NULL")); [left; reflexivity|exact Hf].
  - apply (lex_kwatom (L "TRUE")); [right; left; reflexivity|exact Hf].
  - apply (lex_kwatom (L "FALSE")); [right; right; left; reflexivity|exact Hf].
Qed.

Definition gap (s : sym) (x : sexpr) : str :=
  match x with
  | EUn s2 _ => if true && str_eqb s (L "-") && str_eqb s2 (L "-") then [32] else []
  | _ => []
  end.
Lemma gap_spec s x : gap s x = if str_eqb s (L "-") && is_minus_un x then [32] else [].
Proof. destruct x; cbn [gap is_minus_un andb]; try (rewrite andb_false_r; reflexivity). reflexivity. Qed.

Lemma render_un kws s x :
  render true kws (EUn s x) = s ++ (if str_eqb s (L "NOT") then [32] else []) ++ gap s x ++ render true kws x.
Proof. destruct x; reflexivity. Qed.

(* the first character of a printed tree *)
Lemma first_char kws (e : sexpr) : eokb e = true ->
  exists c r, render true kws e = c :: r /\ c <> 62 /\ (c = 45 -> starts_minus e = true).
Proof.
  induction e as [a|s x IHx|s x IHx y IHy|x IHx]; cbn [eokb]; intros He.
  - destruct a as [s|s|s| |[|]]; cbn [render render_atom atom_text_ok] in *.
    + destruct s as [|c s]; [discriminate|]. cbn [forallb] in He. apply andb_true_iff in He as [Hc _].
      exists c, s. unfold is_digit in Hc. repeat split; intros; lia.
    + eexists _, _. split; [reflexivity|]. split; [discriminate|discriminate].
    + destruct (needs_quote kws s) eqn:Q.
      * eexists _, _. split; [reflexivity|]. split; [discriminate|discriminate].
      * unfold needs_quote in Q. apply orb_false_iff in Q as [Q _]. apply negb_false_iff in Q.
        destruct s as [|c s]; [discriminate|]. cbn [is_bare] in Q. apply andb_true_iff in Q as [Hc _].
        exists c, s. unfold is_id_start, is_letter in Hc. repeat split; intros; lia.
    + eexists _, _. split; [reflexivity|]. split; [discriminate|discriminate].
    + eexists _, _. split; [reflexivity|]. split; [discriminate|discriminate].
    + eexists _, _. split; [reflexivity|]. split; [discriminate|discriminate].
  - apply andb_true_iff in He as [He _]. apply andb_true_iff in He as [Hs _].
    rewrite render_un. apply PrecClimbProofs.mem_In with (sym_eqb := str_eqb) in Hs; [|exact str_eqb_eq].
    vm_compute in Hs. destruct Hs as [<-|[<-|[<-|[<-|[]]]]]; eexists _, _; (split; [reflexivity|]);
      (split; [discriminate|]); intros H; try discriminate H; reflexivity.
  - apply andb_true_iff in He as [He _]. apply andb_true_iff in He as [_ Hx].
    destruct (IHx Hx) as (c & r & Hr & H1 & H2). cbn [render starts_minus]. rewrite Hr.
    exists c, (r ++ [32] ++ s ++ [32] ++ render true kws y). repeat split; auto.
  - eexists _, _. split; [reflexivity|]. split; [discriminate|discriminate].
Qed.

Lemma prepend_app a b r : prepend (a ++ b) r = prepend a (prepend b r).
Proof. unfold prepend. apply fold_right_app. Qed.

Lemma prepend_cons t ts r : prepend (t :: ts) r = cons_tok t (prepend ts r).
Proof. reflexivity. Qed.
Lemma prepend_nil r : prepend [] r = r.
Proof. reflexivity. Qed.

Lemma follow_space r : follow_ok (32 :: r).
Proof. left. reflexivity. Qed.
Lemma follow_rp r : follow_ok (41 :: r).
Proof. right. reflexivity. Qed.

Ltac eval_eqb :=
  repeat match goal with
         | |- context [str_eqb ?a ?b] =>
             let v := eval vm_compute in (str_eqb a b) in change (str_eqb a b) with v
         end.

Lemma lex_render kws (e : sexpr) : eokb e = true -> forall rest f, follow_ok rest ->
  lex_f (steps e + f) (render true kws e ++ rest) = prepend (sprint kws e) (lex_f f rest).
Proof.
  induction e as [a|s x IHx|s x IHx y IHy|x IHx]; cbn [eokb]; intros He rest f Hf.
  - cbn [steps render sprint print Nat.add]. apply lex_atom; assumption.
  - apply andb_true_iff in He as [He Hm]. apply andb_true_iff in He as [Hs Hx].
    pose proof (IHx Hx rest f Hf) as IH.
    destruct (first_char kws x Hx) as (c & r & Hr & Hc62 & Hc45).
    rewrite render_un, gap_spec. unfold sprint in *. cbn [print steps].
    apply PrecClimbProofs.mem_In with (sym_eqb := str_eqb) in Hs; [|exact str_eqb_eq].
    vm_compute in Hs. destruct Hs as [<-|[<-|[<-|[<-|[]]]]].
    + (* NOT *)
      eval_eqb.
      cbn [andb app Nat.add]. rewrite <- ?app_assoc. cbn [app].
      change (78 :: 79 :: 84 :: 32 :: render true kws x ++ rest) with (L "NOT" ++ 32 :: render true kws x ++ rest).
      rewrite lex_not. rewrite lex_space. rewrite IH. reflexivity.
    + (* - *)
      eval_eqb.
      cbn [andb app Nat.add] in *. destruct (is_minus_un x) eqn:M.
      * cbn [app Nat.add]. change (45 :: 32 :: render true kws x ++ rest) with (L "-" ++ 32 :: render true kws x ++ rest).
        rewrite lex_minus by reflexivity. rewrite lex_space. rewrite IH. reflexivity.
      * cbn [app Nat.add]. rewrite Hr in *. cbn [app] in *.
        change (45 :: c :: r ++ rest) with (L "-" ++ c :: r ++ rest).
        rewrite lex_minus.
        -- rewrite IH. reflexivity.
        -- apply N.eqb_neq. intros ->. specialize (Hc45 eq_refl). rewrite Hc45 in Hm. cbn in Hm. discriminate.
        -- apply N.eqb_neq. exact Hc62.
    + (* + *)
      eval_eqb.
      cbn [andb app Nat.add] in *. rewrite Hr in *. cbn [app] in *.
      change (43 :: c :: r ++ rest) with (L "+" ++ c :: r ++ rest). rewrite lex_plus. rewrite IH. reflexivity.
    + (* ~ *)
      eval_eqb.
      cbn [andb app Nat.add] in *. rewrite Hr in *. cbn [app] in *.
      change (126 :: c :: r ++ rest) with (L "~" ++ c :: r ++ rest). rewrite lex_tilde. rewrite IH. reflexivity.
  - apply andb_true_iff in He as [He Hy]. apply andb_true_iff in He as [Hs Hx].
    apply PrecClimbProofs.mem_In with (sym_eqb := str_eqb) in Hs; [|exact str_eqb_eq].
    unfold sprint in *. cbn [render steps print].
    rewrite prepend_app. cbn [prepend fold_right]. fold (prepend (print tok_bin tok_pre (tok_atom kws) tlp trp y) (lex_f f rest)).
    rewrite <- !app_assoc. cbn [app].
    replace (steps x + 3 + steps y + f)%nat with (steps x + S (S (S (steps y + f))))%nat by lia.
    rewrite (IHx Hx _ _ (follow_space _)).
    rewrite lex_space. rewrite (lex_binop s Hs). rewrite lex_space.
    rewrite (IHy Hy rest f Hf). reflexivity.
  - unfold sprint in *. cbn [render steps print app].
    rewrite <- !app_assoc. cbn [app Nat.add]. rewrite lex_lp.
    rewrite prepend_cons, prepend_app, prepend_cons, prepend_nil.
    replace (S (steps x + f)) with (steps x + S f)%nat by lia.
    rewrite (IHx He _ _ (follow_rp _)). rewrite lex_rp. reflexivity.
Qed.

Lemma prepend_ok ts l : prepend ts (LOk l) = LOk (ts ++ l).
Proof. induction ts as [|t ts IH]; [reflexivity|]. rewrite prepend_cons, IH. reflexivity. Qed.

Lemma steps_le kws (e : sexpr) : eokb e = true -> (steps e <= List.length (render true kws e))%nat.
Proof.
  induction e as [a|s x IHx|s x IHx y IHy|x IHx]; cbn [eokb]; intros He.
  - destruct (first_char kws (EAtom a) He) as (c & r & Hr & _). rewrite Hr. cbn [steps List.length]. lia.
  - pose proof He as He'. apply andb_true_iff in He as [He _]. apply andb_true_iff in He as [Hs Hx].
    specialize (IHx Hx). rewrite render_un, gap_spec. cbn [steps]. rewrite !app_length.
    apply PrecClimbProofs.mem_In with (sym_eqb := str_eqb) in Hs; [|exact str_eqb_eq].
    vm_compute in Hs. destruct Hs as [<-|[<-|[<-|[<-|[]]]]]; eval_eqb; cbn [andb];
      destruct (is_minus_un x); cbn [List.length]; lia.
  - apply andb_true_iff in He as [He Hy]. apply andb_true_iff in He as [Hs Hx].
    specialize (IHx Hx). specialize (IHy Hy). destruct s as [|c s]; [vm_compute in Hs; discriminate|].
    cbn [steps render]. rewrite ?app_length. cbn [List.length]. rewrite ?app_length. cbn [List.length]. lia.
  - specialize (IHx He). cbn [steps render]. rewrite !app_length. cbn [List.length]. lia.
Qed.

Theorem lex_render_text kws (e : sexpr) : eokb e = true -> lex (render true kws e) = LOk (sprint kws e).
Proof.
  intros He. unfold lex. pose proof (steps_le kws e He) as Hle.
  replace (S (List.length (render true kws e)))
    with (steps e + S (List.length (render true kws e) - steps e))%nat by lia.
  pose proof (lex_render kws e He [] (S (List.length (render true kws e) - steps e)) I) as H.
  rewrite app_nil_r in H. rewrite H. cbn [lex_f]. rewrite prepend_ok. rewrite app_nil_r. reflexivity.
Qed.

Theorem sql_reparse_text kws ts (a : sexpr) :
  covers kws = true -> sparse sql_tbl ts = Some a -> eokb a = true ->
  exists ts', lex (render true kws a) = LOk ts' /\ sparse sql_tbl ts' = Some a.
Proof.
  intros Hc Hp He. exists (sprint kws a). split; [apply lex_render_text; exact He|].
  eapply sql_reparse; [exact Hc|vm_compute; reflexivity|exact Hp].
Qed.
