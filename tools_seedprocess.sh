#!/bin/sh
# usage: tools_seedprocess.sh <out dir of a mutation agent> — confirm each seeded change and run its property's check on it
for d in "$1"/*/; do
  id=$(basename "$d"); prop=${id%%-*}
  pkg=$(python3 -c "import json,sys; print(json.load(open(sys.argv[1])).get('demo_pkg',''))" "$d/meta.json")
  demo=$(ls "$d" | grep -E '_test\.go$' | head -1)
  echo "=================== $id (property $prop, demo $pkg/$demo)"
  if [ -n "$demo" ] && [ -n "$pkg" ]; then /verif/tools_seedconfirm.sh "$d" "$pkg" "$demo" 2>&1 | grep -E "^---|^ok|^FAIL|PATCH|panic|cannot" | head -14; else echo "(no go demo: $(ls $d))"; fi
  echo "--- check"
  /verif/tools_mutcheck.sh "$d/patch.diff" "$prop" 2>&1 | cut -c1-300
done
