(* Opt/Proofs.v — the MiniEgo instruction semantics instantiates the generic machine; each proved rule
   rewrites a straight-line window into an equivalent one; the optimizer preserves the behaviour. *)
From Coq Require Import List ZArith NArith Bool Arith Lia.
From Common Require Import Base.
From Arith Require Import Model.
From Opt Require Import Generic Model.
Import ListNotations.
Open Scope nat_scope.

Definition gres := res st fail.
Definition gexec (fx : fixes) (m : mode) (i : instr) (s : st) : gres :=
  match exec fx m i s with XCont s' j => Cont st fail s' j | XFail f => Fail st fail f end.

Ltac break_match :=
  match goal with
  | H : context [match ?x with _ => _ end] |- _ => destruct x eqn:?; try discriminate H
  end.

Lemma exec_jump fx m oc oo s s' a :
  exec fx m (oc, oo) s = XCont s' (Some a) ->
  is_branch oc = true /\ exists k z, oo = OV (VInt k z) /\ a = Z.to_nat z.
Proof.
  intros H.
  destruct oc; cbn [is_branch]; unfold exec in H; cbn [arith_of cmp_of] in H; repeat break_match;
    inversion H; subst; split; try reflexivity; eauto.
Qed.

Lemma gexec_retarget fx m : forall f i s,
  gexec fx m (retarget f i) s =
  match gexec fx m i s with Cont _ _ s' (Some a) => Cont st fail s' (Some (f a)) | r => r end.
Proof.
  intros f [oc oo] s. unfold gexec.
  destruct (exec fx m (oc, oo) s) as [s' [a|]|x] eqn:E.
  - destruct (exec_jump _ _ _ _ _ _ _ E) as [Hb [k [z [-> ->]]]].
    unfold retarget. cbn [fst snd]. rewrite Hb.
    destruct oc; try discriminate Hb; cbn in E |- *.
    + inversion E; subst. now rewrite Nat2Z.id.
    + destruct (stk s) as [|[[]| |] ?]; try discriminate E. destruct b; inversion E; subst; now rewrite ?Nat2Z.id.
    + destruct (stk s) as [|[[]| |] ?]; try discriminate E. destruct b; inversion E; subst; now rewrite ?Nat2Z.id.
    + discriminate E.
  - unfold retarget. cbn [fst snd]. destruct (is_branch oc) eqn:Hb; [|now rewrite E].
    destruct oo as [|vv| | | | | |]; try now rewrite E.
    destruct vv; try now rewrite E.
    destruct oc; try discriminate Hb; cbn in E |- *; try discriminate E.
    + destruct (stk s) as [|[[]| |] ?]; try discriminate E. destruct b; inversion E; subst; reflexivity.
    + destruct (stk s) as [|[[]| |] ?]; try discriminate E. destruct b; inversion E; subst; reflexivity.
  - unfold retarget. cbn [fst snd]. destruct (is_branch oc) eqn:Hb; [|now rewrite E].
    destruct oo as [|vv| | | | | |]; try now rewrite E.
    destruct vv; try now rewrite E.
    destruct oc; try discriminate Hb; cbn in E |- *; try discriminate E.
    + destruct (stk s) as [|[[]| |] ?]; inversion E; subst; reflexivity.
    + destruct (stk s) as [|[[]| |] ?]; inversion E; subst; reflexivity.
    + inversion E; reflexivity.
Qed.

Lemma gexec_targets fx m : forall i s s' a, gexec fx m i s = Cont st fail s' (Some a) -> In a (targets i).
Proof.
  intros [oc oo] s s' a H. unfold gexec in H.
  destruct (exec fx m (oc, oo) s) as [s1 j|x] eqn:E; [|discriminate H]. inversion H; subst.
  destruct (exec_jump _ _ _ _ _ _ _ E) as [Hb [k [z [-> ->]]]].
  unfold targets. cbn [fst snd]. rewrite Hb. now left.
Qed.

(* ---- behaviour of a program ---- *)
Definition grun fx m := run instr st fail (gexec fx m).
Definition gblock fx m := run_block instr st fail (gexec fx m).
Definition gstraight fx m := straight instr st fail (gexec fx m).
Definition equiv (fx : fixes) (c1 c2 : list instr) : Prop :=
  forall m fuel s, grun fx m fuel c1 c1 s = grun fx m fuel c2 c2 s.

Lemma equiv_refl fx c : equiv fx c c. Proof. now intros m f s. Qed.
Lemma equiv_trans fx a b c : equiv fx a b -> equiv fx b c -> equiv fx a c.
Proof. intros H1 H2 m f s. now rewrite H1, H2. Qed.

Definition nonbranch (i : instr) : Prop := is_branch (fst i) = false.
Lemma nonbranch_straight fx m i : nonbranch i -> gstraight fx m i.
Proof.
  intros Hn s s' a H. destruct i as [oc oo]. unfold gexec in H.
  destruct (exec fx m (oc, oo) s) eqn:E; [|discriminate H]. inversion H; subst.
  destruct (exec_jump _ _ _ _ _ _ _ E) as [Hb _]. unfold nonbranch in Hn. cbn in Hn. congruence.
Qed.
Lemma nonbranch_retarget f l : Forall nonbranch l -> map (retarget f) l = l.
Proof.
  induction 1 as [|i r Hi _ IH]; [reflexivity|]. cbn [map]. rewrite IH. f_equal.
  unfold retarget. unfold nonbranch in Hi. now rewrite Hi.
Qed.

(* ---- what it means for a table entry to be sound ---- *)
Definition instance (fx : fixes) (r : rule) (win rep : list instr) : Prop :=
  length win = length (r_pat r) /\
  exists e rg, match_pat fx (r_pat r) win [] [] = Some (e, rg) /\
    (fx_fold fx && uses_fold r &&
       negb (match win with (_, a) :: (_, b) :: _ => fold_guard a b | _ => false end) = false) /\
    build_rep (r_rep r) win (length (r_pat r)) e rg = Built rep.

Definition rule_sound (fx : fixes) (r : rule) : Prop :=
  forall win rep, instance fx r win rep ->
    Forall nonbranch win /\ Forall nonbranch rep /\
    forall m s, gblock fx m win s = gblock fx m rep s.

(* ---- one rewrite of the real engine is an instance of the generic theorem ---- *)
Lemma window_free_good code idx n :
  window_free code idx n = true ->
  Forall (fun j => forall a, In a (targets j) -> a <= idx \/ idx + n <= a) code.
Proof.
  unfold window_free. rewrite forallb_forall. intros H. apply Forall_forall. intros j Hj a Ha.
  specialize (H j Hj). rewrite forallb_forall in H. specialize (H a Ha).
  apply orb_true_iff in H. destruct H as [H|H]; [apply Nat.ltb_lt in H; lia|apply Nat.leb_le in H; lia].
Qed.

Lemma Forall_app_l {A} (P : A -> Prop) l1 l2 : Forall P (l1 ++ l2) -> Forall P l1.
Proof. intros H. apply Forall_forall. intros x Hx. rewrite Forall_forall in H. apply H, in_or_app. now left. Qed.
Lemma Forall_app_r {A} (P : A -> Prop) l1 l2 : Forall P (l1 ++ l2) -> Forall P l2.
Proof. intros H. apply Forall_forall. intros x Hx. rewrite Forall_forall in H. apply H, in_or_app. now right. Qed.

Lemma skipn_add {A} (l : list A) a b : skipn b (skipn a l) = skipn (a + b) l.
Proof.
  revert l; induction a as [|a IH]; intros l; [reflexivity|].
  destruct l; [now rewrite !skipn_nil|]. cbn [skipn plus]. apply IH.
Qed.

Lemma try_rule_sound fx r code idx code' :
  rule_sound fx r -> try_rule fx r code idx = Rewritten code' -> equiv fx code' code.
Proof.
  intros Hr H. unfold try_rule in H.
  set (n := length (r_pat r)) in *. set (win := firstn n (skipn idx code)) in *.
  destruct (Nat.eqb n 0) eqn:Hn0; [discriminate H|]. apply Nat.eqb_neq in Hn0.
  destruct (window_free code idx n) eqn:Hfree; [|discriminate H]. cbn [negb] in H.
  destruct (Nat.eqb (length win) n) eqn:Hlen; [|discriminate H]. cbn [negb] in H. apply Nat.eqb_eq in Hlen.
  destruct (match_pat fx (r_pat r) win [] []) as [[e rg]|] eqn:Hm; [|discriminate H].
  destruct (fx_fold fx && uses_fold r && negb _) eqn:Hg; [discriminate H|].
  destruct (build_rep (r_rep r) win n e rg) as [rep| |] eqn:Hb; try discriminate H.
  inversion H; subst code'; clear H.
  destruct (Hr win rep) as [Hwn [Hrn Hblk]].
  { split; [exact Hlen|]. exists e, rg. repeat split; assumption. }
  (* decomposition of the code around the window *)
  assert (Hidx : idx + n <= length code).
  { unfold win in Hlen. rewrite firstn_length, skipn_length in Hlen. lia. }
  set (pre := firstn idx code). set (post := skipn (idx + n) code).
  assert (Hcode : code = pre ++ win ++ post).
  { unfold pre, win, post. rewrite <- (firstn_skipn idx code) at 1. f_equal.
    rewrite <- (firstn_skipn n (skipn idx code)) at 1. f_equal. now rewrite skipn_add. }
  assert (Hpre : length pre = idx) by (unfold pre; rewrite firstn_length; lia).
  pose proof (window_free_good _ _ _ Hfree) as Hgood. rewrite Hcode in Hgood.
  clear Hfree Hidx. clearbody pre post win. subst code.
  intros m fuel s.
  rewrite map_app, map_app. rewrite (nonbranch_retarget _ rep Hrn).
  pose proof (rewrite_sound instr st fail (gexec fx m) retarget targets (gexec_retarget fx m) (gexec_targets fx m)
                pre win rep post) as RS.
  unfold Generic.phi in RS. unfold phi. rewrite Hpre, Hlen in RS.
  apply RS.
  - apply Forall_forall. intros i Hi. apply nonbranch_straight. rewrite Forall_forall in Hwn. now apply Hwn.
  - apply Forall_forall. intros i Hi. apply nonbranch_straight. rewrite Forall_forall in Hrn. now apply Hrn.
  - intros s0. apply Hblk.
  - apply Forall_app_l in Hgood. eapply Forall_impl; [|exact Hgood]. intros j Hj. unfold good. rewrite Hpre, Hlen. exact Hj.
  - apply Forall_app_r in Hgood. apply Forall_app_r in Hgood. eapply Forall_impl; [|exact Hgood].
    intros j Hj. unfold good. rewrite Hpre, Hlen. exact Hj.
  - lia.
Qed.

Lemma first_rule_sound fx rules code idx code' :
  Forall (rule_sound fx) rules -> first_rule fx rules code idx = Rewritten code' -> equiv fx code' code.
Proof.
  induction 1 as [|r rs Hr _ IH]; intros H; [discriminate H|]. cbn [first_rule] in H.
  destruct (try_rule fx r code idx) eqn:E; try discriminate H.
  - inversion H; subst. eapply try_rule_sound; eauto.
  - now apply IH.
Qed.

Lemma opt_loop_sound fx rules : Forall (rule_sound fx) rules ->
  forall k code idx code', opt_loop k fx rules code idx = Some code' -> equiv fx code' code.
Proof.
  intros Hr. induction k as [|k IH]; intros code idx code' H; cbn [opt_loop] in H.
  - inversion H. apply equiv_refl.
  - destruct (length code <=? idx); [inversion H; apply equiv_refl|].
    destruct (first_rule fx rules code idx) as [c1| | |] eqn:E; try discriminate H.
    + eapply equiv_trans; [eapply IH; exact H|]. eapply first_rule_sound; eauto.
    + eapply IH; exact H.
    + inversion H. apply equiv_refl.
Qed.

Theorem optimize_sound fx rules code code' :
  Forall (rule_sound fx) rules -> optimize fx rules code = Some code' -> equiv fx code' code.
Proof. intros Hr H. eapply opt_loop_sound; eauto. Qed.

(* ---- the rules ---- *)
Ltac op_eq H :=
  match type of H with
  | context [opcode_eqb ?a ?b] =>
      unfold opcode_eqb in H at 1; destruct (opcode_eq_dec a b) as [?|?];
      [subst; cbn [negb andb] in H | cbn [negb andb] in H; try discriminate H]
  end.
Ltac opd_eq H :=
  match type of H with
  | context [operand_eqb ?a ?b] =>
      unfold operand_eqb in H at 1; destruct (operand_eq_dec a b) as [?|?]; [subst | try discriminate H]
  end.

Lemma increment_sum_is_add m v step :
  increment_sum fx_now m v step = binop m Add (v, false) step.
Proof.
  unfold increment_sum, binop. cbn [fx_inc fx_now]. destruct step as [inc ic].
  cbn [orb]. destruct (is_strict m); cbn [negb andb orb]; [|reflexivity].
  destruct ic; cbn [negb andb]; [reflexivity|].
  destruct (kind_eqb (kind_of v) (kind_of inc)) eqn:K; cbn [negb]; [|reflexivity].
  unfold normalize. now rewrite K.
Qed.

Lemma r_increment_sound : rule_sound fx_now r_increment.
Proof.
  intros win rep [Hlen [e [rg [Hm [_ Hb]]]]].
  destruct win as [|[o1 x1] [|[o2 x2] [|[o3 x3] [|[o4 x4] [|? ?]]]]]; try discriminate Hlen.
  cbn [r_increment r_pat r_rep] in Hm, Hb. cbn [match_pat h] in Hm.
  op_eq Hm. cbn [env_get andb fx_lit fx_now] in Hm.
  assert (E1 : opcode_eqb Load Push = false) by reflexivity. rewrite E1 in Hm. cbn [andb] in Hm.
  op_eq Hm. cbn [env_get N.eqb Pos.eqb andb] in Hm.
  assert (E2 : opcode_eqb Push Push = true) by reflexivity. rewrite E2 in Hm. cbn [andb] in Hm.
  destruct (is_literal_fn x2) eqn:Hlit; [discriminate Hm|].
  op_eq Hm. opd_eq Hm. op_eq Hm. cbn [env_get N.eqb Pos.eqb andb] in Hm.
  assert (E3 : opcode_eqb Store Push = false) by reflexivity. rewrite E3 in Hm. cbn [andb] in Hm.
  opd_eq Hm. inversion Hm; subst e rg; clear Hm.
  cbn [build_rep resolve env_get N.eqb Pos.eqb] in Hb. inversion Hb; subst rep; clear Hb.
  split; [repeat constructor|]. split; [repeat constructor|].
  intros m s. unfold gblock. cbn [run_block]. unfold gexec.
  (* Load *)
  destruct x4 as [|vv| | | | | |]; try reflexivity.
  destruct vv; try reflexivity.
  match goal with |- context [VStr ?q] => rename q into n end.
  cbn [exec]. destruct (str_eqb n underscore) eqn:Hu.
  { destruct x2 as [|v2|v2| | | | |]; reflexivity. }
  destruct (var_get (vars s) n) as [[v|id c|]|] eqn:Hv.
  2:{ destruct x2 as [|v2|v2| | | | |]; cbn [const_of]; try reflexivity.
      all: cbn [exec set_stk stk vars arith_of cmp_of]; reflexivity. }
  2:{ destruct x2 as [|v2|v2| | | | |]; cbn [const_of]; reflexivity. }
  2:{ destruct x2 as [|v2|v2| | | | |]; cbn [const_of]; reflexivity. }
  destruct x2 as [|v2|v2| | | | |]; cbn [const_of]; try reflexivity; try discriminate Hlit.
  all: cbn [exec set_stk stk vars line out arith_of cmp_of fx_inc fx_now const_of];
       rewrite ?Hu, ?Hv; rewrite increment_sum_is_add;
       match goal with |- context [binop ?mm Add ?a ?b] => destruct (binop mm Add a b) as [r|er|] end; try reflexivity;
       cbn [exec set_stk stk vars line out]; rewrite ?Hu; unfold do_store; cbn [set_stk vars stk line out]; rewrite ?Hv;
       destruct (store m v (r, false)) as [w|ew|]; try reflexivity;
       destruct (var_set (vars s) n (SVal w)); reflexivity.
Qed.

Ltac cmp_sound :=
  intros win rep [Hlen [e [rg [Hm [_ Hb]]]]];
  destruct win as [|[o1 x1] [|[o2 x2] [|? ?]]]; try discriminate Hlen;
  cbn [cmp_rule r_pat r_rep match_pat h] in Hm, Hb;
  op_eq Hm; cbn [env_get andb fx_lit fx_now] in Hm;
  assert (E2 : opcode_eqb Push Push = true) by reflexivity; rewrite E2 in Hm; cbn [andb] in Hm;
  destruct (is_literal_fn x1) eqn:Hlit; [discriminate Hm|];
  op_eq Hm; destruct x2; try discriminate Hm;
  inversion Hm; subst e rg; clear Hm;
  cbn [build_rep resolve env_get N.eqb Pos.eqb] in Hb; inversion Hb; subst rep; clear Hb;
  (split; [repeat constructor|]); (split; [repeat constructor|]);
  intros m s; unfold gblock; cbn [run_block]; unfold gexec;
  destruct x1 as [|v1|v1|l1|id1 lit1| | |]; try reflexivity;
  try (destruct lit1; [discriminate Hlit|]);
  cbn [exec set_stk stk vars line out arith_of cmp_of]; destruct (stk s) as [|t1 r1]; reflexivity.

Lemma cmp_lt_sound : rule_sound fx_now (cmp_rule LessThan). Proof. cmp_sound. Qed.
Lemma cmp_le_sound : rule_sound fx_now (cmp_rule LessThanOrEqual). Proof. cmp_sound. Qed.
Lemma cmp_gt_sound : rule_sound fx_now (cmp_rule GreaterThan). Proof. cmp_sound. Qed.
Lemma cmp_ge_sound : rule_sound fx_now (cmp_rule GreaterThanOrEqual). Proof. cmp_sound. Qed.
Lemma cmp_eq_sound : rule_sound fx_now (cmp_rule Equal). Proof. cmp_sound. Qed.
Lemma cmp_ne_sound : rule_sound fx_now (cmp_rule NotEqual). Proof. cmp_sound. Qed.

Lemma r_let_nop_sound : rule_sound fx_now r_let_nop.
Proof.
  intros win rep [Hlen [e [rg [Hm [_ Hb]]]]].
  destruct win as [|[o1 x1] [|[o2 x2] [|? ?]]]; try discriminate Hlen.
  cbn [r_let_nop r_pat r_rep match_pat] in Hm, Hb.
  op_eq Hm. opd_eq Hm. op_eq Hm. opd_eq Hm.
  cbn [build_rep] in Hb. inversion Hb; subst rep; clear Hb.
  split; [repeat constructor|]. split; [constructor|].
  intros m s. unfold gblock. cbn [run_block]. unfold gexec. cbn [exec set_stk stk vars line out drop_to].
  rewrite N.eqb_refl. destruct s; reflexivity.
Qed.

Lemma r_collapse_cas_sound : rule_sound fx_now r_collapse_cas.
Proof.
  intros win rep [Hlen [e [rg [Hm [_ Hb]]]]].
  destruct win as [|[o1 x1] [|[o2 x2] [|? ?]]]; try discriminate Hlen.
  cbn [r_collapse_cas r_pat r_rep match_pat] in Hm, Hb.
  op_eq Hm. cbn [env_get andb fx_lit fx_now] in Hm.
  destruct (is_mark x1) eqn:Hmk; [discriminate Hm|].
  assert (E2 : opcode_eqb Push Push = true) by reflexivity. rewrite E2 in Hm. cbn [andb] in Hm.
  destruct (is_literal_fn x1) eqn:Hlit; [discriminate Hm|].
  op_eq Hm. cbn [env_get N.eqb Pos.eqb andb] in Hm.
  destruct (is_go_string x2) eqn:Hs; [|discriminate Hm]. cbn [negb] in Hm.
  assert (E3 : opcode_eqb CreateAndStore Push = false) by reflexivity. rewrite E3 in Hm. cbn [andb] in Hm.
  inversion Hm; subst e rg; clear Hm.
  cbn [build_rep resolve env_get N.eqb Pos.eqb] in Hb. inversion Hb; subst rep; clear Hb.
  split; [repeat constructor|]. split; [repeat constructor|].
  intros m s. unfold gblock. cbn [run_block]. unfold gexec.
  destruct x2 as [|vv| | | | | |]; try discriminate Hs.
  destruct vv; try discriminate Hs.
  match goal with |- context [VStr ?q] => rename q into n end.
  destruct x1 as [|v1|v1|l1|id1 lit1| | |]; try discriminate Hmk; try reflexivity;
    try (destruct lit1; [discriminate Hlit|]);
    cbn [exec set_stk stk vars line out]; destruct (var_get (vars s) n); destruct s; reflexivity.
Qed.

Lemma proved_rules_sound : Forall (rule_sound fx_now) proved_rules.
Proof.
  unfold proved_rules.
  repeat (apply Forall_cons; [first [exact r_let_nop_sound | exact r_increment_sound | exact cmp_lt_sound
    | exact cmp_le_sound | exact cmp_gt_sound | exact cmp_ge_sound | exact cmp_eq_sound | exact cmp_ne_sound
    | exact r_collapse_cas_sound]|]).
  apply Forall_nil.
Qed.
