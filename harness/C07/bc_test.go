//go:build verif

package bytecode

// Overlaid into /repo/internal/language/bytecode by /verif/check C07 (kernel correspondence).
//
// VERIF_IN lines -> VERIF_OUT lines, every call under recover():
//   <op> <sp> <fp> <arg> <throw 0|1> <stack>       stack = comma list of  o (other) | m<label number> | f (call frame) | e (error) | n (nil error)
//   op = P  PopWithoutUnwrapping           -> P panic | under | ok <kind of value> <sp>
//        D  dropToMarkerByteCode, arg = nil | x (a non-marker operand) | m<label>   -> D panic | throw | ok <sp>
//        S  stackCheckByteCode, arg = count -> S panic | ok | err
//   O <mod|div> <kind1> <v1> <kind2> <v2> <divzero 0|1>  -> O <panic|divzero|typeerr|ok> <kind after data.Normalize | ->
//        the two operands pushed on a fresh context, then moduloByteCode / divideByteCode
//   X <rw|mx> <ops>  ops = comma list of L Lock, U Unlock, R RLock, N RUnlock, T TryLock, Y TryRLock on ONE fresh
//        sync.RWMutex / sync.Mutex through callRWMutexMethod / callMutexMethod -> "XS" (flushed before the case) then
//        "X <outcomes>"  outcomes = comma list of d done, n ErrMutexNotLocked, t/f the Try result, b blocked (the sequence
//        stops there), e other error.  Go's "unlock of unlocked mutex" is a FATAL error: the process dies after "XS".
//   A <isbyte 0|1> <n> <first> <last> -> A <panic|err|ok:len:first element> <same for GetSlice>
//        GetSliceAsArray / GetSlice on an array holding 0..n-1
// The stack slice holds exactly the listed values (len(c.stack) = number listed).

import (
	"bufio"
	"fmt"
	"os"
	"strconv"
	"strings"
	"sync"
	"testing"
	"time"

	"github.com/tucats/ego/internal/errors"
	"github.com/tucats/ego/internal/language/data"
	"github.com/tucats/ego/internal/language/symbols"
)

func verifC07Val(s string) any {
	switch {
	case s == "o":
		return 42
	case s == "f":
		return &CallFrame{}
	case s == "e":
		return errors.ErrInvalidType
	case s == "n":
		var e *errors.Error
		return e
	case strings.HasPrefix(s, "m"):
		return NewStackMarker("L" + s[1:])
	}

	return nil
}

func verifC07Kind(v any) string {
	switch x := v.(type) {
	case StackMarker:
		return "m" + strings.TrimPrefix(x.label, "L")
	case *CallFrame:
		return "f"
	case *errors.Error:
		if x == nil {
			return "n"
		}

		return "e"
	case int:
		return "o"
	}

	return "?"
}


func verifC07Num(kind string, v int64) any {
	switch kind {
	case "byte":
		return byte(v)
	case "int8":
		return int8(v)
	case "int16":
		return int16(v)
	case "uint16":
		return uint16(v)
	case "int32":
		return int32(v)
	case "uint32":
		return uint32(v)
	case "int":
		return int(v)
	case "uint":
		return uint(v)
	case "int64":
		return v
	case "uint64":
		return uint64(v)
	case "float32":
		return float32(v)
	case "float64":
		return float64(v)
	case "complex64":
		return complex(float32(v), 0)
	case "complex128":
		return complex(float64(v), 0)
	case "bool":
		return v != 0
	}

	return strconv.FormatInt(v, 10)
}

func verifC07KindName(v any) string {
	switch v.(type) {
	case byte:
		return "byte"
	case int8:
		return "int8"
	case int16:
		return "int16"
	case uint16:
		return "uint16"
	case int32:
		return "int32"
	case uint32:
		return "uint32"
	case int:
		return "int"
	case uint:
		return "uint"
	case int64:
		return "int64"
	case uint64:
		return "uint64"
	case float32:
		return "float32"
	case float64:
		return "float64"
	case complex64:
		return "complex64"
	case complex128:
		return "complex128"
	}

	return "other"
}

func verifC07ValueOp(f []string) (s string) {
	defer func() {
		if r := recover(); r != nil {
			s = f[0] + " panic -"
		}
	}()

	switch f[0] {
	case "O":
		a, _ := strconv.ParseInt(f[3], 10, 64)
		b, _ := strconv.ParseInt(f[5], 10, 64)
		v1, v2 := verifC07Num(f[2], a), verifC07Num(f[4], b)
		kind := "-"

		if n1, _, err := data.Normalize(v1, false, v2, false, false); err == nil {
			kind = verifC07KindName(n1)
		}

		c := NewContext(symbols.NewSymbolTable("verif"), New("verif"))
		c.divZero = len(f) > 6 && f[6] == "1"
		_ = c.push(v1)
		_ = c.push(v2)

		var err error
		if f[1] == "mod" {
			err = moduloByteCode(c, nil)
		} else {
			err = divideByteCode(c, nil)
		}

		switch {
		case err == nil:
			return "O ok " + kind
		case errors.Equals(err, errors.ErrDivisionByZero):
			return "O divzero " + kind
		default:
			return "O typeerr " + kind
		}

	case "A":
		n, _ := strconv.Atoi(f[2])
		first, _ := strconv.Atoi(f[3])
		last, _ := strconv.Atoi(f[4])

		var arr *data.Array

		if f[1] == "1" {
			b := make([]byte, n)
			for i := range b {
				b[i] = byte(i)
			}

			arr = data.NewArrayFromBytes(b...)
		} else {
			v := make([]any, n)
			for i := range v {
				v[i] = i
			}

			arr = data.NewArrayFromInterfaces(data.IntType, v...)
		}

		one := func(g func() (int, any, error)) (r string) {
			defer func() {
				if p := recover(); p != nil {
					r = "panic"
				}
			}()

			ln, first, err := g()
			if err != nil {
				return "err"
			}

			fv := int64(-1)
			if first != nil {
				fv, _ = data.Int64(first)
			}

			return fmt.Sprintf("ok:%d:%d", ln, fv)
		}

		r1 := one(func() (int, any, error) {
			x, err := arr.GetSliceAsArray(first, last)
			if err != nil || x == nil {
				return 0, nil, err
			}

			var fv any
			if x.Len() > 0 {
				fv, _ = x.Get(0)
			}

			return x.Len(), fv, nil
		})
		r2 := one(func() (int, any, error) {
			x, err := arr.GetSlice(first, last)
			if err != nil {
				return 0, nil, err
			}

			var fv any
			if len(x) > 0 {
				fv = x[0]
			}

			return len(x), fv, nil
		})

		return "A " + r1 + " " + r2
	}

	return f[0] + " ?"
}


func verifC07Mutex(kind string, ops []string) string {
	var (
		rw  sync.RWMutex
		mu  sync.Mutex
		out []string
	)

	names := map[string]string{"L": "Lock", "U": "Unlock", "R": "RLock", "N": "RUnlock", "T": "TryLock", "Y": "TryRLock"}

	for _, o := range ops {
		type res struct {
			v   any
			err error
		}

		ch := make(chan res, 1)

		go func() {
			var r res
			if kind == "rw" {
				r.v, _, r.err = callRWMutexMethod(&rw, names[o])
			} else {
				r.v, _, r.err = callMutexMethod(&mu, names[o])
			}

			ch <- r
		}()

		select {
		case r := <-ch:
			switch {
			case r.err != nil && errors.Equals(r.err, errors.ErrMutexNotLocked):
				out = append(out, "n")
			case r.err != nil:
				out = append(out, "e")
			case r.v == true:
				out = append(out, "t")
			case r.v == false:
				out = append(out, "f")
			default:
				out = append(out, "d")
			}
		case <-time.After(250 * time.Millisecond):
			out = append(out, "b")

			return strings.Join(out, ",")
		}
	}

	if len(out) == 0 {
		return "-"
	}

	return strings.Join(out, ",")
}

func TestVerifC07BC(t *testing.T) {
	in, err := os.Open(os.Getenv("VERIF_IN"))
	if err != nil {
		t.Fatal(err)
	}
	defer in.Close()

	out, err := os.Create(os.Getenv("VERIF_OUT"))
	if err != nil {
		t.Fatal(err)
	}
	defer out.Close()

	w := bufio.NewWriter(out)
	defer w.Flush()

	sc := bufio.NewScanner(in)
	sc.Buffer(make([]byte, 1<<20), 1<<20)

	for sc.Scan() {
		f := strings.Fields(sc.Text())
		if len(f) < 3 {
			continue
		}

		if f[0] == "X" && len(f) >= 3 {
			fmt.Fprintln(w, "XS")
			w.Flush()
			fmt.Fprintln(w, "X "+verifC07Mutex(f[1], strings.Split(f[2], ",")))

			continue
		}

		if f[0] == "O" || f[0] == "A" {
			fmt.Fprintln(w, verifC07ValueOp(f))

			continue
		}

		sp, _ := strconv.Atoi(f[1])
		fp, _ := strconv.Atoi(f[2])
		arg := f[3]
		throw := f[4] == "1"
		vals := []any{}

		if len(f) > 5 && f[5] != "-" {
			for _, s := range strings.Split(f[5], ",") {
				vals = append(vals, verifC07Val(s))
			}
		}

		res := func() (s string) {
			defer func() {
				if r := recover(); r != nil {
					s = "panic"
				}
			}()

			c := NewContext(symbols.NewSymbolTable("verif"), New("verif"))
			c.stack = vals
			c.stackPointer = sp
			c.framePointer = fp
			c.throwUncheckedErrors = throw

			switch f[0] {
			case "P":
				v, err := c.PopWithoutUnwrapping()
				if err != nil {
					return "under"
				}

				return fmt.Sprintf("ok %s %d", verifC07Kind(v), c.stackPointer)

			case "D":
				var operand any

				switch {
				case arg == "nil":
					operand = nil
				case arg == "x":
					operand = 7
				default:
					operand = NewStackMarker("L" + arg[1:])
				}

				if err := dropToMarkerByteCode(c, operand); err != nil {
					return "throw"
				}

				return fmt.Sprintf("ok %d", c.stackPointer)

			case "S":
				count, _ := strconv.Atoi(arg)
				if err := stackCheckByteCode(c, count); err != nil {
					return "err"
				}

				return "ok"
			}

			return "?"
		}()

		fmt.Fprintf(w, "%s %s\n", f[0], res)
	}
}
