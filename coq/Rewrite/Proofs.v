(* Rewrite/Proofs.v — lemmas for C36. *)
From Common Require Import Base.
From Rewrite Require Import Model.
Open Scope N_scope.

Lemma upd_same d n v : upd d n v n = v.
Proof. unfold upd. rewrite N.eqb_refl. reflexivity. Qed.

Lemma upd_other d n v m : m <> n -> upd d n v m = d m.
Proof. intros H. unfold upd. apply N.eqb_neq in H. rewrite H. reflexivity. Qed.

Lemma apply_write_some d n x c : d n = Some x -> apply d (Write n c) = upd d n (Some (x ++ c)).
Proof. intros H. cbn [apply]. rewrite H. reflexivity. Qed.

Lemma apply_rename_some d a b x : d a = Some x -> apply d (Rename a b) = upd (upd d a None) b (Some x).
Proof. intros H. cbn [apply]. rewrite H. reflexivity. Qed.

Lemma run_app ops1 ops2 d : run (ops1 ++ ops2) d = run ops2 (run ops1 d).
Proof. unfold run. apply fold_left_app. Qed.

Lemma run_firstn_S : forall ops k o d, nth_error ops k = Some o ->
  run (firstn (S k) ops) d = apply (run (firstn k ops) d) o.
Proof.
  induction ops as [|x ops IH]; intros k o d H.
  - destruct k; discriminate.
  - destruct k as [|k].
    + cbn in H. inversion H; subst. reflexivity.
    + cbn [nth_error] in H. change (firstn (S (S k)) (x :: ops)) with (x :: firstn (S k) ops).
      change (firstn (S k) (x :: ops)) with (x :: firstn k ops).
      unfold run in *. cbn [fold_left]. apply IH. exact H.
Qed.

(* ------------------------------------------------------------------ the code before the repair *)

(* after the first rename nothing is called [path] *)
Lemma old_window path tmp bak old new (d0 : dir) :
  tmp <> path -> bak <> path -> d0 path = Some old ->
  run (firstn 5 (ops_old path tmp bak new)) d0 path = None.
Proof.
  intros Htp Hbp H0.
  cbn [ops_old firstn run fold_left].
  set (s1 := apply d0 (Create tmp)).
  assert (E1 : s1 tmp = Some []) by (unfold s1; cbn [apply]; apply upd_same).
  rewrite (apply_write_some s1 tmp [] new E1). cbn [app apply].
  set (s2 := upd s1 tmp (Some new)).
  assert (E2 : s2 path = Some old).
  { unfold s2, s1. cbn [apply]. rewrite !upd_other by congruence. exact H0. }
  change (match s2 path with Some x => upd (upd s2 path None) bak (Some x) | None => s2 end path = None).
  rewrite E2. rewrite upd_other by congruence. apply upd_same.
Qed.

Lemma old_refuted path tmp bak old new :
  tmp <> path -> bak <> path ->
  ~ C36_statement path old new (ops_old path tmp bak new).
Proof.
  intros Htp Hbp S.
  specialize (S 5%nat (upd (fun _ => None) path (Some old)) (upd_same _ _ _)).
  cbv zeta in S. rewrite (old_window path tmp bak old new _ Htp Hbp (upd_same _ _ _)) in S.
  destruct S; discriminate.
Qed.

(* a run killed right after CreateTemp leaves its temp file; the next run picks another fresh
   name (the stale one exists, O_EXCL) and never touches it *)
Lemma old_litter path tmp tmp' bak new (d0 : dir) :
  tmp <> path -> tmp <> bak -> tmp <> tmp' ->
  let crashed := run (firstn 1 (ops_old path tmp bak new)) d0 in
  run (ops_old path tmp' bak new) crashed tmp = Some [].
Proof.
  intros Htp Htb Htt. cbv zeta.
  cbn [ops_old firstn run fold_left].
  set (c := apply d0 (Create tmp)).
  assert (Ec : c tmp = Some []) by (unfold c; cbn [apply]; apply upd_same).
  assert (K : forall d o, d tmp = Some [] ->
              (forall x, o <> Write tmp x) -> (forall b, o <> Rename tmp b) ->
              (forall a, o <> Rename a tmp) -> o <> Remove tmp -> o <> Create tmp ->
              apply d o tmp = Some []).
  { intros d o Hd W R1 R2 Rm Cr. destruct o as [n|n x|n|n|a b|n]; cbn [apply]; try exact Hd.
    - rewrite upd_other; [exact Hd|]. intros E; subst; apply Cr; reflexivity.
    - destruct (d n) eqn:En; [|exact Hd]. rewrite upd_other; [exact Hd|].
      intros E; subst. apply (W x). reflexivity.
    - destruct (d a) eqn:Ea; [|exact Hd]. rewrite !upd_other; [exact Hd| |].
      + intros E; subst. apply (R1 b). reflexivity.
      + intros E; subst. apply (R2 a). reflexivity.
    - rewrite upd_other; [exact Hd|]. intros E; subst; apply Rm; reflexivity. }
  repeat (apply K; [ | intros; congruence ..]).
  exact Ec.
Qed.

(* ------------------------------------------------------------------ the repaired code *)

Section Fixed.
  Variables (path tmp : name) (old new : content) (d0 : dir).
  Hypothesis Htp : tmp <> path.
  Hypothesis H0 : d0 path = Some old.

  (* A: target still old, only the temp name may differ.  B: target new, nothing else differs. *)
  Definition InvA (d : dir) : Prop := d path = Some old /\ forall n, n <> path -> n <> tmp -> d n = d0 n.
  Definition InvB (d : dir) : Prop := d path = Some new /\ forall n, n <> path -> n <> tmp -> d n = d0 n.
  Definition InvB0 (d : dir) : Prop := InvB d /\ d tmp = None.

  Let ops := ops_fixed path tmp new.
  Let r0 := upd d0 tmp None.
  Let s1 := upd r0 tmp (Some []).
  Let s2 := upd s1 tmp (Some new).
  Let s5 := upd (upd s2 tmp None) path (Some new).

  Lemma fixed_states k :
    run (firstn k ops) d0 =
      match k with 0 => d0 | 1 => r0 | 2 => s1 | 3 | 4 | 5 => s2 | _ => s5 end%nat.
  Proof.
    assert (E1 : s1 tmp = Some []) by apply upd_same.
    assert (E2 : s2 tmp = Some new) by apply upd_same.
    assert (W : apply s1 (Write tmp new) = s2) by (rewrite (apply_write_some _ _ _ _ E1); reflexivity).
    assert (R : apply s2 (Rename tmp path) = s5) by (rewrite (apply_rename_some _ _ _ _ E2); reflexivity).
    assert (C0 : apply d0 (Remove tmp) = r0) by reflexivity.
    assert (C1 : apply r0 (Create tmp) = s1) by reflexivity.
    assert (C3 : apply s2 (Close tmp) = s2) by reflexivity.
    assert (C4 : apply s2 (Chmod tmp) = s2) by reflexivity.
    do 6 (destruct k as [|k]; [cbn [ops ops_fixed firstn run fold_left]; rewrite ?C0, ?C1, ?W, ?C3, ?C4, ?R; reflexivity|]).
    destruct k; cbn [ops ops_fixed firstn run fold_left]; rewrite ?C0, ?C1, ?W, ?C3, ?C4, ?R; reflexivity.
  Qed.

  Lemma A_d0 : InvA d0. Proof. split; auto. Qed.
  Lemma A_r0 : InvA r0.
  Proof. split; [unfold r0; rewrite upd_other by congruence; exact H0|].
         intros n _ Hn. unfold r0. apply upd_other; exact Hn. Qed.
  Lemma A_s1 : InvA s1.
  Proof. split; [unfold s1, r0; rewrite !upd_other by congruence; exact H0|].
         intros n _ Hn. unfold s1, r0. rewrite !upd_other by exact Hn. reflexivity. Qed.
  Lemma A_tmp c : InvA (upd s1 tmp (Some c)).
  Proof. split; [unfold s1, r0; rewrite !upd_other by congruence; exact H0|].
         intros n _ Hn. unfold s1, r0. rewrite !upd_other by exact Hn. reflexivity. Qed.
  Lemma B_s5 : InvB0 s5.
  Proof.
    split; [split|].
    - unfold s5. apply upd_same.
    - intros n Hp Hn. unfold s5, s2, s1, r0. rewrite !upd_other by assumption. reflexivity.
    - unfold s5. rewrite upd_other by exact Htp. apply upd_same.
  Qed.

  Lemma between_inv k : InvA (run (firstn k ops) d0) \/ InvB0 (run (firstn k ops) d0).
  Proof.
    rewrite fixed_states.
    do 6 (destruct k as [|k]; [left; first [exact A_d0 | exact A_r0 | exact A_s1 | exact (A_tmp new)]|]).
    right. destruct k; exact B_s5.
  Qed.

  Variable mid : dir -> fsop -> dir -> Prop.
  Hypothesis Hmid : atomic_fs mid.

  Lemma crash_inv d : crash_state mid ops d0 d -> InvA d \/ InvB0 d.
  Proof.
    intros C. destruct C as [k | k o d' Hn Hm].
    - apply between_inv.
    - destruct (Hmid _ _ _ Hm) as [E | [E | (n & c & j & Eo & E)]]; subst d'.
      + apply between_inv.
      + rewrite <- (run_firstn_S ops k o d0 Hn). apply between_inv.
      + subst o. rewrite fixed_states.
        destruct k as [|k]; [discriminate|].
        destruct k as [|k]; [discriminate|].
        destruct k as [|k].
        * cbn in Hn. inversion Hn; subst n c.
          assert (E1 : s1 tmp = Some []) by apply upd_same.
          rewrite (apply_write_some _ _ _ _ E1). left. apply A_tmp.
        * do 4 (destruct k as [|k]; [discriminate|]). destruct k; discriminate.
  Qed.

  Lemma crash_safe d : crash_state mid ops d0 d -> d path = Some old \/ d path = Some new.
  Proof. intros C. destruct (crash_inv d C) as [[H _] | [[H _] _]]; auto. Qed.

End Fixed.

(* ------------------------------------------------------------------ closed forms *)

Lemma fixed_crash_safe mid : atomic_fs mid ->
  forall path tmp old new d0, tmp <> path -> d0 path = Some old ->
  forall d, crash_state mid (ops_fixed path tmp new) d0 d -> d path = Some old \/ d path = Some new.
Proof. intros Hm path tmp old new d0 Htp H0 d C. exact (crash_safe path tmp old new d0 Htp H0 mid Hm d C). Qed.

Lemma fixed_frame mid : atomic_fs mid ->
  forall path tmp old new d0, tmp <> path -> d0 path = Some old ->
  forall d, crash_state mid (ops_fixed path tmp new) d0 d ->
  forall n, n <> path -> n <> tmp -> d n = d0 n.
Proof.
  intros Hm path tmp old new d0 Htp H0 d C n Hp Ht.
  destruct (crash_inv path tmp old new d0 Htp H0 mid Hm d C) as [[_ O] | [[_ O] _]]; auto.
Qed.

Lemma fixed_statement path tmp old new : tmp <> path -> C36_statement path old new (ops_fixed path tmp new).
Proof.
  intros Htp k d0 H0. cbv zeta.
  destruct (between_inv path tmp old new d0 Htp H0 k) as [[H _] | [[H _] _]]; auto.
Qed.

(* a complete rewrite from any directory in which the target exists *)
Lemma fixed_full_run path tmp c new (d : dir) : tmp <> path -> d path = Some c ->
  let d' := run (ops_fixed path tmp new) d in
  d' path = Some new /\ d' tmp = None /\ forall n, n <> path -> n <> tmp -> d' n = d n.
Proof.
  intros Htp H0. cbv zeta.
  pose proof (fixed_states path tmp new d 6%nat) as E. cbv zeta in E.
  change (firstn 6 (ops_fixed path tmp new)) with (ops_fixed path tmp new) in E. rewrite E.
  destruct (B_s5 path tmp new d Htp) as [[P O] T]. cbn match. auto.
Qed.

Lemma fixed_no_litter path tmp old new (d0 : dir) :
  tmp <> path -> d0 path = Some old -> d0 tmp = None ->
  let d' := run (ops_fixed path tmp new) d0 in d' path = Some new /\ same_except path d' d0.
Proof.
  intros Htp H0 Ht. cbv zeta.
  destruct (fixed_full_run path tmp old new d0 Htp H0) as (P & T & O). split; [exact P|].
  intros n Hn. destruct (N.eq_dec n tmp) as [->|Hnt]; [congruence|auto].
Qed.

Lemma crash_state_nil mid d0 d : crash_state mid [] d0 d -> d = d0.
Proof.
  intros C. destruct C as [k | k o d' Hn _].
  - destruct k; reflexivity.
  - destruct k; discriminate.
Qed.

Lemma later_run_clean mid : atomic_fs mid ->
  forall (fmt : content -> content) path tmp old (d0 : dir),
  tmp <> path -> d0 path = Some old -> d0 tmp = None ->
  forall ops1, lint_ops (ops_fixed path tmp) fmt path d0 = Some ops1 ->
  forall d, crash_state mid ops1 d0 d ->
    (d path = Some old \/ d path = Some (fmt old)) /\
    exists ops2, lint_ops (ops_fixed path tmp) fmt path d = Some ops2 /\
      let d' := run ops2 d in
      same_except path d' d0 /\ (d' path = Some (fmt old) \/ d' path = Some (fmt (fmt old))).
Proof.
  intros Hm fmt path tmp old d0 Htp H0 Ht ops1 L1 d C.
  unfold lint_ops in L1. rewrite H0 in L1.
  destruct (str_eqb (fmt old) old) eqn:Eq.
  - (* nothing to rewrite: no operation, no crash state but d0 *)
    inversion L1; subst ops1. apply crash_state_nil in C. subst d.
    apply str_eqb_eq in Eq. split; [auto|].
    exists []. split.
    + unfold lint_ops. rewrite H0. rewrite Eq. rewrite (proj2 (str_eqb_eq old old) eq_refl). reflexivity.
    + cbv zeta. cbn [run fold_left]. split; [intros n _; reflexivity|]. left. congruence.
  - inversion L1; subst ops1.
    destruct (crash_inv path tmp old (fmt old) d0 Htp H0 mid Hm d C) as [[P O] | [[P O] T]].
    + (* target still old: the later run rewrites again, reusing (truncating) the temp name *)
      split; [auto|].
      exists (ops_fixed path tmp (fmt old)). split.
      * unfold lint_ops. rewrite P, Eq. reflexivity.
      * cbv zeta. destruct (fixed_full_run path tmp old (fmt old) d Htp P) as (P' & T' & O').
        split; [|auto]. intros n Hn. destruct (N.eq_dec n tmp) as [->|Hnt]; [congruence|].
        rewrite O' by assumption. auto.
    + (* target already new, temp name gone *)
      split; [auto|].
      assert (SE : same_except path d d0).
      { intros n Hn. destruct (N.eq_dec n tmp) as [->|Hnt]; [congruence|auto]. }
      unfold lint_ops. rewrite P.
      destruct (str_eqb (fmt (fmt old)) (fmt old)) eqn:Eq2.
      * exists []. split; [reflexivity|]. cbv zeta. cbn [run fold_left]. auto.
      * exists (ops_fixed path tmp (fmt (fmt old))). split; [reflexivity|]. cbv zeta.
        destruct (fixed_full_run path tmp (fmt old) (fmt (fmt old)) d Htp P) as (P' & T' & O').
        split; [|auto]. intros n Hn. destruct (N.eq_dec n tmp) as [->|Hnt]; [congruence|].
        rewrite O' by assumption. auto.
Qed.

Lemma mid_posix_atomic : atomic_fs mid_posix.
Proof. intros d o d' H. exact H. Qed.
