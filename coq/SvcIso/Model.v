(* SvcIso/Model.v — how ServiceHandler (internal/server/services/service.go) builds the symbol table a
   service request runs with, and what the service cache contributes to it (cache.go: getCachedService,
   updateCachedServiceSymbols; symbols.Merge). *)
From Common Require Export Base.
Open Scope N_scope.

(* a symbol name: [ro] = starts with the read-only prefix "_" (symbols.Merge skips those) *)
Record name := { ro : bool; nid : N }.
Definition name_eqb (a b : name) : bool := Bool.eqb (ro a) (ro b) && (nid a =? nid b).
Definition value := N.
Definition table := list (name * value).

Fixpoint get (t : table) (n : name) : option value :=
  match t with [] => None | (k, v) :: r => if name_eqb k n then Some v else get r n end.
Fixpoint set_always (t : table) (n : name) (v : value) : table :=
  match t with
  | [] => [(n, v)]
  | (k, w) :: r => if name_eqb k n then (k, v) :: r else (k, w) :: set_always r n v
  end.
Definition set_all (t : table) (l : list (name * value)) : table :=
  fold_left (fun t kv => set_always t (fst kv) (snd kv)) l t.

(* symbols.Merge: every symbol of the source that is not read-only is stored into the target *)
Definition merge (t : table) (src : option table) : table :=
  match src with
  | None => t
  | Some s => set_all t (filter (fun kv => negb (ro (fst kv))) s)
  end.

(* a request: the read-only symbols the handler derives from it (_user, _body, _request, …: ro = true)
   and its URL values (stored under their own names: ro = false) *)
Record request := { consts : list (N * value); parts : list (N * value) }.
Definition const_syms (r : request) : list (name * value) :=
  map (fun kv => ({| ro := true; nid := fst kv |}, snd kv)) (consts r).
Definition part_syms (r : request) : list (name * value) :=
  map (fun kv => ({| ro := false; nid := fst kv |}, snd kv)) (parts r).

(* the table the service code runs with (its runtime child table sees it as parent) *)
Definition seen (cache : option table) (r : request) : table :=
  set_all (merge (set_all (set_all [] (const_syms r)) (part_syms r)) cache) (part_syms r).
(* before the fix the URL values were not stored again after the merge *)
Definition seen_old (cache : option table) (r : request) : table :=
  merge (set_all (set_all [] (const_syms r)) (part_syms r)) cache.

(* the service cache holds the table of the request that first completed; later requests leave it alone *)
Definition cache_after (cache : option table) (r : request) : option table :=
  match cache with None => Some (seen None r) | Some _ => cache end.

(* an execution: each request reads whatever the cache holds when it is served; the cache snapshot a
   request sees is decided by the schedule (None, or the table of ANY request), so a schedule is just the
   list of snapshots *)
Definition own (r : request) : list (name * value) := const_syms r ++ part_syms r.
Fixpoint nodup_keys (l : list (N * value)) : bool :=
  match l with [] => true | (k, _) :: r => negb (existsb (fun kv => fst kv =? k) r) && nodup_keys r end.
Definition wf_request (r : request) : bool := nodup_keys (consts r) && nodup_keys (parts r).
