From Coq Require Import List ZArith NArith Bool Arith Lia.
From Common Require Import Base.
From Arith Require Import Model Spec Proofs.
From Opt Require Import Generic Model Proofs.
From GoSub Require Import Model Proofs Stmt StmtProofs StmtMain.
Import ListNotations.
Open Scope nat_scope.

Lemma compile_stmt_cond_nonbranch c e1 e2 : Forall nonbranch (compile e1 ++ compile e2 ++ [(cmp_opc c, ONil)]).
Proof.
  apply Forall_app. split; [apply compile_nonbranch|]. apply Forall_app. split; [apply compile_nonbranch|].
  repeat constructor. destruct c; reflexivity.
Qed.

Lemma skipn_at {A} (l1 l2 : list A) n : n = length l1 -> skipn n (l1 ++ l2) = l2.
Proof. intros ->. apply skipn_exact. Qed.

Lemma grun_cons m fuel code i rest s :
  grun fx_now m fuel code (i :: rest) s =
  match gexec fx_now m i s with
  | Cont _ _ s' None => grun fx_now m fuel code rest s'
  | Cont _ _ s' (Some a) => jump instr st fail (gexec fx_now m) fuel code a s'
  | Fail _ _ x => Failed st fail x
  end.
Proof. unfold grun. apply run_cons. Qed.

Lemma gexec_branch m n s : gexec fx_now m (Branch, int_op n) s = Cont st fail s (Some n).
Proof. unfold gexec, int_op. cbn [exec]. now rewrite Nat2Z.id. Qed.
Lemma gexec_branchfalse m n s b r : stk s = IV (VBool b) false :: r ->
  gexec fx_now m (BranchFalse, int_op n) s = Cont st fail (set_stk s r) (if b then None else Some n).
Proof. intros H. unfold gexec, int_op. cbn [exec]. rewrite H. rewrite Nat2Z.id. destruct b; reflexivity. Qed.

Lemma stmt_correct m k : forall p en o pre post code s,
  guarded_in k (map fst en) p = true -> env_ok k en = true -> rel k en o s ->
  code = pre ++ compile_stmt (length pre) p ++ post ->
  post_ok m k code post s (compile_stmt (length pre) p) (go_exec k p en o).
Proof.
  induction p as [x e|x e|op x e|inc x|e|a IHa b IHb|c e1 e2 a IHa b IHb];
    intros en o pre post code s Hg Hok [Hv Ho] Hcode; cbn [guarded_in] in Hg.
  - (* x := e *)
    split_guard Hg. rewrite well_typed_names in Hg. apply negb_true_iff in G1. apply negb_true_iff in G0.
    assert (Hn : eget en x = None).
    { apply eget_names. destruct (eget (names_env (map fst en)) x); [discriminate G|reflexivity]. }
    pose proof (decl_block m k en x e s Hok Hv Hg G1 G0 Hn) as HB. cbn [go_exec compile_stmt] in *.
    destruct (go_eval k en e) as [v| |]; cbn [post_ok]; [| |contradiction].
    + destruct HB as [Rv HB]. exists (set_vars s (vars_of k ((x, v) :: en))).
      split; [split; [reflexivity|exact Ho]|]. split; [reflexivity|]. split; [reflexivity|].
      split; [cbn [env_ok forallb snd]; apply andb_true_iff; split; [now apply in_rangeb_spec|exact Hok]|].
      intros f. cbn [plus]. rewrite grun_block; [now rewrite HB|].
      constructor; [reflexivity|]. apply Forall_app. split; [apply compile_nonbranch|repeat constructor].
    + exists 0, (out s). split; [exact Ho|]. intros f. cbn [plus]. rewrite grun_block; [now rewrite HB|].
      constructor; [reflexivity|]. apply Forall_app. split; [apply compile_nonbranch|repeat constructor].
  - (* x = e *)
    split_guard Hg. rewrite well_typed_names in Hg. apply negb_true_iff in G0. rewrite declared_names in G.
    pose proof (assign_block m k en x e s Hok Hv Hg G0 G) as HB. cbn [go_exec compile_stmt] in *.
    destruct (go_eval k en e) as [v| |]; cbn [post_ok]; [| |contradiction].
    + destruct HB as [Rv HB]. exists (set_vars s (vars_of k (env_set en x v))).
      split; [split; [reflexivity|exact Ho]|]. split; [reflexivity|]. split; [reflexivity|].
      split; [now apply env_set_ok|].
      intros f. cbn [plus]. rewrite grun_block by apply let_store_nonbranch. now rewrite HB.
    + exists 0, (out s). split; [exact Ho|]. intros f. cbn [plus]. rewrite grun_block by apply let_store_nonbranch. now rewrite HB.
  - (* x op= e *)
    rewrite well_typed_names in Hg.
    assert (Hd : declared en x = true).
    { pose proof Hg as Hg'. unfold opassign_expr in Hg'. cbn [well_typed] in Hg'. split_guard Hg'. unfold declared. now rewrite Hg', G1. }
    pose proof (assign_block m k en x (opassign_expr op x e) s Hok Hv Hg eq_refl Hd) as HB. cbn [go_exec compile_stmt] in *.
    destruct (go_eval k en (opassign_expr op x e)) as [v| |]; cbn [post_ok]; [| |contradiction].
    + destruct HB as [Rv HB]. exists (set_vars s (vars_of k (env_set en x v))).
      split; [split; [reflexivity|exact Ho]|]. split; [reflexivity|]. split; [reflexivity|].
      split; [now apply env_set_ok|].
      intros f. cbn [plus]. rewrite grun_block by apply let_store_nonbranch. now rewrite HB.
    + exists 0, (out s). split; [exact Ho|]. intros f. cbn [plus]. rewrite grun_block by apply let_store_nonbranch. now rewrite HB.
  - (* x++ x-- *)
    rewrite well_typed_names in Hg.
    assert (Hd : declared en x = true).
    { pose proof Hg as Hg'. unfold incdec_expr in Hg'. cbn [well_typed] in Hg'. split_guard Hg'. unfold declared. now rewrite Hg', G1. }
    pose proof (assign_block m k en x (incdec_expr inc x) s Hok Hv Hg eq_refl Hd) as HB. cbn [go_exec compile_stmt] in *.
    destruct (go_eval k en (incdec_expr inc x)) as [v| |]; cbn [post_ok]; [| |contradiction].
    + destruct HB as [Rv HB]. exists (set_vars s (vars_of k (env_set en x v))).
      split; [split; [reflexivity|exact Ho]|]. split; [reflexivity|]. split; [reflexivity|].
      split; [now apply env_set_ok|].
      intros f. cbn [plus]. rewrite grun_block by apply let_store_nonbranch. now rewrite HB.
    + exists 0, (out s). split; [exact Ho|]. intros f. cbn [plus]. rewrite grun_block by apply let_store_nonbranch. now rewrite HB.
  - (* Println *)
    rewrite well_typed_names in Hg.
    pose proof (print_block m k en e s Hok Hv Hg) as HB. cbn [go_exec compile_stmt] in *.
    assert (Hnb : Forall nonbranch ((Push, OM L_call) :: compile e ++ [(Print, ONil); (DropToMarker, OM L_call)])).
    { constructor; [reflexivity|]. apply Forall_app. split; [apply compile_nonbranch|repeat constructor]. }
    destruct (go_eval k en e) as [v| |]; cbn [post_ok]; [| |contradiction].
    + destruct HB as [val [Hval HB]]. eexists. split; [split; [|]|].
      3:{ split; [|split; [|split; [exact Hok|]]].
          3:{ intros f. cbn [plus]. rewrite grun_block by exact Hnb. rewrite HB. reflexivity. }
          all: reflexivity. }
      * exact Hv.
      * cbn [out map]. now rewrite Hval, Ho.
    + exists 0, (out s). split; [exact Ho|]. intros f. cbn [plus]. rewrite grun_block by exact Hnb. now rewrite HB.
  - (* a ; b *)
    apply andb_true_iff in Hg. destruct Hg as [Ga Gb]. cbn [compile_stmt go_exec] in *.
    set (ca := compile_stmt (length pre) a) in *. set (cb := compile_stmt (length pre + length ca) b) in *.
    assert (Hca : code = pre ++ ca ++ (cb ++ post)) by (rewrite Hcode; now rewrite <- app_assoc).
    pose proof (IHa en o pre (cb ++ post) code s Ga Hok (conj Hv Ho) Hca) as Pa. fold ca in Pa.
    destruct (go_exec k a en o) as [en1 o1 j1|o1|] eqn:Ea; cbn [post_ok] in Pa |- *; [| |contradiction].
    + destruct Pa as [s1 [[Hv1 Ho1] [Hs1 [Hl1 [Hok1 Hrun1]]]]].
      pose proof (go_exec_names k a en o en1 o1 j1 Ga Ea) as Na. rewrite <- Na in Gb.
      assert (Hcb : code = (pre ++ ca) ++ compile_stmt (length (pre ++ ca)) b ++ post).
      { rewrite app_length. fold cb. rewrite Hcode. now rewrite <- !app_assoc. }
      pose proof (IHb en1 o1 (pre ++ ca) post code s1 Gb Hok1 (conj Hv1 Ho1) Hcb) as Pb.
      rewrite app_length in Pb. fold cb in Pb.
      destruct (go_exec k b en1 o1) as [en2 o2 j2|o2|] eqn:Eb; cbn [post_ok] in Pb |- *; [| |contradiction].
      * destruct Pb as [s2 [Hr2 [Hs2 [Hl2 [Hok2 Hrun2]]]]]. exists s2.
        split; [exact Hr2|]. split; [congruence|]. split; [congruence|]. split; [exact Hok2|].
        intros f. rewrite <- app_assoc. replace (j1 + j2 + f) with (j1 + (j2 + f)) by lia. rewrite Hrun1. apply Hrun2.
      * destruct Pb as [j2 [out' [Ho' Hrun2]]]. exists (j1 + j2), out'. split; [exact Ho'|].
        intros f. rewrite <- app_assoc. replace (j1 + j2 + f) with (j1 + (j2 + f)) by lia. rewrite Hrun1, Hrun2. now rewrite Hl1.
    + destruct Pa as [j1 [out' [Ho' Hrun1]]]. exists j1, out'. split; [exact Ho'|].
      intros f. rewrite <- app_assoc. apply Hrun1.
  - (* if e1 c e2 { a } else { b } *)
    (* if e1 c e2 { a } else { b } *)
    split_guard Hg. rewrite well_typed_names in Hg. rewrite well_typed_names in G4. apply negb_true_iff in G3.
    cbn [compile_stmt go_exec] in *.
    set (cond := compile e1 ++ compile e2 ++ [(cmp_opc c, ONil)]) in *.
    set (ba := length pre + length cond + 1) in *.
    set (ca := compile_stmt ba a) in *.
    set (bb := ba + length ca + 1) in *.
    set (cb := compile_stmt bb b) in *.
    pose proof (cond_block m k en c e1 e2 s Hok Hv Hg G4 G3) as HC. fold cond in HC.
    assert (Hnb : Forall nonbranch cond) by apply compile_stmt_cond_nonbranch.
    destruct (go_eval k en e1) as [v1| |]; cbn [post_ok];
      [|exists 0, (out s); split; [exact Ho|]; intros f; cbn [plus]; rewrite <- !app_assoc; rewrite grun_block by exact Hnb; now rewrite HC|contradiction].
    destruct (go_eval k en e2) as [v2| |]; cbn [post_ok];
      [|exists 0, (out s); split; [exact Ho|]; intros f; cbn [plus]; rewrite <- !app_assoc; rewrite grun_block by exact Hnb; now rewrite HC|contradiction].
    set (sc := set_stk s (IV (VBool (cmp_go c v1 v2)) false :: stk s)) in *.
    set (s2 := set_stk sc (stk s)).
    assert (Hrel2 : rel k en o s2) by (split; [exact Hv|exact Ho]).
    (* the prefix common to both paths: condition, then BranchFalse *)
    assert (Hpref : forall F, grun fx_now m F code ((cond ++ [(BranchFalse, int_op bb)] ++ ca ++ [(Branch, int_op (bb + length cb))] ++ cb) ++ post) s =
              if cmp_go c v1 v2 then grun fx_now m F code (ca ++ ([(Branch, int_op (bb + length cb))] ++ cb ++ post)) s2
              else jump instr st fail (gexec fx_now m) F code bb s2).
    { intros F. rewrite <- !app_assoc. rewrite grun_block by exact Hnb. rewrite HC. fold sc.
      cbn [app]. rewrite grun_cons. rewrite (gexec_branchfalse m bb sc (cmp_go c v1 v2) (stk s)) by reflexivity.
      fold s2. destruct (cmp_go c v1 v2); reflexivity. }
    set (BF := (BranchFalse, int_op bb)) in *. set (BR := (Branch, int_op (bb + length cb))) in *.
    set (PA := pre ++ cond ++ [BF]). set (PB := pre ++ cond ++ [BF] ++ ca ++ [BR]).
    assert (HPA : length PA = ba) by (unfold PA; rewrite !app_length; cbn [length]; unfold ba; lia).
    assert (HPB : length PB = bb) by (unfold PB; rewrite !app_length; cbn [length]; unfold bb, ba; lia).
    assert (Hca : code = PA ++ compile_stmt (length PA) a ++ ([BR] ++ cb ++ post)).
    { rewrite HPA. fold ca. rewrite Hcode. unfold PA. now rewrite <- !app_assoc. }
    assert (Hcb : code = PB ++ compile_stmt (length PB) b ++ post).
    { rewrite HPB. fold cb. rewrite Hcode. unfold PB. now rewrite <- !app_assoc. }
    assert (Hend : skipn (bb + length cb) code = post).
    { rewrite Hcb, HPB. fold cb. rewrite app_assoc. apply skipn_at. rewrite app_length, HPB. reflexivity. }
    assert (Hbb : skipn bb code = cb ++ post).
    { rewrite Hcb, HPB. fold cb. apply skipn_at. now rewrite HPB. }
    destruct (cmp_go c v1 v2) eqn:Ecmp.
    + (* then-arm, left by Branch *)
      pose proof (IHa en o PA ([BR] ++ cb ++ post) code s2 G0 Hok Hrel2 Hca) as Pa.
      rewrite HPA in Pa. fold ca in Pa.
      destruct (go_exec k a en o) as [en1 o1 j1|o1|] eqn:Ea; cbn [post_ok] in Pa |- *; [| |contradiction].
      * destruct Pa as [s' [Hr' [Hs' [Hl' [Hok' Hrun]]]]]. exists s'.
        split; [exact Hr'|]. split; [exact Hs'|]. split; [exact Hl'|]. split; [exact Hok'|].
        intros f. rewrite Hpref. replace (S j1 + f) with (j1 + S f) by lia. rewrite Hrun.
        cbn [app]. rewrite grun_cons. unfold BR. rewrite gexec_branch. cbn [jump]. now rewrite Hend.
      * destruct Pa as [j1 [out' [Ho' Hrun]]]. exists j1, out'. split; [exact Ho'|].
        intros f. rewrite Hpref. apply Hrun.
    + (* else-arm, entered by the BranchFalse jump *)
      pose proof (IHb en o PB post code s2 G Hok Hrel2 Hcb) as Pb.
      rewrite HPB in Pb. fold cb in Pb.
      destruct (go_exec k b en o) as [en1 o1 j1|o1|] eqn:Eb; cbn [post_ok] in Pb |- *; [| |contradiction].
      * destruct Pb as [s' [Hr' [Hs' [Hl' [Hok' Hrun]]]]]. exists s'.
        split; [exact Hr'|]. split; [exact Hs'|]. split; [exact Hl'|]. split; [exact Hok'|].
        intros f. rewrite Hpref. cbn [plus jump]. rewrite Hbb. apply Hrun.
      * destruct Pb as [j1 [out' [Ho' Hrun]]]. exists (S j1), out'. split; [exact Ho'|].
        intros f. rewrite Hpref. cbn [plus jump]. rewrite Hbb. apply Hrun.
Qed.

Theorem stmt_compile_correct m k en p : guarded k en p = true -> whole_ok m k en p.
Proof.
  intros Hg. unfold guarded in Hg. apply andb_true_iff in Hg. destruct Hg as [Hg Hok].
  apply whole_of_post.
  apply (stmt_correct m k p en [] [] [] (compile_stmt 0 p) (start k en) Hg Hok); [split; reflexivity|].
  cbn [app length]. now rewrite app_nil_r.
Qed.
