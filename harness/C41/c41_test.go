//go:build verif

package services

// Overlaid into /repo/internal/server/services by /verif/check C41.
// VERIF_IN: {"codec": [...], "e2e": [...]}; VERIF_OUT: the observations (see props/C41.py).
//  codec case:  the real encoding/json trip of ChildServiceRequest / ChildServiceResponse, the real
//               getHeadersFromResponse and data.String on URL parts.
//  e2e case:    the same request handled by ServiceHandler in process and in child mode.  For child mode
//               the check overlays a copy of child.go whose runChildViaPipe carries the request and the
//               response through encoding/json in memory and calls runChildRequest directly (no fork);
//               callChildServices and runChildRequest are the real code.

import (
	"bytes"
	"encoding/hex"
	"encoding/json"
	"net/http"
	"net/http/httptest"
	"os"
	"path/filepath"
	"sort"
	"strings"
	"testing"

	"github.com/tucats/ego/internal/cli/settings"
	"github.com/tucats/ego/internal/defs"
	"github.com/tucats/ego/internal/language/data"
	egoHTTP "github.com/tucats/ego/internal/runtime/http"
	"github.com/tucats/ego/internal/router"
)

type c41Part struct {
	K string `json:"k"`
	T string `json:"t"`
	V string `json:"v"`
}

type c41KV struct {
	K string   `json:"k"`
	V []string `json:"v"`
}

type c41Codec struct {
	Body    string    `json:"body"`
	Headers []c41KV   `json:"headers"`
	Parts   []c41Part `json:"parts"`
}

type c41E2E struct {
	Src     string    `json:"src"`
	File    string    `json:"file"`
	Method  string    `json:"method"`
	URL     string    `json:"url"`
	Path    string    `json:"path"`
	Headers []c41KV   `json:"headers"`
	Body    string    `json:"body"`
	Parts   []c41Part `json:"parts"`
	User    string    `json:"user"`
	Admin   bool      `json:"admin"`
	Auth    bool      `json:"auth"`
	Token   string    `json:"token"`
	JSON    bool      `json:"json"`
	Text    bool      `json:"text"`
	Perms   []string  `json:"perms"`
	Real    bool      `json:"real"`
	Slow    bool      `json:"slow"`
}

type c41Wire struct {
	Status  int     `json:"status"`
	Headers []c41KV `json:"headers"`
	Body    string  `json:"body"`
	Panic   string  `json:"panic,omitempty"`
}

func c41PartValue(p c41Part) any {
	switch p.T {
	case "i":
		n := 0
		neg := false
		for i, c := range p.V {
			if i == 0 && c == '-' {
				neg = true

				continue
			}

			n = n*10 + int(c-'0')
		}

		if neg {
			n = -n
		}

		return n
	case "b":
		return p.V == "true"
	}

	return p.V
}

func c41Run(t *testing.T, c c41E2E, file string, child bool) (res c41Wire) {
	defer func() {
		if r := recover(); r != nil {
			res.Panic = "panic"
		}
	}()

	body, _ := hex.DecodeString(c.Body)
	req := httptest.NewRequest(c.Method, c.URL, bytes.NewReader(body))

	for _, h := range c.Headers {
		for _, v := range h.V {
			req.Header.Add(h.K, v)
		}
	}

	parts := map[string]any{}
	for _, p := range c.Parts {
		parts[p.K] = c41PartValue(p)
	}

	session := &router.Session{
		ID:            7,
		Path:          c.Path,
		Filename:      file,
		URLParts:      parts,
		Parameters:    req.URL.Query(),
		User:          c.User,
		Admin:         c.Admin,
		Authenticated: c.Auth,
		Token:         c.Token,
		Permissions:   c.Perms,
		AcceptsJSON:   c.JSON,
		AcceptsText:   c.Text,
		Instance:      "verif-c41",
		Language:      "en",
	}

	if child {
		settings.SetDefault(defs.ChildServicesSetting, "true")
	} else {
		settings.SetDefault(defs.ChildServicesSetting, "false")
	}

	w := httptest.NewRecorder()
	status := ServiceHandler(session, w, req)
	_ = status
	res.Status = w.Code

	keys := []string{}
	for k := range w.Header() {
		keys = append(keys, k)
	}

	sort.Strings(keys)

	for _, k := range keys {
		res.Headers = append(res.Headers, c41KV{K: k, V: w.Header()[k]})
	}

	res.Body = hex.EncodeToString(w.Body.Bytes())

	return res
}

func TestVerifC41(t *testing.T) {
	raw, err := os.ReadFile(os.Getenv("VERIF_IN"))
	if err != nil {
		t.Fatal(err)
	}

	in := struct {
		Codec []c41Codec `json:"codec"`
		E2E   []c41E2E   `json:"e2e"`
	}{}

	if err := json.Unmarshal(raw, &in); err != nil {
		t.Fatal(err)
	}

	type codecOut struct {
		ReqBody  string     `json:"req_body"`
		RespBody string     `json:"resp_body"`
		Headers  [][2]string `json:"headers"`
		Parts    [][2]string `json:"parts"`
	}

	out := struct {
		Codec   []codecOut `json:"codec"`
		Inproc  []c41Wire  `json:"inproc"`
		Child   []c41Wire  `json:"child"`
		Patched bool       `json:"patched"`
	}{}

	for _, c := range in.Codec {
		body, _ := hex.DecodeString(c.Body)
		o := codecOut{}

		// request: the transformations of callChildServices on the URL parts, then the JSON trip
		q := ChildServiceRequest{Body: string(body), URLParts: map[string]string{}}
		for _, p := range c.Parts {
			q.URLParts[p.K] = data.String(c41PartValue(p))
		}

		b, _ := json.Marshal(q)
		q2 := ChildServiceRequest{}
		_ = json.Unmarshal(b, &q2)
		o.ReqBody = hex.EncodeToString([]byte(q2.Body))

		for _, p := range c.Parts {
			o.Parts = append(o.Parts, [2]string{hex.EncodeToString([]byte(p.K)), hex.EncodeToString([]byte(q2.URLParts[p.K]))})
		}

		// response: the header block exactly as runChildRequest builds it, filled like the Ego Header.Add does
		headerMaps := data.NewMap(data.StringType, data.ArrayType(data.StringType))
		for _, h := range c.Headers {
			_, _ = headerMaps.Set(h.K, data.NewArrayFromStrings(h.V...))
		}

		header := data.NewStructOfTypeFromMap(egoHTTP.HeaderType, map[string]any{headersField: headerMaps})
		response := data.NewStructOfTypeFromMap(egoHTTP.ResponseWriterType, map[string]any{headersField: header})
		r := ChildServiceResponse{Status: 200, Headers: getHeadersFromResponse(response), Body: string(body)}
		b, _ = json.Marshal(r)
		r2 := ChildServiceResponse{}
		_ = json.Unmarshal(b, &r2)
		o.RespBody = hex.EncodeToString([]byte(r2.Body))

		keys := []string{}
		for k := range r2.Headers {
			keys = append(keys, k)
		}

		sort.Strings(keys)

		for _, k := range keys {
			o.Headers = append(o.Headers, [2]string{hex.EncodeToString([]byte(k)), hex.EncodeToString([]byte(r2.Headers[k]))})
		}

		out.Codec = append(out.Codec, o)
	}

	out.Patched = strings.Contains(os.Getenv("VERIF_PATCHED"), "1")
	dir := t.TempDir()
	files := make([]string, len(in.E2E))

	for i, c := range in.E2E {
		if c.File != "" {
			files[i] = c.File

			continue
		}

		files[i] = filepath.Join(dir, "svc"+string(rune('a'+i%26))+string(rune('a'+i/26))+".ego")
		if err := os.WriteFile(files[i], []byte(c.Src), 0o644); err != nil {
			t.Fatal(err)
		}
	}

	// slow services are only run by the real-transport stage (TestVerifC41Real)
	for i, c := range in.E2E {
		if c.Slow {
			out.Inproc = append(out.Inproc, c41Wire{Status: -1})

			continue
		}

		out.Inproc = append(out.Inproc, c41Run(t, c, files[i], false))
	}

	if out.Patched {
		for i, c := range in.E2E {
			if c.Slow {
				out.Child = append(out.Child, c41Wire{Status: -1})

				continue
			}

			out.Child = append(out.Child, c41Run(t, c, files[i], true))
		}
	}

	settings.SetDefault(defs.ChildServicesSetting, "false")

	b, _ := json.Marshal(out)
	if err := os.WriteFile(os.Getenv("VERIF_OUT"), b, 0o644); err != nil {
		t.Fatal(err)
	}

	_ = http.StatusOK
}
