// instrument: copies internal/server/oauth/authserver/codes.go with a yield hook inserted between
// the cache lookup and the cache delete of consumeCode and consumeRefreshToken.
//
//	usage: instrument <in codes.go> <out codes.go>
//
// Anchors are syntactic: inside func <name>, a top-level statement that calls caches.Find followed
// (later, at top level) by a statement that calls caches.Delete; the hook call is placed immediately
// before that second statement.  Exit status 3 + "ANCHOR-NOT-FOUND <func>" if the shape is absent.
package main

import (
	"bytes"
	"fmt"
	"go/ast"
	"go/format"
	"go/parser"
	"go/token"
	"os"
)

func calls(n ast.Node, pkg, fn string) bool {
	found := false

	ast.Inspect(n, func(x ast.Node) bool {
		if c, ok := x.(*ast.CallExpr); ok {
			if s, ok := c.Fun.(*ast.SelectorExpr); ok {
				if id, ok := s.X.(*ast.Ident); ok && id.Name == pkg && s.Sel.Name == fn {
					found = true
				}
			}
		}

		return !found
	})

	return found
}

// lockCall reports whether st is the statement cacheLock.<name>() for one of the given names.
func lockCall(st ast.Stmt, names ...string) bool {
	es, ok := st.(*ast.ExprStmt)
	if !ok {
		return false
	}

	c, ok := es.X.(*ast.CallExpr)
	if !ok {
		return false
	}

	sel, ok := c.Fun.(*ast.SelectorExpr)
	if !ok {
		return false
	}

	id, ok := sel.X.(*ast.Ident)
	if !ok || id.Name != "cacheLock" {
		return false
	}

	for _, n := range names {
		if sel.Sel.Name == n {
			return true
		}
	}

	return false
}

// deleteMode checks that caches.Delete is ONE critical section under the write lock (the premise
// "Delete is atomic: lookup + removal + result" of the model) and, when it is not, writes a copy with
// a yield hook in every gap between two lock regions so the harness can park requests there.
//
//	usage: instrument -delete <in delete.go> <out delete.go>
//	prints  DELETE-ATOMIC                      one cacheLock.Lock() region, nothing written
//	        DELETE-GAPS <n>                    n yield hooks written to <out>
//	        DELETE-SHAPE <why>   (exit 3)      no recognisable locking at all
func deleteMode(in, out string) {
	fset := token.NewFileSet()

	f, err := parser.ParseFile(fset, in, nil, parser.ParseComments)
	if err != nil {
		fmt.Fprintln(os.Stderr, err)
		os.Exit(2)
	}

	var fd *ast.FuncDecl

	for _, d := range f.Decls {
		if x, ok := d.(*ast.FuncDecl); ok && x.Recv == nil && x.Name.Name == "Delete" && x.Body != nil {
			fd = x
		}
	}

	if fd == nil {
		fmt.Println("DELETE-SHAPE no func Delete")
		os.Exit(3)
	}

	var acquire []token.Pos

	writeLocks, readLocks, deferred := 0, 0, 0

	ast.Inspect(fd.Body, func(n ast.Node) bool {
		switch x := n.(type) {
		case *ast.FuncLit:
			return false
		case *ast.DeferStmt:
			if sel, ok := x.Call.Fun.(*ast.SelectorExpr); ok {
				if id, ok := sel.X.(*ast.Ident); ok && id.Name == "cacheLock" {
					deferred++
				}
			}
		case *ast.ExprStmt:
			if lockCall(x, "Lock") {
				writeLocks++

				acquire = append(acquire, x.Pos())
			} else if lockCall(x, "RLock") {
				readLocks++

				acquire = append(acquire, x.Pos())
			}
		}

		return true
	})

	if len(acquire) == 0 {
		fmt.Println("DELETE-SHAPE Delete never takes cacheLock")
		os.Exit(3)
	}

	if len(acquire) == 1 && writeLocks == 1 {
		fmt.Println("DELETE-ATOMIC")

		return
	}

	if len(acquire) == 1 {
		fmt.Println("DELETE-SHAPE the only critical section of Delete is a read lock")
		os.Exit(3)
	}

	last := acquire[len(acquire)-1]
	gaps := 0

	var walk func(b *ast.BlockStmt)

	walkStmt := func(st ast.Stmt) {
		ast.Inspect(st, func(n ast.Node) bool {
			if _, ok := n.(*ast.FuncLit); ok {
				return false
			}

			if b, ok := n.(*ast.BlockStmt); ok {
				walk(b)

				return false
			}

			return true
		})
	}

	walk = func(b *ast.BlockStmt) {
		var nl []ast.Stmt

		for _, st := range b.List {
			walkStmt(st)

			nl = append(nl, st)

			if lockCall(st, "Unlock", "RUnlock") && st.Pos() < last {
				gaps++

				nl = append(nl, &ast.ExprStmt{X: &ast.CallExpr{
					Fun:  ast.NewIdent("VerifYield"),
					Args: []ast.Expr{&ast.BasicLit{Kind: token.STRING, Value: fmt.Sprintf("%q", fmt.Sprintf("caches.Delete gap %d", gaps))}},
				}})
			}
		}

		b.List = nl
	}

	walk(fd.Body)

	if gaps == 0 {
		fmt.Printf("DELETE-SHAPE %d lock acquisitions (%d deferred unlocks) but no unlock statement between them\n", len(acquire), deferred)
		os.Exit(3)
	}

	f.Comments = nil

	var buf bytes.Buffer
	if err := format.Node(&buf, fset, f); err != nil {
		fmt.Fprintln(os.Stderr, err)
		os.Exit(2)
	}

	buf.WriteString("\n// VerifYield is set by the verification harness; the default does nothing.\nvar VerifYield = func(string) {}\n")

	if err := os.WriteFile(out, buf.Bytes(), 0o644); err != nil {
		fmt.Fprintln(os.Stderr, err)
		os.Exit(2)
	}

	fmt.Printf("DELETE-GAPS %d\n", gaps)
}

func main() {
	if len(os.Args) == 4 && os.Args[1] == "-delete" {
		deleteMode(os.Args[2], os.Args[3])

		return
	}

	if len(os.Args) != 3 {
		fmt.Fprintln(os.Stderr, "usage: instrument in out")
		os.Exit(2)
	}

	fset := token.NewFileSet()

	f, err := parser.ParseFile(fset, os.Args[1], nil, parser.ParseComments)
	if err != nil {
		fmt.Fprintln(os.Stderr, err)
		os.Exit(2)
	}

	want := map[string]bool{"consumeCode": false, "consumeRefreshToken": false}

	for _, d := range f.Decls {
		fd, ok := d.(*ast.FuncDecl)
		if !ok || fd.Recv != nil || fd.Body == nil {
			continue
		}

		if _, ok := want[fd.Name.Name]; !ok {
			continue
		}

		findAt, delAt := -1, -1

		for i, st := range fd.Body.List {
			if findAt < 0 && calls(st, "caches", "Find") {
				findAt = i

				continue
			}

			if findAt >= 0 && calls(st, "caches", "Delete") {
				delAt = i

				break
			}
		}

		if findAt < 0 || delAt < 0 {
			continue
		}

		hook := &ast.ExprStmt{X: &ast.CallExpr{
			Fun:  ast.NewIdent("VerifYield"),
			Args: []ast.Expr{&ast.BasicLit{Kind: token.STRING, Value: fmt.Sprintf("%q", fd.Name.Name)}},
		}}

		nl := append([]ast.Stmt{}, fd.Body.List[:delAt]...)
		nl = append(nl, hook)
		nl = append(nl, fd.Body.List[delAt:]...)
		fd.Body.List = nl
		want[fd.Name.Name] = true
	}

	missing := false

	for name, ok := range want {
		if !ok {
			fmt.Println("ANCHOR-NOT-FOUND", name)

			missing = true
		}
	}

	if missing {
		os.Exit(3)
	}

	// comments are dropped from the function bodies on purpose: free-floating comments would be
	// misplaced by the printer after statement insertion
	f.Comments = nil

	var buf bytes.Buffer
	if err := format.Node(&buf, fset, f); err != nil {
		fmt.Fprintln(os.Stderr, err)
		os.Exit(2)
	}

	buf.WriteString("\n// VerifYield is set by the verification harness; the default does nothing.\nvar VerifYield = func(string) {}\n")

	if err := os.WriteFile(os.Args[2], buf.Bytes(), 0o644); err != nil {
		fmt.Fprintln(os.Stderr, err)
		os.Exit(2)
	}

	fmt.Println("INSTRUMENTED consumeCode consumeRefreshToken")
}
