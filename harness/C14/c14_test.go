//go:build verif

package parsing

// Overlaid into /repo/internal/server/tables/parsing by /verif/check C14.  Reads JSON cases (one per
// line) from VERIF_IN and writes one JSON result per line to VERIF_OUT: the text the real generator
// produced (hex), whether it returned an error, and the Ego tokens of every filter (class, hex spelling)
// so that the Coq model can be run on exactly the token lists the real code saw.

import (
	"bufio"
	"encoding/hex"
	"encoding/json"
	"net/url"
	"os"
	"testing"

	"github.com/tucats/ego/internal/defs"
	"github.com/tucats/ego/internal/language/tokenizer"
)

type c14Case struct {
	K       string   `json:"k"`
	PG      bool     `json:"pg"`
	User    string   `json:"user"`
	Table   string   `json:"table"`
	Columns string   `json:"columns"`
	Filters []string `json:"filters"`
	Sort    []string `json:"sort"`
	Limit   *string  `json:"limit"`
	Start   *string  `json:"start"`
	Sel     bool     `json:"sel"`
	Keys    []string `json:"keys"`
	RowID   bool     `json:"rowid"`
	S       string   `json:"s"`
}

type c14Tok struct {
	C int    `json:"c"`
	S string `json:"s"`
}

type c14Out struct {
	Text string     `json:"text"`
	Err  bool       `json:"err"`
	Toks [][]c14Tok `json:"toks,omitempty"`
}

func c14hex(s string) string { return hex.EncodeToString([]byte(s)) }

func c14unhex(s string) string {
	b, _ := hex.DecodeString(s)

	return string(b)
}

func c14URL(c c14Case, path string) *url.URL {
	q := url.Values{}

	for _, s := range c.Sort {
		q.Add("sort", c14unhex(s))
	}

	if c.Limit != nil {
		q.Add("limit", c14unhex(*c.Limit))
	}

	if c.Start != nil {
		q.Add("start", c14unhex(*c.Start))
	}

	if c.K == "upd" {
		for _, f := range c.Filters {
			q.Add("filter", c14unhex(f))
		}
	}

	return &url.URL{Path: path, RawQuery: q.Encode()}
}

func TestVerifC14(t *testing.T) {
	in, err := os.Open(os.Getenv("VERIF_IN"))
	if err != nil {
		t.Fatal(err)
	}
	defer in.Close()

	outf, err := os.Create(os.Getenv("VERIF_OUT"))
	if err != nil {
		t.Fatal(err)
	}
	defer outf.Close()

	w := bufio.NewWriter(outf)
	defer w.Flush()

	sc := bufio.NewScanner(in)
	sc.Buffer(make([]byte, 1<<22), 1<<22)

	for sc.Scan() {
		var c c14Case
		if err := json.Unmarshal(sc.Bytes(), &c); err != nil {
			t.Fatalf("bad case %q: %v", sc.Text(), err)
		}

		var o c14Out

		provider := defs.SqliteProvider
		if c.PG {
			provider = defs.PostgresProvider
		}

		filters := []string{}
		for _, f := range c.Filters {
			filters = append(filters, c14unhex(f))
		}

		for _, f := range filters {
			tk := tokenizer.New(f, true)
			l := []c14Tok{}

			for _, x := range tk.Tokens {
				l = append(l, c14Tok{C: int(x.Class()), S: c14hex(x.Spelling())})
			}

			o.Toks = append(o.Toks, l)
		}

		user, table := c14unhex(c.User), c14unhex(c.Table)

		switch c.K {
		case "sel":
			verb := "DELETE"
			if c.Sel {
				verb = selectVerb
			}

			q, err := FormSelectorDeleteQuery(c14URL(c, "/tables/x/rows"), filters, c14unhex(c.Columns), table, user, verb, provider)
			o.Text, o.Err = c14hex(q), err != nil
		case "where":
			q, err := WhereClause(filters)
			o.Text, o.Err = c14hex(q), err != nil
		case "col":
			o.Text = c14hex(ColumnList(c14unhex(c.Columns)))
		case "sort":
			o.Text = c14hex(SortList(c14URL(c, "/tables/x/rows")))
		case "page":
			o.Text = c14hex(PagingClauses(c14URL(c, "/tables/x/rows")))
		case "fn":
			q, _ := FullName(provider, user, table)
			o.Text = c14hex(q)
		case "esc":
			q, err := SQLEscape(c14unhex(c.S))
			o.Text, o.Err = c14hex(q), err != nil
		case "ins", "upd":
			cols := []defs.DBColumn{}
			items := map[string]any{}

			for _, k := range c.Keys {
				cols = append(cols, defs.DBColumn{Name: c14unhex(k), Type: "string"})
				items[c14unhex(k)] = "v"
			}

			if c.RowID {
				items[defs.RowIDName] = "abc-123"
			}

			if c.K == "ins" {
				q, _, err := FormInsertQuery(table, user, provider, cols, items)
				o.Text, o.Err = c14hex(q), err != nil
			} else {
				q, _, err := FormUpdateQuery(c14URL(c, "/tables/"+table+"/rows"), user, provider, cols, items)
				o.Text, o.Err = c14hex(q), err != nil
			}
		default:
			t.Fatalf("unknown case kind %q", c.K)
		}

		b, _ := json.Marshal(o)
		w.Write(b)
		w.WriteString("\n")
	}
}
