//go:build verif

package sqlparse

// Overlaid into /repo/internal/sqlparse by /verif/check C16.  Line protocol (VERIF_IN -> VERIF_OUT, one
// JSON object per output line, same order as the input):
//
//	S <dialect 0|1> <hex sql>   statement: parse, reflective AST dump, Format, re-parse, dump, Format again
//	E <hex expr>                expression (sqlite3 dialect): real tokens, parseExpr, tree of the modelled
//	                            fragment, printer.expr, tokens of the printed text, re-parse, tree
//	L <hex text>                tokenize only
//	X <hex sql>                 execute the statement and its reformatted text on two identical fresh
//	                            in-memory SQLite databases; compare result rows and the final table contents

import (
	"bufio"
	"database/sql"
	"encoding/hex"
	"encoding/json"
	"fmt"
	"os"
	"reflect"
	"sort"
	"strings"
	"testing"

	"github.com/tucats/ego/internal/sqlparse/ast"
	_ "modernc.org/sqlite"
)

// c16Dump renders any AST value structurally, leaving out source positions.
func c16Dump(b *strings.Builder, v reflect.Value) {
	switch v.Kind() {
	case reflect.Interface, reflect.Ptr:
		if v.IsNil() {
			b.WriteString("nil")

			return
		}

		c16Dump(b, v.Elem())
	case reflect.Struct:
		t := v.Type()
		b.WriteString(t.Name())
		b.WriteString("{")

		for i := 0; i < t.NumField(); i++ {
			f := t.Field(i)
			if f.Name == "BaseNode" || f.Name == "BaseStmt" || f.Type.Name() == "Position" {
				continue
			}

			b.WriteString(f.Name)
			b.WriteString(":")
			c16Dump(b, v.Field(i))
			b.WriteString(";")
		}

		b.WriteString("}")
	case reflect.Slice:
		b.WriteString("[")

		for i := 0; i < v.Len(); i++ {
			c16Dump(b, v.Index(i))
			b.WriteString(",")
		}

		b.WriteString("]")
	case reflect.String:
		b.WriteString(fmt.Sprintf("%q", v.String()))
	default:
		b.WriteString(fmt.Sprintf("%v", v.Interface()))
	}
}

func c16DumpNode(n any) string {
	var b strings.Builder

	c16Dump(&b, reflect.ValueOf(n))

	return b.String()
}

// c16Tree renders the modelled expression fragment as nested JSON-able values.
func c16Tree(n ast.Node) any {
	switch v := n.(type) {
	case *ast.BinaryExpr:
		return map[string]any{"k": "bin", "op": v.Op, "x": c16Tree(v.X), "y": c16Tree(v.Y)}
	case *ast.UnaryExpr:
		return map[string]any{"k": "un", "op": v.Op, "x": c16Tree(v.X)}
	case *ast.ParenExpr:
		return map[string]any{"k": "paren", "x": c16Tree(v.X)}
	case *ast.ColumnRef:
		if v.Schema == "" && v.Table == "" {
			return map[string]any{"k": "col", "v": hex.EncodeToString([]byte(v.Column))}
		}

		return map[string]any{"k": "other"}
	case *ast.Literal:
		switch v.LitKind {
		case ast.LitInteger, ast.LitFloat:
			return map[string]any{"k": "num", "v": hex.EncodeToString([]byte(v.Value))}
		case ast.LitString:
			return map[string]any{"k": "str", "v": hex.EncodeToString([]byte(v.Value))}
		case ast.LitNull:
			return map[string]any{"k": "null"}
		case ast.LitBool:
			return map[string]any{"k": "bool", "v": v.Value}
		}
	}

	return map[string]any{"k": "other"}
}

// c16Tree2 renders the fragment of the second model type (Model2.v): the forms of c16Tree plus IS [NOT] NULL,
// x IS [NOT] y, [NOT] LIKE-family without ESCAPE, [NOT] BETWEEN, [NOT] IN (list), calls with plain arguments, tuples.
func c16Tree2(n ast.Node) any {
	list := func(items []ast.Node) []any {
		out := []any{}
		for _, it := range items {
			out = append(out, c16Tree2(it))
		}

		return out
	}

	switch v := n.(type) {
	case *ast.BinaryExpr:
		return map[string]any{"k": "bin", "op": v.Op, "x": c16Tree2(v.X), "y": c16Tree2(v.Y)}
	case *ast.UnaryExpr:
		return map[string]any{"k": "un", "op": v.Op, "x": c16Tree2(v.X)}
	case *ast.ParenExpr:
		return map[string]any{"k": "paren", "x": c16Tree2(v.X)}
	case *ast.IsNullExpr:
		return map[string]any{"k": "isnull", "x": c16Tree2(v.X), "neg": v.Not}
	case *ast.IsExpr:
		if v.Distinct {
			return map[string]any{"k": "other"}
		}

		op := "IS"
		if v.Not {
			op = "IS NOT"
		}

		return map[string]any{"k": "bin", "op": op, "x": c16Tree2(v.X), "y": c16Tree2(v.Y)}
	case *ast.LikeExpr:
		if v.Escape != nil {
			return map[string]any{"k": "other"}
		}

		return map[string]any{"k": "like", "op": v.Op, "x": c16Tree2(v.X), "p": c16Tree2(v.Pattern), "neg": v.Not}
	case *ast.BetweenExpr:
		return map[string]any{"k": "between", "x": c16Tree2(v.X), "lo": c16Tree2(v.Low), "hi": c16Tree2(v.High), "neg": v.Not}
	case *ast.InExpr:
		if v.Sub != nil || len(v.List) == 0 {
			return map[string]any{"k": "other"}
		}

		return map[string]any{"k": "in", "x": c16Tree2(v.X), "items": list(v.List), "neg": v.Not}
	case *ast.FuncCall:
		if v.Star || v.Distinct || v.Filter != nil || len(v.Args) == 0 || strings.Contains(v.Name, ".") {
			return map[string]any{"k": "other"}
		}

		return map[string]any{"k": "call", "f": hex.EncodeToString([]byte(v.Name)), "args": list(v.Args)}
	case *ast.ExprList:
		return map[string]any{"k": "tuple", "items": list(v.Items)}
	}

	return c16Tree(n)
}

func c16Toks(src string) (any, bool) {
	toks, err := newLexer(src, ast.DialectSQLite).tokenize()
	if err != nil {
		return nil, false
	}

	out := [][]any{}

	for _, t := range toks {
		if t.kind == tokEOF {
			break
		}

		out = append(out, []any{int(t.kind), hex.EncodeToString([]byte(t.text)), t.quoted})
	}

	return out, true
}

func c16ParseExpr(src string) (ast.Node, bool) {
	p, err := newParser(src, ast.DialectSQLite)
	if err != nil {
		return nil, false
	}

	n, err := p.parseExpr()
	if err != nil || !p.atEnd() {
		return nil, false
	}

	return n, true
}

const c16Schema = `
CREATE TABLE t (a INTEGER, b INTEGER, c TEXT, "select" INTEGER, "null" TEXT, "my col" TEXT, "Not" INTEGER);
INSERT INTO t VALUES (1, 2, 'x', 10, 'n1', 'm1', 0), (2, 3, 'y''z', 20, 'n2', 'm2', 1), (3, NULL, '', 30, NULL, 'a b', 0),
  (-4, 5, 'x%', 40, 'null', '', 1), (5, 5, 'abc', 50, 'q', 'm5', NULL);
CREATE TABLE u (a INTEGER, d TEXT);
INSERT INTO u VALUES (1, 'one'), (3, 'three'), (7, 'seven');
CREATE TABLE n (v INTEGER PRIMARY KEY, g INTEGER, s TEXT);
INSERT INTO n VALUES (1, 1, 'a'), (2, 2, 'B'), (3, 3, 'c'), (4, 1, 'D'), (5, 2, 'e'), (6, 3, NULL), (7, 1, 'g'),
  (8, 2, 'H'), (9, 3, 'i'), (10, 1, NULL), (11, 2, 'k'), (12, NULL, 'L');
CREATE INDEX n_g ON n (g);
CREATE TABLE k (id INTEGER PRIMARY KEY, w TEXT UNIQUE, c INTEGER DEFAULT 7);
INSERT INTO k VALUES (1, 'x', 1), (2, 'y', 2), (3, 'z', 3);
`

func c16State(db *sql.DB) string {
	var b strings.Builder

	for _, tb := range []string{"t", "u", "n", "k"} {
		rows, err := db.Query("SELECT * FROM " + tb)
		if err != nil {
			b.WriteString("ERR;")

			continue
		}

		b.WriteString(c16Rows(rows, true))
	}

	return b.String()
}

func c16Rows(rows *sql.Rows, sorted bool) string {
	defer rows.Close()

	cols, _ := rows.Columns()
	res := []string{}

	for rows.Next() {
		vals := make([]any, len(cols))
		ptrs := make([]any, len(cols))

		for i := range vals {
			ptrs[i] = &vals[i]
		}

		if err := rows.Scan(ptrs...); err != nil {
			res = append(res, "scanerr")

			continue
		}

		res = append(res, fmt.Sprintf("%#v", vals))
	}

	if rows.Err() != nil {
		res = append(res, "rowserr")
	}

	if sorted {
		sort.Strings(res)
	}

	return fmt.Sprintf("%d cols %v", len(cols), res)
}

func c16Exec(text string) (string, string) {
	db, err := sql.Open("sqlite", ":memory:")
	if err != nil {
		return "openerr", ""
	}

	defer db.Close()
	db.SetMaxOpenConns(1)

	if _, err := db.Exec(c16Schema); err != nil {
		return "schemaerr " + err.Error(), ""
	}

	up := strings.ToUpper(strings.TrimSpace(text))
	result := ""

	if strings.HasPrefix(up, "SELECT") || strings.HasPrefix(up, "WITH") || strings.Contains(up, "RETURNING") {
		rows, err := db.Query(text)
		if err != nil {
			result = "error"
		} else {
			result = c16Rows(rows, !strings.Contains(up, "ORDER BY"))
		}
	} else {
		r, err := db.Exec(text)
		if err != nil {
			result = "error"
		} else {
			n, _ := r.RowsAffected()
			result = fmt.Sprintf("affected %d", n)
		}
	}

	return result, c16State(db)
}

func TestVerifC16(t *testing.T) {
	in, err := os.Open(os.Getenv("VERIF_IN"))
	if err != nil {
		t.Fatal(err)
	}
	defer in.Close()

	out, err := os.Create(os.Getenv("VERIF_OUT"))
	if err != nil {
		t.Fatal(err)
	}
	defer out.Close()

	w := bufio.NewWriter(out)
	defer w.Flush()

	sc := bufio.NewScanner(in)
	sc.Buffer(make([]byte, 1<<22), 1<<22)

	for sc.Scan() {
		f := strings.Fields(sc.Text())
		if len(f) < 2 {
			continue
		}

		res := map[string]any{"op": f[0]}

		func() {
			defer func() {
				if r := recover(); r != nil {
					res["panic"] = fmt.Sprint(r)
				}
			}()

			switch f[0] {
			case "S":
				dialect := SQLite
				if f[1] == "1" {
					dialect = PostgreSQL
				}

				b, _ := hex.DecodeString(f[2])
				p, err := New(string(b), dialect)
				res["ok"] = err == nil

				if err != nil {
					return
				}

				res["dump"] = c16DumpNode(p.Statement())
				f1 := p.Format()
				res["fmt"] = hex.EncodeToString([]byte(f1))
				p2, err := New(f1, dialect)
				res["ok2"] = err == nil

				if err != nil {
					return
				}

				res["dump2"] = c16DumpNode(p2.Statement())
				res["fmt2"] = hex.EncodeToString([]byte(p2.Format()))
			case "E":
				b, _ := hex.DecodeString(f[1])
				toks, ok := c16Toks(string(b))
				res["lexok"] = ok
				res["toks"] = toks
				n, ok := c16ParseExpr(string(b))
				res["ok"] = ok

				if !ok {
					return
				}

				res["tree"] = c16Tree(n)
				res["xtree"] = c16Tree2(n)
				res["dump"] = c16DumpNode(n)
				pr := &printer{dialect: ast.DialectSQLite}
				pr.expr(n)
				text := pr.b.String()
				res["fmt"] = hex.EncodeToString([]byte(text))
				toks2, ok2 := c16Toks(text)
				res["lexok2"] = ok2
				res["toks2"] = toks2
				n2, ok := c16ParseExpr(text)
				res["ok2"] = ok

				if !ok {
					return
				}

				res["tree2"] = c16Tree(n2)
				res["dump2"] = c16DumpNode(n2)
				pr2 := &printer{dialect: ast.DialectSQLite}
				pr2.expr(n2)
				res["fmt2"] = hex.EncodeToString([]byte(pr2.b.String()))
			case "L":
				b, _ := hex.DecodeString(f[1])
				toks, ok := c16Toks(string(b))
				res["lexok"] = ok
				res["toks"] = toks
			case "X":
				b, _ := hex.DecodeString(f[1])
				p, err := New(string(b), SQLite)
				res["ok"] = err == nil

				if err != nil {
					return
				}

				f1 := p.Format()
				res["fmt"] = hex.EncodeToString([]byte(f1))
				r1, s1 := c16Exec(string(b))
				r2, s2 := c16Exec(f1)
				res["r1"], res["r2"] = r1, r2
				res["same"] = r1 == r2 && s1 == s2
				res["changed"] = r1 != "error"
			}
		}()

		j, _ := json.Marshal(res)
		w.Write(j)
		w.WriteString("\n")
	}
}
