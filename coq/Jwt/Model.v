(* Jwt/Model.v — C22: JWT bearer tokens in resource-server mode (executable definitions only).

   Go code modelled: internal/server/oauth/oauth.go ValidateJWT (result cache, expiry re-check,
   revocation check), jwt.go parseAndValidateJWT / selectVerificationKey (allowed algorithms, key
   lookup, golang-jwt claim validation: exp required and now < exp, nbf, iss, aud), the user
   extraction with ego.server.oauth.user.claim = "sub", and tokens.IsIDBlacklisted / tokens.Blacklist
   as a growing set of revoked token IDs.

   Cryptography is an oracle: a raw token string is a [token] record whose fields t_key_found ("its
   kid resolves to a published signing key") and t_sig_ok ("the signature verifies under that key")
   are given; they are fixed per string (static JWKS). *)
From Common Require Import Base.
Open Scope Z_scope.

Inductive alg := RS256 | RS384 | RS512 | ES256 | ES384 | ES512 | HS256 | PS256 | EdDSA | NoneAlg.

(* jwt.go selectVerificationKey: only *SigningMethodRSA and *SigningMethodECDSA pass the type switch *)
Definition alg_allowed (a : alg) : bool :=
  match a with RS256 | RS384 | RS512 | ES256 | ES384 | ES512 => true | _ => false end.

Record token := mkT {
  t_alg : alg; t_key_found : bool; t_sig_ok : bool;
  t_iss : str; t_aud : list str; t_exp : option Z; t_nbf : option Z;
  t_jti : str; t_sub : str; t_client : str }.

Record config := mkC { c_iss : str; c_aud : str }.     (* "" = not checked (jwt.go adds the option only when set) *)

Definition is_nil (s : str) : bool := match s with [] => true | _ => false end.
Definition client_prefix : str := [99; 108; 105; 101; 110; 116; 58]%N.   (* "client:" *)

(* oauth.go step 5 with UserClaim = "sub" *)
Definition user_of (t : token) : str :=
  if negb (is_nil (t_sub t)) then t_sub t
  else if negb (is_nil (t_client t)) then client_prefix ++ t_client t else [].

Definition iss_ok (c : config) (t : token) : bool := is_nil (c_iss c) || str_eqb (t_iss t) (c_iss c).
Definition aud_ok (c : config) (t : token) : bool := is_nil (c_aud c) || existsb (str_eqb (c_aud c)) (t_aud t).
Definition exp_ok (now : Z) (t : token) : bool := match t_exp t with Some e => now <? e | None => false end.
Definition nbf_ok (now : Z) (t : token) : bool := match t_nbf t with Some n => n <=? now | None => true end.

(* parseAndValidateJWT: Some exp = verified claims *)
Definition lib_verdict (c : config) (now : Z) (t : token) : option Z :=
  if alg_allowed (t_alg t) && t_key_found t && t_sig_ok t && exp_ok now t && nbf_ok now t
     && aud_ok c t && iss_ok c t
  then t_exp t else None.

Record entry := mkE { e_user : str; e_exp : Z; e_jti : str }.
Record state := mkS { now : Z; cache : list (nat * entry); revoked : list str }.

Inductive outcome := Accept (user : str) | Revoked | Rejected.

Definition lookup (c : list (nat * entry)) (id : nat) : option entry :=
  match find (fun x => Nat.eqb (fst x) id) c with Some x => Some (snd x) | None => None end.
Definition evict (c : list (nat * entry)) (id : nat) : list (nat * entry) :=
  filter (fun x => negb (Nat.eqb (fst x) id)) c.
Definition is_revoked (rv : list str) (jti : str) : bool := negb (is_nil jti) && existsb (str_eqb jti) rv.

(* the cache-miss part of ValidateJWT; fixed = repaired code (revocation consulted before caching) *)
Definition validate_miss (fixed : bool) (cfg : config) (s : state) (c : list (nat * entry)) (id : nat) (t : token)
  : state * outcome :=
  match lib_verdict cfg (now s) t with
  | None => (mkS (now s) c (revoked s), Rejected)
  | Some e =>
      if fixed && is_revoked (revoked s) (t_jti t) then (mkS (now s) c (revoked s), Revoked)
      else if is_nil (user_of t) then (mkS (now s) c (revoked s), Rejected)
      else (mkS (now s) ((id, mkE (user_of t) e (t_jti t)) :: evict c id) (revoked s), Accept (user_of t))
  end.

Definition validate (fixed : bool) (cfg : config) (s : state) (id : nat) (t : token) : state * outcome :=
  match lookup (cache s) id with
  | Some e =>
      if now s <? e_exp e then
        if is_revoked (revoked s) (e_jti e)
        then (mkS (now s) (evict (cache s) id) (revoked s), Revoked)
        else (s, Accept (e_user e))
      else validate_miss fixed cfg s (evict (cache s) id) id t
  | None => validate_miss fixed cfg s (cache s) id t
  end.

Inductive op := Validate (id : nat) | Revoke (jti : str) | Advance (d : Z) | Evict (id : nat) | Purge.

Definition step (fixed : bool) (cfg : config) (toks : nat -> token) (s : state) (o : op) : state * option outcome :=
  match o with
  | Validate id => let '(s', r) := validate fixed cfg s id (toks id) in (s', Some r)
  | Revoke j => (mkS (now s) (cache s) (j :: revoked s), None)
  | Advance d => (mkS (now s + Z.max 0 d) (cache s) (revoked s), None)
  | Evict id => (mkS (now s) (evict (cache s) id) (revoked s), None)
  | Purge => (mkS (now s) [] (revoked s), None)
  end.

Definition run (fixed : bool) (cfg : config) (toks : nat -> token) (h : list op) (s : state) : state :=
  fold_left (fun s o => fst (step fixed cfg toks s o)) h s.

(* outcomes of all Validate ops of a history, in order (compared with the real code by the tie) *)
Fixpoint outcomes (fixed : bool) (cfg : config) (toks : nat -> token) (h : list op) (s : state) : list outcome :=
  match h with
  | [] => []
  | o :: r => let '(s', x) := step fixed cfg toks s o in
              match x with Some y => y :: outcomes fixed cfg toks r s' | None => outcomes fixed cfg toks r s' end
  end.

Definition init (t0 : Z) : state := mkS t0 [] [].

(* the property's acceptance condition, as a decidable predicate on the token's own fields *)
Definition good (cfg : config) (nw : Z) (rv : list str) (t : token) : bool :=
  alg_allowed (t_alg t) && t_key_found t && t_sig_ok t && iss_ok cfg t && aud_ok cfg t
  && exp_ok nw t && nbf_ok nw t && negb (is_revoked rv (t_jti t)).

Definition accepted (r : state * outcome) : bool := match snd r with Accept _ => true | _ => false end.

(* observable codes for the tie *)
Definition outcome_code (o : outcome) : N := match o with Accept _ => 1 | Revoked => 2 | Rejected => 0 end.
Definition outcome_user (o : outcome) : str := match o with Accept u => u | _ => [] end.
Definition tok_table (tbl : list token) (dflt : token) (id : nat) : token := nth id tbl dflt.
