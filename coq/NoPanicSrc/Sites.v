(* NoPanicSrc/Sites.v — the panic-capable sites (index, slice, unchecked assertion, computed make) of
   the modelled Go functions, with their syntactic guards, identifiers erased (harness/C07/sitedump).
   The check regenerates the list from the source on every run and obliges it to be included here. *)
From Coq Require Import String List Bool.
Import ListNotations.
Open Scope string_scope.

Definition modelled_sites : list string := [
  "arrays.go|GetSliceAsArray|slice|_[_:_]|!(_ < 0 || _ < _ || _ > len(_) || _ > len(_)) && !(_ == nil) && _() == _";
  "arrays.go|GetSlice|index|_[_]|!(_ < 0 || _ < _ || _ > _ || _ > _) && !(_ == nil) && _() == _ && range _";
  "arrays.go|GetSlice|make|make(T, len(_))|!(_ < 0 || _ < _ || _ > _ || _ > _) && !(_ == nil) && _() == _";
  "arrays.go|GetSlice|slice|_[_:_]|!(_ < 0 || _ < _ || _ > _ || _ > _) && !(_ == nil) && !(_() == _)";
  "arrays.go|GetSlice|slice|_[_:_]|!(_ < 0 || _ < _ || _ > _ || _ > _) && !(_ == nil) && _() == _";
  "callframe.go|callFramePop|slice|_[:_]|!(_ != nil) && _ && len(_) > _";
  "callframe.go|callFramePop|slice|_[:_]|!(_ != nil) && len(_) > 0";
  "callframe.go|callFramePop|slice|_[_:_]|_+1 <= _";
  "catch.go|handleCatch|assert|_.(T)|!(_ <= 0) && !(_ == nil || _(_, _)) && !(_(_, _)) && _() && for _ >= 0 && len(_) > 0 && range _";
  "catch.go|handleCatch|index|_[_]|!(_ == nil || _(_, _)) && !(_(_, _)) && _ >= 0";
  "catch.go|handleCatch|index|_[_]|!(_ == nil || _(_, _)) && !(_(_, _)) && _ >= 0 && for _ < len(_)";
  "catch.go|handleCatch|index|_[_]|!(_ == nil || _(_, _)) && !(_(_, _)) && _() && for _ >= 0";
  "catch.go|handleCatch|slice|_[:_+1]|!(_ == nil || _(_, _)) && !(_(_, _)) && _ >= 0";
  "context.go|PopWithoutUnwrapping|index|_[_]|!(_ <= 0 || len(_) < _)";
  "context.go|push|index|_[_]|";
  "context.go|push|make|make(T, _)|_ >= len(_)";
  "cursor.go|CurrentColumn|index|_[_]|!(_ == 0 || _ >= len(_))";
  "cursor.go|CurrentLine|index|_[_]|!(_ == 0 || _ >= len(_))";
  "cursor.go|NextText|index|_[_]|!(_ >= len(_))";
  "cursor.go|Next|index|_[_]|!(_ >= len(_))";
  "cursor.go|PeekText|index|_[_]|!(_ < 0 || _ >= len(_))";
  "cursor.go|Peek|index|_[_]|!(_ >= len(_) || _ < 0)";
  "defer.go|findDeferCallArgsStart|index|_[_]|for _ < _";
  "defer.go|findDeferCallEnd|index|_[_]|for _ < _";
  "defer.go|hoistDeferCallArguments|index|_[_]|!(_ >= len(_))";
  "defer.go|hoistDeferCallArguments|make|make(T, 0, len(_)*2+1)|!(_ >= len(_) || _(_)) && !(_(1)._(_)) && !(len(_) == 0)";
  "defer.go|hoistDeferReceiver|index|_[_]|!(_ >= len(_) || _(_)) && for _ < _";
  "defer.go|hoistDeferReceiver|index|_[_]|!(_ >= len(_))";
  "defer.go|hoistDeferReceiver|make|make(T, _-_)|!(_ < 0) && !(_ >= len(_) || _(_))";
  "defer.go|hoistDeferReceiver|slice|_[_:_]|!(_ < 0) && !(_ >= len(_) || _(_))";
  "expr_atom.go|compileRuneExpression|index|_[0]|!(_() == _) && len(_) == 1 && len(_) > 1 && _[0] == '\'' && _[len(_)-1] == '\''";
  "expr_atom.go|compileRuneExpression|index|_[0]|!(_() == _) && len(_) > 1";
  "expr_atom.go|compileRuneExpression|index|_[_]|!(_() == _) && !(len(_) == 1) && _ && len(_) > 1 && _[0] == '\'' && _[len(_)-1] == '\'' && range _";
  "expr_atom.go|compileRuneExpression|index|_[len(_)-1]|!(_() == _) && len(_) > 1 && _[0] == '\''";
  "expr_atom.go|compileRuneExpression|make|make(T, len(_))|!(_() == _) && !(len(_) == 1) && _ && len(_) > 1 && _[0] == '\'' && _[len(_)-1] == '\''";
  "expr_atom.go|compileRuneExpression|slice|_[1 : len(_)-1]|!(_() == _) && len(_) > 1 && _[0] == '\'' && _[len(_)-1] == '\''";
  "expr_atom.go|convertRadixToDecimal|index|_[0]|!(_()) && !(len(_) < 2 || _[0] < '0' || _[0] > '9')";
  "expr_atom.go|convertRadixToDecimal|index|_[0]|!(_()) && !(len(_) < 2 || _[0] < '0')";
  "expr_atom.go|convertRadixToDecimal|index|_[0]|!(_()) && !(len(_) < 2)";
  "expr_atom.go|convertRadixToDecimal|index|_[1]|!(_()) && !(len(_) < 2 || _[0] < '0' || _[0] > '9') && _[0] == '0'";
  "insert.go|Delete|make|make(T, 0, len(_)-_+_)|!(_ < 0 || _ >= len(_) || _ < _ || _ > len(_))";
  "insert.go|Delete|slice|_[:_]|!(_ < 0 || _ >= len(_) || _ < _ || _ > len(_))";
  "insert.go|Delete|slice|_[_:]|!(_ < 0 || _ >= len(_) || _ < _ || _ > len(_))";
  "insert.go|Insert|make|make(T, 0, len(_)+len(_))|!(_ < 0 || _ >= len(_)) && !(len(_) == 0)";
  "insert.go|Insert|slice|_[:_]|!(_ < 0 || _ >= len(_)) && !(len(_) == 0)";
  "insert.go|Insert|slice|_[_:]|!(_ < 0 || _ >= len(_)) && !(len(_) == 0)";
  "lexer.go|lexer|index|_[_-1]|!(_ == _) && _ && for _ != _ && len(_) >= 2";
  "lexer.go|lexer|index|_[_]|!(_ == _) && _ && for _ != _ && len(_) >= 2";
  "lexer.go|lexer|index|_[len(_)-len(_)+_+1]|!(_ == _) && !(len(_) > len(_)) && _ && for _ != _ && for _ < len(_)-1 && range _";
  "lexer.go|lexer|index|_[len(_)-len(_)+_]|!(_ == _) && !(len(_) > len(_)) && _ && for _ != _ && for _ < len(_)-1 && range _";
  "lexer.go|lexer|index|_[len(_)-len(_)+_]|!(_ == _) && !(len(_) > len(_)) && _ && for _ != _ && range _";
  "lexer.go|lexer|slice|_[:_-1]|!(_ == _) && _ && _ == _ && _ == ""i"" && (_ == _ || _ == _) && _ == _ && _ == _+int32(len(_)) && for _ != _ && len(_) >= 2";
  "lexer.go|lexer|slice|_[:len(_)-_]|!(_ == _) && !(len(_) > len(_)) && _ && for _ != _ && range _";
  "line.go|GetLine|index|_[_-1]|!(_ < 1 || _ > len(_)) && !(_ == nil)";
  "line.go|GetTokenText|slice|_[_ : _+1]|!(_ == nil) && !(_ > _)";
  "line.go|Remainder|index|_[_]|!(_ < 0 || _ >= len(_))";
  "line.go|Remainder|slice|_[_:]|!(_ < 0 || _ >= int32(len(_))) && !(_ < 0 || _ >= len(_))";
  "macro.go|compilerMacro|index|_[0]|!(_ == nil) && !(len(_) != 1) && _";
  "macro.go|compilerMacro|index|_[len(_)-1]|!(_ != nil) && !(_ == nil) && !(_() != _) && !(len(_) != 1) && _ && _ && len(_) > 0";
  "macro.go|compilerMacro|make|make(T, 0, len(_))|!(_ == nil) && !(_() != _) && !(len(_) != 1) && _";
  "macro.go|compilerMacro|slice|_[:len(_)-1]|!(_ != nil) && !(_ == nil) && !(_() != _) && !(len(_) != 1) && _ && _ && len(_) > 0 && _(_)";
  "math.go|divideByteCode|assert|_.(T)|!(_ != nil)";
  "math.go|divideByteCode|assert|_.(T)|!(_ != nil) && !(_ && _.(T) == 0)";
  "math.go|divideByteCode|assert|_.(T)|!(_ != nil) && !(_.(T) == 0)";
  "math.go|divideByteCode|assert|_.(T)|!(_ != nil) && _";
  "math.go|divideByteCode|div|_(_.(T)) / _(_.(T))|!(_ != nil) && !(_.(T) == 0)";
  "math.go|divideByteCode|div|_.(T) / _.(T)|!(_ != nil) && !(_ && _.(T) == 0)";
  "math.go|divideByteCode|div|_.(T) / _.(T)|!(_ != nil) && !(_.(T) == 0)";
  "math.go|moduloByteCode|assert|_.(T)|!(_ != nil) && !(_ < 1) && !(_(_) || _(_))";
  "math.go|moduloByteCode|assert|_.(T)|!(_ != nil) && !(_ < 1) && !(_(_) || _(_)) && !(_.(T) == 0)";
  "math.go|moduloByteCode|div|_(_.(T)) % _(_.(T))|!(_ != nil) && !(_ < 1) && !(_(_) || _(_)) && !(_.(T) == 0)";
  "math.go|moduloByteCode|div|_.(T) % _.(T)|!(_ != nil) && !(_ < 1) && !(_(_) || _(_)) && !(_.(T) == 0)";
  "stack.go|dropToMarkerByteCode|assert|_.(T)|!(_ != nil) && !(_ <= _) && _ && _ != nil && for !_";
  "stack.go|stackCheckByteCode|index|_[_-(_+1)]|!(_ != nil || _ <= _)";
  "stack.go|stackCheckByteCode|index|_[_]|!(_ != nil || _ <= _) && for _ >= 0";
  "testing.go|testDirective|index|_[0]|!(!_) && !(_ == """")";
  "testing.go|testDirective|slice|_[:46]|!(!_) && !(_ == """") && len(_) > 48";
  "tokenizer.go|GetTokens|slice|_[_:_]|"
].

Definition sites_included (found known : list string) : bool :=
  forallb (fun s => existsb (String.eqb s) known) found.
Definition sites_missing (found known : list string) : list string :=
  filter (fun s => negb (existsb (String.eqb s) known)) found.
