//go:build verif

package authserver

import "github.com/tucats/ego/internal/caches"

// Overlaid only together with an instrumented internal/caches/delete.go, i.e. when caches.Delete is no
// longer one critical section: requests can then be parked in the gaps between its lock regions.
func init() {
	c23DeleteGaps = true
	caches.VerifYield = func(label string) { c23Yield(label) }
}
