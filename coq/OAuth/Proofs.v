(* OAuth/Proofs.v — lemmas for C23 *)
From Common Require Import Base.
From OAuth Require Import Model.
Open Scope nat_scope.

(* ---- the invariant: at most one Delete observes the entry present *)
Definition inv (s : state) : Prop :=
  let '(present, tr) := s in
  (present = true -> forall t, thread_deleted tr t = false) /\
  (exists t0, forall t, thread_deleted tr t = true -> t = t0).

Lemma inv_init present : inv (present, []).
Proof. split; [reflexivity|]. exists 0. intros t H. discriminate H. Qed.

Lemma inv_step s a : inv s -> inv (step s a).
Proof.
  destruct s as [present tr]. intros [Hp [t0 Ht0]]. destruct a as [t|t|]; cbn [step].
  - (* Find: no delete event added *)
    split.
    + intros Hpr u. unfold thread_deleted. cbn [existsb is_delete_true]. apply Hp, Hpr.
    + exists t0. intros u Hu. apply Ht0. exact Hu.
  - destruct (thread_found tr t) eqn:Hf.
    + split; [discriminate|].
      destruct present.
      * (* the first delete that sees the entry *)
        exists t. intros u Hu. unfold thread_deleted in Hu. cbn [existsb is_delete_true] in Hu.
        apply orb_true_iff in Hu. destruct Hu as [Hu|Hu].
        -- apply Nat.eqb_eq in Hu. congruence.
        -- fold (thread_deleted tr u) in Hu. rewrite (Hp eq_refl u) in Hu. discriminate.
      * exists t0. intros u Hu. unfold thread_deleted in Hu. cbn [existsb is_delete_true] in Hu.
        apply Ht0. exact Hu.
    + split; [exact Hp|]. exists t0. exact Ht0.
  - split; [discriminate|]. exists t0. intros u Hu. apply Ht0. exact Hu.
Qed.

Lemma inv_fold sched : forall s, inv s -> inv (fold_left step sched s).
Proof. induction sched as [|a r IH]; intros s Hs; [exact Hs|]. cbn [fold_left]. apply IH, inv_step, Hs. Qed.

Lemma inv_exec present sched : inv (exec present sched).
Proof. apply inv_fold, inv_init. Qed.

Lemma one_deleter present sched :
  exists t0, forall t, success (trace (exec present sched)) t = true -> t = t0.
Proof.
  pose proof (inv_exec present sched) as H. destruct (exec present sched) as [p tr].
  destruct H as [_ [t0 Ht0]]. exists t0. intros t Hs. unfold success, trace in Hs. cbn [snd] in Hs.
  apply andb_true_iff in Hs. apply Ht0, Hs.
Qed.

(* ---- counting *)
Lemma filter_le1 {A} (key : A -> nat) (f : A -> bool) (t0 : nat) (l : list A) :
  NoDup (map key l) -> (forall x, f x = true -> key x = t0) -> length (filter f l) <= 1.
Proof.
  intros Hnd Hf. induction l as [|a l IH]; [cbn; lia|].
  cbn [map] in Hnd. inversion Hnd as [|? ? Hnotin Hnd']; subst.
  cbn [filter]. destruct (f a) eqn:Ha.
  - assert (Hnil : filter f l = []).
    { destruct (filter f l) as [|b r] eqn:Hfl; [reflexivity|]. exfalso.
      assert (Hb : In b (filter f l)) by (rewrite Hfl; left; reflexivity).
      apply filter_In in Hb. destruct Hb as [Hbin Hfb].
      apply Hnotin. rewrite (Hf a Ha), <- (Hf b Hfb). apply in_map, Hbin. }
    rewrite Hnil. cbn. lia.
  - apply IH, Hnd'.
Qed.

Lemma single_use_any n sched present :
  successes n (success (trace (exec present sched))) <= 1.
Proof.
  destruct (one_deleter present sched) as [t0 Ht0]. unfold successes.
  apply (filter_le1 (fun t => t) _ t0).
  - rewrite map_id. apply seq_NoDup.
  - exact Ht0.
Qed.

Lemma single_use n sched present :
  interleaving n sched -> successes n (success (trace (exec present sched))) <= 1.
Proof. intros _. apply single_use_any. Qed.

(* the repaired code still lets a lone request redeem: not "nobody ever succeeds" *)
Lemma lone_request_succeeds t : success (trace (exec true (thread t))) t = true.
Proof.
  unfold exec, thread. cbn [fold_left step]. unfold thread_found at 1.
  cbn [existsb is_find_true]. rewrite Nat.eqb_refl. cbn [orb].
  unfold trace, success. cbn [snd]. unfold thread_found, thread_deleted.
  cbn [existsb is_find_true is_delete_true]. rewrite Nat.eqb_refl. reflexivity.
Qed.

(* ---- the old code: F0 F1 D0 D1 redeems twice *)
Definition bad_sched : list act := [AFind 0; AFind 1; ADelete 0; ADelete 1].

Lemma bad_sched_interleaving : interleaving 2 bad_sched.
Proof.
  exists 0. cbn [repeat seq map thread]. unfold bad_sched.
  apply (merge_cons [[]] (AFind 0) [ADelete 0] [[AFind 1; ADelete 1]]). cbn [app].
  apply (merge_cons [[]; [ADelete 0]] (AFind 1) [ADelete 1] []). cbn [app].
  apply (merge_cons [[]] (ADelete 0) [] [[ADelete 1]]). cbn [app].
  apply (merge_cons [[]; []] (ADelete 1) [] []). cbn [app].
  apply merge_nil. repeat constructor.
Qed.

Lemma refuted_current :
  exists sched, interleaving 2 sched /\ successes 2 (success_old (trace (exec true sched))) = 2.
Proof. exists bad_sched. split; [exact bad_sched_interleaving|]. vm_compute. reflexivity. Qed.

(* ---- the endpoint *)
Section Sha.
  Variable sha256 : list N -> list N.

  Lemma pkce_sound p r :
    grant sha256 p r = R200 ->
    p_client p = r_client r /\ p_redirect p = r_redirect r /\
    (r_public r = true -> p_challenge p <> []) /\
    (p_challenge p <> [] -> p_method p = s256 /\ b64url (sha256 (r_verifier r)) = p_challenge p).
  Proof.
    unfold grant, verify_pkce. intros H.
    destruct (str_eqb (p_client p) (r_client r)) eqn:Hc; cbn [negb] in H; [|discriminate].
    destruct (str_eqb (p_redirect p) (r_redirect r)) eqn:Hr; cbn [negb] in H; [|discriminate].
    apply str_eqb_eq in Hc. apply str_eqb_eq in Hr.
    split; [exact Hc|]. split; [exact Hr|].
    destruct (p_challenge p) as [|c cs] eqn:Hch.
    - cbn [is_nil] in H. rewrite andb_true_r in H. destruct (r_public r); [discriminate|].
      split; [discriminate|]. intros Hne. congruence.
    - cbn [is_nil] in H. rewrite andb_false_r in H.
      split; [intros _; discriminate|]. intros _.
      destruct (str_eqb (p_method p) s256) eqn:Hm; cbn [negb] in H; [|discriminate].
      destruct (str_eqb (b64url (sha256 (r_verifier r))) (c :: cs)) eqn:Hv; [|discriminate].
      apply str_eqb_eq in Hm. apply str_eqb_eq in Hv. split; assumption.
  Qed.

  Lemma map_fst_combine {A B} : forall (l : list A) (l' : list B),
    length l = length l' -> map fst (combine l l') = l.
  Proof.
    induction l as [|a l IH]; intros [|b l'] H; try discriminate; [reflexivity|].
    cbn [combine map fst]. f_equal. apply IH. cbn in H. lia.
  Qed.

  Lemma count_map {A} (g : A -> resp) (l : list A) :
    count200 (map g l) = length (filter (fun x => is200 (g x)) l).
  Proof.
    unfold count200. induction l as [|x l' IH]; [reflexivity|]. cbn [map filter].
    destruct (is200 (g x)); cbn [length]; rewrite IH; reflexivity.
  Qed.

  Lemma tokens_at_most_once present p reqs sched : tokens_issued sha256 false present p reqs sched <= 1.
  Proof.
    unfold tokens_issued, responses. cbn [fst snd].
    destruct (one_deleter present sched) as [t0 Ht0].
    rewrite count_map. apply (filter_le1 fst _ t0).
    - unfold threads_of. rewrite map_fst_combine; [apply seq_NoDup|apply seq_length].
    - intros [t r] H. cbn [fst snd] in *. apply Ht0.
      unfold respond in H. destruct (success (trace (exec present sched)) t); [reflexivity|discriminate].
  Qed.

  (* a token response implies that this thread's consume succeeded and its PKCE data matched *)
  Lemma respond_200 consumed p r :
    respond sha256 consumed p r = R200 -> consumed = true /\ grant sha256 p r = R200.
  Proof. unfold respond. destruct consumed; [auto|discriminate]. Qed.

  Lemma refresh_at_most_once present owner (reqs : list request) sched :
    count200 (responses_refresh false present owner reqs sched) <= 1.
  Proof.
    unfold responses_refresh.
    destruct (one_deleter present sched) as [t0 Ht0].
    rewrite count_map. apply (filter_le1 fst _ t0).
    - unfold threads_of. rewrite map_fst_combine; [apply seq_NoDup|apply seq_length].
    - intros [t r] H. cbn [fst snd] in *. apply Ht0. unfold respond_refresh in H.
      destruct (success (trace (exec present sched)) t); [reflexivity|discriminate].
  Qed.
End Sha.

Lemma pkce_full (sha256 : list N -> list N) consumed p r :
  respond sha256 consumed p r = R200 ->
  consumed = true /\ p_client p = r_client r /\ p_redirect p = r_redirect r /\
  (r_public r = true -> p_challenge p <> []) /\
  (p_challenge p <> [] -> p_method p = s256 /\ b64url (sha256 (r_verifier r)) = p_challenge p).
Proof.
  intros H. apply respond_200 in H. destruct H as [Hc Hg].
  split; [exact Hc|]. exact (pkce_sound sha256 p r Hg).
Qed.

(* with the old success criterion the endpoint itself issues two token responses *)
Definition demo_p : pending := mkP [99%N] [117%N] [] [].
Definition demo_r : request := mkR [99%N] [117%N] [] false.
Lemma tokens_twice_old : tokens_issued (fun _ => []) true true demo_p [demo_r; demo_r] bad_sched = 2.
Proof. vm_compute. reflexivity. Qed.
