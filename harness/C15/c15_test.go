//go:build verif

package sqlparse

// Overlaid into /repo/internal/sqlparse by /verif/check C15.
//
// TestVerifC15Schema is the translator: it parses the CURRENT ast/*.go and analyze.go with
// go/parser and prints, per AST node type, its fields with their Go types, the fields its
// Children() returns, and per statement type what Tables() passes to read / write / admin and
// what StatementKind() answers.
//
// TestVerifC15 parses SQL texts with the real parser and prints, per statement, the real
// Tables() / StatementKind() answers together with the parse tree exported generically by
// reflection (every exported field that can hold AST nodes, whether or not Children() returns it).

import (
	"bufio"
	"bytes"
	"database/sql"
	"encoding/hex"
	"encoding/json"
	"go/ast"
	goparser "go/parser"
	goprinter "go/printer"
	gotoken "go/token"
	"os"
	"path/filepath"
	"reflect"
	"sort"
	"strconv"
	"strings"
	"testing"

	sqlast "github.com/tucats/ego/internal/sqlparse/ast"

	_ "modernc.org/sqlite"
)

// ------------------------------------------------------------------------------- tree export

type c15Field struct {
	Name string     `json:"name"`
	Kids []*c15Node `json:"kids"`
}

type c15Node struct {
	Ty     string            `json:"ty"`
	Name   string            `json:"name,omitempty"` // TableRef: schema-qualified name as Tables() would print it
	Strs   map[string]string `json:"strs,omitempty"`
	Fields []c15Field        `json:"fields"`
	InCh   bool              `json:"in_children"` // the parent's Children() returned this node
}

var c15NodeType = reflect.TypeOf((*sqlast.Node)(nil)).Elem()

func c15Collect(v reflect.Value, out *[]sqlast.Node) {
	switch v.Kind() {
	case reflect.Interface, reflect.Ptr:
		if v.IsNil() {
			return
		}

		if v.Type().Implements(c15NodeType) && v.CanInterface() {
			if n, ok := v.Interface().(sqlast.Node); ok {
				*out = append(*out, n)

				return
			}
		}

		if v.Kind() == reflect.Interface {
			c15Collect(v.Elem(), out)
		}
	case reflect.Slice:
		for i := 0; i < v.Len(); i++ {
			c15Collect(v.Index(i), out)
		}
	}
}

func c15Export(n sqlast.Node, inCh bool) *c15Node {
	v := reflect.ValueOf(n)
	for v.Kind() == reflect.Ptr {
		v = v.Elem()
	}

	res := &c15Node{Ty: v.Type().Name(), Fields: []c15Field{}, InCh: inCh, Strs: map[string]string{}}
	if r, ok := n.(*sqlast.TableRef); ok {
		res.Name = tableRefName(r)
	}

	kids := map[sqlast.Node]bool{}
	for _, c := range n.Children() {
		kids[c] = true
	}

	for i := 0; i < v.NumField(); i++ {
		f := v.Type().Field(i)
		if !f.IsExported() || f.Anonymous {
			continue
		}

		if f.Type.Kind() == reflect.String {
			res.Strs[f.Name] = v.Field(i).String()

			continue
		}

		var found []sqlast.Node

		c15Collect(v.Field(i), &found)

		if len(found) == 0 {
			continue
		}

		fl := c15Field{Name: f.Name}
		for _, k := range found {
			fl.Kids = append(fl.Kids, c15Export(k, kids[k]))
		}

		res.Fields = append(res.Fields, fl)
	}

	return res
}

// c15Touched is what SQLite itself says a statement touches: EXPLAIN's OpenRead / OpenWrite / Clear / Destroy
// opcodes with their root pages mapped back to table names through sqlite_master (an index's pages count for
// its table; root page 1 is the schema table: a schema write).
type c15Touched struct {
	OK      bool     `json:"ok"`            // EXPLAIN succeeded
	Err     string   `json:"err,omitempty"` // why not
	Reads   []string `json:"reads"`
	Writes  []string `json:"writes"`
	Schema  bool     `json:"schema_write"`
	Exec    string   `json:"exec"` // "ok" | "err: ..." : the statement really executed afterwards
	Created []string `json:"created"`
}

func c15TreeNames(n *c15Node, skipField string, acc map[string]bool) {
	for _, f := range n.Fields {
		for _, k := range f.Kids {
			if skipField != "" && f.Name == skipField {
				continue
			}

			if k.Ty == "TableRef" && k.Name != "" {
				acc[k.Name] = true
			}

			c15TreeNames(k, "", acc)
		}
	}
}

const c15Cols = "(id INTEGER, a INTEGER, b INTEGER, c INTEGER, x INTEGER, y INTEGER, v TEXT, c0 INTEGER, c1 INTEGER, c2 INTEGER, d0 INTEGER, d1 INTEGER, d2 INTEGER)"

func c15Explain(stmt string, kind string, tree *c15Node) c15Touched {
	res := c15Touched{Reads: []string{}, Writes: []string{}, Created: []string{}}

	h, err := sql.Open("sqlite", ":memory:")
	if err != nil {
		res.Err = "open"

		return res
	}
	defer h.Close()

	h.SetMaxOpenConns(1)

	// every table the tree names, found by reflection (not through Tables()), except what the statement creates
	names := map[string]bool{}
	skip := ""

	if tree.Ty == "CreateTableStmt" {
		skip = "Table"
	}

	c15TreeNames(tree, skip, names)

	if tree.Ty == "CreateIndexStmt" && tree.Strs["Table"] != "" {
		names[tree.Strs["Table"]] = true
	}

	for n := range names {
		bare := n
		if i := strings.LastIndex(n, "."); i >= 0 {
			bare = n[i+1:]
		}

		if _, err := h.Exec("CREATE TABLE IF NOT EXISTS \"" + bare + "\" " + c15Cols); err == nil {
			res.Created = append(res.Created, bare)
		}
	}

	switch tree.Ty {
	case "DropIndexStmt":
		h.Exec("CREATE TABLE ixhost (a INTEGER)")
		h.Exec("CREATE INDEX \"" + tree.Strs["Name"] + "\" ON ixhost (a)")
	case "DropViewStmt":
		h.Exec("CREATE VIEW \"" + tree.Strs["Name"] + "\" AS SELECT 1 AS one")
	}

	sort.Strings(res.Created)

	pages := map[int64]string{}

	rows, err := h.Query("SELECT tbl_name, rootpage FROM sqlite_master WHERE rootpage > 0")
	if err == nil {
		for rows.Next() {
			var (
				n string
				r int64
			)

			if rows.Scan(&n, &r) == nil {
				pages[r] = n
			}
		}

		rows.Close()
	}

	reads, writes := map[string]bool{}, map[string]bool{}

	// unbound placeholders: one NULL argument each
	args := make([]any, strings.Count(stmt, "?"))

	rows, err = h.Query("EXPLAIN "+stmt, args...)
	if err != nil {
		res.Err = err.Error()
	} else {
		for rows.Next() {
			var (
				addr, p1, p2, p3 int64
				op               string
				p4, p5, cm       sql.NullString
			)

			if err := rows.Scan(&addr, &op, &p1, &p2, &p3, &p4, &p5, &cm); err != nil {
				res.Err = "scan: " + err.Error()

				break
			}

			root := int64(-1)
			write := false

			// OPFLAG_P2ISREG: P2 is a register holding the root page of an object created by this very statement
			if f, err := strconv.ParseInt(p5.String, 10, 64); err == nil && f&0x10 != 0 && (op == "OpenWrite" || op == "OpenRead") {
				continue
			}

			switch op {
			case "OpenRead", "ReopenIdx":
				root = p2
			case "OpenWrite":
				root, write = p2, true
			case "Clear", "Destroy":
				root, write = p1, true
			}

			if root < 0 {
				continue
			}

			if root == 1 {
				if write {
					res.Schema = true
				}

				continue
			}

			if n, ok := pages[root]; ok {
				if write {
					writes[n] = true
				} else {
					reads[n] = true
				}
			}
		}

		if err := rows.Err(); err != nil && res.Err == "" {
			res.Err = err.Error()
		}

		rows.Close()

		res.OK = res.Err == ""
	}

	for n := range reads {
		res.Reads = append(res.Reads, n)
	}

	for n := range writes {
		res.Writes = append(res.Writes, n)
	}

	sort.Strings(res.Reads)
	sort.Strings(res.Writes)

	if _, err := h.Exec(stmt, args...); err != nil {
		res.Exec = "err: " + err.Error()
	} else {
		res.Exec = "ok"
	}

	_ = kind

	return res
}

// c15Exec runs one statement on a fresh in-memory SQLite database holding the tables the generator
// uses, so that the only reason for a refusal is the statement's own shape.
func c15Exec(stmt string) string {
	h, err := sql.Open("sqlite", ":memory:")
	if err != nil {
		return "open: " + err.Error()
	}
	defer h.Close()

	h.SetMaxOpenConns(1)

	for _, t := range []string{"t", "u", "v", "w", "o1", "o2", "o3"} {
		if _, err := h.Exec("CREATE TABLE " + t + " (id INTEGER, a INTEGER, b TEXT)"); err != nil {
			return "setup: " + err.Error()
		}
	}

	if _, err := h.Exec(stmt); err != nil {
		return "err: " + err.Error()
	}

	return "ok"
}

type c15Out struct {
	ID     int         `json:"id"`
	OK     bool        `json:"ok"`
	Kind   string      `json:"kind,omitempty"`
	Tables [][]string  `json:"tables"`          // [name, usage]
	Exec   string      `json:"exec,omitempty"`  // "ok" | "err: ..." when the formatted text was run on SQLite
	Touch  *c15Touched `json:"touch,omitempty"` // SQLite dialect only: what EXPLAIN says the statement touches
	Format string      `json:"format,omitempty"`
	Tree   *c15Node    `json:"tree,omitempty"`
	Err    string      `json:"err,omitempty"`
}

func TestVerifC15(t *testing.T) {
	in, err := os.Open(os.Getenv("VERIF_IN"))
	if err != nil {
		t.Fatal(err)
	}
	defer in.Close()

	out, err := os.Create(os.Getenv("VERIF_OUT"))
	if err != nil {
		t.Fatal(err)
	}
	defer out.Close()

	w := bufio.NewWriter(out)
	defer w.Flush()

	sc := bufio.NewScanner(in)
	sc.Buffer(make([]byte, 1<<20), 1<<20)

	id := 0

	for sc.Scan() {
		f := strings.Fields(sc.Text())
		if len(f) != 2 {
			continue
		}

		dialect := SQLite
		if f[0] == "P" {
			dialect = PostgreSQL
		}

		execute := f[0] == "X"

		b, _ := hex.DecodeString(f[1])
		o := c15Out{ID: id}
		id++

		func() {
			defer func() {
				if r := recover(); r != nil {
					o.OK = false
					o.Err = "PANIC"
				}
			}()

			p, err := New(string(b), dialect)
			if err != nil {
				o.Err = "parse"

				return
			}

			o.OK = true
			o.Kind = p.StatementKind().String()
			o.Format = p.Format()
			o.Tables = [][]string{}

			for _, u := range p.Tables() {
				o.Tables = append(o.Tables, []string{u.Name, u.Usage.String()})
			}

			o.Tree = c15Export(p.stmt, true)

			if execute {
				o.Exec = c15Exec(o.Format)
			}

			if dialect == SQLite {
				tc := c15Explain(o.Format, o.Kind, o.Tree)
				o.Touch = &tc
			}
		}()

		j, _ := json.Marshal(o)
		w.Write(j)
		w.WriteString("\n")
	}
}

// ------------------------------------------------------------------------------- translator

type c15SField struct {
	Name string `json:"name"`
	Type string `json:"type"` // Go type as written
	Cat  string `json:"cat"`  // node | string | other  (node: can hold AST nodes)
}

type c15Type struct {
	Name     string      `json:"name"`
	Stmt     bool        `json:"stmt"` // embeds BaseStmt
	Fields   []c15SField `json:"fields"`
	Children []string    `json:"children"` // fields whose content Children() returns
	HasCh    bool        `json:"has_children_method"`
}

type c15Case struct {
	Types    []string `json:"types"`
	Whole    bool     `json:"whole"`     // read(s)
	Read     []string `json:"read"`      // fields passed to read(...)
	Write    []string `json:"write"`     // fields passed to write(...)
	AdminRef []string `json:"admin_ref"` // admin(tableRefName(s.F))
	AdminStr []string `json:"admin_str"` // admin(s.F) with F a string field
}

type c15Schema struct {
	Types     []c15Type         `json:"types"`
	Cases     []c15Case         `json:"cases"`
	Kinds     map[string]string `json:"kinds"`       // statement type -> Stmt constant
	WalkViaCh bool              `json:"walk_via_ch"` // ast.Walk recurses over node.Children()
	ReadWalks bool              `json:"read_walks"`  // read() uses ast.Walk and records *ast.TableRef
}

func c15Text(fset *gotoken.FileSet, n ast.Node) string {
	var b bytes.Buffer

	goprinter.Fprint(&b, fset, n)

	return strings.Join(strings.Fields(b.String()), " ")
}

// fields of receiver `recv` mentioned in expression e, through tainted locals
func c15Mention(e ast.Node, recv string, taint map[string]map[string]bool) map[string]bool {
	res := map[string]bool{}

	ast.Inspect(e, func(x ast.Node) bool {
		switch v := x.(type) {
		case *ast.SelectorExpr:
			if id, ok := v.X.(*ast.Ident); ok && id.Name == recv {
				res[v.Sel.Name] = true

				return false
			}
		case *ast.Ident:
			for k := range taint[v.Name] {
				res[k] = true
			}
		}

		return true
	})

	return res
}

func c15LhsName(e ast.Expr) string {
	switch v := e.(type) {
	case *ast.Ident:
		return v.Name
	case *ast.IndexExpr:
		return c15LhsName(v.X)
	}

	return ""
}

func TestVerifC15Schema(t *testing.T) {
	src := os.Getenv("VERIF_SRC")
	fset := gotoken.NewFileSet()
	sch := c15Schema{Kinds: map[string]string{}}

	files, _ := filepath.Glob(filepath.Join(src, "internal/sqlparse/ast/*.go"))
	sort.Strings(files)

	nodeTypes := map[string]*c15Type{}
	structs := map[string]*ast.StructType{}

	var parsed []*ast.File

	for _, fn := range files {
		if strings.HasSuffix(fn, "_test.go") {
			continue
		}

		f, err := goparser.ParseFile(fset, fn, nil, 0)
		if err != nil {
			t.Fatal(err)
		}

		parsed = append(parsed, f)

		for _, d := range f.Decls {
			if g, ok := d.(*ast.GenDecl); ok {
				for _, s := range g.Specs {
					if ts, ok := s.(*ast.TypeSpec); ok {
						if st, ok := ts.Type.(*ast.StructType); ok {
							structs[ts.Name.Name] = st
						}
					}
				}
			}
		}
	}

	// node types = structs with a Children method
	for _, f := range parsed {
		for _, d := range f.Decls {
			fd, ok := d.(*ast.FuncDecl)
			if !ok || fd.Recv == nil || fd.Name.Name != "Children" || len(fd.Recv.List) != 1 {
				continue
			}

			rt := fd.Recv.List[0].Type
			if s, ok := rt.(*ast.StarExpr); ok {
				rt = s.X
			}

			id, ok := rt.(*ast.Ident)
			if !ok || structs[id.Name] == nil || id.Name == "BaseNode" || id.Name == "BaseStmt" {
				continue
			}

			ty := &c15Type{Name: id.Name, HasCh: true, Fields: []c15SField{}, Children: []string{}}
			nodeTypes[id.Name] = ty

			recv := "_"
			if len(fd.Recv.List[0].Names) == 1 {
				recv = fd.Recv.List[0].Names[0].Name
			}

			// taint analysis: which receiver fields flow into the returned value
			taint := map[string]map[string]bool{}
			add := func(name string, m map[string]bool) {
				if name == "" || name == "_" {
					return
				}

				if taint[name] == nil {
					taint[name] = map[string]bool{}
				}

				for k := range m {
					taint[name][k] = true
				}
			}

			for round := 0; round < 4; round++ {
				ast.Inspect(fd.Body, func(x ast.Node) bool {
					switch v := x.(type) {
					case *ast.AssignStmt:
						for i, l := range v.Lhs {
							r := v.Rhs[0]
							if len(v.Rhs) == len(v.Lhs) {
								r = v.Rhs[i]
							}

							add(c15LhsName(l), c15Mention(r, recv, taint))
						}
					case *ast.RangeStmt:
						m := c15Mention(v.X, recv, taint)
						if v.Key != nil {
							add(c15LhsName(v.Key), map[string]bool{})
						}

						if v.Value != nil {
							add(c15LhsName(v.Value), m)
						}
					case *ast.DeclStmt:
						if g, ok := v.Decl.(*ast.GenDecl); ok {
							for _, s := range g.Specs {
								if vs, ok := s.(*ast.ValueSpec); ok {
									for i, nm := range vs.Names {
										if i < len(vs.Values) {
											add(nm.Name, c15Mention(vs.Values[i], recv, taint))
										}
									}
								}
							}
						}
					}

					return true
				})
			}

			ret := map[string]bool{}

			ast.Inspect(fd.Body, func(x ast.Node) bool {
				if r, ok := x.(*ast.ReturnStmt); ok {
					for _, e := range r.Results {
						for k := range c15Mention(e, recv, taint) {
							ret[k] = true
						}
					}
				}

				return true
			})

			for k := range ret {
				ty.Children = append(ty.Children, k)
			}

			sort.Strings(ty.Children)
		}
	}

	// field categories
	var canHold func(e ast.Expr) bool

	canHold = func(e ast.Expr) bool {
		switch v := e.(type) {
		case *ast.Ident:
			return v.Name == "Node" || v.Name == "Statement" || nodeTypes[v.Name] != nil
		case *ast.StarExpr:
			return canHold(v.X)
		case *ast.ArrayType:
			return canHold(v.Elt)
		case *ast.InterfaceType:
			return true
		case *ast.MapType:
			return canHold(v.Value) || canHold(v.Key)
		}

		return false
	}

	names := []string{}
	for n := range nodeTypes {
		names = append(names, n)
	}

	sort.Strings(names)

	for _, n := range names {
		ty := nodeTypes[n]

		for _, f := range structs[n].Fields.List {
			if len(f.Names) == 0 {
				if id, ok := f.Type.(*ast.Ident); ok && id.Name == "BaseStmt" {
					ty.Stmt = true
				}

				continue
			}

			for _, nm := range f.Names {
				cat := "other"
				if canHold(f.Type) {
					cat = "node"
				} else if id, ok := f.Type.(*ast.Ident); ok && id.Name == "string" {
					cat = "string"
				}

				ty.Fields = append(ty.Fields, c15SField{Name: nm.Name, Type: c15Text(fset, f.Type), Cat: cat})
			}
		}

		sch.Types = append(sch.Types, *ty)
	}

	// ast.Walk
	for _, f := range parsed {
		for _, d := range f.Decls {
			if fd, ok := d.(*ast.FuncDecl); ok && fd.Recv == nil && fd.Name.Name == "Walk" {
				txt := c15Text(fset, fd.Body)
				sch.WalkViaCh = strings.Contains(txt, "range node.Children()") && strings.Contains(txt, "Walk(child, fn)")
			}
		}
	}

	// analyze.go
	af, err := goparser.ParseFile(fset, filepath.Join(src, "internal/sqlparse/analyze.go"), nil, 0)
	if err != nil {
		t.Fatal(err)
	}

	typeNames := func(cc *ast.CaseClause) []string {
		var res []string

		for _, e := range cc.List {
			if s, ok := e.(*ast.StarExpr); ok {
				if sel, ok := s.X.(*ast.SelectorExpr); ok {
					res = append(res, sel.Sel.Name)
				}
			}
		}

		return res
	}

	found := 0

	for _, d := range af.Decls {
		fd, ok := d.(*ast.FuncDecl)
		if !ok || fd.Recv == nil {
			continue
		}

		switch fd.Name.Name {
		case "StatementKind":
			ast.Inspect(fd.Body, func(x ast.Node) bool {
				if cc, ok := x.(*ast.CaseClause); ok {
					for _, tn := range typeNames(cc) {
						for _, s := range cc.Body {
							if r, ok := s.(*ast.ReturnStmt); ok && len(r.Results) == 1 {
								sch.Kinds[tn] = c15Text(fset, r.Results[0])
							}
						}
					}
				}

				return true
			})

			found++
		case "Tables":
			// the read closure must be: ast.Walk(n, ...) recording *ast.TableRef as UsageRead
			ast.Inspect(fd.Body, func(x ast.Node) bool {
				if as, ok := x.(*ast.AssignStmt); ok && len(as.Lhs) == 1 && c15LhsName(as.Lhs[0]) == "read" {
					txt := c15Text(fset, as.Rhs[0])
					sch.ReadWalks = strings.Contains(txt, "ast.Walk(n,") && strings.Contains(txt, "node.(*ast.TableRef)") &&
						strings.Contains(txt, "UsageRead") && strings.Contains(txt, "return true") && !strings.Contains(txt, "return false")
				}

				return true
			})

			ast.Inspect(fd.Body, func(x ast.Node) bool {
				ts, ok := x.(*ast.TypeSwitchStmt)
				if !ok {
					return true
				}

				bind := ""
				if as, ok := ts.Assign.(*ast.AssignStmt); ok && len(as.Lhs) == 1 {
					bind = c15LhsName(as.Lhs[0])
				}

				for _, c := range ts.Body.List {
					cc := c.(*ast.CaseClause)
					cs := c15Case{Types: typeNames(cc), Read: []string{}, Write: []string{}, AdminRef: []string{}, AdminStr: []string{}}

					for _, s := range cc.Body {
						if rs, ok := s.(*ast.RangeStmt); ok {
							// for _, x := range s.F { read(x) }
							sel, ok1 := rs.X.(*ast.SelectorExpr)
							val := ""
							if rs.Value != nil {
								val = c15LhsName(rs.Value)
							}

							good := ok1 && c15LhsName(sel.X) == bind && val != "" && len(rs.Body.List) == 1
							if good {
								es, ok2 := rs.Body.List[0].(*ast.ExprStmt)
								good = ok2
								if ok2 {
									call, ok3 := es.X.(*ast.CallExpr)
									good = ok3 && c15LhsName(call.Fun) == "read" && len(call.Args) == 1 && c15LhsName(call.Args[0]) == val
								}
							}

							if !good {
								t.Fatalf("anchor: loop in Tables() case %v not understood: %s", cs.Types, c15Text(fset, s))
							}

							cs.Read = append(cs.Read, sel.Sel.Name)

							continue
						}

						es, ok := s.(*ast.ExprStmt)
						if !ok {
							t.Fatalf("anchor: unexpected statement in Tables() case %v: %s", cs.Types, c15Text(fset, s))
						}

						call, ok := es.X.(*ast.CallExpr)
						if !ok {
							t.Fatalf("anchor: unexpected expression in Tables() case %v", cs.Types)
						}

						fn := c15LhsName(call.Fun)

						for _, a := range call.Args {
							switch fn {
							case "read":
								if id, ok := a.(*ast.Ident); ok && id.Name == bind {
									cs.Whole = true
								} else if sel, ok := a.(*ast.SelectorExpr); ok && c15LhsName(sel.X) == bind {
									cs.Read = append(cs.Read, sel.Sel.Name)
								} else {
									t.Fatalf("anchor: read() argument not understood: %s", c15Text(fset, a))
								}
							case "write":
								if sel, ok := a.(*ast.SelectorExpr); ok && c15LhsName(sel.X) == bind {
									cs.Write = append(cs.Write, sel.Sel.Name)
								} else {
									t.Fatalf("anchor: write() argument not understood: %s", c15Text(fset, a))
								}
							case "admin":
								if sel, ok := a.(*ast.SelectorExpr); ok && c15LhsName(sel.X) == bind {
									cs.AdminStr = append(cs.AdminStr, sel.Sel.Name)
								} else if c2, ok := a.(*ast.CallExpr); ok && c15LhsName(c2.Fun) == "tableRefName" && len(c2.Args) == 1 {
									if sel, ok := c2.Args[0].(*ast.SelectorExpr); ok && c15LhsName(sel.X) == bind {
										cs.AdminRef = append(cs.AdminRef, sel.Sel.Name)
									}
								} else {
									// e.g. an index name qualified by hand: every receiver field mentioned counts as a string source
									m := c15Mention(a, bind, nil)
									if len(m) == 0 {
										t.Fatalf("anchor: admin() argument not understood: %s", c15Text(fset, a))
									}

									for k := range m {
										cs.AdminStr = append(cs.AdminStr, k)
									}

									sort.Strings(cs.AdminStr)
								}
							default:
								t.Fatalf("anchor: unexpected call %s in Tables() case %v", fn, cs.Types)
							}
						}
					}

					sch.Cases = append(sch.Cases, cs)
				}

				found++

				return false
			})
		}
	}

	if found < 2 {
		t.Fatal("anchor not found: StatementKind / Tables type switch in analyze.go")
	}

	b, _ := json.MarshalIndent(sch, "", " ")
	if err := os.WriteFile(os.Getenv("VERIF_OUT"), b, 0o644); err != nil {
		t.Fatal(err)
	}
}
