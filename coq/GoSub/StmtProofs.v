From Coq Require Import List ZArith NArith Bool Arith Lia.
From Common Require Import Base.
From Arith Require Import Model Spec Proofs.
From Opt Require Import Generic Model Proofs.
From GoSub Require Import Model Proofs Stmt.
Import ListNotations.
Open Scope nat_scope.

Notation eget := GoSub.Model.env_get.

(* ---------- environments ---------- *)
Lemma eget_names en x : eget (names_env (map fst en)) x = None <-> eget en x = None.
Proof.
  induction en as [|[n v] r IH]; [tauto|]. cbn [map fst names_env GoSub.Model.env_get].
  fold (names_env (map fst r)). destruct (str_eqb n x); [split; discriminate|exact IH].
Qed.
Lemma well_typed_names k en e : well_typed k (names_env (map fst en)) e = well_typed k en e.
Proof.
  induction e as [z|x|o a IHa b IHb]; cbn [well_typed]; [reflexivity| |now rewrite IHa, IHb].
  f_equal. pose proof (eget_names en x) as H.
  destruct (eget (names_env (map fst en)) x), (eget en x); try reflexivity.
  - destruct H as [_ H]. discriminate (H eq_refl).
  - destruct H as [H _]. discriminate (H eq_refl).
Qed.
Lemma env_set_names en x v : map fst (env_set en x v) = map fst en.
Proof. induction en as [|[n w] r IH]; [reflexivity|]. cbn [env_set]. destruct (str_eqb n x); cbn [map fst]; [reflexivity|now rewrite IH]. Qed.
Lemma env_set_ok k en x v : env_ok k en = true -> in_range k v -> env_ok k (env_set en x v) = true.
Proof.
  intros H Hv. induction en as [|[n w] r IH]; [reflexivity|]. cbn [env_ok forallb snd] in H.
  apply andb_true_iff in H. destruct H as [H1 H2]. cbn [env_set]. destruct (str_eqb n x); cbn [env_ok forallb snd].
  - apply andb_true_iff. split; [now apply in_rangeb_spec|exact H2].
  - apply andb_true_iff. split; [exact H1|now apply IH].
Qed.
Lemma var_set_vars_of k en x v old : eget en x = Some old ->
  var_set (vars_of k en) x (SVal (VInt k v)) = Some (vars_of k (env_set en x v)).
Proof.
  induction en as [|[n w] r IH]; intros H; [discriminate H|].
  cbn [vars_of map var_set env_set fst snd GoSub.Model.env_get] in *. destruct (str_eqb n x); [reflexivity|].
  fold (vars_of k r). fold (vars_of k (env_set r x v)). now rewrite IH.
Qed.
Lemma no_decl_decls p names : no_decl p = true -> decls p names = names.
Proof.
  revert names. induction p; intros names H; cbn [no_decl decls] in *; try reflexivity; try discriminate.
  apply andb_true_iff in H. destruct H as [H1 H2]. now rewrite IHp1, IHp2.
Qed.

(* ---------- blocks inside a running program ---------- *)
Lemma compile_nonbranch e : Forall nonbranch (compile e).
Proof.
  induction e as [z|x|o a IHa b IHb]; cbn [compile]; repeat constructor.
  apply Forall_app. split; [exact IHa|]. apply Forall_app. split; [exact IHb|].
  repeat constructor. destruct o; reflexivity.
Qed.
Lemma grun_block m fuel code blk rest s : Forall nonbranch blk ->
  grun fx_now m fuel code (blk ++ rest) s =
  match gblock fx_now m blk s with
  | Some (inl s') => grun fx_now m fuel code rest s'
  | Some (inr x) => Failed st fail x
  | None => OutOfFuel st fail
  end.
Proof.
  intros H. unfold grun, gblock. apply run_block_app.
  apply Forall_forall. intros i Hi. apply nonbranch_straight. rewrite Forall_forall in H. now apply H.
Qed.

Definition val_of (it : item) : value := match it with IV v _ => v | _ => VBool false end.
Lemma val_z_top k e z : val_z (val_of (top_of k e z)) = z.
Proof. unfold top_of. destruct (is_const e); reflexivity. Qed.

(* the result of the expression code as a block, in the two shapes the statements need *)
Lemma expr_block m k en e s : env_ok k en = true -> vars s = vars_of k en -> well_typed k en e = true ->
  match go_eval k en e with
  | GOk z => in_range k z /\ gblock fx_now m (compile e) s = Some (inl (set_stk s (top_of k e z :: stk s)))
  | GPanic => gblock fx_now m (compile e) s = Some (inr (RArith EDivZero, line s, out s))
  | GStuck => False
  end.
Proof. intros. now apply compile_correct. Qed.

Lemma gblock_push_mark fx m l rest s :
  gblock fx m ((Push, OM l) :: rest) s = gblock fx m rest (set_stk s (IM l :: stk s)).
Proof. reflexivity. Qed.

(* x = e' for a non-literal e' of kind k (also the desugared x op= e, x++, x--) *)
Lemma assign_block m k en x e s :
  env_ok k en = true -> vars s = vars_of k en -> well_typed k en e = true -> is_const e = false ->
  declared en x = true ->
  match go_eval k en e with
  | GOk v => in_range k v /\
             gblock fx_now m (let_store x (compile e)) s = Some (inl (set_vars s (vars_of k (env_set en x v))))
  | GPanic => gblock fx_now m (let_store x (compile e)) s = Some (inr (RArith EDivZero, line s, out s))
  | GStuck => False
  end.
Proof.
  intros Hok Hv Hwt Hc Hd. unfold let_store.
  set (s1 := set_stk s (IM L_let :: stk s)).
  pose proof (expr_block m k en e s1 Hok Hv Hwt) as He.
  destruct (go_eval k en e) as [v| |]; [|rewrite gblock_push_mark, gblock_app; fold s1; rewrite He; reflexivity|contradiction].
  destruct He as [Rv He]. split; [exact Rv|]. rewrite gblock_push_mark, gblock_app. fold s1. rewrite He.
  unfold top_of. rewrite Hc. unfold gblock. cbn [run_block]. unfold gexec, nm. cbn [exec set_stk stk s1 vars line out].
  unfold declared in Hd. apply andb_true_iff in Hd. destruct Hd as [Hu Hd]. apply negb_true_iff in Hu. rewrite Hu.
  destruct (eget en x) as [old|] eqn:Eo; [|discriminate Hd].
  unfold do_store, s1. cbn [set_stk vars stk line out fst]. rewrite Hv, var_get_vars_of, Eo.
  rewrite store_same. rewrite (var_set_vars_of k en x v old Eo).
  cbn [set_vars set_stk stk vars line out drop_to]. rewrite N.eqb_refl. destruct s; reflexivity.
Qed.

Lemma var_local_none vs n : var_get vs n = None -> var_local vs n = None.
Proof.
  induction vs as [|[k v] r IH]; intros H; [reflexivity|]. cbn [var_get var_local] in *.
  destruct (str_eqb k scope_mark); [reflexivity|]. destruct (str_eqb k n); [discriminate H|now apply IH].
Qed.

(* x := e' for a non-literal e', x new *)
Lemma decl_block m k en x e s :
  env_ok k en = true -> vars s = vars_of k en -> well_typed k en e = true -> is_const e = false ->
  str_eqb x underscore = false -> eget en x = None ->
  match go_eval k en e with
  | GOk v => in_range k v /\
             gblock fx_now m (compile_stmt 0 (SDecl x e)) s = Some (inl (set_vars s (vars_of k ((x, v) :: en))))
  | GPanic => gblock fx_now m (compile_stmt 0 (SDecl x e)) s = Some (inr (RArith EDivZero, line s, out s))
  | GStuck => False
  end.
Proof.
  intros Hok Hv Hwt Hc Hu Hn. cbn [compile_stmt].
  set (s1 := set_stk s (IM L_let :: stk s)).
  pose proof (expr_block m k en e s1 Hok Hv Hwt) as He.
  destruct (go_eval k en e) as [v| |]; [|rewrite gblock_push_mark, gblock_app; fold s1; rewrite He; reflexivity|contradiction].
  destruct He as [Rv He]. split; [exact Rv|]. rewrite gblock_push_mark, gblock_app. fold s1. rewrite He.
  unfold top_of. rewrite Hc. unfold gblock. cbn [run_block]. unfold gexec, nm. cbn [exec set_stk stk vars line out].
  unfold s1. cbn [set_stk vars stk line out]. rewrite Hv. rewrite var_local_none by (now rewrite var_get_vars_of, Hn).
  cbn [set_vars set_stk stk vars line out]. rewrite Hu.
  unfold do_store. cbn [set_stk set_vars vars stk line out fst var_get var_set]. rewrite str_eqb_refl_.
  cbn [set_vars set_stk stk vars line out drop_to]. rewrite N.eqb_refl. destruct s; reflexivity.
Qed.

Lemma print_block m k en e s :
  env_ok k en = true -> vars s = vars_of k en -> well_typed k en e = true ->
  match go_eval k en e with
  | GOk v => exists val, val_z val = v /\
             gblock fx_now m (compile_stmt 0 (SPrint e)) s =
             Some (inl {| stk := stk s; vars := vars s; line := line s; out := val :: out s |})
  | GPanic => gblock fx_now m (compile_stmt 0 (SPrint e)) s = Some (inr (RArith EDivZero, line s, out s))
  | GStuck => False
  end.
Proof.
  intros Hok Hv Hwt. cbn [compile_stmt].
  set (s1 := set_stk s (IM L_call :: stk s)).
  pose proof (expr_block m k en e s1 Hok Hv Hwt) as He.
  destruct (go_eval k en e) as [v| |]; [|rewrite gblock_push_mark, gblock_app; fold s1; rewrite He; reflexivity|contradiction].
  destruct He as [Rv He]. exists (val_of (top_of k e v)). split; [apply val_z_top|].
  rewrite gblock_push_mark, gblock_app. fold s1. rewrite He.
  unfold top_of. destruct (is_const e); unfold gblock; cbn [run_block]; unfold gexec; cbn [exec set_stk stk vars line out val_of];
    unfold s1; cbn [set_stk stk vars line out drop_to]; rewrite N.eqb_refl; reflexivity.
Qed.

Lemma small_in_int k z : in_range k z -> (irank k <? irank Int)%Z = true -> in_range Int z.
Proof.
  unfold in_range, kmin, kmax. intros H Hr. destruct k; cbn [irank signed half modulus] in *; try discriminate Hr; lia.
Qed.

(* the condition e1 c e2 leaves Go's truth value *)
Lemma cond_block m k en c e1 e2 s :
  env_ok k en = true -> vars s = vars_of k en -> well_typed k en e1 = true -> well_typed k en e2 = true ->
  is_const e1 && is_const e2 = false ->
  match go_eval k en e1 with
  | GOk v1 =>
      match go_eval k en e2 with
      | GOk v2 => gblock fx_now m (compile e1 ++ compile e2 ++ [(cmp_opc c, ONil)]) s =
                  Some (inl (set_stk s (IV (VBool (cmp_go c v1 v2)) false :: stk s)))
      | GPanic => gblock fx_now m (compile e1 ++ compile e2 ++ [(cmp_opc c, ONil)]) s = Some (inr (RArith EDivZero, line s, out s))
      | GStuck => False
      end
  | GPanic => gblock fx_now m (compile e1 ++ compile e2 ++ [(cmp_opc c, ONil)]) s = Some (inr (RArith EDivZero, line s, out s))
  | GStuck => False
  end.
Proof.
  intros Hok Hv H1 H2 Hcc.
  pose proof (expr_block m k en e1 s Hok Hv H1) as He1.
  destruct (go_eval k en e1) as [v1| |] eqn:E1; [|rewrite gblock_app, He1; reflexivity|contradiction].
  destruct He1 as [R1 He1]. set (s1 := set_stk s (top_of k e1 v1 :: stk s)).
  pose proof (expr_block m k en e2 s1 Hok Hv H2) as He2.
  destruct (go_eval k en e2) as [v2| |] eqn:E2; [|rewrite gblock_app, He1, gblock_app; fold s1; rewrite He2; reflexivity|contradiction].
  destruct He2 as [R2 He2]. rewrite gblock_app, He1, gblock_app. fold s1. rewrite He2.
  assert (Hcmp : forall cc, compare_terms m cc
              (match top_of k e1 v1 with IV v cst => (v, cst) | _ => (VBool false, false) end)
              (match top_of k e2 v2 with IV v cst => (v, cst) | _ => (VBool false, false) end) = Ok (VBool (cmp_z cc v1 v2))).
  { intros cc. unfold top_of.
    destruct (is_const e1) eqn:C1, (is_const e2) eqn:C2; try discriminate Hcc; unfold compare_terms; cbn [fst snd orb].
    - (* literal, typed *)
      pose proof (const_info k en e1 v1 H1 E1 C1) as RI.
      destruct (ikind_eqb Int k) eqn:EK; [reflexivity|].
      destruct (irank Int <? irank k)%Z eqn:ER.
      + rewrite !wrap_id by assumption. reflexivity.
      + assert (Hlt : (irank k <? irank Int)%Z = true).
        { apply Z.ltb_lt. apply Z.ltb_ge in ER. apply ikind_eqb_neq in EK.
          assert (irank k <> irank Int) by (intros Q; apply EK; destruct k; cbn in Q; try discriminate Q; reflexivity). lia. }
        rewrite !wrap_id; [reflexivity|eapply small_in_int; eauto|assumption].
    - pose proof (const_info k en e2 v2 H2 E2 C2) as RI.
      destruct (ikind_eqb k Int) eqn:EK; [reflexivity|].
      destruct (irank k <? irank Int)%Z eqn:ER.
      + rewrite !wrap_id; [reflexivity|assumption|eapply small_in_int; eauto].
      + rewrite !wrap_id by assumption. reflexivity.
    - rewrite ikind_eqb_refl. reflexivity. }
  unfold gblock. cbn [run_block]. unfold gexec.
  unfold top_of in *.
  destruct c, (is_const e1), (is_const e2); try discriminate Hcc;
    cbn [cmp_opc exec arith_of cmp_of set_stk stk s1 vars line out];
    cbn [fst snd] in Hcmp; rewrite Hcmp; destruct s; reflexivity.
Qed.
