"""C14 Table REST requests cannot inject SQL (internal/server/tables/parsing, egostrings.SQLIdentifier)."""
import json
import os
import re
import sqlite3
import vf

GROUP = "SqlGen"
THEOREMS = ["C14_ident_confined", "C14_string_confined", "C14_filter_confined", "C14_confinement",
            "C14_insert_confined", "C14_update_confined", "C14_old_refuted",
            "C14_filter_meaning_partial", "C14_filter_rows_partial", "C14_gen_where_confined",
            "C14_where_parses_partial", "C14_filter_text_meaning_partial",
            "C14_filter_meaning", "C14_filter_rows", "C14_filter_meaning_old_refuted", "C14_where_parses", "C14_filter_text_meaning"]
META = {
    "group": GROUP,
    "technique": "Coq proof of lexical confinement of the generated SQL text over a Gallina model of the generators and of SQLite's tokenizer + vm_compute correspondence with the real generators + execution of the real text on SQLite under an authorizer",
    "text": "Theorems C14_ident_confined / C14_string_confined (a quoted name or value is exactly one SQLite token whatever its bytes), C14_filter_confined (every filter token list, any spellings and classes, yields text that lexes to the template: one token per name/value), C14_confinement (SELECT/DELETE statement: columns, table, filters, sort, paging), C14_insert_confined and C14_update_confined are proved for all inputs without NUL bytes over the model of the repaired generators; C14_old_refuted keeps the three injections of the code before the fixes. Meaning of filters (Sem.v, SemProofs.v, SemParse.v): for the documented filter language (EQ LT LE GT GE AND OR NOT HAS HASALL, EQ(col,.nil)) with a three-valued eval_filter, SQL expressions with SQLite's three-valued semantics (eval_sql) and where_ast = what SQL's precedence makes of the generated text, C14_filter_meaning / C14_filter_rows prove for ALL non-empty lists of well formed filters, all rows and NULLs that the WHERE clause of the repaired generator selects exactly the rows every filter selects (no precedence guard any more: multi-value HAS/HASALL lists are parenthesised since fix 1d8718e7); C14_where_parses / C14_filter_text_meaning: the generated TEXT, lexed by the SQLite tokenizer model and parsed with SQL's precedence, is where_ast, hence an expression selecting exactly the documented rows, for all well formed filters without NUL bytes; C14_filter_meaning_old_refuted keeps the old generator (AND(EQ(a,1),HAS(foo,'x','y')) selected a row that does not satisfy it); C14_gen_where_confined: the text of gen_where lexes to its template. The models are compared byte for byte with the real generators on every run, the real text is lexed against the template, parsed to where_ast by both parsers, and executed on SQLite (authorizer; rows returned vs eval_filter vs an independent Python reading). partial: gen_where is tied to the real WhereClause by the run, not by a theorem to the token-level where_clause model; POSITION(v IN c) is given PostgreSQL's meaning (SQLite has no such function: there HAS filters are rejected by the database; the run spells it instr); type-affinity conversions are outside the well typed filters of the run; the handlers around the generators are only observed",
    "note": "Trusted: Coq kernel; the hand-written model of SQLite's tokenizer (exponent / hex numbers are illegal tokens in it); strings.TrimSpace/ToLower/ToUpper modelled on ASCII (plus U+0131, U+017F); valid UTF-8 input; statement text reaches SQLite whole; the overlay harness and the Python comparison.",
}

ADV = ['x" OR 1=1 --', 'a"b', "a'b", "'", '"', '""', "''", 'a;b', '--', '/*', '*/', 'a.b', '"a"."b"', 'café',
       'count(*) from secrets --', '(select password from users limit 1)', 'name desc', 'a b', ' a ', '[x]', '`x`',
       'a\\', 'x"; DROP TABLE secrets; --', "x' OR '1'='1", '1=1', 'a,b', '~', 'a--b', 'a/*b*/c', 'NULL', 'select',
       '$1', '?', 'a-b', 'a\tb', 'a\nb', '".', '."', 'a"."b', 'haſ', 'ı', 'x ', 'count(', 'count()', 'COUNT(*)',
       'count(*) as n', 'Count(id) AS Total', 'count(*) as', 'count(*) as a b', 'count(a b)', 'count(*)x', ' count(*) ']
NAMES = ["id", "name", "city", "age", "t1", "_row_id_", "Name", "x1", "a_b"]
OPS2 = ["EQ", "LT", "LE", "GT", "GE", "eq", "lt", "Ge"]
OPSL = ["AND", "OR", "and", "or"]
OPSC = ["CONTAINS", "HAS", "HASANY", "CONTAINSALL", "HASALL", "contains", "hasall"]
MALPHA = "()(),,\"\"'' .-+;*/=<>ab1 0nil\\`[]$?_%"


def estr(s):
    """an Ego string literal for s (double quoted, backslash escapes)"""
    return json.dumps(s)


def gen_value(rng):
    r = rng.random()
    if r < 0.25:
        return str(rng.choice([0, 1, 7, 55, 18, 65, 1000, 123456789]))
    if r < 0.32:
        return rng.choice(["-1", "- 7", "+3", "1.5", "-2.25", "0.5", "+ 1.0"])
    if r < 0.40:
        return rng.choice(["true", "false", ".nil", "nil", "NULL", "1e5", "0x1F", ".5", "5.", "1_000", "07"])
    if r < 0.70:
        return estr(rng.choice(["Tom", "Mary", "abc", "", "a b", "O'Neil", "x'", "'x", "'", "''", "a;b", "café",
                                " OR 1=1 --", "a\"b", "\"q\"", "100%", "a\\", "/*", "--", "x') OR ('1'='1"] + ADV))
    if r < 0.80:
        return "'" + rng.choice(["abc", "a b", "def", "x", "", "a\"b", "a;b"]) + "'"
    if r < 0.90:
        return "`" + rng.choice(["raw", "a'b", "a\"b", "x y"]) + "`"
    return rng.choice(NAMES)


def gen_term(rng, depth):
    r = rng.random()
    if depth <= 0 or r < 0.15:
        return rng.choice(NAMES) if rng.random() < 0.6 else gen_value(rng)
    if r < 0.60:
        a = rng.choice(NAMES) if rng.random() < 0.85 else gen_value(rng)
        return "%s(%s,%s)" % (rng.choice(OPS2), a, gen_value(rng))
    if r < 0.75:
        n = rng.randint(2, 4)
        return "%s(%s)" % (rng.choice(OPSL), ",".join(gen_term(rng, depth - 1) for _ in range(n)))
    if r < 0.85:
        return "%s(%s)" % (rng.choice(["NOT", "not"]), gen_term(rng, depth - 1))
    n = rng.randint(0, 3)
    return "%s(%s)" % (rng.choice(OPSC), ",".join([rng.choice(NAMES)] + [gen_value(rng) for _ in range(n)]))


def gen_filter(rng):
    r = rng.random()
    if r < 0.70:
        f = gen_term(rng, 2)
        if rng.random() < 0.15:
            f += "," + gen_term(rng, 1)
        return f
    if r < 0.85:                      # damaged well-formed filter
        f = list(gen_term(rng, 2))
        for _ in range(rng.randint(1, 3)):
            k = rng.randrange(len(f) + 1)
            if rng.random() < 0.5 and f:
                del f[min(k, len(f) - 1)]
            else:
                f.insert(k, rng.choice(MALPHA))
        return "".join(f)
    if r < 0.93:
        return "".join(rng.choice(MALPHA) for _ in range(rng.randint(0, 12)))
    return rng.choice(["", " ", "EQ(name,", "EQ(name", "EQ", "EQ()", "EQ(,)", "EQ(a,b,c)", "AND(a)", "-(3)", "EQ(-a,3)",
                       "EQ(name, --)", "EQ(name, *)", "EQ(a, EQ(b, 1 2))", "EQ(a,.nil,5)", "AND(a,.nil)", "NOT(EQ(name,\"a;b\"))",
                       "EQ(name, x nil)", "haſ(a,\"b\")", "EQ(name, select)", "EQ(make, type)", "EQ(int, string)",
                       "EQ(name, 'a''b')", "EQ(name, 3) garbage", "EQ(name,\"x\") // c", "EQ(name, /* c */ 4)"])


def gen_name(rng):
    r = rng.random()
    if r < 0.55:
        return rng.choice(NAMES)
    if r < 0.90:
        return rng.choice(ADV)
    return "".join(rng.choice(MALPHA + "xyz") for _ in range(rng.randint(1, 10)))


def gen_columns(rng):
    r = rng.random()
    if r < 0.1:
        return ""
    n = rng.randint(1, 4)
    parts = []
    for _ in range(n):
        q = rng.random()
        if q < 0.5:
            parts.append(rng.choice(NAMES))
        elif q < 0.65:
            parts.append(rng.choice(["count(*)", "count(*) as count", "COUNT(id)", "count(name) as n", " count(*)", "count( * )",
                                     "count(*) from secrets --", "count(*) AS \"x\"", "count(1)", "count(*),", "count(*))",
                                     "count(*) as count from secrets"]))
        elif q < 0.75:
            parts.append(rng.choice(["", " ", "  name "]))
        else:
            parts.append(gen_name(rng))
    return ",".join(parts)


def gen_sort(rng):
    n = rng.choice([0, 0, 1, 1, 1, 2])
    out = []
    for _ in range(n):
        q = rng.random()
        if q < 0.45:
            out.append(rng.choice(NAMES))
        elif q < 0.6:
            out.append("~" + rng.choice(NAMES))
        elif q < 0.7:
            out.append(rng.choice(NAMES) + "," + rng.choice(["~", ""]) + rng.choice(NAMES))
        elif q < 0.78:
            out.append(rng.choice(["", " ", "~", "a,,b", " a , b "]))
        else:
            out.append(gen_name(rng))
    return out


def gen_int(rng):
    r = rng.random()
    if r < 0.4:
        return None
    if r < 0.8:
        return str(rng.choice([0, 1, 2, 10, 50, 1000, 99999, rng.randint(0, 10 ** 9)]))
    if r < 0.9:
        return str(-rng.randint(1, 1000))
    return rng.choice(["abc", "", "1.5", "ten", "1;2", "5 OR 1", "1--"])


def atoi(s):
    if s is None:
        return None
    t = s.strip(" \t\n\r\x0b\x0c")
    return int(t) if re.fullmatch(r"[+-]?[0-9]+", t) else None


CORPUS = [   # the _refuted witnesses and earlier defects first
    {"k": "sel", "sel": True, "table": "t1", "user": "u", "columns": "id", "filters": [], "sort": ["(select password from users limit 1)"]},
    {"k": "sel", "sel": True, "table": "t1", "user": "u", "columns": "count(*) from secrets --,id", "filters": []},
    {"k": "sel", "sel": True, "table": "t1", "user": "u", "columns": "", "filters": ['EQ(name,"x\'")', 'EQ(city," OR 1=1 --")']},
    {"k": "sel", "sel": True, "table": "t1", "user": "u", "columns": "", "filters": ['EQ(name,"a\'b")']},
    {"k": "sel", "sel": False, "table": "t1", "user": "u", "columns": "", "filters": ['EQ(name,"a\'b")']},
    {"k": "sel", "sel": False, "table": "t1", "user": "u", "columns": "", "filters": ['NOT(EQ(name,"a;b"))']},
    {"k": "sel", "sel": True, "table": "t1", "user": "u", "columns": "", "filters": ['EQ(name, --)', 'EQ(id,1)']},
    {"k": "sel", "sel": True, "table": "t1", "user": "u", "columns": "", "filters": ['OR(EQ(id,1), EQ(id, 1 2))']},
    {"k": "sel", "sel": True, "table": "t1", "user": "u", "columns": "", "filters": ['EQ(name, *)']},
    {"k": "sel", "sel": True, "table": 't1" UNION SELECT password FROM "secrets', "user": "u", "columns": "", "filters": []},
    {"k": "sel", "sel": True, "pg": True, "table": "t1", "user": 'u"."secrets" --', "columns": "", "filters": []},
    {"k": "ins", "table": "t1", "user": "u", "keys": ['name") SELECT password FROM secrets --', "id"]},
    {"k": "upd", "table": "t1", "user": "u", "keys": ['name"=(SELECT password FROM secrets) --'], "filters": ['EQ(id,1)'], "rowid": True},
]


def hx(s):
    return s.encode("utf8").hex()


def wire(c):
    d = {"k": c["k"], "pg": c.get("pg", False), "user": hx(c.get("user", "")), "table": hx(c.get("table", "")),
         "columns": hx(c.get("columns", "")), "filters": [hx(f) for f in c.get("filters", [])],
         "sort": [hx(s) for s in c.get("sort", [])], "sel": c.get("sel", False),
         "keys": [hx(k) for k in c.get("keys", [])], "rowid": c.get("rowid", False), "s": hx(c.get("s", ""))}
    if c.get("limit") is not None:
        d["limit"] = hx(c["limit"])
    if c.get("start") is not None:
        d["start"] = hx(c["start"])
    return d


def gen_cases(rng, n):
    out = [dict(c) for c in CORPUS]
    for c in out:
        if "keys" in c:
            c["keys"] = sorted(c["keys"], key=lambda s: s.encode("utf8"))
    for a in ADV:          # every adversarial string once in every position
        out.append({"k": "sort", "sort": [a]})
        out.append({"k": "col", "columns": a})
        out.append({"k": "fn", "table": a, "user": a, "pg": len(a) % 2 == 0})
        out.append({"k": "where", "filters": ["EQ(name,%s)" % estr(a), "CONTAINS(city,%s)" % estr(a)]})
    n += len(out)
    while len(out) < n:
        r = rng.random()
        table = "t1" if rng.random() < 0.6 else gen_name(rng)
        user = "u" if rng.random() < 0.7 else gen_name(rng)
        pg = rng.random() < 0.25
        nf = rng.choice([0, 1, 1, 1, 2, 3])
        filters = [gen_filter(rng) for _ in range(nf)]
        if r < 0.45:
            out.append({"k": "sel", "sel": rng.random() < 0.75, "pg": pg, "table": table, "user": user,
                        "columns": gen_columns(rng), "filters": filters, "sort": gen_sort(rng),
                        "limit": gen_int(rng), "start": gen_int(rng)})
        elif r < 0.60:
            out.append({"k": "where", "filters": filters or [gen_filter(rng)]})
        elif r < 0.68:
            out.append({"k": "col", "columns": gen_columns(rng)})
        elif r < 0.74:
            out.append({"k": "sort", "sort": gen_sort(rng)})
        elif r < 0.78:
            out.append({"k": "page", "limit": gen_int(rng), "start": gen_int(rng)})
        elif r < 0.83:
            out.append({"k": "fn", "pg": pg, "table": table, "user": user})
        elif r < 0.88:
            out.append({"k": "esc", "s": rng.choice(ADV + ["'abc'", '"abc"', "'a'b'", "abc", "'", "a'", "'a", "a\"", ""])})
        else:
            keys = sorted({gen_name(rng) for _ in range(rng.randint(0, 4))} - {"_row_id_"}, key=lambda s: s.encode("utf8"))
            if r < 0.94:
                out.append({"k": "ins", "pg": pg, "table": table, "user": user, "keys": keys})
            else:
                t = table if "/" not in table and table != "" else "t1"
                out.append({"k": "upd", "pg": pg, "table": t, "user": user, "keys": keys, "filters": filters,
                            "rowid": rng.random() < 0.5})
    return out


def cbool(b):
    return "true" if b else "false"


def ctoks(toks):
    return "[" + ";".join("[" + ";".join("mk %d (%s)" % (t["c"], vf.vN(bytes.fromhex(t["s"]))) for t in f) + "]" for f in toks) + "]"


def coptz(v):
    return "None" if v is None else "(Some (%d)%%Z)" % v


def model_expr(c, toks):
    """Coq term of type res out for the case (repaired model)."""
    k = c["k"]
    B = lambda key: "(" + vf.vstr(c.get(key, "")) + ")"       # noqa: E731
    L = lambda key: "[" + ";".join(vf.vstr(x) for x in c.get(key, [])) + "]"   # noqa: E731
    if k == "sel":
        return "form_select true %s (mkreq %s %s %s %s %s %s %s %s)" % (
            cbool(c["sel"]), cbool(c.get("pg", False)), B("user"), B("table"), B("columns"), ctoks(toks), L("sort"),
            coptz(atoi(c.get("limit"))), coptz(atoi(c.get("start"))))
    if k == "where":
        return "where_clause true %s" % ctoks(toks)
    if k == "col":
        return "Ok (column_list true %s)" % B("columns")
    if k == "sort":
        return "Ok (sort_list true %s)" % L("sort")
    if k == "page":
        return "Ok (paging %s %s)" % (coptz(atoi(c.get("limit"))), coptz(atoi(c.get("start"))))
    if k == "fn":
        return "Ok (full_name %s %s %s)" % (cbool(c.get("pg", False)), B("user"), B("table"))
    if k == "esc":
        return "match sql_escape %s with Some e => Ok (e, sql_lex e) | None => Err end" % B("s")
    if k == "ins":
        return "Ok (form_insert %s %s %s %s)" % (cbool(c.get("pg", False)), B("user"), B("table"), L("keys"))
    if k == "upd":
        return "form_update true %s %s %s %s %s %s" % (cbool(c.get("pg", False)), B("user"), B("table"), L("keys"),
                                                     cbool(c.get("rowid", False)), ctoks(toks))
    raise ValueError(k)


SCHEMA = """
create table t1(id integer, name text, city text, age integer, Name2 text, x1 text, a_b text, _row_id_ text);
insert into t1 values (1,'Tom','Paris',55,'n','x','ab','r1'),(2,'Mary','Rome',18,'n','x','ab','r2'),(3,'x''','Oslo',65,'n','x','ab','r3');
create table secrets(password text); insert into secrets values ('hunter2');
create table users(name text, password text); insert into users values ('root','toor');
"""


def sqlite_oracle(text, table):
    """Run the real statement on SQLite; returns a description of a foreign access, or None."""
    db = sqlite3.connect(":memory:")
    db.executescript(SCHEMA)
    touched = []

    def auth(action, a1, a2, dbname, src):
        if action in (sqlite3.SQLITE_READ, sqlite3.SQLITE_UPDATE, sqlite3.SQLITE_DELETE, sqlite3.SQLITE_INSERT,
                      sqlite3.SQLITE_DROP_TABLE, sqlite3.SQLITE_CREATE_TABLE, sqlite3.SQLITE_ALTER_TABLE):
            if a1 is not None and a1 != table:
                touched.append((action, a1, a2))
        elif action in (sqlite3.SQLITE_ATTACH, sqlite3.SQLITE_PRAGMA, sqlite3.SQLITE_DETACH):
            touched.append((action, a1, a2))
        return sqlite3.SQLITE_OK
    db.set_authorizer(auth)
    try:
        sql = text.replace("POSITION(", "xposition(")
        db.execute(sql)
    except sqlite3.Warning as e:            # "You can only execute one statement at a time."
        return "more than one statement: %s" % e
    except sqlite3.ProgrammingError as e:
        if "one statement" in str(e):
            return "more than one statement: %s" % e
    except (sqlite3.Error, ValueError):
        pass
    finally:
        db.set_authorizer(None)
    if touched:
        return "statement touches %s" % sorted({t[1] for t in touched})
    db.close()
    return None

# ----------------------------------------------------------------------------- meaning of filters (coq/SqlGen/Sem.v)
M_SCHEMA = "create table m1(id integer, age integer, name text, city text);"
M_ROWS = [(1, 55, "Tom", "Paris"), (2, 18, "Mary", "Rome"), (3, None, "O'Neil", "Oslo"), (4, 65, "tom", None),
          (5, -3, "", "Oxford"), (6, 18, "Ann%", "o"), (7, 0, "x'", "Pa_ris"), (8, None, None, None)]
M_INT, M_TXT = ["age", "id"], ["name", "city"]
M_STR = ["Tom", "Mary", "O'Neil", "a", "o", "x'", "%", "_", "", "Pa", "ris", "tom", "M", "z"]
CMPS = [("EQ", "CEq", lambda c: c == 0), ("LT", "CLt", lambda c: c < 0), ("LE", "CLe", lambda c: c <= 0),
        ("GT", "CGt", lambda c: c > 0), ("GE", "CGe", lambda c: c >= 0)]


def m_gen(rng, depth):
    """a well typed filter AST over m1: ('cmp', i, col, lit) | ('null', col) | ('and'|'or', [..]) | ('not', f) | ('has', all, col, [v..])"""
    r = rng.random()
    if depth <= 0 or r < 0.35:
        if rng.random() < 0.5:
            return ("cmp", rng.randrange(5), rng.choice(M_INT), rng.choice([0, 1, 18, 55, 65, -3, -1, 100]))
        return ("cmp", rng.randrange(5), rng.choice(M_TXT), rng.choice(M_STR))
    if r < 0.42:
        return ("null", rng.choice(M_INT + M_TXT))
    if r < 0.60:
        return ("and", [m_gen(rng, depth - 1) for _ in range(rng.randint(2, 3))])
    if r < 0.76:
        return ("or", [m_gen(rng, depth - 1) for _ in range(rng.randint(2, 3))])
    if r < 0.86:
        return ("not", m_gen(rng, depth - 1))
    return ("has", rng.random() < 0.5, rng.choice(M_TXT), [rng.choice(M_STR) for _ in range(rng.choice([1, 1, 2, 3]))])


def m_src(f):
    k = f[0]
    if k == "cmp":
        return "%s(%s,%s)" % (CMPS[f[1]][0], f[2], estr(f[3]) if isinstance(f[3], str) else str(f[3]))
    if k == "null":
        return "EQ(%s,.nil)" % f[1]
    if k in ("and", "or"):
        return "%s(%s)" % (k.upper(), ",".join(m_src(g) for g in f[1]))
    if k == "not":
        return "NOT(%s)" % m_src(f[1])
    return "%s(%s,%s)" % ("HASALL" if f[1] else "HAS", f[2], ",".join(estr(v) for v in f[3]))


def m_coq(f):
    k = f[0]
    if k == "cmp":
        lit = "(OStr (%s))" % vf.vstr(f[3]) if isinstance(f[3], str) else "(OInt (%d))" % f[3]
        return "(FCmp %s (OCol (%s)) %s)" % (CMPS[f[1]][1], vf.vstr(f[2]), lit)
    if k == "null":
        return "(FIsNull (%s))" % vf.vstr(f[1])
    if k in ("and", "or"):
        return "(%s [%s])" % ("FAnd" if k == "and" else "FOr", ";".join(m_coq(g) for g in f[1]))
    if k == "not":
        return "(FNot %s)" % m_coq(f[1])
    return "(FHas %s (%s) [%s])" % ("true" if f[1] else "false", vf.vstr(f[2]), ";".join(vf.vstr(v) for v in f[3]))


def m_and3(xs):
    if any(x is False for x in xs):
        return False
    return None if any(x is None for x in xs) else True


def m_or3(xs):
    if any(x is True for x in xs):
        return True
    return None if any(x is None for x in xs) else False


def m_eval(f, row):
    """documented (three-valued) meaning, independent Python reading; row: dict"""
    k = f[0]
    if k == "cmp":
        v, lit = row[f[2]], f[3]
        if v is None:
            return None
        a, b = (v.encode(), lit.encode()) if isinstance(lit, str) else (v, lit)
        return CMPS[f[1]][2]((a > b) - (a < b))
    if k == "null":
        return row[f[1]] is None
    if k == "and":
        return m_and3([m_eval(g, row) for g in f[1]])
    if k == "or":
        return m_or3([m_eval(g, row) for g in f[1]])
    if k == "not":
        x = m_eval(f[1], row)
        return None if x is None else (not x)
    v = row[f[2]]
    xs = [None if v is None else (s in v) for s in f[3]]
    return m_and3(xs) if f[1] else m_or3(xs)


def m_shape(f):
    """'atom' | 'conj' | 'disj': how SQL reads the unparenthesised text of f"""
    k = f[0]
    if k in ("cmp", "null", "and", "or"):
        return "atom"
    if k == "not":
        return m_shape(f[1])
    return "atom"          # repaired generator: a list of several values is parenthesised


def m_safe(f):
    k = f[0]
    if k == "and":
        return all(m_safe(g) and m_shape(g) != "disj" for g in f[1])
    if k == "or":
        return all(m_safe(g) for g in f[1])
    if k == "not":
        return m_safe(f[1]) and m_shape(f[1]) == "atom"
    return True


def m_safe_where(fs):
    return m_safe(fs[0]) if len(fs) == 1 else all(m_safe(g) and m_shape(g) != "disj" for g in fs)


POS_RE = re.compile(r"""POSITION\(('(?:[^']|'')*') IN ("(?:[^"]|"")*")\)""")


def meaning_stage(ck, binp, quick):
    """filters with a documented meaning: real text = gen_where, parse(lex real) = where_ast, rows SQLite returns for
    the real text = rows selected by eval_filter (Coq, vm_compute) = rows selected by the Python reading"""
    corpus = [[("and", [("cmp", 0, "age", 18), ("has", False, "city", ["o", "x"])])],
              [("has", False, "name", ["om", "x"]), ("cmp", 3, "age", 0)],
              [("not", ("has", False, "city", ["Pa", "Ro"]))], [("not", ("has", True, "city", ["a", "s"]))],
              [("not", ("cmp", 0, "age", 18))], [("null", "city")], [("not", ("null", "age"))],
              [("or", [("has", False, "name", ["T", "M"]), ("cmp", 1, "age", 0)])],
              [("has", True, "name", ["o", "m"])], [("cmp", 0, "name", "x'")], [("has", False, "city", ["_"])],
              [("and", [("cmp", 4, "name", "M"), ("cmp", 1, "name", "a"), ("or", [("cmp", 0, "id", 5), ("null", "age")])])]]
    cases = list(corpus)
    n = 80 if quick else 800
    while len(cases) < n:
        cases.append([m_gen(ck.rng, 2) for _ in range(ck.rng.choice([1, 1, 1, 2, 3]))])
    inp, outp = os.path.join(ck.work, "min.jsonl"), os.path.join(ck.work, "mout.jsonl")
    with open(inp, "w") as f:
        for fs in cases:
            f.write(json.dumps(wire({"k": "where", "filters": [m_src(g) for g in fs]})) + "\n")
    rc, log = vf.run_bin(binp, "^TestVerifC14$", {"VERIF_IN": inp, "VERIF_OUT": outp})
    if rc != 0:
        ck.violation("harness-run", "harness failed on the meaning cases:\n" + log[-1500:], replay={"log": log[-3000:]}, found_input=False)
        return
    obs = [json.loads(l) for l in open(outp)]
    db = sqlite3.connect(":memory:")
    db.execute(M_SCHEMA)
    db.executemany("insert into m1 values (?,?,?,?)", M_ROWS)
    rows = [dict(zip(("id", "age", "name", "city"), r)) for r in M_ROWS]
    stats = {"cases": len(cases), "precedence_unsafe": 0, "rows_compared": 0, "with_null_result": 0, "sqlite_errors": 0}
    sqlite_ids, py_ids = [], []
    for fs, o in zip(cases, obs):
        text = bytes.fromhex(o["text"]).decode("utf8")
        want = sorted(r["id"] for r in rows if all(m_eval(g, r) is True for g in fs))
        if any(m_eval(g, r) is None for g in fs for r in rows):
            stats["with_null_result"] += 1
        py_ids.append(want)
        got = None
        if not o["err"]:
            try:
                got = sorted(x[0] for x in db.execute("select id from m1 " + POS_RE.sub(lambda m: "instr(%s, %s)" % (m.group(2), m.group(1)), text)))
            except sqlite3.Error:
                stats["sqlite_errors"] += 1
        sqlite_ids.append(got)
        safe = m_safe_where(fs)
        stats["precedence_unsafe"] += 0 if safe else 1
        stats["rows_compared"] += len(rows)
        if o["err"] or got is None:
            ck.violation("meaning-rejected", "a well formed documented filter is rejected (%s): %s -> %s" % (
                "by the generator" if o["err"] else "by SQLite", [m_src(g) for g in fs], text[:200]),
                replay={"filters": [m_src(g) for g in fs], "table": M_ROWS, "text": text})
        elif got != want:
            ck.violation("filter-precedence" if not safe else "filter-meaning",
                         "filters %s are written %s; on table m1 SQLite returns rows %s, the documented meaning selects %s%s" % (
                             [m_src(g) for g in fs], text, got, want,
                             "" if safe else " (HAS list / NOT operand written without parentheses)"),
                         replay={"filters": [m_src(g) for g in fs], "table": M_ROWS, "text": text, "sqlite_rows": got, "documented_rows": want})
    ck.cov["evaluations"] += len(cases)
    ck.cov["input_distribution"]["filter_meaning"] = stats
    if getattr(ck, "coq_broken", None):
        return
    # ---- Coq: text = gen_where, parse (lex real) = where_ast, ids by eval_filter and by eval_sql (where_ast)
    def cval(v):
        return "VNull" if v is None else ("VInt (%d)" % v if isinstance(v, int) else "VText (%s)" % vf.vstr(v))
    tbl = "[" + ";".join("[(%s, %s); (%s, %s); (%s, %s); (%s, %s)]" % (
        vf.vstr("id"), cval(r[0]), vf.vstr("age"), cval(r[1]), vf.vstr("name"), cval(r[2]), vf.vstr("city"), cval(r[3])) for r in M_ROWS) + "]"
    lines = ["From Common Require Import Base.", "From SqlGen Require Import Model Sem SemParse.", "Close Scope string_scope.", "Open Scope N_scope.",
             "Definition tbl : list trow := %s." % tbl,
             "Definition mask (l : list Z) : Z := fold_left (fun a i => Z.lor a (Z.shiftl 1 i)) l 0%Z."]
    for i, (fs, o) in enumerate(zip(cases, obs)):
        lines.append("Definition f%d : list filter := [%s]." % (i, ";".join(m_coq(g) for g in fs)))
        lines.append("Definition t%d : str := %s." % (i, vf.vN(bytes.fromhex(o["text"]))))
    idx = range(len(cases))
    ex = {"text": "(%s : list nat)" % (" ++ ".join("(if str_eqb (fst (gen_where f%d)) t%d then [] else [%d%%nat])" % (i, i, i) for i in idx)),
          "parse": "(%s : list nat)" % (" ++ ".join("(match parse_where (sql_lex t%d), parse_where2 (sql_lex t%d) with Some e, Some e2 => if sexpr_eqb e (where_ast f%d) && sexpr_eqb e2 (where_ast f%d) then [] else [%d%%nat] | _, _ => [%d%%nat] end)" % (i, i, i, i, i, i) for i in idx)),
          "doc": "([%s] : list Z)" % ";".join("mask (selected_ids tbl f%d)" % i for i in idx),
          "sql": "([%s] : list Z)" % ";".join("mask (sql_selected_ids tbl (where_ast f%d))" % i for i in idx),
          "safe": "(%s : list nat)" % (" ++ ".join("(if safe_where f%d then [] else [%d%%nat])" % (i, i) for i in idx))}
    okk, res = vf.coq_eval(GROUP, ck.work, "meaning", "\n".join(lines), ex)
    if not okk:
        ck.violation("correspondence-eval", "model evaluation (meaning) failed:\n" + str(res)[-1500:], replay={"log": str(res)[-3000:]}, found_input=False)
        return
    mask = lambda ids: sum(1 << i for i in ids)     # noqa: E731
    for i in res["text"]:
        ck.violation("corr-gen-where", "gen_where and the real WhereClause disagree on %s: real %s" % (
            [m_src(g) for g in cases[i]], bytes.fromhex(obs[i]["text"]).decode("utf8", "replace")[:300]),
            replay={"filters": [m_src(g) for g in cases[i]]}, found_input=False)
    for i in res["parse"]:
        if i in res["text"]:
            continue
        ck.violation("corr-parse-where", "the real WHERE text of %s does not parse to where_ast (SQL precedence model): %s" % (
            [m_src(g) for g in cases[i]], bytes.fromhex(obs[i]["text"]).decode("utf8", "replace")[:300]),
            replay={"filters": [m_src(g) for g in cases[i]]}, found_input=False)
    for i in idx:
        if res["doc"][i] != mask(py_ids[i]):
            ck.violation("corr-eval-filter", "eval_filter (Coq) and the Python reading disagree on %s: %s vs %s" % (
                [m_src(g) for g in cases[i]], res["doc"][i], py_ids[i]), replay={"filters": [m_src(g) for g in cases[i]]}, found_input=False)
        if sqlite_ids[i] is not None and res["sql"][i] != mask(sqlite_ids[i]):
            ck.violation("corr-eval-sql", "eval_sql (where_ast) and SQLite disagree on %s (%s): model rows mask %s, SQLite %s" % (
                [m_src(g) for g in cases[i]], bytes.fromhex(obs[i]["text"]).decode("utf8", "replace")[:200], res["sql"][i], sqlite_ids[i]),
                replay={"filters": [m_src(g) for g in cases[i]], "table": M_ROWS}, found_input=False)
        if (i in res["safe"]) == m_safe_where(cases[i]):
            ck.violation("corr-safe", "safe_where (Coq) and the Python reading disagree on %s" % [m_src(g) for g in cases[i]],
                         replay={"filters": [m_src(g) for g in cases[i]]}, found_input=False)
    stats["coq_cases"] = len(cases)
    ck.cov["traces_validated_against_impl"] = ck.cov.get("traces_validated_against_impl", 0) + len(cases) - len(res["text"])


def run(ck):
    quick = ck.tier == "quick"
    ck.cov["rule"] = ("requests: SELECT/DELETE statements (columns, table, user, provider, 0-3 filters, sort values, limit/start), "
                      "WHERE clauses, column lists, sort lists, paging, FullName, SQLEscape, INSERT and UPDATE statements; names drawn "
                      "from plain names and an adversarial pool (quotes, comments, semicolons, subqueries, count( specs, non-ASCII); "
                      "filters from the documented grammar (depth <= 2), damaged well-formed filters and a random stream over '%s'; "
                      "plus well typed filter ASTs over table m1 (8 rows with NULLs and quotes) whose rows are compared with eval_filter. "
                      "distinct_nontrivial = distinct cases where the real generator returned a statement whose text contains at least "
                      "one user supplied name or value that needed quoting (a quote, space, comment marker, semicolon or non-name byte)" % MALPHA)
    ck.assume("SQLite tokenizer as modelled in coq/SqlGen/Model.v (quotes with doubling, brackets, comments, words, numbers without exponent/hex, operators, variables); NUL ends the input",
              "strings.TrimSpace / ToLower / ToUpper act as their ASCII versions on the bytes that matter (plus U+0131, U+017F for ToUpper); inputs are valid UTF-8",
              "the Ego tokenizer's output is an arbitrary token list (class, spelling) in the theorems; in the run it is the real tokenizer's output",
              "the statement text reaches SQLite unchanged and whole")
    ck.trusted("harness/C14/c14_test.go (in-package overlay), props/C14.py generators, comparison and SQLite authorizer oracle",
               "correspondence and lexing oracle evaluated by vm_compute in a generated cases file")
    ck.coq_stage(GROUP, theorems=THEOREMS)

    pkg = "internal/server/tables/parsing"
    ok, binp = vf.go_test_build(ck.work, pkg, {pkg + "/zz_verif_c14_test.go": os.path.join(vf.HARNESS, "C14", "c14_test.go")}, "c14.test")
    if not ok:
        ck.violation("harness-build", "harness for %s does not build:\n%s" % (pkg, binp[-1500:]), replay={"log": binp[-3000:]}, found_input=False)
        return
    cases = gen_cases(ck.rng, 250 if quick else 2000)
    if ck.replay_file:
        cases = json.load(open(ck.replay_file))["replay"].get("cases", [])
    inp, outp = os.path.join(ck.work, "in.jsonl"), os.path.join(ck.work, "out.jsonl")
    with open(inp, "w") as f:
        for c in cases:
            f.write(json.dumps(wire(c)) + "\n")
    rc, log = vf.run_bin(binp, "^TestVerifC14$", {"VERIF_IN": inp, "VERIF_OUT": outp})
    if rc != 0:
        ck.violation("harness-run", "harness failed (a panic in a generator is a defect of its own):\n" + log[-1500:],
                     replay={"log": log[-3000:]}, found_input=False)
        return
    obs = [json.loads(l) for l in open(outp)]
    if len(obs) != len(cases):
        ck.violation("harness-run", "harness answered %d of %d cases" % (len(obs), len(cases)), replay={}, found_input=False)
        return

    # ---- independent oracle: execute the real text on SQLite with other tables present
    nontriv, executed, kinds = set(), 0, {}
    needs_quote = re.compile(r"[^A-Za-z0-9_]")
    for c, o in zip(cases, obs):
        kinds[c["k"]] = kinds.get(c["k"], 0) + 1
        if o["err"]:
            continue
        text = bytes.fromhex(o["text"]).decode("utf8", "replace")
        user_strings = [c.get("table", ""), c.get("columns", "")] + c.get("sort", []) + c.get("keys", []) + c.get("filters", [])
        if c["k"] in ("sel", "where", "col", "sort", "ins", "upd", "fn") and any(needs_quote.search(s) for s in user_strings if s):
            nontriv.add(json.dumps(c, sort_keys=True))
        if c["k"] == "sel" and not c.get("pg") and c.get("table") == "t1":
            executed += 1
            bad = sqlite_oracle(text, "t1")
            if bad:
                ck.violation("sqlite-foreign-access", "the statement generated for table t1 %s: %s" % (bad, text[:300]),
                             replay={"cases": [c], "text": text})
    ck.cov["evaluations"] = len(cases)
    ck.cov["distinct_nontrivial"] = len(nontriv)
    ck.cov["input_distribution"] = {"by_kind": kinds, "generator_errors": sum(1 for o in obs if o["err"]),
                                    "executed_on_sqlite": executed, "corpus_cases": len(CORPUS)}
    for c, o in list(zip(cases, obs))[:4] + list(zip(cases, obs))[len(CORPUS):len(CORPUS) + 3]:
        ck.sample({"case": c, "real_text": bytes.fromhex(o["text"]).decode("utf8", "replace"), "error": o["err"]})

    # ---- correspondence (model text = real text) and lexing oracle (real text lexes to the request's template)
    if getattr(ck, "coq_broken", None):
        grp, log = ck.coq_broken
        if not ck.viol:
            ck.violation("proof-broken", "Coq development %s no longer checks:\n%s" % (grp, log[-1200:]),
                         replay={"broken": "coq/" + grp, "log": log[-3000:]}, found_input=False)
        return
    res = {"corr": [], "lex": [], "fuel": []}
    CH = 600
    for lo in range(0, len(cases), CH):
        lines = ["From Common Require Import Base.", "From SqlGen Require Import Model.", "Close Scope string_scope.", "Open Scope N_scope."]
        idx = range(lo, min(lo + CH, len(cases)))
        for i in idx:
            lines.append("Definition m%d : res out := %s." % (i, model_expr(cases[i], obs[i].get("toks") or [])))
            lines.append("Definition o%d : str := %s." % (i, vf.vN(bytes.fromhex(obs[i]["text"]))))
        corr = " ++ ".join("chk %d m%d %s o%d" % (i, i, cbool(obs[i]["err"]), i) for i in idx) or "[]"
        lexo = " ++ ".join("lexchk %d m%d %s o%d" % (i, i, cbool(obs[i]["err"]), i) for i in idx) or "[]"
        fuel = " ++ ".join("match m%d with Fuel => [%d%%nat] | _ => [] end" % (i, i) for i in idx) or "[]"
        okk, part = vf.coq_eval(GROUP, ck.work, "cases%d" % lo, "\n".join(lines),
                                {"corr": "(%s : list nat)" % corr, "lex": "(%s : list nat)" % lexo, "fuel": "(%s : list nat)" % fuel})
        if not okk:
            ck.violation("correspondence-eval", "model evaluation failed:\n" + str(part)[-1500:], replay={"log": str(part)[-3000:]}, found_input=False)
            return
        for k in res:
            res[k] += part[k]
    if os.environ.get("C14_DEV"):
        for i in sorted(set(res["lex"]) | set(res["corr"])):
            print("DEV", i, "lex" if i in res["lex"] else "", "corr" if i in res["corr"] else "", json.dumps(cases[i]), "=>", obs[i]["err"], bytes.fromhex(obs[i]["text"]))
    ck.cov["traces_validated_against_impl"] = len(cases) - len(res["corr"])
    lexbad = set(res["lex"])
    for i in res["lex"]:
        text = bytes.fromhex(obs[i]["text"]).decode("utf8", "replace")
        ck.violation("lex-" + cases[i]["k"], "the real generator's text does not lex to one token per supplied name/value: %s  <-  %s" % (
            text[:300], json.dumps(cases[i])[:300]), replay={"cases": [cases[i]], "text": text})
    found = bool(ck.viol)
    for i in res["corr"]:
        if i in lexbad:
            continue
        text = bytes.fromhex(obs[i]["text"]).decode("utf8", "replace")
        ck.violation("corr-" + cases[i]["k"], "model and real generator disagree (real: %s%s) on %s" % (
            "error " if obs[i]["err"] else "", text[:200], json.dumps(cases[i])[:300]),
            replay={"cases": [cases[i]], "text": text}, found_input=found)
    for i in res["fuel"]:
        ck.violation("model-fuel", "model ran out of fuel on %s" % json.dumps(cases[i])[:300], replay={"cases": [cases[i]]}, found_input=False)
    if not ck.replay_file:
        meaning_stage(ck, binp, quick)
